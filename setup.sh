#!/bin/sh
# builds /verif/bin/gsverif from /verif/sa (x/tools v0.29.0 vendored: no network, no module cache needed)
set -e
DIR="$(cd "$(dirname "$0")" && pwd)"
cd "$DIR/sa"
export GOFLAGS=-mod=vendor GOPROXY=off GOSUMDB=off GOTOOLCHAIN=local GOWORK=off
mkdir -p "$DIR/bin" "$DIR/evidence"
go build -o "$DIR/bin/gsverif" .
echo "gsverif built"
