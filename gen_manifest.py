#!/usr/bin/env python3
"""Regenerates /verif/MANIFEST.json from the table below (kept in one place so that the manifest is always valid)."""
import json, os, sys

HERE = os.path.dirname(os.path.abspath(__file__))

TRUST = ("Trusted: Go type checker and go/ssa (x/tools v0.29.0), CHA/VTA call graphs as over-approximations of dispatch, "
         "standard-library summaries listed in DESIGN.md section 10, Go memory-model facts about close/defer/nil channels. "
         "The check decides structural necessary conditions only; it executes nothing.")

# id -> (technique, level text, design ref)   -- only properties whose check exists are listed here
CLAIMS = {
    "C14": ("dominance/path analysis over go/ssa of the cutting-planes search loop: top-level binding protocol of learned literals (retract, bind, conclude Unsat on conflict, rebuild the heap) in every search loop, failure sentinel of the analyser leads to Unsat, learned constraint recorded as reason, drop-implies-unwatch, growth of the per-variable buffers; boundedness evidence for backward walks over the trail in the conflict analysers; degree bookkeeping of the cancelling addition (min / abs recognised by their bodies); lower bound of bounded trail walks; full-range single-exit loop of the pseudo-boolean unwatcher",
            "Decides only the structural clauses of the pseudo-boolean search loop (it treats learned facts, reasons, deletions and buffers as the clause-learning loop does). Of the arithmetic of the strategy only the degree update of the cancelling addition is decided; weakening, division, slack and backjump level (that learned constraints are implied and answers unchanged) are NOT decided; most conceivable defects of the strategy are of that kind. One failure mode is structural and reported: the unbounded backward walk over the trail in cuttingPlanes (open known finding D30: the strategy panics on small inputs).",
            "DESIGN.md section 5, C14"),
    "C02": ("precondition discharge for the panicking constraint constructors at every reachable call site (difference-bound reasoning over dominating branch facts, lifted through wrappers); scan-accounting analysis of every cursor<bound loop (each trip advances, shrinks or leaves); algebraic identities of the normalisers GtEq/LtEq/AtMost/AtMost1/Eq/Exactly1 by linear forms; justification analysis of the true exits of the pseudo-boolean propagation function; path evidence that list elements are bound at the top level only after their status was consulted; continuation of the watcher-replacement loop of cardinality constraints; removing methods in the scan accounting",
            "Decides that trivially true/false constraints are handled rather than rejected in both constraint front-ends, that the parse-time simplifiers account for every literal exactly once, and that the normalisers perform the stated sign/degree bookkeeping. Necessary conditions; slack propagation and watch maintenance are not decided. Later clauses: a PB propagation step answers true only when satisfied / all propagated / watches updated; forced literals are bound only when not already false (defect D26, repaired).",
            "DESIGN.md section 5, C02"),
    "C13": ("reachable-panic classification from the four text parsers with precondition discharge (E8) and a frozen table of malformed-input panics; operator-token dataflow in the OPB line parser (accepted set and dispatch); truth-table comparison of the duplicated WCNF hard/soft predicate; normaliser identities shared with C02; line-skip condition analysis of the line readers; variable-count coverage of the OPB term reader and header (the count follows the magnitude of the literal read); terminator discipline of the DIMACS readers; provenance of the weight list handed to the cost function by the MAXSAT front-ends; whole-line reading, full token traversal and scanner-error discipline of the readers (found defect D31 in ParseWCNF, repaired)",
            "Decides that no explicit panic is reachable from the parsers on grounds other than malformed input, that >= and = (and only those) are dispatched to their normalisers, that the two copies of the WCNF hard/soft predicate agree, and that the normalisers are the stated identities. That the parsed problem has the models of the text is not decided. Later clauses: only whole-line tests make a reader skip a line; objective variables and the declared `#variable=` count reach NbVars (defect D18, repaired); both DIMACS readers close clauses at the terminator (defects D20, repaired).",
            "DESIGN.md section 5, C13"),
    "C15": ("control-equivalence analysis in DetectAtMostOne (what is queued for removal is exactly what a constraint was added for), exit-edge analysis of the clause copy loop, linear-form and precondition check of the added constraint's degree; found-flag reset, absolute-index comparison, parallel-list pairing, per-iteration allocation of the constraint's literal slice; position agreement of reads from the paired clause-index list",
            "Decides removal soundness of at-most-one detection (nothing removed unless replaced, everything else retained, degree len-1). The clique search itself is not decided.",
            "DESIGN.md section 5, C15"),
    "C03": ("sibling comparison (engine E7: fact sets over a bisimulation-style partition refinement of the SSA def-use graphs) of Optimal and Minimize; dominance analysis of the model snapshot; guard->constant tables of the results; linear-form check of the strengthening step (degree = maxCost - cost + 1, cost over true cost literals, stop at 0); length-origin comparison of slices sorted in parallel; coverage of objective variables by the declared variable count; provenance of the cost-weight lists (no nil in place of a list); dispatch condition of AppendClause for a forced constraint",
            "Decides that both optimisation entry points compute the same strengthening constraint from the same quantities, that this constraint is the stated one, that results are built from the snapshot the cost was computed on, and that the constant results are returned under the stated conditions. Necessary conditions; optimality itself is not decided. Later clauses: slices sorted in parallel have the length of the same list (defect D19, repaired); objective variables are counted; shared clauses of C02/C09 about forced literals and PB propagation (defect D26, repaired).",
            "DESIGN.md section 5, C03"),
    "C05": ("sibling comparison (engine E7) of Enumerate and CountModels including the 2^k counts; non-emptiness evidence for every last-element access reachable from them (dominating length tests, call-site guards); watched-position and ordering check of the clause that blocks a found model; restart retraction before the search is re-entered (in the loop or in every re-entering caller); allocation dominance of copies into the last model",
            "Decides that counting and enumeration perform the same blocking step and that the trail/decision accesses they reach cannot index an empty slice. Necessary conditions; exactness of the count in general is not decided. Later clause: the blocking clause of a model watches its two deepest decisions (defect D22 - over-counting - repaired; its root cause is this structural clause).",
            "DESIGN.md section 5, C05"),
    "C11": ("type-flow analysis over go/ssa for dispatch exhaustiveness (every Formula type handled wherever formulas are switched on); identity/absorbing-element check of the n-ary connectives' constant folding against Eval; duality table of not.nnf; symbolic truth-table evaluation of the derived connectives' syntax trees; guard-coverage check of the definitional CNF; path exploration of the operand loops of the n-ary normal forms; status evidence for the nil model; helper-variable provenance of exported constructors; numbering discipline of the clause translation (both tables in one step; no empty result after numbering)",
            "Decides structural clauses of the formula translation: exhaustive dispatch, right neutral elements (empty And/Or), De Morgan duality, truth tables of Implies/Eq/Xor, every clause of a guarded conjunct carries the guard. Necessary conditions; the exactly-one encoding and the translation as a whole are not decided. Later clauses: an operand is dropped only when it is a constant; no model is reported only when the solver says so; exported constructors do not embed helper variables in the formula (violated by Unique over five or more variables: open known finding D28).",
            "DESIGN.md section 5, C11"),
    "C12": ("def-use analysis over go/ssa of the DIMACS exporter: header variable count = size of the map every handed-out index is recorded in, header clause count = length of the slice written one line per element; plus the translation rules of C11; flag analysis of the name comments and of helper registration; helper-variable provenance of exported constructors; numbering discipline of the clause translation shared with C11; no scratch slice kept in the numbering tables",
            "Decides well-formedness clauses of the export (header counts, every literal from the index allocator) and the translation clauses shared with C11. Model equivalence is not decided. Later clauses: names are collected only for non-helper variables, helper indices are registered under helper keys; open known finding D28 (shared with C11).",
            "DESIGN.md section 5, C12"),
    "C17": ("table extraction from the recursive-descent parser (AST + types + SSA dominance): operator token, constructor, left/right operand callee per level, ordered by the call chain from Parse; end-of-input dominance check; error=>nil-formula fixpoint over the parser methods; consume-then-parse ordering analysis (end of input tested between a consumed token and the next operand); scanner configuration audit; dominance of the operator / closing-parenthesis tests over the construction of a variable; grammar model over (function, parameter bindings) with delegation collapsing",
            "Decides the precedence/associativity table against the documented grammar, that a formula is returned only at end of input, and that an error never comes with a formula. Tokenisation and behaviour on every corrupted text are not decided. Later clause: after a token is consumed the end-of-input flag is tested before an operand is parsed.",
            "DESIGN.md section 5, C17"),
    "C18": ("abstract string templates over go/ssa for every printer: separator analysis of loop-emitted items, header count = number of lines written, printer tokens included in parser tokens; sign/degree/unit-line rules of the OPB printers, offset tiling of pre-sized line tables, status dependence of whole-problem printers (left-over constraints rendered only behind Status != Unsat), writer/reader agreement on the `#variable=` declaration, objective-line rules (keyword independent of the weight list; `~` exactly on negative literals; coefficient not negated)",
            "Decides lexical well-formedness of what the printers emit (whitespace between items, header counts, tokens the parsers accept). Equality of models and costs after re-parsing is not decided in general. Later clauses: whole-problem printers depend on Problem.Status (defect D29, repaired) and the variable-count declaration is written and read (defect D18, repaired).",
            "DESIGN.md section 5, C18"),
    "C19": ("table extraction from main.go over go/ssa: suffix->parser/printer dispatch, status->answer-line tables by constant propagation of solver.Status, error-edge->non-zero-exit path analysis, argument types of stdout prints, drain analysis of result channels (also through a starter that returns the channel), provenance of opened file names from the command line, condition set of the objective line, streaming producers started with go",
            "Decides the glue tables of the command line tool (dispatch, answer lines per status, error exits without answer line, no struct dumps, channels drained). Truthfulness of what is printed rests on the other properties.",
            "DESIGN.md section 5, C19"),
    "C04": ("path-sensitive typestate over go/ssa (raw/trimmed result cells refined by Status tests) for every Interface.Optimal wrapper; path-sensitive symbolic check of the relaxation built by maxsat.New (nil-ness of coefficient slice, degree facts); control-dependence check of the projection filter; coefficient provenance in the constraint constructors of package maxsat; every constraint reaches the build call",
            "Decides on every path that results of the inner solver leave the MaxSAT solver only with the relaxation variables cut off, that a soft constraint's blocking literal gets the degree as coefficient, and that only named variables enter the returned model. Necessary conditions; minimality of the cost is not decided.",
            "DESIGN.md section 5, C04"),
    "C07": ("whole-program storage-distance (ownership) analysis over go/ssa with the receiver of every extraction method of *explain.Problem protected; error-discipline analysis (error tested before the co-result is dereferenced, propagated as nil+error); evidence analysis of every success return (unsatisfiability evidence, minimising scheme); who-may-write analysis of the unit bindings; round protocol of Assume shared with C10; terminator discipline of the DIMACS reader of package explain; sign table of recorded unit bindings; degree bookkeeping of the merge of repeated variables in AppendClause (MUSInsertion hands clauses as written)",
            "Decides that no store reachable from a MUS / unsat-subset method goes into storage that may belong to the caller's problem (scratch fields and deferred-restore growth excepted) and that sub-extraction errors are checked and propagated. Necessary conditions of \"the caller's problem is left unchanged\" and \"an error is returned instead\"; unsatisfiability and minimality of the result in general are not decided. Later clauses: a (problem, nil) return rests on a status equal to Unsat / a minimisation returning -1 / a valid certificate / the deletion loop, and a MUS* method returns a set that went through a minimising scheme (defect D27 in MUSMaxSat, repaired); the reader closes clauses at the terminator (defect D20, repaired).",
            "DESIGN.md section 5, C07"),
    "C01": ("finite-domain range analysis of solver.Status over go/ssa with branch refinement at Solve's returns; store-implies-watch and drop-implies-unwatch pairing on the clause database; freshness of the published model; path analysis of the decision function (exhaustion only on an empty queue), full-range check of the analyser's constraint scans, restart-after-binding and reason-locking pairing in the search loops, swap-remove accounting of the parse-time scans; re-queueing discipline of the retraction function and watcher conservation of the watch-list compaction loops (path exploration per iteration); guard of the model accessor; whole-line reading of the DIMACS reader",
            "Decides on every path that Solve answers only Sat or Unsat, that every clause stored is watched and every clause dropped is unwatched by the same function, and that the published model is a fresh copy. Necessary conditions; correctness of verdict and model is not decided. Later clauses: the decision function reports `no variable left` only after finding the queue empty; conflict analysis reads constraints whole; a restart happens only after the pending literal is bound; reasons are locked; a lone terminator closes an empty clause.",
            "DESIGN.md section 5, C01"),
    "C10": ("ordering (dominance) analysis over go/ssa of the round protocol of Solver.Assume: retraction before installation, status reset before propagation, binding+flag+trail triple per literal, propagate(0,1) on every path; constant-argument check of every call of the level-retraction function; re-installation analysis of recorded unit clauses after a wholesale retraction; origin classification of every level-1 binding; no constant-level test in assumption-aware conflict analysis; re-queueing on retraction and watcher conservation (shared with C01)",
            "Decides the round protocol of Assume on every path that a wholesale retraction of level 1 is followed by the re-installation of every recorded unit clause, that unit clauses bound from outside lists are recorded, that an assumption is bound only after being found not false, and that learned clauses never drop literals because they are bound at level 1. Necessary conditions; correctness of each round's answer is not decided. Defect D7 (Assume lost the problem's unit clauses) is repaired; no open finding.",
            "DESIGN.md section 5, C10"),
    "C08": ("dominance and path analysis over go/ssa of the certificate checker: acceptance of a line dominated by the successful RUP test of the same value, deferred restoration and tag initialisation in the entry block, save/restore pairing of the unit bindings on every return path, tagging on every propagation/conflict path, sibling comparison of the two readers; who-may-write analysis of the unit bindings; skip-condition analysis of the propagation loop; evidence analysis of the success returns of the subset extraction; sign table of recorded unit bindings (the RUP test has the opposite one); propagation core located structurally, writes through table-taking helpers charged to the caller; every parsed certificate line reaches the RUP test; full traversal of the token list; scanner error consulted before success",
            "Decides that a line is never accepted without its own RUP test, that what the check changes is restored on every exit, that every clause used is tagged, and that both entry points perform the same steps. Necessary conditions; that the propagation loop equals unit propagation is not decided. Later clauses: unit bindings of an existing problem are written only by the propagation method and the restoring RUP test; the propagation loop skips a clause only when it is marked satisfied.",
            "DESIGN.md section 5, C08"),
    "C06": ("emission-pairing analysis over go/ssa: every append to the learned-clause store paired with a certificate write of the same clause, dominance of unit emission over top-level binding, path check that the empty clause precedes every Unsat conclusion, effect analysis of Certified-only regions, payload comparison of the stdout and channel forms; shared necessary conditions of RUP: asserting literal gets its reason, analysis reads reasons whole, no restart before the pending literal is bound, reasons are locked; provenance of the learned clause (cut from the minimised list); unconditional store in the adder of learned clauses",
            "Decides completeness and neutrality of certificate emission on every path (everything learned is written, the empty clause is written before Unsat is concluded, the flag cannot change solver state, both output forms agree). Necessary for a valid refutation; that each written clause is RUP is not decided.",
            "DESIGN.md section 5, C06"),
    "C09": ("table-agreement analysis over go/ssa: per-variable fields discovered from constructor allocations and Var/Lit indexing, growth sites and ordering checked in every function that raises the variable count; dominance check of announce-before-use; constant-range check of status stores; three-valued bound and constraint-update analysis of AppendClause's scan (followed into a helper); path evidence that forced literals are bound only after their status was consulted; dispatch of AppendClause after the scan: forced only under upper bound == degree, dropped only under a justified outcome (path facts), degree bookkeeping of the merge, full traversal of the unit binder",
            "Decides that every per-variable table grows (by the right amount, before the count is raised, with derived views rebuilt) whenever a new variable appears, that AppendClause announces a variable before using it, and that Unsat is absorbing. Necessary conditions of incremental solving; equivalence with solving from scratch is not decided. Later clauses: the three-valued weight bounds and the per-class constraint update of AppendClause; every forced literal is bound unless already true, and an already false one yields Unsat (defect D26, repaired).",
            "DESIGN.md section 5, C09"),
    "C20": ("path-sensitive typestate over go/ssa for the result channel of every solver.Interface method (close-once, guarded sends, last-sent = returned); allocation-freshness analysis of sent slices; forwarder drain analysis; select-around-send discipline; callee summaries carrying `returns the last value sent`; linear-form check of the strengthening step shared with C03 (also its cardinality form)",
            "Decides, on every path of every method implementing solver.Interface, that the result channel is closed exactly once when non-nil, never sent on while nil or after close, that the value returned is the last one sent, that sent slices are fresh, and that the MaxSAT forwarder drains its producer. Consumer-independent necessary conditions; validity and strict improvement of the results are not decided.",
            "DESIGN.md section 5, C20"),
    "C16": ("whole-program storage-distance (escape/ownership) analysis over go/ssa for package-level state; goroutine hand-over (join) analysis; import audit; close-on-every-return and fresh-slice-per-send clauses shared with C20; options stored before the solver goroutine starts (shared with C19)",
            "Decides, for every function of the four library packages, that no package-level storage is written or handed out (so data-independent uses share no location under any schedule) and that each library goroutine joins before its results are read. Necessary conditions of race freedom, not the agreement of results.",
            "DESIGN.md section 5, C16"),
}

NOT_APPLICABLE = {
}

PENDING_REASON = "static check for this property is not built yet in this revision (planned in DESIGN.md section 5); not claimed until it exists"


def main():
    ids = [json.loads(l)["id"] for l in open(os.path.join(HERE, "properties.jsonl")) if l.strip()]
    checks = []
    na = []
    for pid in ids:
        if pid in CLAIMS:
            tech, text, ref = CLAIMS[pid]
            checks.append({
                "property_id": pid,
                "quick_cmd": f"./check.sh {pid} quick",
                "thorough_cmd": f"./check.sh {pid} thorough",
                "evidence_file": f"/verif/evidence/{pid}.json",
                "replay_cmd_template": "./bin/gsverif -replay {path}",
                "engine": "gsverif",
                "level_claimed": {"category": "other", "text": text, "design_ref": ref},
                "level_note": TRUST,
                "technique": "static analysis: " + tech,
            })
        elif pid in NOT_APPLICABLE:
            na.append({"property_id": pid, "reason": NOT_APPLICABLE[pid]})
        else:
            na.append({"property_id": pid, "reason": PENDING_REASON})
    man = {
        "version": 1,
        "setup_cmd": "sh ./setup.sh",
        "hooks": {
            "guard": "verif",
            "enable": "none needed: nothing is executed; the thorough tier additionally analyses the tree with -tags verif and GOARCH=386 so that guarded files are covered",
            "baseline_off_cmd": "cd /repo && GOFLAGS=-mod=mod GOPROXY=off go test -vet=off -count=1 ./...",
            "source_commits": [],
            "add_only": True,
        },
        "engines": [{
            "name": "gsverif",
            "path": "/verif/sa",
            "serves_properties": sorted(CLAIMS),
            "kind_free_text": "purpose-built static analyser for this repository: go/packages + go/types + go/ssa + CHA/VTA call graphs; rules R<prop>.<n> of DESIGN.md; obligations keyed by rule and construct",
        }],
        "checks": checks,
        "not_applicable": na,
        "notes": "All claims are level 'other': structural necessary conditions of the behavioural properties, decided from source on every run. See DESIGN.md for what each check does not decide. Known findings: /verif/known_findings.txt.",
    }
    json.dump(man, open(os.path.join(HERE, "MANIFEST.json"), "w"), indent=1)
    print("MANIFEST.json written:", len(checks), "checks,", len(na), "not applicable")


if __name__ == "__main__":
    main()
