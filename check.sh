#!/bin/sh
# usage: check.sh <property id> <quick|thorough>
# Decides the structural clauses claimed for one property by static analysis of /repo's current working tree.
ID="$1"; TIER="${2:-quick}"
[ -n "$VERIF_TIER" ] && [ -z "$2" ] && TIER="$VERIF_TIER"
DIR="$(cd "$(dirname "$0")" && pwd)"
export GOFLAGS=-mod=mod GOPROXY=off GOSUMDB=off GOTOOLCHAIN=local GOWORK=off
if [ ! -x "$DIR/bin/gsverif" ] || [ -n "$(find "$DIR/sa" -name '*.go' -newer "$DIR/bin/gsverif" -not -path '*/vendor/*' -not -path '*/testdata/*' 2>/dev/null | head -1)" ]; then
  sh "$DIR/setup.sh" >/dev/null 2>&1 || { echo "CHECKER-ERROR property=$ID cannot build gsverif"; exit 2; }
fi
exec "$DIR/bin/gsverif" -property "$ID" -tier "$TIER" -repo "${VERIF_REPO:-/repo}" -verif "$DIR"
