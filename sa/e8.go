package main

// Engine E8: integer terms over canonical atoms, a difference-bound closure, guards of explicit panics expressed
// over the parameters of the panicking function, and the discharge of such guards at call sites (with lifting of
// an undischarged guard to the parameters of the calling function).
//
// Semantics. Everything is evaluated "when instruction `at` executes": an SSA value stands for the value of its
// latest execution. For values that dominate `at` this is well defined, and the condition of a branch edge that
// dominates `at` held for those latest values (see the argument in DESIGN.md, E8: if the target T of the edge
// dominates `at`, no path from the branch to `at` avoids T). Memory is the only thing that is not SSA: a load is
// identified with the content of its cell at `at` only for a local cell (an Alloc whose address never escapes) and
// only when no store into that cell lies between the load and `at`. Integer overflow is not modelled.

import (
	"fmt"
	"go/token"
	"go/types"
	"sort"
	"strconv"
	"strings"

	"golang.org/x/tools/go/ssa"
)

const e8ParamRoot = "§" // root of a key that denotes (a part of) a parameter of the function

// e8Term is Atom + C; Atom == "" denotes the constant C.
type e8Term struct {
	Atom string
	C    int64
}

func (t e8Term) String() string {
	if t.Atom == "" {
		return strconv.FormatInt(t.C, 10)
	}
	if t.C == 0 {
		return t.Atom
	}
	return fmt.Sprintf("%s%+d", t.Atom, t.C)
}

// e8Cons is A - B <= C, or A - B != C when Ne is set. "" is the zero node.
type e8Cons struct {
	A, B string
	C    int64
	Ne   bool
}

func (c e8Cons) String() string {
	op := "<="
	if c.Ne {
		op = "!="
	}
	a, b := c.A, c.B
	switch {
	case a == "" && b == "":
		return fmt.Sprintf("0 %s %d", op, c.C)
	case b == "":
		return fmt.Sprintf("%s %s %d", a, op, c.C)
	case a == "":
		if c.Ne {
			return fmt.Sprintf("%s != %d", b, -c.C)
		}
		return fmt.Sprintf("%s >= %d", b, -c.C)
	}
	if c.C == 0 {
		return fmt.Sprintf("%s %s %s", a, op, b)
	}
	return fmt.Sprintf("%s %s %s%+d", a, op, b, c.C)
}

func consString(cs []e8Cons) string {
	var s []string
	for _, c := range cs {
		s = append(s, c.String())
	}
	return strings.Join(s, " && ")
}

// e8Ctx evaluates values of one function at one program point.
type e8Ctx struct {
	fn    *ssa.Function
	at    ssa.Instruction
	cells map[*ssa.Alloc]*e8Cell
	// depth of predicate inlining
	inlining int
}

type e8Cell struct {
	escapes bool
	stores  []*ssa.Store // every store into the cell or a part of it
	root    string
}

func newE8(at ssa.Instruction) *e8Ctx {
	return &e8Ctx{fn: at.Parent(), at: at, cells: map[*ssa.Alloc]*e8Cell{}}
}

func isIntType(t types.Type) bool {
	b, ok := t.Underlying().(*types.Basic)
	return ok && b.Info()&types.IsInteger != 0
}

// cell classifies a local cell: does its address escape, which stores write it, and what names its content.
func (x *e8Ctx) cell(al *ssa.Alloc) *e8Cell {
	if c, ok := x.cells[al]; ok {
		return c
	}
	c := &e8Cell{}
	x.cells[al] = c
	var visit func(addr ssa.Value)
	visit = func(addr ssa.Value) {
		refs := addr.Referrers()
		if refs == nil {
			c.escapes = true
			return
		}
		for _, r := range *refs {
			switch y := r.(type) {
			case *ssa.Store:
				if y.Addr == addr {
					c.stores = append(c.stores, y)
				} else {
					c.escapes = true // the address itself is stored somewhere
				}
			case *ssa.UnOp:
				if y.Op != token.MUL {
					c.escapes = true
				}
			case *ssa.FieldAddr:
				visit(y)
			case *ssa.DebugRef:
			default:
				c.escapes = true // IndexAddr, calls, closures, conversions ...
			}
		}
	}
	visit(al)
	c.root = "c:" + al.Name()
	// a parameter spilled at entry and never written again is the parameter
	if !c.escapes && len(c.stores) == 1 && len(x.fn.Blocks) > 0 {
		st := c.stores[0]
		if p, ok := st.Val.(*ssa.Parameter); ok && st.Addr == al && st.Block() == x.fn.Blocks[0] {
			if i := paramIndex(x.fn, p); i >= 0 {
				c.root = e8ParamRoot + strconv.Itoa(i)
			}
		}
	}
	return c
}

// cellLoad names a load from (a part of) a local cell when the loaded value is the content of the cell at x.at.
func (x *e8Ctx) cellLoad(load *ssa.UnOp) (string, bool) {
	path := ""
	addr := load.X
	for i := 0; i < 16; i++ {
		fa, ok := addr.(*ssa.FieldAddr)
		if !ok {
			break
		}
		path = "." + strconv.Itoa(fa.Field) + path
		addr = fa.X
	}
	al, ok := addr.(*ssa.Alloc)
	if !ok || al.Parent() != x.fn {
		return "", false
	}
	c := x.cell(al)
	if c.escapes {
		return "", false
	}
	if !strings.HasPrefix(c.root, e8ParamRoot) && !x.stableUntilAt(load, c) {
		return "", false
	}
	return c.root + path, true
}

// stableUntilAt: the load dominates x.at and no store into the cell can execute between the (latest execution of
// the) load and x.at.
func (x *e8Ctx) stableUntilAt(load *ssa.UnOp, c *e8Cell) bool {
	lb, ab := load.Block(), x.at.Block()
	if lb == nil || ab == nil {
		return false
	}
	kill := map[ssa.Instruction]bool{}
	for _, st := range c.stores {
		kill[st] = true
	}
	li := indexOfInstr(lb, load)
	if lb == ab {
		ai := indexOfInstr(ab, x.at)
		if li >= ai && x.at != ssa.Instruction(load) {
			return false
		}
		for i := li + 1; i < ai; i++ {
			if kill[lb.Instrs[i]] {
				return false
			}
		}
		return true
	}
	if !lb.Dominates(ab) {
		return false
	}
	for i := li + 1; i < len(lb.Instrs); i++ {
		if kill[lb.Instrs[i]] {
			return false
		}
	}
	// blocks on a path load -> at that does not re-enter the block of the load (re-entering it re-executes the load)
	fwd := map[*ssa.BasicBlock]bool{}
	var f func(b *ssa.BasicBlock)
	f = func(b *ssa.BasicBlock) {
		if b == lb || fwd[b] {
			return
		}
		fwd[b] = true
		for _, s := range b.Succs {
			f(s)
		}
	}
	for _, s := range lb.Succs {
		f(s)
	}
	bwd := map[*ssa.BasicBlock]bool{}
	var g func(b *ssa.BasicBlock)
	g = func(b *ssa.BasicBlock) {
		if b == lb || bwd[b] {
			return
		}
		bwd[b] = true
		for _, p := range b.Preds {
			g(p)
		}
	}
	g(ab)
	for b := range fwd {
		if !bwd[b] {
			continue
		}
		for _, ins := range b.Instrs { // the block of `at` is scanned completely: conservative
			if kill[ins] {
				return false
			}
		}
	}
	return true
}

// key gives a canonical name to a value: equal keys denote equal values at x.at.
func (x *e8Ctx) key(v ssa.Value) string {
	return x.keyD(v, 0)
}

func (x *e8Ctx) keyD(v ssa.Value, depth int) string {
	if depth > 24 {
		return "v:" + v.Name()
	}
	switch y := v.(type) {
	case *ssa.Parameter:
		if i := paramIndex(x.fn, y); i >= 0 {
			return e8ParamRoot + strconv.Itoa(i)
		}
	case *ssa.Const:
		return "k:" + y.String()
	case *ssa.Global:
		return "g:" + y.String()
	case *ssa.ChangeType:
		return x.keyD(y.X, depth+1)
	case *ssa.Field:
		return x.keyD(y.X, depth+1) + "." + strconv.Itoa(y.Field)
	case *ssa.UnOp:
		if y.Op == token.MUL {
			if k, ok := x.cellLoad(y); ok {
				return k
			}
		}
	case *ssa.Phi:
		// a phi all of whose inputs (but itself) have one key is that value
		k := ""
		for _, e := range y.Edges {
			if e == ssa.Value(y) {
				continue
			}
			if _, isPhi := e.(*ssa.Phi); isPhi {
				k = ""
				break
			}
			ek := x.keyD(e, depth+1)
			if k == "" {
				k = ek
			} else if k != ek {
				k = ""
				break
			}
		}
		if k != "" {
			return k
		}
	case *ssa.Call:
		if b, ok := y.Call.Value.(*ssa.Builtin); ok && b.Name() == "len" && len(y.Call.Args) == 1 {
			if t, ok := x.term(y); ok && t.C == 0 && t.Atom != "" {
				return t.Atom
			}
		}
	}
	return "v:" + v.Name()
}

// lenTerm is the length of a slice/string value.
func (x *e8Ctx) lenTerm(v ssa.Value) e8Term {
	switch y := v.(type) {
	case *ssa.MakeSlice:
		if t, ok := x.term(y.Len); ok {
			return t
		}
	case *ssa.Const:
		if s, ok := constString(y); ok {
			return e8Term{C: int64(len(s))}
		}
		if y.IsNil() {
			return e8Term{C: 0}
		}
	case *ssa.ChangeType:
		return x.lenTerm(y.X)
	case *ssa.Slice:
		// new [n]T sliced in full
		if y.Low == nil && y.High == nil && y.Max == nil {
			if pt, ok := y.X.Type().Underlying().(*types.Pointer); ok {
				if at, ok := pt.Elem().Underlying().(*types.Array); ok {
					return e8Term{C: at.Len()}
				}
			}
		}
	}
	return e8Term{Atom: "len(" + x.key(v) + ")"}
}

// term gives the linear form atom + c of an integer value.
func (x *e8Ctx) term(v ssa.Value) (e8Term, bool) {
	return x.termD(v, 0)
}

func (x *e8Ctx) termD(v ssa.Value, depth int) (e8Term, bool) {
	if v == nil || !isIntType(v.Type()) {
		return e8Term{}, false
	}
	if depth < 16 {
		switch y := v.(type) {
		case *ssa.Const:
			if c, ok := constInt(y); ok {
				return e8Term{C: c}, true
			}
			return e8Term{}, false
		case *ssa.BinOp:
			a, okA := x.termD(y.X, depth+1)
			b, okB := x.termD(y.Y, depth+1)
			if okA && okB {
				switch y.Op {
				case token.ADD:
					if b.Atom == "" {
						return e8Term{a.Atom, a.C + b.C}, true
					}
					if a.Atom == "" {
						return e8Term{b.Atom, a.C + b.C}, true
					}
				case token.SUB:
					if b.Atom == "" {
						return e8Term{a.Atom, a.C - b.C}, true
					}
				}
			}
		case *ssa.ChangeType:
			return x.termD(y.X, depth+1)
		case *ssa.Call:
			if b, ok := y.Call.Value.(*ssa.Builtin); ok && b.Name() == "len" && len(y.Call.Args) == 1 {
				return x.lenTerm(y.Call.Args[0]), true
			}
		}
	}
	return e8Term{Atom: x.key(v)}, true
}

// condCons translates a branch condition (with its polarity) into constraints; nil when it is not a comparison
// of two integer terms.
func (x *e8Ctx) condCons(cond ssa.Value, pol bool) []e8Cons {
	for {
		u, ok := cond.(*ssa.UnOp)
		if !ok || u.Op != token.NOT {
			break
		}
		cond, pol = u.X, !pol
	}
	if call, ok := cond.(*ssa.Call); ok {
		return x.inlineBoolCall(call, pol)
	}
	b, ok := cond.(*ssa.BinOp)
	if !ok {
		return nil
	}
	op := b.Op
	if !pol {
		switch op {
		case token.LSS:
			op = token.GEQ
		case token.LEQ:
			op = token.GTR
		case token.GTR:
			op = token.LEQ
		case token.GEQ:
			op = token.LSS
		case token.EQL:
			op = token.NEQ
		case token.NEQ:
			op = token.EQL
		default:
			return nil
		}
	}
	l, okL := x.term(b.X)
	r, okR := x.term(b.Y)
	if !okL || !okR {
		return nil
	}
	// l.Atom + l.C  op  r.Atom + r.C
	switch op {
	case token.LSS:
		return []e8Cons{{A: l.Atom, B: r.Atom, C: r.C - l.C - 1}}
	case token.LEQ:
		return []e8Cons{{A: l.Atom, B: r.Atom, C: r.C - l.C}}
	case token.GTR:
		return []e8Cons{{A: r.Atom, B: l.Atom, C: l.C - r.C - 1}}
	case token.GEQ:
		return []e8Cons{{A: r.Atom, B: l.Atom, C: l.C - r.C}}
	case token.EQL:
		return []e8Cons{{A: l.Atom, B: r.Atom, C: r.C - l.C}, {A: r.Atom, B: l.Atom, C: l.C - r.C}}
	case token.NEQ:
		return []e8Cons{{A: l.Atom, B: r.Atom, C: r.C - l.C, Ne: true}}
	}
	return nil
}

// inlineBoolCall: a test extracted into a one-line predicate `func f(a, b) bool { return a <= b }` is the
// comparison it returns, with the arguments substituted.
func (x *e8Ctx) inlineBoolCall(call *ssa.Call, pol bool) []e8Cons {
	if x.inlining > 2 {
		return nil
	}
	f := call.Call.StaticCallee()
	if f == nil || call.Call.IsInvoke() || len(f.Blocks) != 1 || len(f.FreeVars) != 0 {
		return nil
	}
	ret, ok := f.Blocks[0].Instrs[len(f.Blocks[0].Instrs)-1].(*ssa.Return)
	if !ok || len(ret.Results) != 1 {
		return nil
	}
	for _, ins := range f.Blocks[0].Instrs {
		switch ins.(type) {
		case *ssa.Store, *ssa.MapUpdate, *ssa.Send, *ssa.Go, *ssa.Defer:
			return nil // not a pure predicate
		}
	}
	y := newE8(ret)
	y.inlining = x.inlining + 1
	inner := y.condCons(ret.Results[0], pol)
	if len(inner) == 0 || !allParamKeys(inner) {
		return nil
	}
	out, ok := x.substReq(e8Req{Cons: inner}, call.Call.Args)
	if !ok {
		return nil
	}
	return out
}

// factsAt: constraints that hold whenever x.at executes (conditions of the branch edges that dominate it).
func (x *e8Ctx) factsAt() []e8Cons {
	var out []e8Cons
	for _, ec := range dominatingConds(x.at.Block()) {
		out = append(out, x.condCons(ec.Cond, ec.True)...)
	}
	return out
}

// e8Infeasible decides whether the conjunction has no integer solution (difference-bound closure; sound, and
// complete for difference constraints; disequalities are used to tighten bounds).
func e8Infeasible(cons []e8Cons) bool {
	idx := map[string]int{"": 0}
	names := []string{""}
	node := func(s string) int {
		if i, ok := idx[s]; ok {
			return i
		}
		idx[s] = len(names)
		names = append(names, s)
		return len(names) - 1
	}
	for _, c := range cons {
		node(c.A)
		node(c.B)
	}
	n := len(names)
	const inf = int64(1) << 60
	d := make([][]int64, n)
	for i := range d {
		d[i] = make([]int64, n)
		for j := range d[i] {
			if i != j {
				d[i][j] = inf
			}
		}
	}
	set := func(a, b int, c int64) bool {
		if a == b {
			if c < 0 {
				d[a][a] = c
				return true
			}
			return false
		}
		if c < d[a][b] {
			d[a][b] = c
			return true
		}
		return false
	}
	for i, s := range names {
		if strings.HasPrefix(s, "len(") {
			set(0, i, 0) // 0 - len <= 0
		}
	}
	for _, c := range cons {
		if !c.Ne {
			set(idx[c.A], idx[c.B], c.C)
		}
	}
	closure := func() bool {
		for k := 0; k < n; k++ {
			for i := 0; i < n; i++ {
				if d[i][k] >= inf {
					continue
				}
				for j := 0; j < n; j++ {
					if d[k][j] >= inf {
						continue
					}
					if s := d[i][k] + d[k][j]; s < d[i][j] {
						d[i][j] = s
					}
				}
			}
		}
		for i := 0; i < n; i++ {
			if d[i][i] < 0 {
				return true
			}
		}
		return false
	}
	for round := 0; round < 8; round++ {
		if closure() {
			return true
		}
		changed := false
		for _, c := range cons {
			if !c.Ne {
				continue
			}
			a, b := idx[c.A], idx[c.B]
			if a == b {
				if c.C == 0 {
					return true // x - x != 0
				}
				continue
			}
			up, lo := d[a][b], d[b][a] // a-b <= up, b-a <= lo i.e. a-b >= -lo
			if up == c.C && lo == -c.C {
				return true
			}
			if up == c.C {
				d[a][b] = c.C - 1
				changed = true
			}
			if lo == -c.C {
				d[b][a] = -c.C - 1
				changed = true
			}
		}
		if !changed {
			return false
		}
	}
	return false
}

// ---------- guards of explicit panics ----------

// simplePathsTo enumerates the simple paths from the entry block to target (at most limit; ok=false beyond).
func simplePathsTo(fn *ssa.Function, target *ssa.BasicBlock, limit int) (paths [][]*ssa.BasicBlock, ok bool) {
	if len(fn.Blocks) == 0 {
		return nil, false
	}
	canReach := map[*ssa.BasicBlock]bool{}
	var back func(b *ssa.BasicBlock)
	back = func(b *ssa.BasicBlock) {
		if canReach[b] {
			return
		}
		canReach[b] = true
		for _, p := range b.Preds {
			back(p)
		}
	}
	back(target)
	on := map[*ssa.BasicBlock]bool{}
	var cur []*ssa.BasicBlock
	ok = true
	var dfs func(b *ssa.BasicBlock)
	dfs = func(b *ssa.BasicBlock) {
		if !ok || !canReach[b] || on[b] {
			return
		}
		cur = append(cur, b)
		on[b] = true
		if b == target {
			if len(paths) >= limit {
				ok = false
			} else {
				paths = append(paths, append([]*ssa.BasicBlock(nil), cur...))
			}
		} else {
			for i, s := range b.Succs {
				if i == 1 && s == b.Succs[0] {
					continue
				}
				dfs(s)
			}
		}
		on[b] = false
		cur = cur[:len(cur)-1]
	}
	dfs(fn.Blocks[0])
	return paths, ok
}

// pathConds lists the branch conditions taken along a block path.
func pathConds(path []*ssa.BasicBlock) []edgeCond {
	var out []edgeCond
	for i := 0; i+1 < len(path); i++ {
		b := path[i]
		iff, ok := b.Instrs[len(b.Instrs)-1].(*ssa.If)
		if !ok || len(b.Succs) != 2 || b.Succs[0] == b.Succs[1] {
			continue
		}
		out = append(out, edgeCond{Cond: iff.Cond, True: path[i+1] == b.Succs[0], If: iff})
	}
	return out
}

func isParamKey(k string) bool {
	if k == "" {
		return true
	}
	return strings.HasPrefix(k, e8ParamRoot) || strings.HasPrefix(k, "len("+e8ParamRoot)
}

func allParamKeys(cs []e8Cons) bool {
	for _, c := range cs {
		if !isParamKey(c.A) || !isParamKey(c.B) {
			return false
		}
	}
	return true
}

// e8Req is one conjunction over the parameters of Fn under which an explicit panic is reached; it has to be
// infeasible at every call site.
type e8Req struct {
	Cons []e8Cons
}

func (q e8Req) String() string { return consString(q.Cons) }

func normCons(cs []e8Cons) []e8Cons {
	seen := map[string]bool{}
	var out []e8Cons
	for _, c := range cs {
		k := c.String()
		if !seen[k] {
			seen[k] = true
			out = append(out, c)
		}
	}
	sort.Slice(out, func(i, j int) bool { return out[i].String() < out[j].String() })
	return out
}

// panicGuard expresses the guard of an explicit panic over the parameters of its function: one conjunction per
// simple path from the entry (conditions that do not only mention parameters are dropped, which over-approximates
// reachability; parameters never change, so the conditions of a path with cycles include those of a simple path).
// total=false: some path reaches the panic with no condition on the parameters at all - the panic is not a
// precondition of the function.
func panicGuard(p *ssa.Panic) (reqs []e8Req, total bool, why string) {
	fn := p.Parent()
	paths, ok := simplePathsTo(fn, p.Block(), 512)
	x := newE8(p)
	if !ok {
		// too many paths: the conditions of the branch edges that dominate the panic hold on all of them
		var cs []e8Cons
		for _, c := range x.factsAt() {
			if isParamKey(c.A) && isParamKey(c.B) {
				cs = append(cs, c)
			}
		}
		cs = normCons(cs)
		if len(cs) == 0 {
			return nil, false, "more than 512 paths reach the panic and no dominating condition on the parameters guards it"
		}
		return []e8Req{{Cons: cs}}, true, ""
	}
	if len(paths) == 0 {
		return nil, false, "the panic is unreachable from the entry"
	}
	seen := map[string]bool{}
	for _, path := range paths {
		var cs []e8Cons
		for _, ec := range pathConds(path) {
			for _, c := range x.condCons(ec.Cond, ec.True) {
				if isParamKey(c.A) && isParamKey(c.B) {
					cs = append(cs, c)
				}
			}
		}
		cs = normCons(cs)
		if len(cs) == 0 {
			return nil, false, "a path reaches the panic under no condition on the parameters"
		}
		if e8Infeasible(cs) {
			continue // contradictory path
		}
		k := consString(cs)
		if !seen[k] {
			seen[k] = true
			reqs = append(reqs, e8Req{Cons: cs})
		}
	}
	// drop conjunctions that contain another one (refuting the smaller refutes the larger)
	var out []e8Req
	for i, a := range reqs {
		sub := false
		for j, b := range reqs {
			if i != j && len(b.Cons) < len(a.Cons) && containsAll(a.Cons, b.Cons) {
				sub = true
			}
		}
		if !sub {
			out = append(out, a)
		}
	}
	sort.Slice(out, func(i, j int) bool { return out[i].String() < out[j].String() })
	return out, true, ""
}

func containsAll(big, small []e8Cons) bool {
	m := map[string]bool{}
	for _, c := range big {
		m[c.String()] = true
	}
	for _, c := range small {
		if !m[c.String()] {
			return false
		}
	}
	return true
}

// e8PanicMessage: the constant message of panic("...") or the format of panic(fmt.Sprintf("...", ...)).
func e8PanicMessage(p *ssa.Panic) string {
	v := p.X
	if mi, ok := v.(*ssa.MakeInterface); ok {
		v = mi.X
	}
	if s, ok := constString(v); ok {
		return s
	}
	if c, ok := v.(*ssa.Call); ok {
		if f := c.Call.StaticCallee(); f != nil && f.Pkg != nil && f.Pkg.Pkg.Path() == "fmt" && len(c.Call.Args) > 0 {
			if s, ok := constString(c.Call.Args[0]); ok {
				return s
			}
		}
	}
	return ""
}

// ---------- discharge at call sites ----------

// substKey maps a key over the parameters of the callee to a term of the caller at the call site.
func (x *e8Ctx) substKey(k string, args []ssa.Value) (e8Term, bool) {
	if k == "" {
		return e8Term{}, true
	}
	isLen := false
	inner := k
	if strings.HasPrefix(k, "len(") && strings.HasSuffix(k, ")") {
		isLen = true
		inner = k[4 : len(k)-1]
	}
	if !strings.HasPrefix(inner, e8ParamRoot) {
		return e8Term{}, false
	}
	rest := inner[len(e8ParamRoot):]
	j := 0
	for j < len(rest) && rest[j] >= '0' && rest[j] <= '9' {
		j++
	}
	i, err := strconv.Atoi(rest[:j])
	if err != nil || i >= len(args) {
		return e8Term{}, false
	}
	path := rest[j:]
	arg := args[i]
	switch {
	case isLen && path == "":
		return x.lenTerm(arg), true
	case isLen:
		return e8Term{Atom: "len(" + x.key(arg) + path + ")"}, true
	case path == "":
		if t, ok := x.term(arg); ok {
			return t, true
		}
		return e8Term{Atom: x.key(arg)}, true
	default:
		return e8Term{Atom: x.key(arg) + path}, true
	}
}

func (x *e8Ctx) substReq(q e8Req, args []ssa.Value) ([]e8Cons, bool) {
	var out []e8Cons
	for _, c := range q.Cons {
		a, okA := x.substKey(c.A, args)
		b, okB := x.substKey(c.B, args)
		if !okA || !okB {
			return nil, false
		}
		// (a.Atom + a.C) - (b.Atom + b.C) <= c.C
		out = append(out, e8Cons{A: a.Atom, B: b.Atom, C: c.C - a.C + b.C, Ne: c.Ne})
	}
	return out, true
}

// e8Leaf is the verdict for one call chain.
type e8Leaf struct {
	Chain  []ssa.CallInstruction // from the call of the panicking function outwards
	OK     bool
	Detail string
}

type e8Prover struct {
	w     *World
	reach map[*ssa.Function]bool // call sites outside this set are not examined
	roots map[*ssa.Function]bool // entry points: nothing can be lifted to their callers
}

// sitesOf lists the call sites of fn inside the reachable set, in a stable order.
func (p *e8Prover) sitesOf(fn *ssa.Function) []ssa.CallInstruction {
	var out []ssa.CallInstruction
	for _, c := range p.w.Callers[fn] {
		if c.Parent() != nil && p.reach[c.Parent()] {
			out = append(out, c)
		}
	}
	sort.Slice(out, func(i, j int) bool {
		a, b := out[i], out[j]
		if a.Parent() != b.Parent() {
			return a.Parent().String() < b.Parent().String()
		}
		if a.Block().Index != b.Block().Index {
			return a.Block().Index < b.Block().Index
		}
		return indexOfInstr(a.Block(), a) < indexOfInstr(b.Block(), b)
	})
	return out
}

// dischargeAt decides one requirement at one call site; when the facts of the site do not refute it and it only
// mentions parameters of the calling function, it becomes a requirement of that function (depth-bounded).
func (p *e8Prover) dischargeAt(site ssa.CallInstruction, q e8Req, depth int, chain []ssa.CallInstruction) []e8Leaf {
	chain = append(append([]ssa.CallInstruction(nil), chain...), site)
	leaf := func(ok bool, detail string) []e8Leaf { return []e8Leaf{{Chain: chain, OK: ok, Detail: detail}} }
	com := site.Common()
	if com.IsInvoke() || com.StaticCallee() == nil {
		return leaf(false, "the function is called dynamically here: arguments cannot be mapped")
	}
	if _, isGo := site.(*ssa.Go); isGo {
		return leaf(false, "called in a go statement")
	}
	x := newE8(site)
	k, ok := x.substReq(q, com.Args)
	if !ok {
		return leaf(false, "guard "+q.String()+" cannot be expressed at the call")
	}
	facts := x.factsAt()
	all := append(append([]e8Cons(nil), facts...), k...)
	if e8Infeasible(all) {
		return leaf(true, fmt.Sprintf("not(%s) follows from %s", consString(k), orNone(consString(facts))))
	}
	caller := site.Parent()
	if allParamKeys(k) && len(k) > 0 && depth < 3 && !p.roots[caller] {
		// what reaches the panic through this site: the site is reached (its dominating facts hold) and k holds
		lifted := append([]e8Cons(nil), k...)
		for _, f := range facts {
			if isParamKey(f.A) && isParamKey(f.B) {
				lifted = append(lifted, f)
			}
		}
		q2 := e8Req{Cons: normCons(lifted)}
		sites := p.sitesOf(caller)
		if len(sites) > 0 {
			var out []e8Leaf
			for _, s2 := range sites {
				out = append(out, p.dischargeAt(s2, q2, depth+1, chain)...)
			}
			return out
		}
		return leaf(false, fmt.Sprintf("%s is reached with %s possible and the function has no caller among the analysed ones to establish the contrary", p.w.FuncName(caller), consString(k)))
	}
	return leaf(false, fmt.Sprintf("nothing excludes %s here (known: %s)", consString(k), orNone(consString(facts))))
}

func orNone(s string) string {
	if s == "" {
		return "no dominating comparison"
	}
	return s
}

func (p *e8Prover) chainString(chain []ssa.CallInstruction) string {
	var s []string
	for i := len(chain) - 1; i >= 0; i-- {
		s = append(s, p.w.FuncName(chain[i].Parent()))
	}
	return strings.Join(s, " -> ")
}
