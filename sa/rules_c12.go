package main

import (
	"fmt"
	"go/token"
	"go/types"
	"sort"
	"strings"

	"golang.org/x/tools/go/ssa"
)

// C12: DIMACS export of a formula. R12.1 decides the well-formedness clauses of the header; the translation the
// export prints is the one of C11, so R11.1, R11.2, R11.5 and R11.6 are re-used.

func init() {
	register(&property{
		ID: "C12",
		Explanation: "well-formedness of bf.Dimacs: the variable count of the header is the size of the map in which every function that hands out a variable index records it (fresh index = size+1, stored under the same path), every literal put into a clause comes from these functions or is the negation of such a value, the clause count of the header is the length of the slice that is then ranged over with exactly one unconditional clause line written per iteration; " +
			"plus, for the translation that is printed, the structural clauses of C11: exhaustive dispatch (R11.1), identity elements (R11.2), truth tables of the derived connectives (R11.5), guard coverage (R11.6).",
		NotDecided: "equality of the model sets of the export and of the formula (projection on the named variables); nothing is executed.",
		Rules:      []ruleFn{ruleR12_1, ruleR12_2, ruleR11_1, ruleR11_2, ruleR11_5, ruleR11_6, ruleR11_7, ruleR11_9, ruleR12_3, ruleR12_4, ruleR11_10, ruleR11_11, ruleR12_5},
	})
}

// fieldRef identifies a struct field by owner type and index, with the root value the access path starts from.
type fieldRef struct {
	owner string
	idx   int
	name  string
	root  ssa.Value
}

func (a fieldRef) same(b fieldRef) bool { return a.owner == b.owner && a.idx == b.idx }
func (a fieldRef) String() string       { return a.owner + "." + a.name }

// loadedField: v is a load `*(&x.f)`; root is followed through nested field addresses.
func loadedField(v ssa.Value) (fieldRef, bool) {
	ld, ok := v.(*ssa.UnOp)
	if !ok || ld.Op != token.MUL {
		return fieldRef{}, false
	}
	fa, ok := ld.X.(*ssa.FieldAddr)
	if !ok {
		return fieldRef{}, false
	}
	return fieldAddrRef(fa)
}

func fieldAddrRef(fa *ssa.FieldAddr) (fieldRef, bool) {
	owner, name, _, ok := fieldOf(fa)
	if !ok {
		return fieldRef{}, false
	}
	root := fa.X
	for i := 0; i < 8; i++ {
		if f2, ok := root.(*ssa.FieldAddr); ok {
			root = f2.X
			continue
		}
		break
	}
	return fieldRef{owner: owner, idx: fa.Field, name: name, root: root}, true
}

// lenOfField: v is len(<load of a field>).
func lenOfField(v ssa.Value) (fieldRef, ssa.Value, bool) {
	c, ok := v.(*ssa.Call)
	if !ok {
		return fieldRef{}, nil, false
	}
	b, ok := c.Call.Value.(*ssa.Builtin)
	if !ok || b.Name() != "len" || len(c.Call.Args) != 1 {
		return fieldRef{}, nil, false
	}
	fr, ok := loadedField(c.Call.Args[0])
	return fr, c.Call.Args[0], ok
}

// orderedVarargs: values packed into a variadic slice, by position.
func orderedVarargs(v ssa.Value) ([]ssa.Value, bool) {
	sl, ok := v.(*ssa.Slice)
	if !ok {
		return nil, false
	}
	al, ok := sl.X.(*ssa.Alloc)
	if !ok {
		return nil, false
	}
	byIdx := map[int64]ssa.Value{}
	for _, ref := range *al.Referrers() {
		ia, ok := ref.(*ssa.IndexAddr)
		if !ok {
			continue
		}
		k, ok := constInt(ia.Index)
		if !ok {
			return nil, false
		}
		for _, r2 := range *ia.Referrers() {
			if st, ok := r2.(*ssa.Store); ok && st.Addr == ssa.Value(ia) {
				if _, dup := byIdx[k]; dup {
					return nil, false
				}
				byIdx[k] = st.Val
			}
		}
	}
	out := make([]ssa.Value, len(byIdx))
	for k, v := range byIdx {
		if k < 0 || int(k) >= len(out) {
			return nil, false
		}
		out[k] = v
	}
	return out, true
}

// formatCall: a call of fmt.Sprintf / fmt.Fprintf / fmt.Printf-like function with a constant format; returns the
// format and the variadic values.
func formatCall(w *World, c *ssa.Call) (format string, args []ssa.Value, ok bool) {
	name := w.calleeName(&c.Call)
	fi := -1
	switch name {
	case "fmt.Sprintf":
		fi = 0
	case "fmt.Fprintf":
		fi = 1
	default:
		return "", nil, false
	}
	if len(c.Call.Args) != fi+2 {
		return "", nil, false
	}
	format, ok = constString(c.Call.Args[fi])
	if !ok {
		return "", nil, false
	}
	if k, isK := c.Call.Args[fi+1].(*ssa.Const); isK && k.IsNil() {
		return format, nil, true
	}
	args, ok = orderedVarargs(c.Call.Args[fi+1])
	return format, args, ok
}

// writesTo: the call writes text to the io.Writer wr (io.WriteString(wr, s), fmt.Fprint*(wr, ...), wr.Write(b));
// text is the value written (nil when it is the call itself that formats).
// writerWrapper: fn(w, text) writes exactly its text parameter to its writer parameter, once, first thing
// (`func writeLine(w io.Writer, line string) error { if _, err := io.WriteString(w, line); ... }`).
func writerWrapper(w *World, fn *ssa.Function) (wIdx, textIdx int, ok bool) {
	if fn == nil || len(fn.Blocks) == 0 || !w.InModule(fn) || fn.Signature.Recv() != nil {
		return 0, 0, false
	}
	n := 0
	for _, ci := range callsIn(fn) {
		c, isC := ci.(*ssa.Call)
		if !isC || c.Block() != fn.Blocks[0] {
			continue
		}
		name := w.calleeName(&c.Call)
		if name != "io.WriteString" || len(c.Call.Args) != 2 {
			continue
		}
		wp, okW := c.Call.Args[0].(*ssa.Parameter)
		tp, okT := c.Call.Args[1].(*ssa.Parameter)
		if !okW || !okT {
			continue
		}
		wIdx, textIdx = paramIndex(fn, wp), paramIndex(fn, tp)
		n++
	}
	// no other write anywhere in the function
	writes := 0
	for _, ci := range callsIn(fn) {
		if c, isC := ci.(*ssa.Call); isC {
			switch w.calleeName(&c.Call) {
			case "io.WriteString", "fmt.Fprintf", "fmt.Fprint", "fmt.Fprintln":
				writes++
			}
			if c.Call.IsInvoke() && (c.Call.Method.Name() == "Write" || c.Call.Method.Name() == "WriteString") {
				writes++
			}
		}
	}
	return wIdx, textIdx, n == 1 && writes == 1 && wIdx >= 0 && textIdx >= 0
}

func writesTo(w *World, c *ssa.Call, wr ssa.Value) (text ssa.Value, ok bool) {
	if sc := c.Call.StaticCallee(); sc != nil && !c.Call.IsInvoke() {
		if wi, ti, isW := writerWrapper(w, w.unwrap(sc)); isW && wi < len(c.Call.Args) && ti < len(c.Call.Args) && c.Call.Args[wi] == wr {
			return c.Call.Args[ti], true
		}
	}
	if c.Call.IsInvoke() {
		if c.Call.Value == wr && (c.Call.Method.Name() == "Write" || c.Call.Method.Name() == "WriteString") && len(c.Call.Args) == 1 {
			return c.Call.Args[0], true
		}
		return nil, false
	}
	switch w.calleeName(&c.Call) {
	case "io.WriteString":
		if len(c.Call.Args) == 2 && c.Call.Args[0] == wr {
			return c.Call.Args[1], true
		}
	case "fmt.Fprintf", "fmt.Fprint", "fmt.Fprintln":
		if len(c.Call.Args) >= 1 && c.Call.Args[0] == wr {
			return nil, true
		}
	}
	return nil, false
}

// stringConstsBehind collects the string constants a string value is assembled from (formats, concatenation).
func stringConstsBehind(w *World, v ssa.Value, depth int, out *[]string) {
	if v == nil || depth > 6 {
		return
	}
	switch x := v.(type) {
	case *ssa.Const:
		if s, ok := constString(x); ok {
			*out = append(*out, s)
		}
	case *ssa.BinOp:
		stringConstsBehind(w, x.X, depth+1, out)
		stringConstsBehind(w, x.Y, depth+1, out)
	case *ssa.Phi:
		for _, e := range x.Edges {
			stringConstsBehind(w, e, depth+1, out)
		}
	case *ssa.Convert:
		stringConstsBehind(w, x.X, depth+1, out)
	case *ssa.Call:
		if f, _, ok := formatCall(w, x); ok {
			*out = append(*out, f)
		}
	}
}

// intParamFromAllocator: every caller passes, for parameter p of g, the result of an index-allocating function (or its
// own parameter, judged in turn).
func intParamFromAllocator(w *World, m *bfModel, g *ssa.Function, p *ssa.Parameter, allocs map[*ssa.Function]bool, depth int) bool {
	pi := paramIndex(g, p)
	sites := w.Callers[g]
	if pi < 0 || len(sites) == 0 || depth > 2 {
		return false
	}
	for _, site := range sites {
		args := site.Common().Args
		if pi >= len(args) {
			return false
		}
		a := args[pi]
		if u, ok := a.(*ssa.UnOp); ok && u.Op == token.SUB {
			a = u.X
		}
		switch x := a.(type) {
		case *ssa.Call:
			sc := x.Call.StaticCallee()
			if sc == nil || !m.inPkg[w.unwrap(sc)] || !isIntResult(w.unwrap(sc)) {
				return false
			}
			allocs[w.unwrap(sc)] = true
		case *ssa.Parameter:
			if !intParamFromAllocator(w, m, site.Parent(), x, allocs, depth+1) {
				return false
			}
		default:
			return false
		}
	}
	return true
}

type write struct {
	call  *ssa.Call
	texts []string
}

// writesOf lists the writes a function makes to the writer value wr.
func writesOf(w *World, f *ssa.Function, wr ssa.Value) []write {
	var out []write
	for _, ci := range callsIn(f) {
		c, ok := ci.(*ssa.Call)
		if !ok {
			continue
		}
		text, ok := writesTo(w, c, wr)
		if !ok {
			continue
		}
		wi := write{call: c}
		if text == nil {
			if fs, _, ok := formatCall(w, c); ok {
				wi.texts = []string{fs}
			}
		} else {
			stringConstsBehind(w, text, 0, &wi.texts)
		}
		out = append(out, wi)
	}
	return out
}

func ruleR12_1(w *World, r *Report) {
	const id = "R12.1"
	r.Rule(id, "bf.Dimacs: the header's variable count is the size of the map in which every index-allocating function records each index it hands out, clause literals come only from these functions, and the header's clause count is the length of the slice ranged over with exactly one unconditional clause line per iteration", 5)
	m, _ := bfOf(w)
	if m.err != "" {
		r.Unk(id, "bf.Formula", "-", m.err)
		return
	}
	fn := w.Func(m.pkg, "Dimacs")
	if fn == nil {
		r.Unk(id, "bf.Dimacs", "-", "exported function not found")
		return
	}
	var wr ssa.Value
	for _, p := range fn.Params {
		if types.IsInterface(p.Type()) && !m.isFormula(p.Type()) {
			wr = p
		}
	}
	if wr == nil {
		r.Unk(id, "bf.Dimacs", w.Pos(fn.Pos()), "no io.Writer parameter")
		return
	}
	// ---- classify every write to the writer
	var writes []write
	var header *ssa.Call
	var hdrArgs []ssa.Value
	for _, ci := range callsIn(fn) {
		c, ok := ci.(*ssa.Call)
		if !ok {
			continue
		}
		text, ok := writesTo(w, c, wr)
		if !ok {
			continue
		}
		wi := write{call: c}
		if text == nil {
			if f, _, ok := formatCall(w, c); ok {
				wi.texts = []string{f}
			}
		} else {
			stringConstsBehind(w, text, 0, &wi.texts)
		}
		writes = append(writes, wi)
		// header: built by a format call starting with "p cnf"
		var fc *ssa.Call
		if text == nil {
			fc = c
		} else if tc, ok := text.(*ssa.Call); ok {
			fc = tc
		}
		if fc != nil {
			if f, args, ok := formatCall(w, fc); ok && strings.HasPrefix(f, "p cnf") {
				if header != nil {
					r.Bad(id, "bf.Dimacs header", w.InstrPos(c), "two problem lines are written")
					return
				}
				header, hdrArgs = c, args
				if strings.Count(f, "%d") != 2 || strings.Count(f, "%") != 2 || len(args) != 2 {
					r.Unk(id, "bf.Dimacs header", w.InstrPos(c), fmt.Sprintf("problem line format %q does not take exactly two integers", f))
					return
				}
			}
		}
	}
	if header == nil {
		r.Unk(id, "bf.Dimacs header", w.Pos(fn.Pos()), "no write of a line formatted from \"p cnf ...\" to the writer parameter found")
		return
	}
	unwrapIface := func(v ssa.Value) ssa.Value {
		if mi, ok := v.(*ssa.MakeInterface); ok {
			return mi.X
		}
		return v
	}
	// ---- variable count
	kVars := "bf.Dimacs header variable count"
	varField, _, okV := lenOfField(unwrapIface(hdrArgs[0]))
	if !okV {
		r.Unk(id, kVars, w.InstrPos(header), "the first number of the problem line is not the length of a field")
	} else if c, ok := unwrapIface(hdrArgs[0]).(*ssa.Call); ok {
		if _, isMap := c.Call.Args[0].Type().Underlying().(*types.Map); !isMap {
			r.Unk(id, kVars, w.InstrPos(header), "the first number of the problem line is not the size of a map")
			okV = false
		}
	}
	// ---- literals and allocators
	allocs := map[*ssa.Function]bool{}
	for _, g := range m.fns {
		if g.Signature.Results().Len() != 1 || !isClauseList(g.Signature.Results().At(0).Type()) {
			continue
		}
		key := w.FuncName(g) + " clause literals"
		n := 0
		var bad []string
		allInstrs(g, func(ins ssa.Instruction) {
			st, ok := ins.(*ssa.Store)
			if !ok {
				return
			}
			if _, ok := st.Addr.(*ssa.IndexAddr); !ok {
				return
			}
			bt, ok := st.Val.Type().Underlying().(*types.Basic)
			if !ok || bt.Kind() != types.Int {
				return
			}
			n++
			v := st.Val
			if u, ok := v.(*ssa.UnOp); ok && u.Op == token.SUB {
				v = u.X
			}
			c, ok := v.(*ssa.Call)
			var callee *ssa.Function
			if ok {
				if sc := c.Call.StaticCallee(); sc != nil {
					callee = w.unwrap(sc)
				}
			}
			if callee == nil || !m.inPkg[callee] || !isIntResult(callee) {
				// an integer parameter (a helper that is handed the literal): judged at every call site
				if pr, isP := v.(*ssa.Parameter); isP {
					if okAll := intParamFromAllocator(w, m, g, pr, allocs, 0); okAll {
						return
					}
				}
				bad = append(bad, fmt.Sprintf("%s at %s", st.Val.String(), w.InstrPos(st)))
				return
			}
			allocs[callee] = true
		})
		switch {
		case len(bad) > 0:
			r.Bad(id, key, w.Pos(g.Pos()), "integers put into clauses that do not come from an index-allocating function: "+strings.Join(bad, "; "))
		case n == 0:
			r.Unk(id, key, w.Pos(g.Pos()), "no integer is put into a clause here: the translation changed shape")
		default:
			r.OK(id, key, w.Pos(g.Pos()), fmt.Sprintf("%d integer(s) put into clauses, all results (or negated results) of index-allocating functions", n))
		}
	}
	if len(allocs) == 0 {
		r.Unk(id, "index-allocating functions", "-", "no function hands out the integers put into clauses")
	}
	var afs []*ssa.Function
	for a := range allocs {
		afs = append(afs, a)
	}
	sort.Slice(afs, func(i, j int) bool { return afs[i].String() < afs[j].String() })
	for _, a := range afs {
		key := w.FuncName(a) + " records the indices it hands out"
		if !okV {
			r.Unk(id, key, w.Pos(a.Pos()), "the map counted by the header is not resolved")
			continue
		}
		st, detail := allocatorRecords(a, varField)
		switch st {
		case Discharged:
			r.OK(id, key, w.Pos(a.Pos()), detail)
		case Violated:
			r.Bad(id, key, w.Pos(a.Pos()), detail)
		default:
			r.Unk(id, key, w.Pos(a.Pos()), detail)
		}
	}
	if okV {
		r.OK(id, kVars, w.InstrPos(header), "the problem line counts the entries of "+varField.String())
	}
	// ---- clause count
	kCl := "bf.Dimacs header clause count"
	clField, _, okC := lenOfField(unwrapIface(hdrArgs[1]))
	if !okC {
		r.Unk(id, kCl, w.InstrPos(header), "the second number of the problem line is not the length of a field")
		return
	}
	// no store to that field inside Dimacs
	for _, b := range fn.Blocks {
		for _, ins := range b.Instrs {
			if st, ok := ins.(*ssa.Store); ok {
				if fa, ok := st.Addr.(*ssa.FieldAddr); ok {
					if fr, ok := fieldAddrRef(fa); ok && fr.same(clField) {
						r.Bad(id, kCl, w.InstrPos(st), "the clause list is replaced inside the export function")
						return
					}
				}
			}
		}
	}
	// the loop ranging over a load of the same field from the same root: in the export function itself, or in a
	// helper that is handed the translated formula and the writer (`writeClauses(cnf, w)`)
	type lsite struct {
		fn   *ssa.Function
		root ssa.Value
		wr   ssa.Value
		via  *ssa.Call
	}
	sites := []lsite{{fn, clField.root, wr, nil}}
	for _, ci := range callsIn(fn) {
		c, ok := ci.(*ssa.Call)
		if !ok {
			continue
		}
		g := c.Call.StaticCallee()
		if g == nil || len(g.Blocks) == 0 {
			continue
		}
		g = w.unwrap(g)
		if !m.inPkg[g] {
			continue
		}
		if _, _, isW := writerWrapper(w, g); isW {
			continue // a call of a write wrapper is itself the write (writesTo)
		}
		var groot, gwr ssa.Value
		for i, a := range c.Call.Args {
			if i >= len(g.Params) {
				break
			}
			if a == wr {
				gwr = g.Params[i]
			}
			if a == clField.root {
				groot = g.Params[i]
			}
		}
		if gwr != nil {
			sites = append(sites, lsite{g, groot, gwr, c})
			writes = append(writes, writesOf(w, g, gwr)...)
		}
	}
	var loopH *ssa.BasicBlock
	var lfn *ssa.Function
	var via *ssa.Call
	for _, st := range sites {
		if st.root == nil {
			continue
		}
		for _, h := range loopHeaders(st.fn) {
			iff, ok := h.Instrs[len(h.Instrs)-1].(*ssa.If)
			if !ok {
				continue
			}
			cond, ok := iff.Cond.(*ssa.BinOp)
			if !ok || cond.Op != token.LSS {
				continue
			}
			fr, ranged, ok := lenOfField(cond.Y)
			if !ok || !fr.same(clField) || fr.root != st.root {
				continue
			}
			if hh, _ := fullRangeLoose(st.fn, cond.X, ranged, h); hh {
				if loopH != nil {
					r.Unk(id, kCl, w.InstrPos(iff), "the clause list is ranged over twice")
					return
				}
				loopH, lfn, via = h, st.fn, st.via
			}
		}
	}
	if loopH == nil {
		r.Bad(id, kCl, w.InstrPos(header), "the problem line announces len("+clField.String()+") clauses but no loop ranges over all of that slice")
		return
	}
	if via != nil {
		// the helper runs once on every successful export: not in a loop, and no success return bypasses it
		bypass := inLoop(fn, via.Block())
		allInstrs(fn, func(ins ssa.Instruction) {
			ret, isRet := ins.(*ssa.Return)
			if !isRet || instrDominates(via, ret) {
				return
			}
			for _, rv := range ret.Results {
				if k, isK := rv.(*ssa.Const); isK && k.IsNil() {
					bypass = true
				}
			}
		})
		if bypass {
			r.Bad(id, kCl, w.InstrPos(via), "the export can succeed without running (exactly once) the helper that writes the clause lines")
			return
		}
		if !instrReachableFrom(header, via) {
			r.Bad(id, kCl, w.InstrPos(via), "the clause lines are written before the problem line")
			return
		}
		for _, b := range lfn.Blocks {
			for _, ins := range b.Instrs {
				if st, ok := ins.(*ssa.Store); ok {
					if fa, ok := st.Addr.(*ssa.FieldAddr); ok {
						if fr, ok := fieldAddrRef(fa); ok && fr.same(clField) {
							r.Bad(id, kCl, w.InstrPos(st), "the clause list is replaced inside the helper that writes it")
							return
						}
					}
				}
			}
		}
	}
	fn = lfn
	body := loopBlocks(fn, loopH)
	inner := map[*ssa.BasicBlock]bool{}
	for _, h2 := range loopHeaders(fn) {
		if h2 != loopH && body[h2] {
			for b := range loopBlocks(fn, h2) {
				inner[b] = true
			}
		}
	}
	var inLoop []write
	for _, wi := range writes {
		if body[wi.call.Block()] {
			inLoop = append(inLoop, wi)
		}
	}
	if len(inLoop) != 1 {
		r.Bad(id, kCl, w.Pos(loopH.Instrs[0].Pos()), fmt.Sprintf("%d writes per clause of the list instead of exactly one clause line", len(inLoop)))
		return
	}
	cw := inLoop[0]
	wb := cw.call.Block()
	switch {
	case inner[wb]:
		r.Bad(id, kCl, w.InstrPos(cw.call), "the clause line is written inside a nested loop: not one line per clause")
		return
	case !dominatesLatches(loopH, wb):
		r.Bad(id, kCl, w.InstrPos(cw.call), "the clause line is written conditionally: fewer lines than announced for some inputs")
		return
	}
	// exits other than the header's must come after the write (error returns)
	for b := range body {
		if b == loopH {
			continue
		}
		for _, s := range b.Succs {
			if !body[s] && !(wb.Dominates(b)) {
				r.Bad(id, kCl, w.InstrPos(cw.call), "the loop over the clauses can be left before a clause line is written ("+blockName(b)+")")
				return
			}
		}
	}
	term := false
	for _, s := range cw.texts {
		if strings.HasSuffix(s, " 0\n") {
			term = true
		}
	}
	if !term {
		r.Unk(id, kCl, w.InstrPos(cw.call), fmt.Sprintf("the line written per clause is not built from a text ending in \" 0\\n\" (texts: %q)", cw.texts))
		return
	}
	// every other write is the problem line or a comment line
	for _, wi := range writes {
		if wi.call == header || wi.call == cw.call {
			continue
		}
		okc := len(wi.texts) > 0
		for _, s := range wi.texts {
			if !strings.HasPrefix(s, "c ") && !strings.HasPrefix(s, "c\n") {
				okc = false
			}
		}
		if !okc {
			r.Unk(id, kCl, w.InstrPos(wi.call), fmt.Sprintf("a further line is written that is neither the problem line, a comment line nor the clause line (texts: %q)", wi.texts))
			return
		}
	}
	r.OK(id, kCl, w.InstrPos(header), fmt.Sprintf("the problem line counts len(%s); that slice is ranged over completely and exactly one line ending in \" 0\" is written per element (%d other writes are comment lines)", clField.String(), len(writes)-2))
}

// fullRangeLoose: counter/bound shape of fullRangeIndex for the loop with header h, without the no-early-exit
// requirement (the caller decides which exits are acceptable).
func fullRangeLoose(fn *ssa.Function, idx, x ssa.Value, h *ssa.BasicBlock) (bool, string) {
	switch v := idx.(type) {
	case *ssa.BinOp:
		p, ok := v.X.(*ssa.Phi)
		one, isOne := constInt(v.Y)
		if v.Op != token.ADD || !ok || !isOne || one != 1 || p.Block() != h {
			return false, "index is not a loop counter"
		}
		for _, e := range p.Edges {
			if e == ssa.Value(v) {
				continue
			}
			if k, ok := constInt(e); !ok || k != -1 {
				return false, "loop counter does not start at the first element"
			}
		}
		return true, ""
	case *ssa.Phi:
		if v.Block() != h {
			return false, "index is not this loop's counter"
		}
		for _, e := range v.Edges {
			if k, ok := constInt(e); ok && k == 0 {
				continue
			}
			bo, ok := e.(*ssa.BinOp)
			if !ok || bo.Op != token.ADD || bo.X != ssa.Value(v) {
				return false, "loop counter does not advance by 1"
			}
			if one, isOne := constInt(bo.Y); !isOne || one != 1 {
				return false, "loop counter does not advance by 1"
			}
		}
		return true, ""
	}
	return false, "index is not a loop counter"
}

// allocatorRecords: every value the function returns is (the negation of) an index looked up in the counted map,
// or a fresh index size+1 of the counted map that is stored into that map in the same block.
func allocatorRecords(a *ssa.Function, counted fieldRef) (Status, string) {
	var leaves []ssa.Value
	seen := map[ssa.Value]bool{}
	var expand func(v ssa.Value)
	expand = func(v ssa.Value) {
		if seen[v] {
			return
		}
		seen[v] = true
		switch x := v.(type) {
		case *ssa.Phi:
			for _, e := range x.Edges {
				expand(e)
			}
		case *ssa.UnOp:
			if x.Op == token.SUB {
				expand(x.X)
				return
			}
			leaves = append(leaves, v)
		default:
			leaves = append(leaves, v)
		}
	}
	nret := 0
	for _, b := range a.Blocks {
		if ret, ok := b.Instrs[len(b.Instrs)-1].(*ssa.Return); ok && len(ret.Results) == 1 {
			nret++
			expand(ret.Results[0])
		}
	}
	if nret == 0 {
		return Undecided, "function never returns"
	}
	fresh, looked := 0, 0
	for _, v := range leaves {
		// looked up
		var lk *ssa.Lookup
		switch x := v.(type) {
		case *ssa.Extract:
			if l, ok := x.Tuple.(*ssa.Lookup); ok && x.Index == 0 {
				lk = l
			}
		case *ssa.Lookup:
			lk = x
		}
		if lk != nil {
			fr, ok := loadedField(lk.X)
			if !ok {
				return Undecided, "an index is looked up in something else than a field"
			}
			if !fr.same(counted) {
				return Violated, fmt.Sprintf("hands out indices recorded in %s, but the header counts %s", fr.String(), counted.String())
			}
			looked++
			continue
		}
		// a shared numbering step (`val = vars.add(l.v)`): judged in the function that computes and records the index
		if c, isC := v.(*ssa.Call); isC {
			if g := c.Call.StaticCallee(); g != nil && g != a && len(g.Blocks) > 0 && isIntResult(g) {
				if st, d := allocatorRecords(g, counted); st == Discharged {
					fresh++
					continue
				} else if st == Violated {
					return st, d
				}
			}
		}
		fa, ok := freshIndex(v)
		if !ok {
			return Violated, "hands out an integer that is neither looked up in the counted map nor its size+1: " + v.String()
		}
		fr, ok := fieldAddrRef(fa)
		if !ok {
			return Undecided, "fresh index not computed from a field"
		}
		if !fr.same(counted) {
			return Violated, fmt.Sprintf("fresh indices are numbered after the size of %s, but the header counts %s", fr.String(), counted.String())
		}
		// paired store in the same block, after the computation
		bo := v.(*ssa.BinOp)
		b := bo.Block()
		recorded := false
		after := false
		for _, ins := range b.Instrs {
			if ins == ssa.Instruction(bo) {
				after = true
				continue
			}
			if !after {
				continue
			}
			if mu, ok := ins.(*ssa.MapUpdate); ok && mu.Value == ssa.Value(bo) {
				if f2, ok := loadedField(mu.Map); ok && f2.same(counted) && f2.root == fr.root {
					recorded = true
				}
			}
		}
		if !recorded {
			return Violated, fmt.Sprintf("hands out the fresh index %s without storing it into %s on the same path: the header undercounts the variables", v.Name(), counted.String())
		}
		fresh++
	}
	if fresh == 0 {
		return Undecided, "no fresh index is ever created here"
	}
	return Discharged, fmt.Sprintf("%d fresh index site(s) = size+1 of %s stored into it on the same path; %d looked-up site(s) from the same map", fresh, counted.String(), looked)
}
