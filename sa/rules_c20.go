package main

import (
	"fmt"
	"go/token"
	"go/types"
	"sort"
	"strconv"
	"strings"

	"golang.org/x/tools/go/ssa"
)

func init() {
	register(&property{
		ID:          "C20",
		Explanation: "for every method of every type implementing solver.Interface: (a) the channel parameter is closed exactly once on every path on which it is non-nil and never sent on while nil or after the close, nor handed to a goroutine; (b) on every non-nil path the value returned is the last value sent; (c) slices sent are freshly allocated per send and not written afterwards; (d) a forwarder drains its inner channel completely and never closes it itself. These hold for every consumer speed and schedule because they do not depend on the consumer.",
		NotDecided:  "validity of each delivered model and strict decrease of the costs along the stream (depend on the search).",
		Rules:       []ruleFn{ruleR20_1_2, ruleR20_3, ruleR20_4, ruleR3_5},
		Fixtures:    []func(*World) []string{fixtureR20},
	})
}

// interfaceMethods enumerates (implementing type, method function) pairs for the named interface.
type ifaceImpl struct {
	Type   *types.Named
	Method *ssa.Function
	Name   string
}

func (w *World) implementations(pkg, iface string) ([]ifaceImpl, *types.Interface) {
	n := w.NamedType(pkg, iface)
	if n == nil {
		return nil, nil
	}
	it, _ := n.Underlying().(*types.Interface)
	if it == nil {
		return nil, nil
	}
	var out []ifaceImpl
	for _, p := range w.Pkgs {
		sc := p.Types.Scope()
		for _, name := range sc.Names() {
			tn, ok := sc.Lookup(name).(*types.TypeName)
			if !ok || tn.IsAlias() {
				continue
			}
			named, ok := tn.Type().(*types.Named)
			if !ok || types.IsInterface(named) {
				continue
			}
			for _, recv := range []types.Type{named, types.NewPointer(named)} {
				if !types.Implements(recv, it) {
					continue
				}
				for i := 0; i < it.NumMethods(); i++ {
					sel := w.Prog.MethodSets.MethodSet(recv).Lookup(it.Method(i).Pkg(), it.Method(i).Name())
					if sel == nil {
						continue
					}
					fn := w.Prog.MethodValue(sel)
					if fn == nil {
						continue
					}
					fn = w.unwrap(fn)
					if !w.InModule(fn) {
						continue
					}
					out = append(out, ifaceImpl{named, fn, it.Method(i).Name()})
				}
				break
			}
		}
	}
	sort.Slice(out, func(i, j int) bool { return out[i].Method.String() < out[j].Method.String() })
	// dedupe
	var d []ifaceImpl
	for i, x := range out {
		if i == 0 || out[i-1].Method != x.Method {
			d = append(d, x)
		}
	}
	return d, it
}

// resultChanParam picks the channel parameter the contract talks about: the first parameter of channel type
// whose element type is not the empty struct (that one is the stop channel).
func resultChanParam(fn *ssa.Function) *ssa.Parameter {
	for _, p := range chanParams(fn) {
		el := p.Type().Underlying().(*types.Chan).Elem()
		if st, ok := el.Underlying().(*types.Struct); ok && st.NumFields() == 0 {
			continue
		}
		return p
	}
	return nil
}

func ruleR20_1_2(w *World, r *Report) {
	r.Rule("R20.1", "every solver.Interface method closes its result channel exactly once on every non-nil path, never sends on it while it may be nil or after the close, and does not hand it to a goroutine", 3)
	r.Rule("R20.2", "on every path on which the result channel is non-nil the value returned is the last value sent (or nothing was ever assigned or sent)", 2)
	impls, _ := w.implementations("solver", "Interface")
	if len(impls) == 0 {
		r.Unk("R20.1", "solver.Interface", "-", "interface or its implementations not found")
		return
	}
	cc := &chChecker{w: w, memo: map[string]*chSummary{}}
	for _, im := range impls {
		fn := im.Method
		ch := resultChanParam(fn)
		name := w.FuncName(fn)
		if ch == nil {
			r.Unk("R20.1", name, w.Pos(fn.Pos()), "no result channel parameter found")
			continue
		}
		sum := cc.analyse(fn, ch, 0, true)
		var m1, m2 []string
		pos1, pos2 := w.Pos(fn.Pos()), w.Pos(fn.Pos())
		for _, v := range sum.viol {
			if v.Kind == "lastsent" {
				m2 = append(m2, v.Msg+" @"+v.Pos)
				pos2 = v.Pos
			} else {
				m1 = append(m1, v.Msg+" @"+v.Pos)
				pos1 = v.Pos
			}
		}
		detail := fmt.Sprintf("channel parameter %s: %d (block,state) pairs explored, %d return states", ch.Name(), sum.pairs, sum.returns)
		if len(m1) > 0 {
			r.Bad("R20.1", name, pos1, strings.Join(m1, "; "))
		} else {
			if sum.returns == 0 {
				detail += " (never returns: every path panics)"
			}
			r.OK("R20.1", name, w.Pos(fn.Pos()), detail)
		}
		el := ch.Type().Underlying().(*types.Chan).Elem()
		if trackable(el) && fn.Signature.Results().Len() == 1 && types.Identical(fn.Signature.Results().At(0).Type(), el) {
			if len(m2) > 0 {
				r.Bad("R20.2", name, pos2, strings.Join(m2, "; "))
			} else {
				r.OK("R20.2", name, w.Pos(fn.Pos()), detail)
			}
		}
	}
}

// ---------- R20.3 fresh on send ----------

// sliceOrigins chases a slice value back to where its backing array comes from.
type originKind int

const (
	oMake originKind = iota
	oFreshCall
	oReceived
	oNil
	oParam
	oOther
)

type origin struct {
	Kind originKind
	V    ssa.Value
	Why  string
}

// freshReturning: every returned slice of fn is a MakeSlice/new array of fn itself that is not stored into any
// field, global or parameter-reachable location (so the caller owns it).
func (w *World) freshReturning(fn *ssa.Function, idx int, seen map[*ssa.Function]bool) bool {
	if seen[fn] || len(fn.Blocks) == 0 {
		return false
	}
	seen[fn] = true
	ok := true
	any := false
	allInstrs(fn, func(ins ssa.Instruction) {
		ret, isRet := ins.(*ssa.Return)
		if !isRet || idx >= len(ret.Results) {
			return
		}
		any = true
		for _, o := range w.sliceOrigins(ret.Results[idx], map[ssa.Value]bool{}, seen) {
			switch o.Kind {
			case oMake:
				if escapesLocally(o.V) {
					ok = false
				}
			case oFreshCall, oNil:
			default:
				ok = false
			}
		}
	})
	return ok && any
}

// escapesLocally: is the array stored into a field / global / map / sent elsewhere within its function?
func escapesLocally(v ssa.Value) bool {
	seen := map[ssa.Value]bool{}
	var walk func(x ssa.Value) bool
	walk = func(x ssa.Value) bool {
		if seen[x] {
			return false
		}
		seen[x] = true
		for _, r := range *x.Referrers() {
			switch y := r.(type) {
			case *ssa.Store:
				if y.Val == x {
					// stored as a value: into a local variable is fine if that variable does not escape
					if al, ok := y.Addr.(*ssa.Alloc); ok && !al.Heap {
						if walkAllocLoads(al, walk) {
							return true
						}
						continue
					}
					if al, ok := y.Addr.(*ssa.Alloc); ok && al.Heap {
						// captured local: treat loads in this function; closures may use it - conservative
						return true
					}
					return true
				}
			case *ssa.Slice:
				if walk(y) {
					return true
				}
			case *ssa.Phi:
				if walk(y) {
					return true
				}
			case *ssa.MapUpdate:
				if y.Value == x || y.Key == x {
					return true
				}
			case *ssa.MakeInterface, *ssa.MakeClosure:
				return true
			}
		}
		return false
	}
	return walk(v)
}

func walkAllocLoads(al *ssa.Alloc, walk func(ssa.Value) bool) bool {
	for _, r := range *al.Referrers() {
		if u, ok := r.(*ssa.UnOp); ok && u.Op == token.MUL {
			if walk(u) {
				return true
			}
		}
	}
	return false
}

func (w *World) sliceOrigins(v ssa.Value, seen map[ssa.Value]bool, fseen map[*ssa.Function]bool) []origin {
	if v == nil || seen[v] {
		return nil
	}
	seen[v] = true
	switch x := v.(type) {
	case *ssa.MakeSlice:
		return []origin{{oMake, x, "make"}}
	case *ssa.Const:
		if x.IsNil() {
			return []origin{{oNil, x, "nil"}}
		}
	case *ssa.Slice:
		// slicing an array allocated here
		if al, ok := x.X.(*ssa.Alloc); ok {
			return []origin{{oMake, al, "array literal"}}
		}
		return w.sliceOrigins(x.X, seen, fseen)
	case *ssa.Phi:
		var out []origin
		for _, e := range x.Edges {
			out = append(out, w.sliceOrigins(e, seen, fseen)...)
		}
		return out
	case *ssa.ChangeType:
		return w.sliceOrigins(x.X, seen, fseen)
	case *ssa.Convert:
		return w.sliceOrigins(x.X, seen, fseen)
	case *ssa.Call:
		if b, ok := x.Call.Value.(*ssa.Builtin); ok && b.Name() == "append" {
			// append may reallocate or not: origin is that of the first argument
			return w.sliceOrigins(x.Call.Args[0], seen, fseen)
		}
		cs := w.Callees[x]
		if len(cs) == 0 {
			return []origin{{oOther, x, "result of a call that is not analysed: " + w.calleeName(&x.Call)}}
		}
		for _, c := range cs {
			if !w.freshReturning(c, 0, copySet(fseen)) {
				return []origin{{oOther, x, "result of " + w.FuncName(c) + ", which does not return a fresh slice on every path"}}
			}
		}
		return []origin{{oFreshCall, x, "fresh result of " + w.FuncName(cs[0])}}
	case *ssa.UnOp:
		if x.Op == token.ARROW {
			return []origin{{oReceived, x, "received from a channel"}}
		}
		if x.Op == token.MUL {
			// load: local variable -> look at its stores; field of a received/constructed struct
			switch a := x.X.(type) {
			case *ssa.Alloc:
				var out []origin
				stores, zero := reachingStores(x, a, -1)
				for _, st := range stores {
					out = append(out, w.sliceOrigins(st.Val, seen, fseen)...)
				}
				if zero {
					out = append(out, origin{oNil, x, "zero value"})
				}
				return out
			case *ssa.FieldAddr:
				// field of a local struct variable: stores to that field of the same alloc
				if al, ok := a.X.(*ssa.Alloc); ok {
					var out []origin
					stores, zero := reachingStores(x, al, a.Field)
					for _, st := range stores {
						if st.Addr == al {
							out = append(out, w.structFieldOrigins(st.Val, a.Field, seen, fseen)...)
						} else {
							out = append(out, w.sliceOrigins(st.Val, seen, fseen)...)
						}
					}
					if zero {
						out = append(out, origin{oNil, x, "zero value"})
					}
					return out
				}
				return []origin{{oOther, x, "load of " + chainOf(x)}}
			}
		}
	case *ssa.Extract:
		if u, ok := x.Tuple.(*ssa.UnOp); ok && u.Op == token.ARROW {
			return []origin{{oReceived, x, "received from a channel"}}
		}
		if call, ok := x.Tuple.(*ssa.Call); ok {
			cs := w.Callees[call]
			if len(cs) > 0 {
				for _, c := range cs {
					if !w.freshReturning(c, x.Index, copySet(fseen)) {
						return []origin{{oOther, x, "result of " + w.FuncName(c)}}
					}
				}
				return []origin{{oFreshCall, x, "fresh result of " + w.FuncName(cs[0])}}
			}
		}
	case *ssa.Field:
		return w.structFieldOrigins(x.X, x.Field, seen, fseen)
	case *ssa.Parameter:
		return []origin{{oParam, x, "-1"}}
	}
	return []origin{{oOther, v, "value of unknown provenance: " + chainOf(v)}}
}

func copySet(m map[*ssa.Function]bool) map[*ssa.Function]bool {
	n := map[*ssa.Function]bool{}
	for k, v := range m {
		n[k] = v
	}
	return n
}

// structFieldOrigins: origins of field #f of a struct value.
func (w *World) structFieldOrigins(v ssa.Value, f int, seen map[ssa.Value]bool, fseen map[*ssa.Function]bool) []origin {
	if v == nil || seen[v] {
		return nil
	}
	seen[v] = true
	switch x := v.(type) {
	case *ssa.UnOp:
		if x.Op == token.ARROW {
			return []origin{{oReceived, x, "field of a value received from a channel"}}
		}
		if x.Op == token.MUL {
			if al, ok := x.X.(*ssa.Alloc); ok {
				var out []origin
				stores, zero := reachingStores(x, al, f)
				for _, st := range stores {
					if st.Addr == al {
						out = append(out, w.structFieldOrigins(st.Val, f, seen, fseen)...)
					} else {
						out = append(out, w.sliceOrigins(st.Val, seen, fseen)...)
					}
				}
				if zero {
					out = append(out, origin{oNil, x, "zero value"})
				}
				return out
			}
		}
	case *ssa.Extract:
		if u, ok := x.Tuple.(*ssa.UnOp); ok && u.Op == token.ARROW {
			return []origin{{oReceived, x, "field of a value received from a channel"}}
		}
	case *ssa.Phi:
		var out []origin
		for _, e := range x.Edges {
			out = append(out, w.structFieldOrigins(e, f, seen, fseen)...)
		}
		return out
	case *ssa.Const:
		return []origin{{oNil, x, "zero value"}}
	case *ssa.Call:
		// struct returned by a module helper (`res = s.trim(full)`): the field's origins are those of the field of what
		// the helper returns, its parameters standing for the caller's arguments
		if callee := x.Call.StaticCallee(); callee != nil && len(callee.Blocks) > 0 && w.InModule(w.unwrap(callee)) && !fseen[w.unwrap(callee)] {
			callee = w.unwrap(callee)
			fs2 := copySet(fseen)
			fs2[callee] = true
			var out []origin
			okAll := true
			allInstrs(callee, func(ins ssa.Instruction) {
				ret, isRet := ins.(*ssa.Return)
				if !isRet || len(ret.Results) != 1 {
					return
				}
				for _, o := range w.structFieldOrigins(ret.Results[0], f, map[ssa.Value]bool{}, fs2) {
					if o.Kind != oParam {
						out = append(out, o)
						continue
					}
					pi := paramIndex(callee, o.V)
					pf, err := strconv.Atoi(o.Why)
					if pi < 0 || pi >= len(x.Call.Args) || err != nil {
						okAll = false
						continue
					}
					if pf < 0 {
						out = append(out, w.sliceOrigins(x.Call.Args[pi], seen, fseen)...)
					} else {
						out = append(out, w.structFieldOrigins(x.Call.Args[pi], pf, seen, fseen)...)
					}
				}
			})
			if okAll && len(out) > 0 {
				return out
			}
		}
		return []origin{{oOther, x, "field of the result of " + w.calleeName(&x.Call)}}
	case *ssa.Parameter:
		return []origin{{oParam, x, fmt.Sprint(f)}}
	}
	return []origin{{oOther, v, "field of a value of unknown provenance: " + chainOf(v)}}
}

// sliceFieldsOf lists the indices of slice-typed fields of a struct type.
func sliceFieldsOf(t types.Type) []int {
	st, ok := t.Underlying().(*types.Struct)
	if !ok {
		return nil
	}
	var out []int
	for i := 0; i < st.NumFields(); i++ {
		if _, ok := st.Field(i).Type().Underlying().(*types.Slice); ok {
			out = append(out, i)
		}
	}
	return out
}

// writesAfter: is there a store into the array of origin value o reachable from the send without passing the
// (re-)allocation?
func writesAfterSend(send ssa.Instruction, alloc ssa.Value) (ssa.Instruction, bool) {
	allocIns, _ := alloc.(ssa.Instruction)
	// blocks reachable from send, treating the allocation's block as a barrier
	reach := map[*ssa.BasicBlock]bool{}
	var visit func(b *ssa.BasicBlock)
	visit = func(b *ssa.BasicBlock) {
		if reach[b] {
			return
		}
		if allocIns != nil && b == allocIns.Block() && b != send.Block() {
			return
		}
		reach[b] = true
		for _, s := range b.Succs {
			visit(s)
		}
	}
	for _, s := range send.Block().Succs {
		visit(s)
	}
	// derived references
	derived := map[ssa.Value]bool{alloc: true}
	changed := true
	for changed {
		changed = false
		for v := range derived {
			for _, r := range *v.Referrers() {
				switch y := r.(type) {
				case *ssa.Slice, *ssa.IndexAddr, *ssa.Phi, *ssa.ChangeType:
					if vv := y.(ssa.Value); !derived[vv] {
						derived[vv] = true
						changed = true
					}
				case *ssa.Store:
					if y.Val == v {
						if al, ok := y.Addr.(*ssa.Alloc); ok {
							for _, r2 := range *al.Referrers() {
								if u, ok := r2.(*ssa.UnOp); ok && u.Op == token.MUL && !derived[u] {
									derived[u] = true
									changed = true
								}
							}
						}
					}
				}
			}
		}
	}
	var hit ssa.Instruction
	check := func(ins ssa.Instruction) {
		if hit != nil {
			return
		}
		switch y := ins.(type) {
		case *ssa.Store:
			if ia, ok := y.Addr.(*ssa.IndexAddr); ok && derived[ia] {
				hit = ins
			}
		case *ssa.Call:
			if b, ok := y.Call.Value.(*ssa.Builtin); ok && (b.Name() == "copy" || b.Name() == "append") && derived[y.Call.Args[0]] {
				hit = ins
			}
		}
	}
	// same block, after the send
	after := false
	for _, ins := range send.Block().Instrs {
		if ins == send {
			after = true
			continue
		}
		if after {
			if allocIns != nil && ins == allocIns {
				break
			}
			check(ins)
		}
	}
	for b := range reach {
		if b == send.Block() {
			// reached again through a cycle: instructions before the send, up to the allocation
			for _, ins := range b.Instrs {
				if ins == send {
					break
				}
				if allocIns != nil && ins == allocIns {
					break
				}
				check(ins)
			}
			continue
		}
		for _, ins := range b.Instrs {
			check(ins)
		}
	}
	return hit, hit != nil
}

func ruleR20_3(w *World, r *Report) {
	r.Rule("R20.3", "the array behind every slice sent on a channel by library code (directly or as a field of a sent struct) is allocated by an allocation or fresh-returning call re-executed for each send, or was itself received; the sender does not write it afterwards", 3)
	for _, fn := range w.LibFns() {
		allInstrs(fn, func(ins ssa.Instruction) {
			send, ok := ins.(*ssa.Send)
			if !ok {
				return
			}
			el := send.Chan.Type().Underlying().(*types.Chan).Elem()
			var origins []origin
			what := ""
			if _, isSlice := el.Underlying().(*types.Slice); isSlice {
				origins = w.sliceOrigins(send.X, map[ssa.Value]bool{}, map[*ssa.Function]bool{})
				what = "slice"
			} else if fs := sliceFieldsOf(el); len(fs) > 0 {
				for _, f := range fs {
					origins = append(origins, w.structFieldOrigins(send.X, f, map[ssa.Value]bool{}, map[*ssa.Function]bool{})...)
				}
				what = "struct with slice field"
			} else {
				return
			}
			key := fmt.Sprintf("%s send#%d of %s", w.FuncName(fn), sendOrdinal(fn, send), typeShort(el))
			var bad []string
			var good []string
			var judge func(fn *ssa.Function, at ssa.Instruction, origins []origin, depth int)
			judge = func(fn *ssa.Function, at ssa.Instruction, origins []origin, depth int) {
				for _, o := range origins {
					switch o.Kind {
					case oNil:
						good = append(good, "nil")
					case oReceived:
						good = append(good, o.Why)
					case oParam:
						// the value comes from the callers: judge each call site as if it were the send
						prm := o.V.(*ssa.Parameter)
						pi := paramIndex(fn, prm)
						sites := w.Callers[fn]
						if depth > 3 || pi < 0 || len(sites) == 0 {
							bad = append(bad, "comes from parameter "+prm.Name()+" of "+w.FuncName(fn)+", whose callers cannot be enumerated")
							continue
						}
						var fld int
						fmt.Sscanf(o.Why, "%d", &fld)
						for _, cs := range sites {
							args := cs.Common().Args
							if cs.Common().IsInvoke() {
								args = append([]ssa.Value{cs.Common().Value}, args...)
							}
							if pi >= len(args) {
								bad = append(bad, "call site without matching argument")
								continue
							}
							var os2 []origin
							if fld < 0 {
								os2 = w.sliceOrigins(args[pi], map[ssa.Value]bool{}, map[*ssa.Function]bool{})
							} else {
								os2 = w.structFieldOrigins(args[pi], fld, map[ssa.Value]bool{}, map[*ssa.Function]bool{})
							}
							judge(cs.Parent(), cs, os2, depth+1)
						}
					case oMake, oFreshCall:
						oi, _ := o.V.(ssa.Instruction)
						if oi == nil || oi.Block() == nil {
							bad = append(bad, "allocation has no position in the function")
							continue
						}
						if !instrDominates(oi, at) {
							bad = append(bad, "allocation ("+o.Why+" at "+w.InstrPos(oi)+") does not dominate the send")
							continue
						}
						// every loop containing the send must contain the allocation
						for _, h := range loopHeaders(fn) {
							lb := loopBlocks(fn, h)
							if lb[at.Block()] && !lb[oi.Block()] {
								bad = append(bad, "the array allocated at "+w.InstrPos(oi)+" is allocated once outside the loop at "+w.InstrPos(h.Instrs[0])+" and sent repeatedly")
							}
						}
						if o.Kind == oMake && escapesLocally(o.V) && !onlyEscapesIntoSent(o.V) {
							bad = append(bad, "the array allocated at "+w.InstrPos(oi)+" is also stored elsewhere")
						}
						if wi, yes := writesAfterSend(at, o.V); yes {
							bad = append(bad, "the array is written at "+w.InstrPos(wi)+" after having been sent")
						}
						good = append(good, o.Why)
					default:
						bad = append(bad, o.Why)
					}
				}
			}
			judge(fn, send, origins, 0)
			if len(origins) == 0 {
				bad = append(bad, "no origin found")
			}
			if len(bad) > 0 {
				r.Bad("R20.3", key, w.InstrPos(send), what+" sent is not fresh: "+strings.Join(dedupe(bad), "; "))
			} else {
				r.OK("R20.3", key, w.InstrPos(send), what+": "+strings.Join(dedupe(good), ", "))
			}
		})
	}
}

// onlyEscapesIntoSent: the make result is stored only into the struct that is sent/returned (Result literal).
func onlyEscapesIntoSent(v ssa.Value) bool {
	for _, r := range *v.Referrers() {
		if st, ok := r.(*ssa.Store); ok && st.Val == v {
			fa, ok := st.Addr.(*ssa.FieldAddr)
			if !ok {
				if al, ok := st.Addr.(*ssa.Alloc); ok && !al.Heap {
					continue
				}
				return false
			}
			if _, ok := fa.X.(*ssa.Alloc); !ok {
				return false
			}
		}
	}
	return true
}

func sendOrdinal(fn *ssa.Function, s *ssa.Send) int {
	n := 0
	for _, b := range fn.Blocks {
		for _, ins := range b.Instrs {
			if x, ok := ins.(*ssa.Send); ok {
				n++
				if x == s {
					return n
				}
			}
		}
	}
	return 0
}

func dedupe(in []string) []string {
	seen := map[string]bool{}
	var out []string
	for _, s := range in {
		if !seen[s] {
			seen[s] = true
			out = append(out, s)
		}
	}
	return out
}

// ---------- R20.4 forwarder ----------

func ruleR20_4(w *World, r *Report) {
	r.Rule("R20.4", "a library function that starts a producer goroutine on a channel it made ranges over that channel until it is exhausted on every path to return, never closes it itself, and the producer closes it", 1)
	cc := &chChecker{w: w, memo: map[string]*chSummary{}}
	for _, fn := range w.LibFns() {
		allInstrs(fn, func(ins ssa.Instruction) {
			g, ok := ins.(*ssa.Go)
			if !ok {
				return
			}
			// the producer started through a function literal (`go func() { inner.Optimal(localRes, stop) }()`): the
			// channel is a captured local made here; the producer is the call inside the literal that is handed it
			type start struct {
				mk     *ssa.MakeChan
				cell   *ssa.Alloc
				callee *ssa.Function
				param  *ssa.Parameter
				name   string
			}
			var starts []start
			for ai, arg := range g.Call.Args {
				if mk, ok := arg.(*ssa.MakeChan); ok {
					// a channel the started function only receives from is a signal to it (`go s.displayStats(end)`,
					// closed by the starter to stop it), not the channel of a producer
					if sc := g.Call.StaticCallee(); sc != nil && ai < len(sc.Params) && onlyReceivesFrom(sc.Params[ai]) {
						continue
					}
					starts = append(starts, start{mk: mk, name: w.calleeName(&g.Call)})
				}
			}
			if mc, isMC := g.Call.Value.(*ssa.MakeClosure); isMC {
				lit, _ := mc.Fn.(*ssa.Function)
				for bi, b := range mc.Bindings {
					al, isAl := b.(*ssa.Alloc)
					if !isAl || lit == nil || bi >= len(lit.FreeVars) {
						continue
					}
					var mk *ssa.MakeChan
					nst := 0
					for _, ref := range *al.Referrers() {
						if st, ok := ref.(*ssa.Store); ok && st.Addr == ssa.Value(al) {
							nst++
							mk, _ = st.Val.(*ssa.MakeChan)
						}
					}
					if mk == nil || nst != 1 {
						continue
					}
					fv := lit.FreeVars[bi]
					for _, ci := range callsIn(lit) {
						for ai, a := range ci.Common().Args {
							if ld, ok := a.(*ssa.UnOp); ok && ld.Op == token.MUL && ld.X == ssa.Value(fv) {
								for _, callee := range w.Callees[ci] {
									if ai < len(callee.Params) {
										starts = append(starts, start{mk: mk, cell: al, callee: callee, param: callee.Params[ai], name: w.FuncName(callee) + " (in a function literal)"})
									}
								}
							}
						}
					}
				}
			}
			for _, stt := range starts {
				mk := stt.mk
				key := fmt.Sprintf("%s go %s", w.FuncName(fn), stt.name)
				var bad []string
				isCh := func(v ssa.Value) bool {
					if v == ssa.Value(mk) {
						return true
					}
					if ld, ok := v.(*ssa.UnOp); ok && stt.cell != nil && ld.Op == token.MUL && ld.X == ssa.Value(stt.cell) {
						return true
					}
					return false
				}
				sites := drainSites(fn, isCh)
				if len(sites) == 0 {
					bad = append(bad, "the channel handed to the producer is never ranged over")
				}
				allInstrs(fn, func(i2 ssa.Instruction) {
					switch y := i2.(type) {
					case *ssa.Return:
						if instrReachableFrom(g, y) && !drainedAt(y.Block(), sites) {
							bad = append(bad, "return at "+w.InstrPos(y)+" is reachable before the producer's channel is exhausted (producer left blocked, later results lost)")
						}
					case *ssa.Call:
						if b, isB := y.Call.Value.(*ssa.Builtin); isB && b.Name() == "close" && len(y.Call.Args) == 1 && isCh(y.Call.Args[0]) {
							bad = append(bad, "the forwarder closes the producer's channel itself at "+w.InstrPos(y))
						}
					case *ssa.Defer:
						if b, isB := y.Call.Value.(*ssa.Builtin); isB && b.Name() == "close" && len(y.Call.Args) == 1 && isCh(y.Call.Args[0]) {
							bad = append(bad, "the forwarder closes the producer's channel itself at "+w.InstrPos(y))
						}
					}
				})
				// the producer must close its parameter on every return
				cs := w.Callees[g]
				if stt.callee != nil {
					cs = []*ssa.Function{stt.callee}
				}
				if len(cs) == 0 {
					bad = append(bad, "producer is not an analysed function")
				}
				for _, callee := range cs {
					pi := stt.param
					if stt.callee == nil {
						pi = argParam(callee, &g.Call, mk)
					}
					if pi == nil {
						bad = append(bad, "channel does not reach the producer as a parameter")
						continue
					}
					sum := cc.analyse(callee, pi, 2, false)
					for _, o := range sum.outcomes {
						if !o.closed {
							bad = append(bad, "producer "+w.FuncName(callee)+" can return without closing the channel")
						}
					}
					for _, v := range sum.viol {
						bad = append(bad, "producer "+w.FuncName(callee)+": "+v.Msg)
					}
				}
				if len(bad) > 0 {
					r.Bad("R20.4", key, w.InstrPos(g), strings.Join(dedupe(bad), "; "))
				} else {
					r.OK("R20.4", key, w.InstrPos(g), fmt.Sprintf("%d drain site(s); every return after the go statement is dominated by channel exhaustion", len(sites)))
				}
			}
		})
	}
}

func fixtureR20(fw *World) []string {
	var fails []string
	impls, _ := fw.implementations("streams", "Interface")
	if len(impls) == 0 {
		return []string{"R20 fixture: no implementations of streams.Interface"}
	}
	cc := &chChecker{w: fw, memo: map[string]*chSummary{}}
	wantKinds := map[string]string{
		"Good":          "",
		"GoodEarly":     "",
		"GoodHelper":    "",
		"NoClose":       "close",
		"DoubleClose":   "close",
		"UnguardedSend": "send",
		"SendAfter":     "send",
		"BreakBefore":   "lastsent",
		"ModifyAfter":   "lastsent",
		"DeferNil":      "close",
		"Escapes":       "escape",
	}
	seenT := map[string]bool{}
	for _, im := range impls {
		tn := im.Type.Obj().Name()
		seenT[tn] = true
		want, ok := wantKinds[tn]
		if !ok {
			continue
		}
		ch := resultChanParam(im.Method)
		sum := cc.analyse(im.Method, ch, 0, true)
		kinds := map[string]bool{}
		for _, v := range sum.viol {
			kinds[v.Kind] = true
		}
		if want == "" && len(sum.viol) > 0 {
			fails = append(fails, fmt.Sprintf("R20 fixture %s: unexpected report %v", tn, sum.viol))
		}
		if want != "" && !kinds[want] {
			fails = append(fails, fmt.Sprintf("R20 fixture %s: expected a %q report, got %v", tn, want, sum.viol))
		}
	}
	for tn := range wantKinds {
		if !seenT[tn] {
			fails = append(fails, "R20 fixture: type "+tn+" missing")
		}
	}
	return fails
}

// onlyReceivesFrom: every use of the channel parameter (directly or through the cell it is spilled into) is a
// receive, alone or as a case of a select; the function has a body and uses the parameter.
func onlyReceivesFrom(p *ssa.Parameter) bool {
	if p.Parent() == nil || len(p.Parent().Blocks) == 0 || p.Referrers() == nil {
		return false
	}
	uses := 0
	var check func(v ssa.Value, depth int) bool
	check = func(v ssa.Value, depth int) bool {
		refs := v.Referrers()
		if refs == nil || depth > 3 {
			return false
		}
		for _, ref := range *refs {
			switch x := ref.(type) {
			case *ssa.DebugRef:
			case *ssa.UnOp:
				switch {
				case x.Op == token.ARROW && x.X == v:
					uses++
				case x.Op == token.MUL && x.X == v:
					if !check(x, depth+1) {
						return false
					}
				default:
					return false
				}
			case *ssa.Select:
				for _, st := range x.States {
					if st.Chan == v {
						if st.Dir != types.RecvOnly {
							return false
						}
						uses++
					}
				}
			case *ssa.Store:
				// spilled into a local cell (captured by a function literal or addressed)
				al, ok := x.Addr.(*ssa.Alloc)
				if !ok || x.Val != v {
					return false
				}
				for _, r2 := range *al.Referrers() {
					switch y := r2.(type) {
					case *ssa.Store:
						if y != x {
							return false
						}
					case *ssa.UnOp:
						if y.Op != token.MUL || !check(y, depth+1) {
							return false
						}
					case *ssa.DebugRef:
					default:
						return false
					}
				}
			default:
				return false
			}
		}
		return true
	}
	return check(p, 0) && uses > 0
}
