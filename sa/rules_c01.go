package main

import (
	"fmt"
	"go/token"
	"sort"
	"strings"

	"golang.org/x/tools/go/ssa"
)

func init() {
	register(&property{
		ID:          "C01",
		Explanation: "(R1.1) Solver.Solve can only return Sat or Unsat: the range of every value that can flow into the status, minus what the loop guard excludes, is {Sat, Unsat}, on every path; (R1.2) every clause stored in the clause database (problem clauses and learned clauses) is registered in the watch lists by the function that stores it; (R1.4) every learned clause dropped from the database is removed from the watch lists in the same step; (R1.5) the model published by Solve is a fresh copy taken when Sat is concluded, never an alias of the working assignment.",
		NotDecided:  "that the verdict is right and the model satisfies every clause: this depends on watch positions, learning, restarts and deletion timing, i.e. on the search history.",
		Rules:       []ruleFn{ruleR1_1, ruleR1_2, ruleR1_4, ruleR1_5, ruleR1_7, ruleR1_8, ruleR1_9, ruleR1_10, ruleR1_11, ruleR1_12, ruleR1_13, ruleR2_2, ruleR2_6, ruleR2_7, ruleR2_8, ruleR14_3, ruleR13_7, ruleR1_14, ruleR1_15, ruleR1_16, ruleR13_12},
	})
}

// ---------- finite-domain range analysis for solver.Status ----------

type statusRange map[int64]bool

func (a statusRange) addAll(b statusRange) bool {
	ch := false
	for k := range b {
		if !a[k] {
			a[k] = true
			ch = true
		}
	}
	return ch
}

func (a statusRange) names(w *World) string {
	var out []string
	for k := range a {
		n := fmt.Sprint(k)
		for _, c := range []string{"Indet", "Sat", "Unsat", "Unit", "Many"} {
			if v, ok := w.statusConst(c); ok && v == k {
				n = c
			}
		}
		if k == -1 {
			n = "unknown"
		}
		out = append(out, n)
	}
	sort.Strings(out)
	return "{" + strings.Join(out, ", ") + "}"
}

type statusAnalysis struct {
	w      *World
	fns    map[*ssa.Function]bool
	ret    map[*ssa.Function]statusRange
	stored statusRange // everything stored into Solver.status by the functions considered
}

func (sa *statusAnalysis) valueRange(v ssa.Value, depth int) statusRange {
	out := statusRange{}
	if depth > 8 {
		out[-1] = true
		return out
	}
	switch x := v.(type) {
	case *ssa.Const:
		if k, ok := constInt(x); ok {
			out[k] = true
			return out
		}
	case *ssa.Phi:
		for _, e := range x.Edges {
			out.addAll(sa.valueRange(e, depth+1))
		}
		return out
	case *ssa.Call:
		cs := sa.w.Callees[x]
		if len(cs) == 0 {
			out[-1] = true
			return out
		}
		for _, c := range cs {
			if r, ok := sa.ret[c]; ok {
				out.addAll(r)
			} else {
				out[-1] = true
			}
		}
		return out
	case *ssa.UnOp:
		if x.Op == token.MUL {
			if q := qualField(x.X); q == "solver.Solver.status" {
				out.addAll(sa.stored)
				return out
			}
			if q := qualField(x.X); q == "solver.Problem.Status" {
				// set by the parsers: Indet, Sat or Unsat
				for _, c := range []string{"Indet", "Sat", "Unsat"} {
					if v, ok := sa.w.statusConst(c); ok {
						out[v] = true
					}
				}
				return out
			}
		}
	case *ssa.Convert:
		return sa.valueRange(x.X, depth+1)
	case *ssa.ChangeType:
		return sa.valueRange(x.X, depth+1)
	}
	out[-1] = true
	return out
}

func newStatusAnalysis(w *World, fns map[*ssa.Function]bool) *statusAnalysis {
	sa := &statusAnalysis{w: w, fns: fns, ret: map[*ssa.Function]statusRange{}, stored: statusRange{}}
	isStatus := func(fn *ssa.Function) bool {
		r := fn.Signature.Results()
		return r.Len() == 1 && typeShort(r.At(0).Type()) == "solver.Status"
	}
	for fn := range fns {
		if isStatus(fn) {
			sa.ret[fn] = statusRange{}
		}
	}
	for changed := true; changed; {
		changed = false
		for fn := range fns {
			allInstrs(fn, func(ins ssa.Instruction) {
				switch x := ins.(type) {
				case *ssa.Return:
					if r, ok := sa.ret[fn]; ok && len(x.Results) == 1 {
						if r.addAll(sa.valueRange(x.Results[0], 0)) {
							changed = true
						}
					}
				case *ssa.Store:
					if qualField(x.Addr) == "solver.Solver.status" {
						if sa.stored.addAll(sa.valueRange(x.Val, 0)) {
							changed = true
						}
					}
				}
			})
		}
	}
	return sa
}

// statusTest recognises `load(s.status) == K` / `!= K` conditions.
// returnsStatusField: v is the result of a call of a Solver method every return of which hands back the status field
// as it is at that moment (`for s.search() == Indet`): comparing the result is comparing the status.
func returnsStatusField(v ssa.Value) bool {
	c, ok := v.(*ssa.Call)
	if !ok {
		return false
	}
	f := c.Call.StaticCallee()
	if f == nil || len(f.Blocks) == 0 || f.Signature.Results().Len() != 1 || typeShort(f.Signature.Results().At(0).Type()) != "solver.Status" {
		return false
	}
	n, all := 0, true
	allInstrs(f, func(ins ssa.Instruction) {
		ret, isRet := ins.(*ssa.Return)
		if !isRet || ret.Block() == f.Recover {
			return
		}
		n++
		rv := ret.Results[0]
		// through a defer-spilled result cell
		if u, isU := rv.(*ssa.UnOp); isU && u.Op == token.MUL {
			if al, isAl := u.X.(*ssa.Alloc); isAl {
				stores, zero := reachingStores(u, al, -1)
				if zero || len(stores) == 0 {
					all = false
					return
				}
				for _, st := range stores {
					if _, isF := isFieldLoad(st.Val, "solver.Solver", "status"); !isF {
						all = false
					}
				}
				return
			}
		}
		if _, isF := isFieldLoad(rv, "solver.Solver", "status"); !isF {
			all = false
		}
	})
	return all && n > 0
}

func statusTest(cond ssa.Value) (k int64, eq bool, ok bool) {
	bo, isB := cond.(*ssa.BinOp)
	if !isB || (bo.Op != token.EQL && bo.Op != token.NEQ) {
		return 0, false, false
	}
	x, y := bo.X, bo.Y
	if _, isC := x.(*ssa.Const); isC {
		x, y = y, x
	}
	if _, isF := isFieldLoad(x, "solver.Solver", "status"); !isF && !returnsStatusField(x) {
		return 0, false, false
	}
	k, isK := constInt(y)
	if !isK {
		return 0, false, false
	}
	return k, bo.Op == token.EQL, true
}

func ruleR1_1(w *World, r *Report) {
	r.Rule("R1.1", "every value returned by Solver.Solve is the status field read on a path where a dominating test has excluded Indet (or pinned it to Unsat/Sat) with no write of the status in between, and the values that can be stored into the status by code reachable from Solve are Indet, Sat and Unsat only", 2)
	solve := w.Func("solver", "Solver.Solve")
	if solve == nil {
		r.Unk("R1.1", "solver.(*Solver).Solve", "-", "method not found")
		return
	}
	reach := w.Reachable(solve)
	// the New constructor also initialises the status (from the problem)
	if ctor := w.Func("solver", "New"); ctor != nil {
		for f := range w.Reachable(ctor) {
			reach[f] = true
		}
	}
	sa := newStatusAnalysis(w, reach)
	indet, _ := w.statusConst("Indet")
	sat, _ := w.statusConst("Sat")
	unsat, _ := w.statusConst("Unsat")
	allowed := statusRange{indet: true, sat: true, unsat: true}
	extra := statusRange{}
	for k := range sa.stored {
		if !allowed[k] {
			extra[k] = true
		}
	}
	r.Check(len(extra) == 0, "R1.1", "values stored into Solver.status by code reachable from Solve", w.Pos(solve.Pos()),
		"range "+sa.stored.names(w), "the status can receive "+extra.names(w)+" besides Indet/Sat/Unsat")
	eff := w.effects()
	n := 0
	allInstrs(solve, func(ins ssa.Instruction) {
		ret, ok := ins.(*ssa.Return)
		if !ok || ret.Block() == solve.Recover || len(ret.Results) != 1 {
			return
		}
		n++
		key0 := fmt.Sprintf("(*solver.Solver).Solve return #%d", n)
		// a function with defers spills its result into a cell: look through it
		type source struct {
			v  ssa.Value
			at ssa.Instruction
		}
		var sources []source
		if u, ok := ret.Results[0].(*ssa.UnOp); ok && u.Op == token.MUL {
			if al, ok := u.X.(*ssa.Alloc); ok {
				stores, zero := reachingStores(u, al, -1)
				for _, st := range stores {
					sources = append(sources, source{st.Val, st})
				}
				if zero {
					r.Bad("R1.1", key0, w.InstrPos(ret), "the result cell may be returned unassigned (zero value = Indet)")
				}
			}
		}
		if len(sources) == 0 {
			sources = []source{{ret.Results[0], ret}}
		}
		for si, src := range sources {
			key := key0
			if len(sources) > 1 {
				key = fmt.Sprintf("%s source #%d", key0, si+1)
			}
			v := src.v
			if k, ok := constInt(v); ok {
				r.Check(k == sat || k == unsat, "R1.1", key, w.InstrPos(ret), "constant Sat/Unsat", "Solve returns a constant that is neither Sat nor Unsat")
				continue
			}
			if _, ok := isFieldLoad(v, "solver.Solver", "status"); !ok {
				rg := sa.valueRange(v, 0)
				okr := true
				for k := range rg {
					if k != sat && k != unsat {
						okr = false
					}
				}
				r.Check(okr, "R1.1", key, w.InstrPos(ret), "range "+rg.names(w), "Solve can return "+rg.names(w))
				continue
			}
			load := v.(ssa.Instruction)
			// find a dominating status test that excludes Indet and is not followed by a status write
			good := ""
			var why []string
			for _, ec := range dominatingConds(load.Block()) {
				k, eq, ok := statusTest(ec.Cond)
				if !ok {
					continue
				}
				holdsEq := eq == ec.True // on this edge: status == k (true) or status != k (false)
				excludesIndet := (holdsEq && (k == sat || k == unsat)) || (!holdsEq && k == indet)
				if !excludesIndet {
					continue
				}
				// no write of the status between the test edge and the load
				var target *ssa.BasicBlock
				if ec.True {
					target = ec.If.Block().Succs[0]
				} else {
					target = ec.If.Block().Succs[1]
				}
				between := blocksBetween(target, load.Block(), ec.If.Block())
				wr := ""
				for b := range between {
					for _, i2 := range b.Instrs {
						if b == load.Block() && !instrDominates(i2, load) && i2 != load {
							continue
						}
						switch y := i2.(type) {
						case *ssa.Store:
							if qualField(y.Addr) == "solver.Solver.status" {
								wr = "status written at " + w.InstrPos(y)
							}
						case ssa.CallInstruction:
							for _, c := range w.Callees[y] {
								if eff.Writes(c, "solver.Solver.status") {
									wr = "call of " + w.FuncName(c) + " at " + w.InstrPos(y) + " may write the status"
								}
							}
						}
					}
				}
				if wr != "" {
					why = append(why, wr)
					continue
				}
				if holdsEq {
					good = "status pinned by a dominating == test"
				} else {
					good = "Indet excluded by the loop guard; remaining range " + sa.stored.names(w) + " minus Indet"
				}
			}
			if good != "" {
				r.OK("R1.1", key, w.InstrPos(ret), good)
			} else {
				d := "the status is returned on a path where nothing excludes Indet"
				if len(why) > 0 {
					d += " (" + strings.Join(dedupe(why), "; ") + ")"
				}
				r.Bad("R1.1", key, w.InstrPos(ret), d+": Solve may answer Indet")
			}
		}
	})
}

// blocksBetween: blocks on some path from `from` to `to` that does not pass through `avoid`.
func blocksBetween(from, to, avoid *ssa.BasicBlock) map[*ssa.BasicBlock]bool {
	fwd := map[*ssa.BasicBlock]bool{}
	var f func(b *ssa.BasicBlock)
	f = func(b *ssa.BasicBlock) {
		if fwd[b] || b == avoid {
			return
		}
		fwd[b] = true
		for _, s := range b.Succs {
			f(s)
		}
	}
	f(from)
	bwd := map[*ssa.BasicBlock]bool{}
	var g func(b *ssa.BasicBlock)
	g = func(b *ssa.BasicBlock) {
		if bwd[b] || b == avoid {
			return
		}
		bwd[b] = true
		for _, p := range b.Preds {
			g(p)
		}
	}
	g(to)
	out := map[*ssa.BasicBlock]bool{}
	for b := range fwd {
		if bwd[b] {
			out[b] = true
		}
	}
	return out
}

// ---------- R1.2 store => watch ----------

// isWatcher: a method taking a *Clause that (transitively) appends to the per-literal watch lists.
func watchers(w *World, eff *Effects) map[*ssa.Function]bool {
	out := map[*ssa.Function]bool{}
	for _, fn := range w.Fns {
		if w.PkgName(fn) != "solver" {
			continue
		}
		hasClause := false
		for _, p := range fn.Params[min1(len(fn.Params)):] {
			if typeShort(p.Type()) == "*solver.Clause" {
				hasClause = true
			}
		}
		if !hasClause {
			continue
		}
		grows := false
		for g := range w.Reachable(fn) {
			for _, gs := range growthSites(g) {
				// appends to an element of a watch list: the store address is an IndexAddr into wlist*, not a field
				_ = gs
			}
			allInstrs(g, func(ins ssa.Instruction) {
				st, ok := ins.(*ssa.Store)
				if !ok {
					return
				}
				ia, ok := st.Addr.(*ssa.IndexAddr)
				if !ok {
					return
				}
				for _, f := range []string{"wlist", "wlistBin", "wlistPb", "wlistCardAMO"} {
					if _, ok := isFieldLoad(ia.X, "solver.watcherList", f); ok {
						if c, ok := st.Val.(*ssa.Call); ok {
							if b, ok := c.Call.Value.(*ssa.Builtin); ok && b.Name() == "append" {
								grows = true
							}
						}
					}
				}
			})
		}
		if grows {
			out[fn] = true
		}
	}
	return out
}

func min1(n int) int {
	if n > 0 {
		return 1
	}
	return 0
}

// unwatchers: methods taking a *Clause that shrink entries of the watch lists.
func unwatchers(w *World) map[*ssa.Function]bool {
	out := map[*ssa.Function]bool{}
	for _, fn := range w.Fns {
		if w.PkgName(fn) != "solver" || fn.Signature.Recv() == nil || fn.Signature.Params().Len() != 1 || typeShort(fn.Signature.Params().At(0).Type()) != "*solver.Clause" {
			continue
		}
		shrinks := false
		allInstrs(fn, func(ins ssa.Instruction) {
			st, ok := ins.(*ssa.Store)
			if !ok {
				return
			}
			ia, ok := st.Addr.(*ssa.IndexAddr)
			if !ok {
				return
			}
			for _, f := range []string{"wlist", "wlistBin", "wlistPb", "wlistCardAMO"} {
				if _, ok := isFieldLoad(ia.X, "solver.watcherList", f); ok {
					// the shortened list itself, or the result of a helper that returns it (`= removeFrom(list, c)`)
					for _, leaf := range w.resultLeaves(st.Val) {
						if sl, ok := leaf.(*ssa.Slice); ok && sl.High != nil {
							shrinks = true
						}
					}
				}
			}
		})
		// a function that also files the clause under a watch list is a re-watcher (updateWatchPB), not an unwatcher
		grows := false
		allInstrs(fn, func(ins ssa.Instruction) {
			st, ok := ins.(*ssa.Store)
			if !ok {
				return
			}
			c, ok := st.Val.(*ssa.Call)
			if !ok {
				return
			}
			if b, isB := c.Call.Value.(*ssa.Builtin); !isB || b.Name() != "append" {
				return
			}
			// through `wlist[x] = append(...)` or a pointer to the element (`ni := &wlist[x]; *ni = append(*ni, c)`)
			if strings.Contains(chainOf(st.Addr), ".wlist") {
				grows = true
			}
		})
		if shrinks && !grows {
			out[fn] = true
		}
	}
	return out
}

func ruleR1_2(w *World, r *Report) {
	r.Rule("R1.2", "every function that stores a clause into watcherList.origClauses or watcherList.learned registers that same clause in the watch lists (the constructor: every clause of the slice it copies)", 3)
	eff := w.effects()
	ws := watchers(w, eff)
	if len(ws) == 0 {
		r.Unk("R1.2", "watch function", "-", "no function of package solver takes a *Clause and appends to the watch lists")
		return
	}
	callsWatchOn := func(fn *ssa.Function, x ssa.Value, st ssa.Instruction) bool {
		for _, ci := range callsIn(fn) {
			for _, c := range w.Callees[ci] {
				if ws[c] {
					for _, a := range ci.Common().Args {
						if a == x && alwaysExecutedWith(ci, st) {
							return true
						}
					}
				}
			}
		}
		return false
	}
	for _, fn := range w.Fns {
		if w.PkgName(fn) != "solver" {
			continue
		}
		for _, gs := range growthSites(fn) {
			if gs.Field != "solver.watcherList.origClauses" && gs.Field != "solver.watcherList.learned" {
				continue
			}
			key := fmt.Sprintf("%s stores into %s", w.FuncName(fn), strings.TrimPrefix(gs.Field, "solver.watcherList."))
			x := appendedElem(gs.Store.Val.(*ssa.Call))
			if x == nil {
				r.Unk("R1.2", key, w.InstrPos(gs.Store), "cannot identify the stored clause")
				continue
			}
			r.Check(callsWatchOn(fn, x, gs.Store), "R1.2", key, w.InstrPos(gs.Store), "the same clause is passed to the watch function",
				"a clause is added to the clause database without being watched: it never propagates and never raises a conflict, so models violating it can be returned")
		}
		// whole-slice stores (the constructor)
		allInstrs(fn, func(ins ssa.Instruction) {
			st, ok := ins.(*ssa.Store)
			if !ok {
				return
			}
			q := qualField(st.Addr)
			if q != "solver.watcherList.origClauses" && q != "solver.watcherList.learned" {
				return
			}
			if c, ok := st.Val.(*ssa.Call); ok {
				if b, ok := c.Call.Value.(*ssa.Builtin); ok && b.Name() == "append" {
					return // handled above
				}
			}
			if _, ok := st.Val.(*ssa.Slice); ok {
				return // shrinking
			}
			key := fmt.Sprintf("%s initialises %s", w.FuncName(fn), strings.TrimPrefix(q, "solver.watcherList."))
			mk, ok := st.Val.(*ssa.MakeSlice)
			if !ok {
				if k, ok := st.Val.(*ssa.Const); ok && k.IsNil() {
					return
				}
				r.Bad("R1.2", key, w.InstrPos(st), "the clause list is replaced by a slice of unknown content")
				return
			}
			// copy(mk, src) and a range over src (or mk) that watches each element
			var src ssa.Value
			for _, rr := range *mk.Referrers() {
				if c, ok := rr.(*ssa.Call); ok {
					if b, ok := c.Call.Value.(*ssa.Builtin); ok && b.Name() == "copy" && c.Call.Args[0] == ssa.Value(mk) {
						src = c.Call.Args[1]
					}
				}
			}
			if src == nil {
				r.Bad("R1.2", key, w.InstrPos(st), "the clause list is allocated but not filled by a copy")
				return
			}
			watched := false
			for _, ci := range callsIn(fn) {
				for _, c := range w.Callees[ci] {
					if !ws[c] || !inLoop(fn, ci.Block()) {
						continue
					}
					for _, a := range ci.Common().Args {
						if u, ok := a.(*ssa.UnOp); ok && u.Op == token.MUL {
							if ia, ok := u.X.(*ssa.IndexAddr); ok && (ia.X == src || ia.X == ssa.Value(mk)) {
								// full range: the index runs from 0 to the length of the same slice
								same := func(x ssa.Value) bool { return x == src || x == ssa.Value(mk) }
								if fullRangeIndex(ia.Index, func(b ssa.Value) bool { return isLenOf(b, same) }) {
									watched = true
								}
							}
						}
					}
				}
			}
			r.Check(watched, "R1.2", key, w.InstrPos(st), "every element of the copied slice is passed to the watch function in a loop",
				"the initial clauses are stored without being watched")
		})
	}
}

// R1.4: deletion from learned pairs with unwatch.
func ruleR1_4(w *World, r *Report) {
	r.Rule("R1.4", "in every function that shrinks watcherList.learned, each learned clause that is overwritten (dropped) is passed to the function that removes it from the watch lists", 2)
	uw := unwatchers(w)
	if len(uw) == 0 {
		r.Unk("R1.4", "unwatch function", "-", "no method of Solver takes a *Clause and shrinks watch lists")
		return
	}
	for _, fn := range w.Fns {
		if w.PkgName(fn) != "solver" {
			continue
		}
		shrinks := false
		for _, st := range storesToField(fn, "solver.watcherList", "learned") {
			if sl, ok := st.Val.(*ssa.Slice); ok && sl.High != nil {
				shrinks = true
				// the list is cut by exactly the number of clauses dropped: high = len(learned) - (counter of drops)
				key := fmt.Sprintf("%s truncates the learned list by the number dropped", w.FuncName(fn))
				lf := lfOf(sl.High, 0)
				lenTerms, minusPhi := 0, 0
				vals := valueByName(fn)
				for k, v := range lf.terms {
					switch {
					case v == 1 && strings.HasPrefix(k, "len(") && strings.Contains(k, "learned"):
						lenTerms++
					case v == -1:
						if phi, ok := vals[k].(*ssa.Phi); ok && isUnitCounter(phi) {
							minusPhi++
						}
					case v != 0:
						lenTerms = -10
					}
				}
				r.Check(lf.c == 0 && lenTerms == 1 && minusPhi == 1, "R1.4", key, w.InstrPos(st), "high bound = len(learned) - number dropped",
					"the learned list is not shortened by the number of clauses dropped (bound "+lf.String()+"): dropped clauses stay in the list (and are unwatched a second time later) or live ones are cut off")
			}
		}
		if !shrinks {
			continue
		}
		n := 0
		allInstrs(fn, func(ins ssa.Instruction) {
			st, ok := ins.(*ssa.Store)
			if !ok {
				return
			}
			ia, ok := st.Addr.(*ssa.IndexAddr)
			if !ok {
				return
			}
			if _, ok := isFieldLoad(ia.X, "solver.watcherList", "learned"); !ok {
				return
			}
			n++
			key := fmt.Sprintf("%s drops a learned clause #%d", w.FuncName(fn), n)
			// the dropped clause: a load of learned[sameIndex] that dominates the store
			okPair := false
			for _, ci := range callsIn(fn) {
				for _, c := range w.Callees[ci] {
					if !uw[c] {
						continue
					}
					for _, a := range ci.Common().Args {
						u, ok := a.(*ssa.UnOp)
						if !ok || u.Op != token.MUL {
							continue
						}
						ia2, ok := u.X.(*ssa.IndexAddr)
						if !ok || ia2.Index != ia.Index {
							continue
						}
						if _, ok := isFieldLoad(ia2.X, "solver.watcherList", "learned"); !ok {
							continue
						}
						// the load happened before the overwrite; the unwatch call is in the same block as the overwrite
						if instrDominates(u, st) && ci.Block() == st.Block() {
							okPair = true
						}
					}
				}
			}
			r.Check(okPair, "R1.4", key, w.InstrPos(st), "the clause previously at that index is unwatched in the same step",
				"a learned clause is dropped from the database but left in the watch lists (or another clause is unwatched instead): the watch lists and the database disagree")
		})
	}
}

// R1.5: the published model is a fresh copy.
func ruleR1_5(w *World, r *Report) {
	r.Rule("R1.5", "Solver.Solve, on the path where the status is Sat, stores a freshly allocated slice of len(model) into lastModel and copies model into it; Model() builds its result from lastModel into a fresh slice of nbVars entries", 2)
	solve := w.Func("solver", "Solver.Solve")
	model := w.Func("solver", "Solver.Model")
	if solve == nil || model == nil {
		r.Unk("R1.5", "anchors", "-", "Solver.Solve or Solver.Model not found")
		return
	}
	sat, _ := w.statusConst("Sat")
	{
		key := "(*solver.Solver).Solve snapshots the model"
		var bad []string
		stores := storesToField(solve, "solver.Solver", "lastModel")
		// the snapshot may be taken by a helper called under status == Sat: then the helper must allocate and copy
		// unconditionally, and the call is what has to sit under the Sat test
		type site struct {
			st *ssa.Store
			at ssa.Instruction // where, in Solve, the snapshot happens (the store itself or the helper call)
			in *ssa.Function
		}
		var sites []site
		for _, st := range stores {
			sites = append(sites, site{st, st, solve})
		}
		for _, ci := range callsIn(solve) {
			call, ok := ci.(*ssa.Call)
			if !ok {
				continue
			}
			for _, c := range w.Callees[call] {
				for _, st := range storesToField(c, "solver.Solver", "lastModel") {
					if st.Block() == c.Blocks[0] || alwaysExecutedWith(st, c.Blocks[0].Instrs[0]) {
						sites = append(sites, site{st, call, c})
					}
				}
			}
		}
		if len(sites) == 0 {
			bad = append(bad, "Solve never records the model it found: Model() returns a previous or no model")
		}
		stores = nil
		atOf := map[*ssa.Store]ssa.Instruction{}
		for _, s := range sites {
			stores = append(stores, s.st)
			atOf[s.st] = s.at
		}
		for _, st := range stores {
			mk, ok := st.Val.(*ssa.MakeSlice)
			if !ok {
				bad = append(bad, "lastModel is assigned something that is not a fresh slice at "+w.InstrPos(st)+" (aliasing the working assignment lets later search change the published model)")
				continue
			}
			lenOK := false
			if c, ok := mk.Len.(*ssa.Call); ok {
				if b, ok := c.Call.Value.(*ssa.Builtin); ok && b.Name() == "len" {
					if _, ok := isFieldLoad(c.Call.Args[0], "solver.Solver", "model"); ok {
						lenOK = true
					}
				}
			}
			if !lenOK {
				bad = append(bad, "the snapshot at "+w.InstrPos(st)+" is not allocated with len(model)")
			}
			// under status == Sat
			under := false
			at := atOf[st]
			for _, ec := range dominatingConds(at.Block()) {
				if k, eq, ok := statusTest(ec.Cond); ok && k == sat && eq == ec.True {
					under = true
				}
			}
			if !under {
				bad = append(bad, "the snapshot at "+w.InstrPos(st)+" is not taken under status == Sat")
			}
			// ... and unconditionally so: every path through the Sat branch allocates a new snapshot
			for _, ec := range dominatingConds(at.Block()) {
				if k, eq, ok := statusTest(ec.Cond); ok && k == sat && eq == ec.True {
					succ := ec.If.Block().Succs[0]
					if !ec.True {
						succ = ec.If.Block().Succs[1]
					}
					if !alwaysExecutedWith(at, succ.Instrs[0]) && succ != at.Block() {
						bad = append(bad, "the snapshot is re-allocated only on some paths of the Sat branch (at "+w.InstrPos(st)+"): a snapshot of a previous answer, possibly with fewer variables, is reused")
					}
				}
			}
			// copy(load lastModel, load model) after the store, in the same block
			copied := false
			for _, ins := range st.Block().Instrs {
				c, ok := ins.(*ssa.Call)
				if !ok || !instrDominates(st, c) {
					continue
				}
				if b, ok := c.Call.Value.(*ssa.Builtin); ok && b.Name() == "copy" {
					_, d := isFieldLoad(c.Call.Args[0], "solver.Solver", "lastModel")
					_, s := isFieldLoad(c.Call.Args[1], "solver.Solver", "model")
					if (d || c.Call.Args[0] == ssa.Value(mk)) && s {
						copied = true
					}
				}
			}
			if !copied {
				bad = append(bad, "model is not copied into the snapshot allocated at "+w.InstrPos(st))
			}
		}
		// every Sat exit passes the snapshot: the false edge of the loop guard leads to the `== Sat` test
		if len(bad) > 0 {
			r.Bad("R1.5", key, w.Pos(solve.Pos()), strings.Join(dedupe(bad), "; "))
		} else {
			r.OK("R1.5", key, w.InstrPos(stores[0]), "fresh slice of len(model), filled by copy, under status == Sat")
		}
	}
	{
		key := "(*solver.Solver).Model returns a fresh slice per variable"
		var bad []string
		allInstrs(model, func(ins ssa.Instruction) {
			ret, ok := ins.(*ssa.Return)
			if !ok || len(ret.Results) != 1 {
				return
			}
			mk, ok := ret.Results[0].(*ssa.MakeSlice)
			if !ok {
				bad = append(bad, "the result at "+w.InstrPos(ret)+" is not a slice allocated by Model itself")
				return
			}
			if countMultiple(mk.Len) != 1 {
				bad = append(bad, "the result is not allocated with one entry per declared variable (nbVars)")
			}
		})
		// values come from lastModel
		reads := false
		allInstrs(model, func(ins ssa.Instruction) {
			if u, ok := ins.(*ssa.UnOp); ok && u.Op == token.MUL && qualField(u.X) == "solver.Solver.lastModel" {
				reads = true
			}
			if u, ok := ins.(*ssa.UnOp); ok && u.Op == token.MUL && qualField(u.X) == "solver.Solver.model" {
				bad = append(bad, "Model reads the working assignment at "+w.InstrPos(u)+" instead of the snapshot")
			}
		})
		if !reads {
			bad = append(bad, "Model does not read the snapshot")
		}
		if len(bad) > 0 {
			r.Bad("R1.5", key, w.Pos(model.Pos()), strings.Join(dedupe(bad), "; "))
		} else {
			r.OK("R1.5", key, w.Pos(model.Pos()), "make([]bool, nbVars) filled from lastModel")
		}
	}
}
