package main

func runBattery(id, repo string) interface{} { return nil }

func runVariant(prop, variant, repo string) int { return 2 }
