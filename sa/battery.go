package main

import (
	"encoding/json"
	"fmt"
	"os"
	"os/exec"
	"path/filepath"
	"sort"
	"strings"
	"sync"
)

// A seed is a source variant applied in memory through packages.Config.Overlay: one instance of a rule broken
// (Expect names the rule that must report it) or a behaviour-preserving edit (Expect == "": must stay silent).
// The battery validates the checker, never the tree: an unkilled seed is a checker weakness reported in the
// evidence, not a VIOLATION. Seeds whose anchor text no longer exists are skipped and counted.
type seed struct {
	Prop   string
	Name   string
	File   string // relative to the repository root
	Old    string
	New    string
	Expect string // rule id(s), comma separated, one of which must be violated/undecided; "" for benign
	Note   string
	More   []edit // further edits of the same variant (e.g. a declaration the first edit needs)
}

type edit struct{ File, Old, New string }

var seeds []seed

func addSeeds(s ...seed) { seeds = append(seeds, s...) }

type variantResult struct {
	Name    string   `json:"name"`
	Expect  string   `json:"expect"`
	Applied bool     `json:"applied"`
	Fired   []string `json:"fired"`
	Outcome string   `json:"outcome"` // killed | missed | silent | false-alarm | skipped | error
	Detail  string   `json:"detail,omitempty"`
	Note    string   `json:"note,omitempty"`
}

// runVariant analyses one seeded variant and prints a JSON variantResult on stdout.
func runVariant(prop, name, repo string) int {
	var sd *seed
	for i := range seeds {
		if seeds[i].Prop == prop && seeds[i].Name == name {
			sd = &seeds[i]
		}
	}
	res := variantResult{Name: name}
	emit := func() int {
		b, _ := json.Marshal(res)
		fmt.Println(string(b))
		return 0
	}
	if sd == nil {
		res.Outcome = "error"
		res.Detail = "unknown seed"
		return emit()
	}
	res.Expect, res.Note = sd.Expect, sd.Note
	overlay := map[string][]byte{}
	for _, e := range append([]edit{{sd.File, sd.Old, sd.New}}, sd.More...) {
		path := filepath.Join(repo, e.File)
		src, ok := overlay[path]
		if !ok {
			var err error
			src, err = os.ReadFile(path)
			if err != nil {
				res.Outcome = "skipped"
				res.Detail = err.Error()
				return emit()
			}
		}
		if strings.Count(string(src), e.Old) != 1 {
			res.Outcome = "skipped"
			res.Detail = fmt.Sprintf("anchor text occurs %d time(s) in %s", strings.Count(string(src), e.Old), e.File)
			return emit()
		}
		overlay[path] = []byte(strings.Replace(string(src), e.Old, e.New, 1))
	}
	res.Applied = true
	p := properties[prop]
	cr := analyse(p, LoadOpts{Dir: repo, Overlay: overlay})
	if cr.Err != nil {
		res.Outcome = "error"
		res.Detail = cr.Err.Error()
		if len(res.Detail) > 400 {
			res.Detail = res.Detail[:400]
		}
		return emit()
	}
	known, _ := readKnown(filepath.Join(filepath.Dir(filepath.Dir(os.Args[0])), "known_findings.txt"))
	open := map[string]bool{}
	for _, k := range known {
		if k.Kind == "open" && k.Property == prop {
			open[k.Key] = true
		}
	}
	fired := map[string]bool{}
	for _, ob := range cr.Report.Obs {
		if ob.status != Discharged && !open[ob.Key()] {
			fired[ob.Rule] = true
			if res.Detail == "" {
				res.Detail = ob.Key() + ": " + ob.Detail
				if len(res.Detail) > 300 {
					res.Detail = res.Detail[:300]
				}
			}
		}
	}
	for r := range fired {
		res.Fired = append(res.Fired, r)
	}
	sort.Strings(res.Fired)
	switch {
	case sd.Expect == "" && len(fired) == 0:
		res.Outcome = "silent"
	case sd.Expect == "":
		res.Outcome = "false-alarm"
	default:
		hit := false
		for r := range fired {
			for _, e := range strings.Split(sd.Expect, ",") {
				if r == e {
					hit = true
				}
			}
		}
		if hit {
			res.Outcome = "killed"
		} else if len(fired) > 0 {
			res.Outcome = "killed-by-other-rule"
		} else {
			res.Outcome = "missed"
		}
	}
	return emit()
}

// runBattery runs every seed of the property, one subprocess per variant (bounds memory), 8 at a time.
func runBattery(id, repo string) interface{} {
	var mine []seed
	for _, s := range seeds {
		if s.Prop == id {
			mine = append(mine, s)
		}
	}
	results := make([]variantResult, len(mine))
	sem := make(chan struct{}, 8)
	var wg sync.WaitGroup
	for i, s := range mine {
		wg.Add(1)
		go func(i int, s seed) {
			defer wg.Done()
			sem <- struct{}{}
			defer func() { <-sem }()
			cmd := exec.Command(os.Args[0], "-property", id, "-variant", s.Name, "-repo", repo)
			out, err := cmd.Output()
			var vr variantResult
			if err != nil || json.Unmarshal(lastLine(out), &vr) != nil {
				vr = variantResult{Name: s.Name, Expect: s.Expect, Outcome: "error", Detail: fmt.Sprintf("%v: %s", err, truncate(string(out), 300))}
			}
			results[i] = vr
		}(i, s)
	}
	wg.Wait()
	count := map[string]int{}
	for _, r := range results {
		count[r.Outcome]++
	}
	return map[string]interface{}{
		"note":     "seeded variants analysed through an in-memory overlay; validates the checker, not the tree",
		"variants": results,
		"summary":  count,
	}
}

func lastLine(b []byte) []byte {
	lines := strings.Split(strings.TrimSpace(string(b)), "\n")
	return []byte(lines[len(lines)-1])
}

func truncate(s string, n int) string {
	if len(s) > n {
		return s[:n]
	}
	return s
}
