package main

// Seed catalogue (DESIGN.md section 9). Old must occur exactly once in File.
func init() {
	addSeeds(
		// ---- C20 ----
		seed{Prop: "C20", Name: "optimal-no-deferred-close", File: "solver/solver.go",
			Old: "func (s *Solver) Optimal(results chan Result, stop chan struct{}) (res Result) {\n\tif results != nil {\n\t\tdefer close(results)\n\t}",
			New: "func (s *Solver) Optimal(results chan Result, stop chan struct{}) (res Result) {", Expect: "R20.1"},
		seed{Prop: "C20", Name: "enumerate-no-deferred-close", File: "solver/solver.go",
			Old: "\tif models != nil {\n\t\tdefer close(models)\n\t}\n", New: "", Expect: "R20.1"},
		seed{Prop: "C20", Name: "optimal-second-close", File: "solver/solver.go",
			Old: "\t\ts.rebuildOrderHeap()\n\t\tstatus = s.Solve()\n\t}\n\treturn res\n}",
			New: "\t\ts.rebuildOrderHeap()\n\t\tstatus = s.Solve()\n\t}\n\tif results != nil {\n\t\tclose(results)\n\t}\n\treturn res\n}", Expect: "R20.1"},
		seed{Prop: "C20", Name: "optimal-break-before-send", File: "solver/solver.go",
			Old: "\t\tif results != nil {\n\t\t\tresults <- res\n\t\t}\n\t\tif cost == 0 {\n\t\t\tbreak\n\t\t}",
			New: "\t\tif cost == 0 {\n\t\t\tbreak\n\t\t}\n\t\tif results != nil {\n\t\t\tresults <- res\n\t\t}", Expect: "R20.2"},
		seed{Prop: "C20", Name: "optimal-unguarded-send", File: "solver/solver.go",
			Old: "\t\tres.Status = Unsat\n\t\tif results != nil {\n\t\t\tresults <- res\n\t\t}",
			New: "\t\tres.Status = Unsat\n\t\tresults <- res", Expect: "R20.1"},
		seed{Prop: "C20", Name: "maxsat-forwarder-returns-early", File: "maxsat/parser.go",
			Old: "\t\tresults <- res\n\t}\n\treturn res // Last result is returned",
			New: "\t\tresults <- res\n\t\tif res.Weight == 0 {\n\t\t\treturn res\n\t\t}\n\t}\n\treturn res // Last result is returned", Expect: "R20.4"},
		seed{Prop: "C20", Name: "maxsat-modify-after-send", File: "maxsat/parser.go",
			Old: "\t\tresults <- res\n\t}\n\treturn res // Last result is returned",
			New: "\t\tresults <- res\n\t\tres.Weight++\n\t}\n\treturn res // Last result is returned", Expect: "R20.2"},
		seed{Prop: "C20", Name: "enumerate-shared-buffer", File: "solver/solver.go",
			Old: "\t\tmodel2 := make([]bool, len(model))\n\t\tcopy(model2, model)\n\t\tch <- model2",
			New: "\t\tch <- model", Expect: "R20.3"},
		seed{Prop: "C20", Name: "model-returns-internal-buffer", File: "solver/solver.go",
			Old: "\tres := make([]bool, s.nbVars)\n\tfor i, lvl := range s.lastModel {",
			New: "\tif len(s.polarity) < s.nbVars {\n\t\ts.polarity = make([]bool, s.nbVars)\n\t}\n\tres := s.polarity[:s.nbVars]\n\tfor i, lvl := range s.lastModel {", Expect: "R20.3"},
		seed{Prop: "C20", Name: "maxsat-send-from-goroutine", File: "maxsat/parser.go",
			Old: "\t\tresults <- res\n\t}\n\treturn res // Last result is returned",
			New: "\t\tr2 := res\n\t\tgo func() { results <- r2 }()\n\t}\n\treturn res // Last result is returned", Expect: "R20.1"},
		seed{Prop: "C20", Name: "benign-nil-test-early-return", File: "solver/solver.go",
			Old: "func (s *Solver) Enumerate(models chan []bool, stop chan struct{}) int {\n\tif models != nil {\n\t\tdefer close(models)\n\t}",
			New: "func (s *Solver) Enumerate(models chan []bool, stop chan struct{}) int {\n\tif models == nil {\n\t\treturn s.CountModels()\n\t}\n\tdefer close(models)", Expect: ""},
		seed{Prop: "C20", Name: "benign-deferred-closure-close", File: "solver/solver.go",
			Old: "func (s *Solver) Optimal(results chan Result, stop chan struct{}) (res Result) {\n\tif results != nil {\n\t\tdefer close(results)\n\t}",
			New: "func (s *Solver) Optimal(results chan Result, stop chan struct{}) (res Result) {\n\tif results != nil {\n\t\tdefer func() { close(results) }()\n\t}", Expect: ""},
		seed{Prop: "C20", Name: "benign-send-helper", File: "solver/solver.go",
			Old: "\t\tres.Status = Unsat\n\t\tif results != nil {\n\t\t\tresults <- res\n\t\t}",
			New: "\t\tres.Status = Unsat\n\t\tif results != nil {\n\t\t\tfunc(c chan Result, r Result) { c <- r }(results, res)\n\t\t}", Expect: ""},

		// ---- C16 ----
		seed{Prop: "C16", Name: "global-scratch-in-cutting-planes", File: "solver/learn_pb.go",
			Old:    "\tseen := make([]bool, s.nbVars) // Was the var seen in the resolution process, making it a candidate for bumping?",
			New:    "\tif len(seenBuf) < s.nbVars {\n\t\tseenBuf = make([]bool, s.nbVars)\n\t}\n\tseen := seenBuf[:s.nbVars]\n\tfor i := range seen {\n\t\tseen[i] = false\n\t}",
			Expect: "R16.1", More: []edit{{"solver/learn_pb.go", "type pbSet struct {", "var seenBuf []bool\n\ntype pbSet struct {"}}},
		seed{Prop: "C16", Name: "global-memo-map-in-bf", File: "bf/bf.go",
			Old: "func (vars *vars) dummy() int {\n\tval := len(vars.all) + 1",
			New: "var dummyNames = map[int]string{}\n\nfunc (vars *vars) dummy() int {\n\tval := len(vars.all) + 1\n\tdummyNames[val] = \"d\"", Expect: "R16.1"},
		seed{Prop: "C16", Name: "global-counter", File: "solver/solver.go",
			Old: "func (s *Solver) search() Status {\n\ts.localNbRestarts++",
			New: "var totalRestarts int\n\nfunc (s *Solver) search() Status {\n\ts.localNbRestarts++\n\ttotalRestarts++", Expect: "R16.1"},
		seed{Prop: "C16", Name: "benign-readonly-table", File: "solver/luby.go",
			Old: "const lubyConstant = 512",
			New: "const lubyConstant = 512\n\nvar lubyTable = []uint{1, 1, 2}\n\nfunc lubySmall(i uint) uint { return lubyTable[i%3] }", Expect: ""},
		seed{Prop: "C16", Name: "import-unsafe", File: "solver/luby.go",
			Old: "const lubyConstant = 512",
			New: "import \"unsafe\"\n\nconst lubyConstant = 512\n\nvar _ = unsafe.Sizeof(0)", Expect: "R16.3"},
	)
}

func init() {
	addSeeds(
		seed{Prop: "C16", Name: "status-read-without-join", File: "explain/check.go",
			Old: "\tstatusChan := make(chan solver.Status, 1)\n\tgo func() {\n\t\tstatus := s.Solve()\n\t\tclose(s.CertChan)\n\t\tstatusChan <- status\n\t}()\n\tvalid, err := pb.UnsatChan(s.CertChan)\n\tfor range s.CertChan { // UnsatChan may stop before the end of the certificate: let the solver terminate\n\t}\n\tif status := <-statusChan; !valid",
			New: "\tstatus := solver.Unsat\n\tgo func() {\n\t\tstatus = s.Solve()\n\t\tclose(s.CertChan)\n\t}()\n\tvalid, err := pb.UnsatChan(s.CertChan)\n\tif !valid", Expect: "R16.2"},
		seed{Prop: "C16", Name: "drain-removed", File: "explain/check.go",
			Old: "\tfor range s.CertChan { // UnsatChan may stop before the end of the certificate: let the solver terminate\n\t}\n\tif status := <-statusChan; !valid || status == solver.Sat {",
			New: "\tif !valid || s.Stats.NbConflicts < 0 {", Expect: "R16.2"},
		seed{Prop: "C16", Name: "forwarder-reads-stats-while-producer-runs", File: "maxsat/parser.go",
			Old: "\tfor res = range localRes {\n\t\tif res.Status == solver.Sat {\n\t\t\tres.Model = res.Model[:s.firstRelax]",
			New: "\tfor res = range localRes {\n\t\tif res.Status == solver.Sat && s.solver.Stats.NbConflicts >= 0 {\n\t\t\tres.Model = res.Model[:s.firstRelax]", Expect: "R16.2"},
		seed{Prop: "C16", Name: "benign-status-via-channel-unbuffered-after-drain", File: "explain/check.go",
			Old: "statusChan := make(chan solver.Status, 1)", New: "statusChan := make(chan solver.Status, 2)", Expect: ""},
	)
}

func init() {
	addSeeds(
		// ---- C09 ----
		seed{Prop: "C09", Name: "newvar-forgets-polarity", File: "solver/solver.go",
			Old: "\t\t\ts.polarity = append(s.polarity, false)\n", New: "", Expect: "R9.1"},
		seed{Prop: "C09", Name: "newvar-forgets-pbsetbuf2", File: "solver/solver.go",
			Old: "\t\t\ts.pbSetBuf2 = append(s.pbSetBuf2, 0)\n", New: "", Expect: "R9.1"},
		seed{Prop: "C09", Name: "count-raised-before-watch-lists-grow", File: "solver/solver.go",
			Old: "\t\ts.addVarWatcherList(v)\n\t\ts.nbVars = cnfVar", New: "\t\ts.nbVars = cnfVar\n\t\ts.addVarWatcherList(v)", Expect: "R9.1"},
		seed{Prop: "C09", Name: "watch-list-one-entry-per-var", File: "solver/watcher.go",
			Old: "\t\ts.wl.wlistPb = append(s.wl.wlistPb, nil, nil)", New: "\t\ts.wl.wlistPb = append(s.wl.wlistPb, nil)", Expect: "R9.1"},
		seed{Prop: "C09", Name: "queue-rebuilt-before-activity-grows", File: "solver/solver.go",
			Old:  "\t\tfor i := s.nbVars; i < cnfVar; i++ {\n\t\t\ts.model = append(s.model, 0)",
			New:  "\t\ts.varQueue = newQueue(s.activity)\n\t\tfor i := s.nbVars; i < cnfVar; i++ {\n\t\t\ts.model = append(s.model, 0)",
			More: []edit{{"solver/solver.go", "\t\t}\n\t\ts.varQueue = newQueue(s.activity)\n\t\ts.addVarWatcherList(v)", "\t\t}\n\t\ts.addVarWatcherList(v)"}}, Expect: "R9.1"},
		seed{Prop: "C09", Name: "literal-used-before-announced", File: "solver/solver.go",
			Old: "\t\ts.newVar(lit.Var())\n\t\tswitch s.litStatus(lit) {", New: "\t\tst := s.litStatus(lit)\n\t\ts.newVar(lit.Var())\n\t\tswitch st {", Expect: "R9.2"},
		seed{Prop: "C09", Name: "appendclause-never-announces", File: "solver/solver.go",
			Old: "\t\tlit := clause.Get(i)\n\t\ts.newVar(lit.Var())\n\t\tswitch s.litStatus(lit) {", New: "\t\tlit := clause.Get(i)\n\t\tswitch s.litStatus(lit) {",
			More: []edit{{File: "solver/solver.go", Old: "\t\tlit := clause.Get(i)\n\t\ts.newVar(lit.Var())\n\t\tj, ok := first[lit.Var()]", New: "\t\tlit := clause.Get(i)\n\t\tj, ok := first[lit.Var()]"}}, Expect: "R9.2"},
		seed{Prop: "C09", Name: "benign-scan-relies-on-the-earlier-announcement", File: "solver/solver.go",
			Old: "\t\tlit := clause.Get(i)\n\t\ts.newVar(lit.Var())\n\t\tswitch s.litStatus(lit) {", New: "\t\tlit := clause.Get(i)\n\t\tswitch s.litStatus(lit) {", Expect: "", Note: "the merge of repeated variables announces every variable of the constraint before the scan"},
		seed{Prop: "C09", Name: "appendclause-resets-status", File: "solver/solver.go",
			Old: "\tif minW >= card { // clause is already sat\n\t\treturn\n\t}", New: "\tif minW >= card { // clause is already sat\n\t\ts.status = Indet\n\t\treturn\n\t}", Expect: "R9.3"},
		seed{Prop: "C09", Name: "solve-forgets-unsat", File: "solver/solver.go",
			Old: "func (s *Solver) Solve() Status {\n\tif s.status == Unsat {\n\t\treturn s.status\n\t}", New: "func (s *Solver) Solve() Status {\n\tif s.status == Unsat && s.localNbRestarts < 0 {\n\t\treturn s.status\n\t}", Expect: "R9.3"},
		seed{Prop: "C09", Name: "benign-growth-in-helper", File: "solver/solver.go",
			Old:  "\t\t\ts.assumptions = append(s.assumptions, false)\n\t\t\ts.reason = append(s.reason, nil)",
			New:  "\t\t\ts.growAssumptionsAndReason()",
			More: []edit{{"solver/solver.go", "// sets initial activity for optimization variables, if any.", "func (s *Solver) growAssumptionsAndReason() {\n\ts.assumptions = append(s.assumptions, false)\n\ts.reason = append(s.reason, nil)\n}\n\n// sets initial activity for optimization variables, if any."}}, Expect: ""},
		seed{Prop: "C09", Name: "benign-drop-trailbuf-growth", File: "solver/solver.go",
			Old: "\t\t\ts.trailBuf = append(s.trailBuf, 0)\n", New: "", Expect: ""},
	)
}

func init() {
	addSeeds(
		// ---- C06 ----
		seed{Prop: "C06", Name: "addlearned-without-emission", File: "solver/watcher.go",
			Old: "\ts.clauseBumpActivity(c)\n\tif s.Certified {\n\t\tif s.CertChan == nil {\n\t\t\tfmt.Printf(\"%s\\n\", c.CNF())\n\t\t} else {\n\t\t\ts.CertChan <- c.CNF()\n\t\t}\n\t}\n}",
			New: "\ts.clauseBumpActivity(c)\n}", Expect: "R6.1"},
		seed{Prop: "C06", Name: "learned-stored-elsewhere-without-emission", File: "solver/solver.go",
			Old: "\t\t\t\ts.addLearned(learnt)\n\t\t\t\tlvl, lit = backtrackData(learnt, s.model)",
			New: "\t\t\t\tif learnt.Len() == 2 {\n\t\t\t\t\ts.wl.learned = append(s.wl.learned, learnt)\n\t\t\t\t\ts.watchClause(learnt)\n\t\t\t\t} else {\n\t\t\t\t\ts.addLearned(learnt)\n\t\t\t\t}\n\t\t\t\tlvl, lit = backtrackData(learnt, s.model)", Expect: "R6.1"},
		seed{Prop: "C06", Name: "unit-not-emitted", File: "solver/solver.go",
			Old: "\t\t\t\ts.cleanupBindings(1)\n\t\t\t\ts.addLearnedUnit(unit)\n\t\t\t\ts.model[unit.Var()] = lvlToSignedLvl(unit, 1)\n\t\t\t\tif conflict = s.unifyLiteral(unit, 1); conflict != nil { // top-level conflict\n\t\t\t\t\treturn s.setUnsat()\n\t\t\t\t}\n\t\t\t\ts.rebuildOrderHeap()\n\t\t\t\tlit = s.chooseLit()\n\t\t\t\tlvl = 2\n\t\t\t} else {\n\t\t\t\tif learnt.Len() == 2 {",
			New: "\t\t\t\ts.cleanupBindings(1)\n\t\t\t\ts.model[unit.Var()] = lvlToSignedLvl(unit, 1)\n\t\t\t\tif conflict = s.unifyLiteral(unit, 1); conflict != nil { // top-level conflict\n\t\t\t\t\treturn s.setUnsat()\n\t\t\t\t}\n\t\t\t\ts.rebuildOrderHeap()\n\t\t\t\tlit = s.chooseLit()\n\t\t\t\tlvl = 2\n\t\t\t} else {\n\t\t\t\tif learnt.Len() == 2 {", Expect: "R6.2"},
		seed{Prop: "C06", Name: "unsat-bypasses-empty-clause", File: "solver/solver.go",
			Old: "\t\t\t\tif conflict = s.unifyLiteral(unit, 1); conflict != nil { // top-level conflict\n\t\t\t\t\treturn s.setUnsat()\n\t\t\t\t}\n\t\t\t\ts.rebuildOrderHeap()\n\t\t\t\tlit = s.chooseLit()\n\t\t\t\tlvl = 2\n\t\t\t} else {\n\t\t\t\tif learnt.Len() == 2 {",
			New: "\t\t\t\tif conflict = s.unifyLiteral(unit, 1); conflict != nil { // top-level conflict\n\t\t\t\t\treturn Unsat\n\t\t\t\t}\n\t\t\t\ts.rebuildOrderHeap()\n\t\t\t\tlit = s.chooseLit()\n\t\t\t\tlvl = 2\n\t\t\t} else {\n\t\t\t\tif learnt.Len() == 2 {", Expect: "R6.3"},
		seed{Prop: "C06", Name: "empty-clause-only-on-stdout", File: "solver/solver.go",
			Old: "\t\tif s.CertChan == nil {\n\t\t\tfmt.Printf(\"0\\n\")\n\t\t} else {\n\t\t\ts.CertChan <- \"0\"\n\t\t}",
			New: "\t\tif s.CertChan == nil {\n\t\t\tfmt.Printf(\"0\\n\")\n\t\t}", Expect: "R6.3,R6.5"},
		seed{Prop: "C06", Name: "stats-updated-only-when-certified", File: "solver/watcher.go",
			Old: "\tif s.Certified {\n\t\tif s.CertChan == nil {\n\t\t\tfmt.Printf(\"%s\\n\", c.CNF())",
			New: "\tif s.Certified {\n\t\ts.wl.nbMax++\n\t\tif s.CertChan == nil {\n\t\t\tfmt.Printf(\"%s\\n\", c.CNF())", Expect: "R6.4"},
		seed{Prop: "C06", Name: "certified-skips-clause-deletion", File: "solver/solver.go",
			Old: "\t\t\tif s.Stats.NbConflicts >= s.wl.idxReduce*s.wl.nbMax {\n\t\t\t\ts.wl.idxReduce = s.Stats.NbConflicts/s.wl.nbMax + 1\n\t\t\t\ts.reduceLearned()",
			New: "\t\t\tif !s.Certified && s.Stats.NbConflicts >= s.wl.idxReduce*s.wl.nbMax {\n\t\t\t\ts.wl.idxReduce = s.Stats.NbConflicts/s.wl.nbMax + 1\n\t\t\t\ts.reduceLearned()", Expect: "R6.4"},
		seed{Prop: "C06", Name: "channel-gets-pbstring", File: "solver/watcher.go",
			Old: "\t\t\ts.CertChan <- c.CNF()", New: "\t\t\ts.CertChan <- c.PBString()", Expect: "R6.5,R6.1"},
		seed{Prop: "C06", Name: "unit-channel-form-lacks-terminator", File: "solver/watcher.go",
			Old: "\t\t\ts.CertChan <- fmt.Sprintf(\"%d 0\", unit.Int())", New: "\t\t\ts.CertChan <- fmt.Sprintf(\"%d\", unit.Int())", Expect: "R6.5"},
		seed{Prop: "C06", Name: "benign-emit-helper", File: "solver/watcher.go",
			Old: "\tif s.Certified {\n\t\tif s.CertChan == nil {\n\t\t\tfmt.Printf(\"%s\\n\", c.CNF())\n\t\t} else {\n\t\t\ts.CertChan <- c.CNF()\n\t\t}\n\t}\n}",
			New: "\tif s.Certified {\n\t\ts.emitLine(c.CNF())\n\t}\n}\n\nfunc (s *Solver) emitLine(line string) {\n\tif s.CertChan == nil {\n\t\tfmt.Printf(\"%s\\n\", line)\n\t} else {\n\t\ts.CertChan <- line\n\t}\n}", Expect: ""},
	)
}

func init() {
	addSeeds(
		// ---- C08 ----
		seed{Prop: "C08", Name: "unit-lines-accepted-without-test", File: "explain/check.go",
			Old: "\t\tif !unsat(pb, clause) {\n\t\t\treturn false, nil\n\t\t}\n\t\t// Since clause is a logical consequence, append it to the problem",
			New: "\t\tif len(clause) != 1 && !unsat(pb, clause) {\n\t\t\treturn false, nil\n\t\t}\n\t\t// Since clause is a logical consequence, append it to the problem", Expect: "R8.1"},
		seed{Prop: "C08", Name: "append-before-test", File: "explain/check.go",
			Old: "\t\tif !unsat(pb, clause) {\n\t\t\treturn false, nil\n\t\t}\n\t\tif len(clause) == 0 {",
			New: "\t\tpb.Clauses = append(pb.Clauses, clause)\n\t\tif !unsat(pb, clause) {\n\t\t\treturn false, nil\n\t\t}\n\t\tif len(clause) == 0 {", Expect: "R8.1"},
		seed{Prop: "C08", Name: "defer-restore-removed", File: "explain/check.go",
			Old: "func (pb *Problem) Unsat(cert io.Reader) (valid bool, err error) {\n\tdefer pb.restore()\n", New: "func (pb *Problem) Unsat(cert io.Reader) (valid bool, err error) {\n", Expect: "R8.2"},
		seed{Prop: "C08", Name: "restore-only-on-success", File: "explain/check.go",
			Old: "func (pb *Problem) UnsatChan(ch chan string) (valid bool, err error) {\n\tdefer pb.restore()\n\tpb.initTagged()",
			New: "func (pb *Problem) UnsatChan(ch chan string) (valid bool, err error) {\n\tpb.initTagged()\n\tdefer func() {\n\t\tif valid {\n\t\t\tpb.restore()\n\t\t}\n\t}()", Expect: "R8.2"},
		seed{Prop: "C08", Name: "tags-not-reinitialised", File: "explain/check.go",
			Old: "\tdefer pb.restore()\n\tpb.initTagged()\n\tsc := bufio.NewScanner(cert)", New: "\tdefer pb.restore()\n\tif pb.tagged == nil {\n\t\tpb.initTagged()\n\t}\n\tsc := bufio.NewScanner(cert)", Expect: "R8.2"},
		seed{Prop: "C08", Name: "units-not-restored", File: "explain/check.go",
			Old: "\tres := pb.unsat()\n\tpb.units = oldUnits // We must restore the previous state\n\treturn res",
			New: "\tres := pb.unsat()\n\tif !res {\n\t\tpb.units = oldUnits // We must restore the previous state\n\t}\n\treturn res", Expect: "R8.3"},
		seed{Prop: "C08", Name: "units-saved-after-assumptions", File: "explain/check.go",
			Old: "\toldUnits := make([]int, len(pb.units))\n\tcopy(oldUnits, pb.units)\n\t// lits is supposed to be implied by the problem.\n\t// We add the negation of each lit as a unit clause to see if this is true.\n\tfor _, lit := range clause {\n\t\tif lit > 0 {\n\t\t\tpb.units[lit-1] = -1\n\t\t} else {\n\t\t\tpb.units[-lit-1] = 1\n\t\t}\n\t}",
			New: "\tfor _, lit := range clause {\n\t\tif lit > 0 {\n\t\t\tpb.units[lit-1] = -1\n\t\t} else {\n\t\t\tpb.units[-lit-1] = 1\n\t\t}\n\t}\n\toldUnits := make([]int, len(pb.units))\n\tcopy(oldUnits, pb.units)", Expect: "R8.3"},
		seed{Prop: "C08", Name: "propagation-not-tagged", File: "explain/problem.go",
			Old: "\t\t\t\tdone[i] = true\n\t\t\t\tif i < pb.NbClauses {\n\t\t\t\t\tpb.tagged[i] = true\n\t\t\t\t}\n\t\t\t\tmodified = true",
			New: "\t\t\t\tdone[i] = true\n\t\t\t\tmodified = true", Expect: "R8.4"},
		seed{Prop: "C08", Name: "conflict-not-tagged", File: "explain/problem.go",
			Old: "\t\t\t\tif i < pb.NbClauses {\n\t\t\t\t\tpb.tagged[i] = true\n\t\t\t\t}\n\t\t\t\treturn true",
			New: "\t\t\t\treturn true", Expect: "R8.4"},
		seed{Prop: "C08", Name: "reader-skips-tag-init", File: "explain/check.go",
			Old: "\tdefer pb.restore()\n\tpb.initTagged()\n\tsc := bufio.NewScanner(cert)", New: "\tdefer pb.restore()\n\tsc := bufio.NewScanner(cert)", Expect: "R8.2,R8.5"},
		seed{Prop: "C08", Name: "benign-checkline-helper", File: "explain/check.go",
			Old: "\t\tif !unsat(pb, clause) {\n\t\t\treturn false, nil\n\t\t}\n\t\t// Since clause is a logical consequence, append it to the problem\n\t\tpb.Clauses = append(pb.Clauses, clause)\n\t}\n\tif err := sc.Err(); err != nil {",
			New: "\t\tif ok := unsat(pb, clause); !ok {\n\t\t\treturn false, nil\n\t\t}\n\t\t// Since clause is a logical consequence, append it to the problem\n\t\tpb.Clauses = append(pb.Clauses, clause)\n\t}\n\tif err := sc.Err(); err != nil {", Expect: ""},
	)
}

func init() {
	addSeeds(
		// ---- C10 ----
		seed{Prop: "C10", Name: "assumption-flags-not-recreated", File: "solver/solver.go",
			Old: "\ts.assumptions = make([]bool, s.nbVars)\n\ts.status = Indet\n", New: "\ts.status = Indet\n", Expect: "R10.1"},
		seed{Prop: "C10", Name: "trail-not-reset", File: "solver/solver.go",
			Old: "\ts.cleanupBindings(0)\n\ts.trail = s.trail[:0]\n", New: "\ts.cleanupBindings(0)\n", Expect: "R10.1"},
		seed{Prop: "C10", Name: "status-not-reset", File: "solver/solver.go",
			Old: "\ts.assumptions = make([]bool, s.nbVars)\n\ts.status = Indet\n", New: "\ts.assumptions = make([]bool, s.nbVars)\n", Expect: "R10.2"},
		seed{Prop: "C10", Name: "status-reset-after-propagation", File: "solver/solver.go",
			Old: "\ts.assumptions = make([]bool, s.nbVars)\n\ts.status = Indet\n", New: "\ts.assumptions = make([]bool, s.nbVars)\n",
			More: []edit{{File: "solver/solver.go", Old: "\tif confl := s.propagate(0, 1); confl != nil {\n\t\t// Conflict after unit propagation\n\t\ts.status = Unsat\n\t\treturn s.status\n\t}\n\treturn s.status",
				New: "\tif confl := s.propagate(0, 1); confl != nil {\n\t\t// Conflict after unit propagation\n\t\ts.status = Unsat\n\t}\n\ts.status = Indet\n\treturn s.status"}}, Expect: "R10.2"},
		seed{Prop: "C10", Name: "propagate-removed", File: "solver/solver.go",
			Old: "\tif confl := s.propagate(0, 1); confl != nil {\n\t\t// Conflict after unit propagation\n\t\ts.status = Unsat\n\t\treturn s.status\n\t}\n\treturn s.status",
			New: "\treturn s.status", Expect: "R10.3"},
		seed{Prop: "C10", Name: "propagate-from-last-only", File: "solver/solver.go",
			Old: "\tif confl := s.propagate(0, 1); confl != nil {\n\t\t// Conflict after unit propagation",
			New: "\tif confl := s.propagate(len(s.trail)-1, 1); confl != nil {\n\t\t// Conflict after unit propagation", Expect: "R10.3"},
		seed{Prop: "C10", Name: "assumption-not-on-trail", File: "solver/solver.go",
			Old: "\t\ts.assumptions[lit.Var()] = true\n\t\ts.trail = append(s.trail, lit)\n", New: "\t\ts.assumptions[lit.Var()] = true\n", Expect: "R10.3"},
		seed{Prop: "C10", Name: "early-return-on-empty-assumptions", File: "solver/solver.go",
			Old: "\ts.assumptions = make([]bool, s.nbVars)\n\ts.status = Indet\n", New: "\ts.assumptions = make([]bool, s.nbVars)\n\ts.status = Indet\n\tif len(lits) == 0 {\n\t\treturn s.status\n\t}\n", Expect: "R10.3"},
		seed{Prop: "C10", Name: "restart-retracts-level-1", File: "solver/solver.go",
			Old: "\t\t\t\ts.lbdStats.clear()\n\t\t\t\ts.cleanupBindings(1)", New: "\t\t\t\ts.lbdStats.clear()\n\t\t\t\ts.cleanupBindings(0)", Expect: "R10.4"},
		seed{Prop: "C10", Name: "benign-reset-helper", File: "solver/solver.go",
			Old: "\ts.cleanupBindings(0)\n\ts.trail = s.trail[:0]\n\ts.assumptions = make([]bool, s.nbVars)\n",
			New: "\ts.cleanupBindings(0)\n\ts.trail = s.trail[:0]\n\tflags := make([]bool, s.nbVars)\n\ts.assumptions = flags\n", Expect: ""},
		// D7 and its relatives (the defect fixed by 2c53459 must be reported again if it returns)
		seed{Prop: "C10", Name: "d7-facts-not-reinstalled", File: "solver/solver.go",
			Old: "\tfor _, lit := range s.facts { // Unit clauses are not assumptions: they hold in every round\n\t\tif s.litStatus(lit) == Unsat { // Two unit clauses contradict each other\n\t\t\ts.status = Unsat\n\t\t\treturn s.status\n\t\t}\n\t\ts.model[lit.Var()] = lvlToSignedLvl(lit, 1)\n\t\ts.trail = append(s.trail, lit)\n\t}\n", New: "", Expect: "R10.4"},
		seed{Prop: "C10", Name: "facts-reinstalled-not-trailed", File: "solver/solver.go",
			Old: "\t\ts.model[lit.Var()] = lvlToSignedLvl(lit, 1)\n\t\ts.trail = append(s.trail, lit)\n\t}\n\tfor _, lit := range lits {", New: "\t\ts.model[lit.Var()] = lvlToSignedLvl(lit, 1)\n\t}\n\tfor _, lit := range lits {", Expect: "R10.4"},
		seed{Prop: "C10", Name: "facts-reinstalled-before-retraction", File: "solver/solver.go",
			Old: "\ts.cleanupBindings(0)\n\ts.trail = s.trail[:0]\n\ts.assumptions = make([]bool, s.nbVars)\n\ts.status = Indet\n\tfor _, lit := range s.facts { // Unit clauses are not assumptions: they hold in every round\n\t\tif s.litStatus(lit) == Unsat { // Two unit clauses contradict each other\n\t\t\ts.status = Unsat\n\t\t\treturn s.status\n\t\t}\n\t\ts.model[lit.Var()] = lvlToSignedLvl(lit, 1)\n\t\ts.trail = append(s.trail, lit)\n\t}\n",
			New: "\ts.trail = s.trail[:0]\n\tfor _, lit := range s.facts {\n\t\ts.model[lit.Var()] = lvlToSignedLvl(lit, 1)\n\t\ts.trail = append(s.trail, lit)\n\t}\n\ts.cleanupBindings(0)\n\ts.assumptions = make([]bool, s.nbVars)\n\ts.status = Indet\n", Expect: "R10.4"},
		seed{Prop: "C10", Name: "facts-reinstalled-all-but-first", File: "solver/solver.go",
			Old: "\tfor _, lit := range s.facts { // Unit clauses are not assumptions: they hold in every round\n", New: "\tfor _, lit := range s.facts[1:] {\n", Expect: "R10.4", Note: "panics on an empty list, which the tests never exercise... they do: kept as a variant of the loop shape only"},
		seed{Prop: "C10", Name: "problem-units-not-recorded", File: "solver/solver.go",
			Old: "\ts.facts = append(s.facts, problem.Units...)\n", New: "", Expect: "R10.5"},
		seed{Prop: "C10", Name: "appended-units-not-recorded", File: "solver/solver.go",
			Old: "\t\ts.facts = append(s.facts, unit)\n", New: "", Expect: "R10.5"},
		seed{Prop: "C10", Name: "appended-units-recorded-only-without-conflict", File: "solver/solver.go",
			Old: "\t\ts.facts = append(s.facts, unit)\n\t\tswitch s.litStatus(unit) {\n", New: "\t\tswitch s.litStatus(unit) {\n",
			More:   []edit{{File: "solver/solver.go", Old: "\t\t\t\ts.status = Unsat\n\t\t\t\treturn\n\t\t\t}\n\t\t}\n\t\ts.rebuildOrderHeap()\n", New: "\t\t\t\ts.status = Unsat\n\t\t\t\treturn\n\t\t\t}\n\t\t}\n\t\ts.facts = append(s.facts, unit)\n\t\ts.rebuildOrderHeap()\n"}},
			Expect: "R10.5", Note: "not benign: Assume resets the Unsat status and, without the record, the conflicting unit clause is gone"},
		seed{Prop: "C10", Name: "unsat-without-refutation", File: "solver/solver.go",
			Old: "\t\tif s.litStatus(lit) == Unsat { // lit contradicts a fact or a previous assumption\n", New: "\t\tif s.litStatus(lit) != Indet {\n", Expect: "R10.2,R10.3"},
		seed{Prop: "C10", Name: "benign-units-recorded-one-by-one", File: "solver/solver.go",
			Old: "\t\ts.trail[i] = lit\n\t}\n\ts.facts = append(s.facts, problem.Units...)\n", New: "\t\ts.trail[i] = lit\n\t\ts.facts = append(s.facts, lit)\n\t}\n", Expect: ""},
		seed{Prop: "C10", Name: "minimize-drops-level-1-reasons", File: "solver/learn.go",
			Old: "\t\t\t\tif !met[lit.Var()] /*&& abs(s.model[lit.Var()]) > 1*/ {", New: "\t\t\t\tif v := lit.Var(); !met[v] && (abs(s.model[v]) > 1 || s.assumptions[v]) {", Expect: "R10.6", Note: "external mutant C10-m2"},
		seed{Prop: "C10", Name: "learned-clause-skips-level-1-literals", File: "solver/learn.go",
			Old: "\t\tif s.litStatus(l) != Unsat {\n\t\t\t// In clauses where cardinality > 1, some lits might be true in the conflict clause: ignore them\n\t\t\tcontinue\n\t\t}\n\t\tmet[v] = true",
			New: "\t\tif s.litStatus(l) != Unsat || abs(s.model[v]) == 1 {\n\t\t\tcontinue\n\t\t}\n\t\tmet[v] = true", Expect: "R10.6"},
		seed{Prop: "C10", Name: "assumptions-validated-in-a-separate-loop", File: "solver/solver.go",
			Old: "\t\t\ts.status = Unsat\n\t\t\treturn s.status\n\t\t}\n\t\ts.addLearnedUnit(lit)\n", New: "\t\t\ts.status = Unsat\n\t\t\treturn s.status\n\t\t}\n\t}\n\tfor _, lit := range lits {\n\t\ts.addLearnedUnit(lit)\n", Expect: "R10.3", Note: "external mutant C10-r3-m1"},
		seed{Prop: "C10", Name: "assumption-test-dropped", File: "solver/solver.go",
			Old: "\t\tif s.litStatus(lit) == Unsat { // lit contradicts a fact or a previous assumption\n\t\t\ts.status = Unsat\n\t\t\treturn s.status\n\t\t}\n", New: "", Expect: "R10.3"},
		seed{Prop: "C10", Name: "benign-reinstall-classic-loop", File: "solver/solver.go",
			Old: "\tfor _, lit := range s.facts { // Unit clauses are not assumptions: they hold in every round\n", New: "\tfor i := 0; i < len(s.facts); i++ {\n\t\tlit := s.facts[i]\n", Expect: ""},
	)
}

func init() {
	addSeeds(
		// ---- C01 ----
		seed{Prop: "C01", Name: "solve-gives-up-after-budget", File: "solver/solver.go",
			Old: "\tfor s.status == Indet {\n\t\ts.search()\n\t\tif s.status == Indet {\n\t\t\ts.Stats.NbRestarts++\n\t\t\ts.rebuildOrderHeap()\n\t\t}\n\t}\n\tif s.status == Sat {",
			New: "\tfor s.status == Indet {\n\t\ts.search()\n\t\tif s.status == Indet {\n\t\t\ts.Stats.NbRestarts++\n\t\t\tif s.Stats.NbRestarts > 1_000_000 {\n\t\t\t\tbreak\n\t\t\t}\n\t\t\ts.rebuildOrderHeap()\n\t\t}\n\t}\n\tif s.status == Sat {", Expect: "R1.1"},
		seed{Prop: "C01", Name: "status-overwritten-after-loop", File: "solver/solver.go",
			Old: "\tif s.Verbose {\n\t\tend <- struct{}{}\n\t\tfmt.Printf(\"c ======================================================================================\\n\")\n\t}\n\treturn s.status\n}\n\n// Assume adds",
			New: "\tif s.Verbose {\n\t\tend <- struct{}{}\n\t\tfmt.Printf(\"c ======================================================================================\\n\")\n\t}\n\tif s.localNbRestarts > 1<<20 {\n\t\ts.status = Indet\n\t}\n\treturn s.status\n}\n\n// Assume adds", Expect: "R1.1"},
		seed{Prop: "C01", Name: "search-returns-many", File: "solver/solver.go",
			Old: "\t\t\tif s.lbdStats.mustRestart() {\n\t\t\t\ts.lbdStats.clear()\n\t\t\t\ts.cleanupBindings(1)\n\t\t\t\treturn Indet",
			New: "\t\t\tif s.lbdStats.mustRestart() {\n\t\t\t\ts.lbdStats.clear()\n\t\t\t\ts.cleanupBindings(1)\n\t\t\t\treturn Many", Expect: "R1.1"},
		seed{Prop: "C01", Name: "appendclause-not-watched", File: "solver/watcher.go",
			Old: "\ts.wl.origClauses = append(s.wl.origClauses, clause)\n\t// log.Printf(\"appending (and watching) %s\", clause.PBString())\n\ts.watchClause(clause)",
			New: "\ts.wl.origClauses = append(s.wl.origClauses, clause)\n\t// log.Printf(\"appending (and watching) %s\", clause.PBString())\n\tif clause.Len() > 2 {\n\t\ts.watchClause(clause)\n\t}", Expect: "R1.2"},
		seed{Prop: "C01", Name: "appendclause-never-watched", File: "solver/watcher.go",
			Old: "\t// log.Printf(\"appending (and watching) %s\", clause.PBString())\n\ts.watchClause(clause)", New: "\t// log.Printf(\"appending (and watching) %s\", clause.PBString())", Expect: "R1.2"},
		seed{Prop: "C01", Name: "init-watches-all-but-last", File: "solver/watcher.go",
			Old: "\tfor _, c := range clauses {\n\t\ts.watchClause(c)\n\t}", New: "\tfor i := 0; i+1 < len(newClauses); i++ {\n\t\ts.watchClause(newClauses[i])\n\t}", Expect: "R1.2"},
		seed{Prop: "C01", Name: "reduce-unwatches-wrong-clause", File: "solver/watcher.go",
			Old: "\t\ts.wl.learned[i] = s.wl.learned[nbLearned-nbRemoved]\n\t\ts.unwatchClause(c)", New: "\t\ts.wl.learned[i] = s.wl.learned[nbLearned-nbRemoved]\n\t\ts.unwatchClause(s.wl.learned[i])", Expect: "R1.4"},
		seed{Prop: "C01", Name: "reduce-forgets-unwatch", File: "solver/watcher.go",
			Old: "\t\ts.wl.learned[i] = s.wl.learned[nbLearned-nbRemoved]\n\t\ts.unwatchPB(c)", New: "\t\ts.wl.learned[i] = s.wl.learned[nbLearned-nbRemoved]", Expect: "R1.4"},
		seed{Prop: "C01", Name: "lastmodel-aliases-model", File: "solver/solver.go",
			Old: "\tif s.status == Sat {\n\t\ts.lastModel = make(Model, len(s.model))\n\t\tcopy(s.lastModel, s.model)\n\t}", New: "\tif s.status == Sat {\n\t\ts.lastModel = s.model\n\t}", Expect: "R1.5"},
		seed{Prop: "C01", Name: "model-reads-working-assignment", File: "solver/solver.go",
			Old: "\tfor i, lvl := range s.lastModel {\n\t\tres[i] = lvl > 0\n\t}\n\treturn res", New: "\tfor i, lvl := range s.model {\n\t\tres[i] = lvl > 0\n\t}\n\treturn res", Expect: "R1.5"},
		seed{Prop: "C01", Name: "benign-tail-of-solve-in-helper", File: "solver/solver.go",
			Old: "\tif s.status == Sat {\n\t\ts.lastModel = make(Model, len(s.model))\n\t\tcopy(s.lastModel, s.model)\n\t}\n\tif s.Verbose {\n\t\tend <- struct{}{}",
			New: "\tif s.status == Sat {\n\t\tsnapshot := make(Model, len(s.model))\n\t\ts.lastModel = snapshot\n\t\tcopy(snapshot, s.model)\n\t}\n\tif s.Verbose {\n\t\tend <- struct{}{}", Expect: ""},
	)
}

func init() {
	addSeeds(
		seed{Prop: "C06", Name: "binary-learned-not-emitted", File: "solver/watcher.go",
			Old: "\ts.clauseBumpActivity(c)\n\tif s.Certified {", New: "\ts.clauseBumpActivity(c)\n\tif c.Len() == 2 {\n\t\treturn\n\t}\n\tif s.Certified {", Expect: "R6.1"},
	)
}

func init() {
	addSeeds(
		// ---- C07 ----
		seed{Prop: "C07", Name: "shallow-copy-returned-again", File: "explain/check.go",
			Old: "\t\treturn pb.clone(), nil", New: "\t\tpb2 := *pb\n\t\treturn &pb2, nil", Expect: "R7.1"},
		seed{Prop: "C07", Name: "maxsat-relaxes-callers-clauses", File: "explain/mus.go",
			Old: "\tfor i, clause := range pb2.Clauses {\n\t\tpb2.Clauses[i] = append(clause, relaxLit)",
			New: "\tfor i, clause := range pb.Clauses {\n\t\tpb.Clauses[i] = append(clause, relaxLit)", Expect: "R7.1"},
		seed{Prop: "C07", Name: "deletion-bumps-callers-nbvars", File: "explain/mus.go",
			Old: "\tpb2.NbVars += pb2.NbClauses          // Add one relax var for each clause", New: "\tpb.NbVars += pb2.NbClauses\n\tpb2.NbVars = pb.NbVars", Expect: "R7.1"},
		seed{Prop: "C07", Name: "subset-strips-literal-in-place", File: "explain/mus.go",
			Old: "\t\t\tclause := pb2.Clauses[i]\n\t\t\tclause = clause[:len(clause)-1] // Remove relax lit",
			New: "\t\t\tclause := pb2.Clauses[i]\n\t\t\tif i < len(pb.Clauses) && len(pb.Clauses[i]) > 0 {\n\t\t\t\tpb.Clauses[i][0] = clause[0]\n\t\t\t}\n\t\t\tclause = clause[:len(clause)-1] // Remove relax lit", Expect: "R7.1"},
		seed{Prop: "C07", Name: "subset-error-ignored", File: "explain/mus.go",
			Old: "\tpb2, err := pb.UnsatSubset()\n\tif err != nil {\n\t\treturn nil, fmt.Errorf(\"could not extract MUS: %v\", err)\n\t}\n\tmus = &Problem{NbVars: pb2.NbVars}",
			New: "\tpb2, _ := pb.UnsatSubset()\n\tmus = &Problem{NbVars: pb2.NbVars}", Expect: "R7.2"},
		seed{Prop: "C07", Name: "subset-error-swallowed", File: "explain/mus.go",
			Old: "\t\tif err == ErrNotUnsat {\n\t\t\treturn nil, err\n\t\t}", New: "\t\tif err == ErrNotUnsat {\n\t\t\treturn nil, nil\n\t\t}", Expect: "R7.2"},
		seed{Prop: "C07", Name: "benign-clone-inlined", File: "explain/check.go",
			Old: "\t\treturn pb.clone(), nil", New: "\t\tcp := pb.clone()\n\t\treturn cp, nil", Expect: ""},
	)
}

func init() {
	addSeeds(
		// ---- C04 ----
		seed{Prop: "C04", Name: "nil-path-untrimmed-again", File: "maxsat/parser.go",
			Old: "\t\tres := s.solver.Optimal(nil, stop)\n\t\tif res.Status == solver.Sat {\n\t\t\tres.Model = res.Model[:s.firstRelax] // Remove relax vars from the model\n\t\t}\n\t\treturn res",
			New: "\t\treturn s.solver.Optimal(nil, stop)", Expect: "R4.1"},
		seed{Prop: "C04", Name: "forwarder-trim-removed", File: "maxsat/parser.go",
			Old: "\tfor res = range localRes {\n\t\tif res.Status == solver.Sat {\n\t\t\tres.Model = res.Model[:s.firstRelax] // Remove relax vars from the model\n\t\t}\n\t\tresults <- res",
			New: "\tfor res = range localRes {\n\t\tresults <- res", Expect: "R4.1"},
		seed{Prop: "C04", Name: "trim-only-optimal-result", File: "maxsat/parser.go",
			Old: "\tfor res = range localRes {\n\t\tif res.Status == solver.Sat {",
			New: "\tfor res = range localRes {\n\t\tif res.Status == solver.Sat && res.Weight == 0 {", Expect: "R4.1"},
		seed{Prop: "C04", Name: "trim-at-wrong-bound", File: "maxsat/parser.go",
			Old: "\tfor res = range localRes {\n\t\tif res.Status == solver.Sat {\n\t\t\tres.Model = res.Model[:s.firstRelax]",
			New: "\tfor res = range localRes {\n\t\tif res.Status == solver.Sat {\n\t\t\tres.Model = res.Model[:len(res.Model)-1]", Expect: "R4.1"},
		seed{Prop: "C04", Name: "blocking-coefficient-is-weight", File: "maxsat/problem.go",
			Old: "\t\t\t\tcoeffs = append(coeffs, constr.AtLeast)", New: "\t\t\t\tcoeffs = append(coeffs, constr.Weight)", Expect: "R4.2"},
		seed{Prop: "C04", Name: "cardinality-case-dropped", File: "maxsat/problem.go",
			Old: "\t\t\tif coeffs == nil && constr.AtLeast != 1 {", New: "\t\t\tif coeffs == nil && constr.AtLeast > 2 {", Expect: "R4.2"},
		seed{Prop: "C04", Name: "blocking-literal-not-appended-for-pb", File: "maxsat/problem.go",
			Old: "\t\t\tlits = append(lits, bl)\n", New: "\t\t\tif coeffs == nil {\n\t\t\t\tlits = append(lits, bl)\n\t\t\t}\n", Expect: "R4.2"},
		seed{Prop: "C04", Name: "name-filter-dropped", File: "maxsat/problem.go",
			Old: "\t\tif name != \"\" { // Ignore blocking lits\n\t\t\tres[name] = binding\n\t\t}", New: "\t\tres[name] = binding", Expect: "R4.3"},
		seed{Prop: "C04", Name: "benign-trim-helper-condition-swapped", File: "maxsat/parser.go",
			Old: "\tfor res = range localRes {\n\t\tif res.Status == solver.Sat {\n\t\t\tres.Model = res.Model[:s.firstRelax] // Remove relax vars from the model\n\t\t}\n\t\tresults <- res",
			New: "\tfor res = range localRes {\n\t\tif res.Status != solver.Sat {\n\t\t\tresults <- res\n\t\t\tcontinue\n\t\t}\n\t\tres.Model = res.Model[:s.firstRelax] // Remove relax vars from the model\n\t\tresults <- res", Expect: ""},
	)
}

func init() {
	addSeeds(
		// ---- C02 normalisers (R2.3, R2.4) ----
		seed{Prop: "C02", Name: "gteq-literal-not-negated", File: "solver/pb.go",
			Old: "\t\t\tn += weights[i]\n\t\t\tlits[i] = -lits[i]\n", New: "\t\t\tn += weights[i]\n", Expect: "R2.3"},
		seed{Prop: "C02", Name: "gteq-degree-not-raised", File: "solver/pb.go",
			Old: "\t\t\tweights[i] = -weights[i]\n\t\t\tn += weights[i]\n", New: "\t\t\tweights[i] = -weights[i]\n", Expect: "R2.3"},
		seed{Prop: "C02", Name: "gteq-degree-raised-by-negative", File: "solver/pb.go",
			Old: "\t\t\tweights[i] = -weights[i]\n\t\t\tn += weights[i]\n", New: "\t\t\tn += weights[i]\n\t\t\tweights[i] = -weights[i]\n", Expect: "R2.3"},
		seed{Prop: "C02", Name: "gteq-zero-term-skips-next", File: "solver/pb.go",
			Old: "\t\t\tlits = append(lits[:i], lits[i+1:]...)\n\t\t\ti--\n", New: "\t\t\tlits = append(lits[:i], lits[i+1:]...)\n", Expect: "R2.3"},
		seed{Prop: "C02", Name: "gteq-zero-term-keeps-literal", File: "solver/pb.go",
			Old: "\t\t\tweights = append(weights[:i], weights[i+1:]...)\n\t\t\tlits = append(lits[:i], lits[i+1:]...)\n", New: "\t\t\tweights = append(weights[:i], weights[i+1:]...)\n", Expect: "R2.3"},
		seed{Prop: "C02", Name: "lteq-degree-off-by-one", File: "solver/pb.go",
			Old: "\tn = sum - n\n", New: "\tn = sum - n - 1\n", Expect: "R2.4"},
		seed{Prop: "C02", Name: "lteq-literals-kept", File: "solver/pb.go",
			Old: "\tfor i := range lits {\n\t\tlits[i] = -lits[i]\n\t\tsum += weights[i]\n\t}", New: "\tfor i := range lits {\n\t\tsum += weights[i]\n\t}", Expect: "R2.4"},
		seed{Prop: "C02", Name: "atmost-degree-wrong", File: "solver/pb.go",
			Old: "\treturn PBConstr{Lits: lits2, AtLeast: len(lits2) - n}", New: "\treturn PBConstr{Lits: lits2, AtLeast: len(lits2) - n - 1}", Expect: "R2.4"},
		seed{Prop: "C02", Name: "atmost1-skips-first-literal", File: "solver/card.go",
			Old: "\tfor i, lit := range lits {\n\t\tnegated[i] = -lit\n\t}", New: "\tfor i := 1; i < len(lits); i++ {\n\t\tnegated[i] = -lits[i]\n\t}", Expect: "R2.4"},
		seed{Prop: "C02", Name: "eq-shares-slices", File: "solver/pb.go",
			Old: "\tge := GtEq(lits2, weights2, n)", New: "\tge := GtEq(lits, weights, n)", Expect: "R2.4"},
		seed{Prop: "C02", Name: "eq-keeps-trivial-side", File: "solver/pb.go",
			Old: "\tif le.AtLeast > 0 {\n\t\tres = append(res, le)\n\t}", New: "\tres = append(res, le)", Expect: "R2.4"},
		seed{Prop: "C02", Name: "benign-atmost1-indexed-loop", File: "solver/card.go",
			Old: "\tfor i, lit := range lits {\n\t\tnegated[i] = -lit\n\t}", New: "\tfor i := 0; i < len(lits); i++ {\n\t\tnegated[i] = -lits[i]\n\t}", Expect: ""},
	)
}

func init() {
	addSeeds(
		// ---- C03 step identity (R3.5): edits applied to BOTH siblings alike are invisible to sibling comparison ----
		seed{Prop: "C03", Name: "both-degrees-not-strict", File: "solver/solver.go",
			Old:  "\t\ts.AppendClause(NewPBClause(lits2, weights2, maxCost-cost+1))\n\t\ts.rebuildOrderHeap()\n\t\tstatus = s.Solve()\n\t}\n\treturn res",
			New:  "\t\ts.AppendClause(NewPBClause(lits2, weights2, maxCost-cost))\n\t\ts.rebuildOrderHeap()\n\t\tstatus = s.Solve()\n\t}\n\treturn res",
			More: []edit{{"solver/solver.go", "\t\ts.AppendClause(NewPBClause(lits2, weights2, maxCost-cost+1))\n\t\ts.rebuildOrderHeap()\n\t\tstatus = s.Solve()\n\t}\n\treturn cost", "\t\ts.AppendClause(NewPBClause(lits2, weights2, maxCost-cost))\n\t\ts.rebuildOrderHeap()\n\t\tstatus = s.Solve()\n\t}\n\treturn cost"}}, Expect: "R3.5"},
		seed{Prop: "C03", Name: "minimize-counts-false-literals", File: "solver/solver.go",
			Old: "\t\t\tif s.model[lit.Var()] > 0 == lit.IsPositive() {\n\t\t\t\tif s.minWeights == nil {\n\t\t\t\t\tcost++\n\t\t\t\t} else {\n\t\t\t\t\tcost += s.minWeights[i]\n\t\t\t\t}\n\t\t\t}\n\t\t}\n\t\tif cost == 0 {\n\t\t\treturn 0",
			New: "\t\t\tif s.model[lit.Var()] > 0 != lit.IsPositive() {\n\t\t\t\tif s.minWeights == nil {\n\t\t\t\t\tcost++\n\t\t\t\t} else {\n\t\t\t\t\tcost += s.minWeights[i]\n\t\t\t\t}\n\t\t\t}\n\t\t}\n\t\tif cost == 0 {\n\t\t\treturn 0", Expect: "R3.5"},
		seed{Prop: "C03", Name: "optimal-maxcost-ignores-weights", File: "solver/solver.go",
			Old: "\t// log.Printf(\"found a solution, now minimizing...\")\n\tmaxCost := 0\n\tif s.minWeights == nil {\n\t\tmaxCost = len(s.minLits)\n\t} else {\n\t\tfor _, w := range s.minWeights {\n\t\t\tmaxCost += w\n\t\t}\n\t}",
			New: "\t// log.Printf(\"found a solution, now minimizing...\")\n\tmaxCost := len(s.minLits)", Expect: "R3.5"},
		seed{Prop: "C03", Name: "optimal-does-not-stop-at-zero", File: "solver/solver.go",
			Old: "\t\tif cost == 0 {\n\t\t\tbreak\n\t\t}\n", New: "", Expect: "R3.5"},
		seed{Prop: "C03", Name: "minimize-hypothesis-not-negated", File: "solver/solver.go",
			Old: "\t\ts.hypothesis[i] = lit.Negation()\n\t}\n\tweights := make([]int, len(s.minLits))\n\tif s.minWeights == nil { // All weights are 1\n\t\tfor i := range weights {\n\t\t\tweights[i] = 1\n\t\t}\n\t} else {\n\t\tcopy(weights, s.minWeights)\n\t}\n\tsort.Sort(wLits{lits: s.hypothesis, weights: weights})\n\ts.lastModel = make(Model, len(s.model))\n\tvar cost int\n\tfor status == Sat {\n\t\tcopy(s.lastModel, s.model) // Save this model: it might be the last one\n\t\tcost = 0\n\t\tfor i, lit := range s.minLits {\n\t\t\tif s.model[lit.Var()] > 0 == lit.IsPositive() {\n\t\t\t\tif s.minWeights == nil {\n\t\t\t\t\tcost++\n\t\t\t\t} else {\n\t\t\t\t\tcost += s.minWeights[i]\n\t\t\t\t}\n\t\t\t}\n\t\t}\n\t\tif cost == 0 {\n\t\t\treturn 0",
			New: "\t\ts.hypothesis[i] = lit\n\t}\n\tweights := make([]int, len(s.minLits))\n\tif s.minWeights == nil { // All weights are 1\n\t\tfor i := range weights {\n\t\t\tweights[i] = 1\n\t\t}\n\t} else {\n\t\tcopy(weights, s.minWeights)\n\t}\n\tsort.Sort(wLits{lits: s.hypothesis, weights: weights})\n\ts.lastModel = make(Model, len(s.model))\n\tvar cost int\n\tfor status == Sat {\n\t\tcopy(s.lastModel, s.model) // Save this model: it might be the last one\n\t\tcost = 0\n\t\tfor i, lit := range s.minLits {\n\t\t\tif s.model[lit.Var()] > 0 == lit.IsPositive() {\n\t\t\t\tif s.minWeights == nil {\n\t\t\t\t\tcost++\n\t\t\t\t} else {\n\t\t\t\t\tcost += s.minWeights[i]\n\t\t\t\t}\n\t\t\t}\n\t\t}\n\t\tif cost == 0 {\n\t\t\treturn 0", Expect: "R3.5"},
		seed{Prop: "C03", Name: "optimal-constraint-on-shared-weights", File: "solver/solver.go",
			Old: "\t\tcopy(weights2, weights)\n\t\ts.AppendClause(NewPBClause(lits2, weights2, maxCost-cost+1))\n\t\ts.rebuildOrderHeap()\n\t\tstatus = s.Solve()\n\t}\n\treturn res",
			New: "\t\tcopy(weights2, weights)\n\t\ts.AppendClause(NewPBClause(lits2, weights, maxCost-cost+1))\n\t\ts.rebuildOrderHeap()\n\t\tstatus = s.Solve()\n\t}\n\treturn res", Expect: "R3.5"},
	)
}

func init() {
	addSeeds(
		// ---- C14 ----
		seed{Prop: "C14", Name: "pb-loop-binds-unit-without-retracting", File: "solver/solver.go",
			Old: "\t\t\t\t\t\ts.lbdStats.addLbd(1)\n\t\t\t\t\t\ts.cleanupBindings(1)\n\t\t\t\t\t\ts.addLearnedUnit(unit)",
			New: "\t\t\t\t\t\ts.lbdStats.addLbd(1)\n\t\t\t\t\t\ts.addLearnedUnit(unit)", Expect: "R14.1"},
		seed{Prop: "C14", Name: "pb-loop-no-heap-rebuild", File: "solver/solver.go",
			Old: "\t\t\t\t\t}\n\t\t\t\t\ts.rebuildOrderHeap()\n\t\t\t\t\tlit = s.chooseLit()\n\t\t\t\t\tlvl = 2",
			New: "\t\t\t\t\t}\n\t\t\t\t\tlit = s.chooseLit()\n\t\t\t\t\tlvl = 2", Expect: "R14.1"},
		seed{Prop: "C14", Name: "pb-loop-ignores-top-level-conflict", File: "solver/solver.go",
			Old: "\t\t\t\t\t\tif conflict = s.unifyLiteral(unit, 1); conflict != nil { // top-level conflict\n\t\t\t\t\t\t\treturn s.setUnsat()\n\t\t\t\t\t\t}\n\t\t\t\t\t}",
			New: "\t\t\t\t\t\tif conflict = s.unifyLiteral(unit, 1); conflict != nil { // top-level conflict\n\t\t\t\t\t\t\tbreak\n\t\t\t\t\t\t}\n\t\t\t\t\t}", Expect: "R14.1"},
		seed{Prop: "C14", Name: "pb-loop-false-constraint-not-unsat", File: "solver/solver.go",
			Old: "\t\t\t\tif newLvl == -1 { // Generated constraint is false\n\t\t\t\t\treturn s.setUnsat()\n\t\t\t\t}\n", New: "", Expect: "R14.2"},
		seed{Prop: "C14", Name: "pb-loop-reason-not-recorded", File: "solver/solver.go",
			Old: "\t\t\t\t\tfor _, lit := range propagated {\n\t\t\t\t\t\ts.reason[lit.Var()] = learnt\n\t\t\t\t\t}\n", New: "", Expect: "R1.8"},
		seed{Prop: "C14", Name: "pb-reduce-forgets-unwatch", File: "solver/watcher.go",
			Old: "\t\ts.wl.learned[i] = s.wl.learned[nbLearned-nbRemoved]\n\t\ts.unwatchPB(c)", New: "\t\ts.wl.learned[i] = s.wl.learned[nbLearned-nbRemoved]", Expect: "R1.4"},
		seed{Prop: "C14", Name: "benign-unit-handling-helper", File: "solver/solver.go",
			Old: "\t\t\t\t\ts.rebuildOrderHeap()\n\t\t\t\t\tlit = s.chooseLit()\n\t\t\t\t\tlvl = 2\n\t\t\t\t} else {\n\t\t\t\t\tlvl = newLvl",
			New: "\t\t\t\t\ts.rebuildOrderHeap()\n\t\t\t\t\tlvl = 2\n\t\t\t\t\tlit = s.chooseLit()\n\t\t\t\t} else {\n\t\t\t\t\tlvl = newLvl", Expect: ""},
	)
}

func init() {
	addSeeds(
		// ---- benign refactors for the rules added after the external mutants ----
		seed{Prop: "C09", Name: "benign-appendclause-if-chain", File: "solver/solver.go",
			Old: "\t\tswitch s.litStatus(lit) {\n\t\tcase Sat:\n\t\t\tw := clause.Weight(i)\n\t\t\tminW += w\n\t\t\tmaxW += w\n\t\t\tclause.removeLit(i)\n\t\t\tclause.updateCardinality(-w)\n\t\tcase Unsat:\n\t\t\tclause.removeLit(i)\n\t\tdefault:\n\t\t\tmaxW += clause.Weight(i)\n\t\t\ti++\n\t\t}",
			New: "\t\tst := s.litStatus(lit)\n\t\tif st == Sat {\n\t\t\tw := clause.Weight(i)\n\t\t\tmaxW += w\n\t\t\tminW += w\n\t\t\tclause.updateCardinality(-w)\n\t\t\tclause.removeLit(i)\n\t\t} else if st == Unsat {\n\t\t\tclause.removeLit(i)\n\t\t} else {\n\t\t\tmaxW += clause.Weight(i)\n\t\t\ti++\n\t\t}", Expect: ""},
		seed{Prop: "C09", Name: "benign-skip-units-already-true", File: "solver/solver.go",
			Old: "\tfor _, unit := range units {\n\t\ts.lbdStats.addLbd(1)",
			New: "\tfor _, unit := range units {\n\t\tif s.litStatus(unit) == Sat {\n\t\t\tcontinue\n\t\t}\n\t\ts.lbdStats.addLbd(1)", Expect: ""},
		seed{Prop: "C01", Name: "benign-snapshot-helper", File: "solver/solver.go",
			Old:  "\tif s.status == Sat {\n\t\ts.lastModel = make(Model, len(s.model))\n\t\tcopy(s.lastModel, s.model)\n\t}\n\tif s.Verbose {\n\t\tend <- struct{}{}",
			New:  "\tif s.status == Sat {\n\t\ts.saveModel()\n\t}\n\tif s.Verbose {\n\t\tend <- struct{}{}",
			More: []edit{{"solver/solver.go", "// Assume adds unit literals to the solver.", "func (s *Solver) saveModel() {\n\ts.lastModel = make(Model, len(s.model))\n\tcopy(s.lastModel, s.model)\n}\n\n// Assume adds unit literals to the solver."}}, Expect: ""},
		seed{Prop: "C04", Name: "benign-trim-helper", File: "maxsat/parser.go",
			Old:  "\tfor res = range localRes {\n\t\tif res.Status == solver.Sat {\n\t\t\tres.Model = res.Model[:s.firstRelax] // Remove relax vars from the model\n\t\t}\n\t\tresults <- res",
			New:  "\tfor res = range localRes {\n\t\tres = s.trim(res)\n\t\tresults <- res",
			More: []edit{{"maxsat/parser.go", "// Enumerate does not make sense for a MAXSAT problem", "func (s *Solver) trim(res solver.Result) solver.Result {\n\tif res.Status == solver.Sat {\n\t\tres.Model = res.Model[:s.firstRelax]\n\t}\n\treturn res\n}\n\n// Enumerate does not make sense for a MAXSAT problem"}}, Expect: ""},
		seed{Prop: "C04", Name: "trim-helper-that-does-not-trim", File: "maxsat/parser.go",
			Old:  "\tfor res = range localRes {\n\t\tif res.Status == solver.Sat {\n\t\t\tres.Model = res.Model[:s.firstRelax] // Remove relax vars from the model\n\t\t}\n\t\tresults <- res",
			New:  "\tfor res = range localRes {\n\t\tres = s.trim(res)\n\t\tresults <- res",
			More: []edit{{"maxsat/parser.go", "// Enumerate does not make sense for a MAXSAT problem", "func (s *Solver) trim(res solver.Result) solver.Result {\n\tif res.Status == solver.Sat && res.Weight == 0 {\n\t\tres.Model = res.Model[:s.firstRelax]\n\t}\n\treturn res\n}\n\n// Enumerate does not make sense for a MAXSAT problem"}}, Expect: "R4.1"},
		seed{Prop: "C15", Name: "benign-found-flag-as-helper", File: "solver/problem.go",
			Old:  "\t\t\t\tlit2 := constr[j].Negation()\n\t\t\t\tfound := false\n\t\t\t\tfor _, lit3 := range propagates[lit2] {\n\t\t\t\t\tif lit3 == other {\n\t\t\t\t\t\tfound = true\n\t\t\t\t\t\tbreak\n\t\t\t\t\t}\n\t\t\t\t}\n\t\t\t\tif !found {",
			New:  "\t\t\t\tlit2 := constr[j].Negation()\n\t\t\t\tfound := containsLit(propagates[lit2], other)\n\t\t\t\tif !found {",
			More: []edit{{"solver/problem.go", "// removeBinaries removes the binary clauses", "func containsLit(lits []Lit, l Lit) bool {\n\tfor _, l2 := range lits {\n\t\tif l2 == l {\n\t\t\treturn true\n\t\t}\n\t}\n\treturn false\n}\n\n// removeBinaries removes the binary clauses"}}, Expect: ""},
		seed{Prop: "C13", Name: "benign-opb-skip-comment-first", File: "solver/parser_pb.go",
			Old: "\t\tif line == \"\" {\n\t\t\tcontinue\n\t\t}\n\t\tif line[0] == '*' { // A comment; the first one usually declares the number of variables\n\t\t\tpb.parseOPBHeader(line)\n\t\t\tcontinue\n\t\t}", New: "\t\tif line == \"\" {\n\t\t\tcontinue\n\t\t}\n\t\tif strings.HasPrefix(line, \"*\") {\n\t\t\tpb.parseOPBHeader(line)\n\t\t\tcontinue\n\t\t}", Expect: ""},
		seed{Prop: "C18", Name: "benign-pbstring-append-lines", File: "solver/solver.go",
			Old: "\tclauses := make([]string, len(s.wl.origClauses)+len(s.wl.learned))\n\tfor i, c := range s.wl.origClauses {\n\t\tclauses[i] = c.PBString()\n\t}\n\tfor i, c := range s.wl.learned {\n\t\tclauses[i+len(s.wl.origClauses)] = c.PBString()\n\t}",
			New: "\tclauses := make([]string, 0, len(s.wl.origClauses)+len(s.wl.learned))\n\tfor _, c := range s.wl.origClauses {\n\t\tclauses = append(clauses, c.PBString())\n\t}\n\tfor _, c := range s.wl.learned {\n\t\tclauses = append(clauses, c.PBString())\n\t}", Expect: ""},
		seed{Prop: "C19", Name: "benign-count-with-len-of-collected-models", File: "main.go",
			Old: "\tnb := 0\n\tfor range models {\n\t\tnb++\n\t\tif verbose {\n\t\t\tfmt.Printf(\"c %d models found\\n\", nb)\n\t\t}\n\t}\n\tfmt.Println(nb)",
			New: "\tnb := 0\n\tfor m := range models {\n\t\t_ = m\n\t\tnb += 1\n\t\tif verbose {\n\t\t\tfmt.Printf(\"c %d models found\\n\", nb)\n\t\t}\n\t}\n\tfmt.Println(nb)", Expect: ""},
	)
}

func init() {
	addSeeds(
		seed{Prop: "C09", Name: "benign-bulk-growth", File: "solver/solver.go",
			Old: "\t\tfor i := s.nbVars; i < cnfVar; i++ {\n\t\t\ts.model = append(s.model, 0)\n\t\t\ts.activity = append(s.activity, 0.)",
			New: "\t\ts.activity = append(s.activity, make([]float64, cnfVar-s.nbVars)...)\n\t\tfor i := s.nbVars; i < cnfVar; i++ {\n\t\t\ts.model = append(s.model, 0)", Expect: ""},
	)
}
