package main

import (
	"fmt"
	"go/token"
	"go/types"
	"sort"
	"strings"

	"golang.org/x/tools/go/ssa"
)

// Rules added after the third round of externally written mutants (see DESIGN.md section 9).

// ---------- R11.7: the normal form of an n-ary connective drops an operand only when it is a constant ----------

func ruleR11_7(w *World, r *Report) {
	r.Rule("R11.7", "in the normal-form method of an n-ary connective, an iteration over the operands reaches the next operand without appending anything to the result only when the operand's normal form is one of the constants (the identity of the connective)", 2)
	m, _ := bfOf(w)
	if m.err != "" {
		r.Unk("R11.7", "bf.Formula", "-", m.err)
		return
	}
	n := 0
	for _, c := range m.naryConnectives() {
		fn := m.method(c, m.nnf)
		if fn == nil || len(fn.Blocks) == 0 {
			continue
		}
		for _, h := range loopHeaders(fn) {
			body := loopBlocks(fn, h)
			// the loop must call the normal-form method on an element (the operand loop)
			operandLoop := false
			for b := range body {
				for _, ins := range b.Instrs {
					if c2, ok := ins.(*ssa.Call); ok && m.isNNFInvoke(&c2.Call) {
						operandLoop = true
					}
				}
			}
			if !operandLoop {
				continue
			}
			n++
			key := fmt.Sprintf("%s keeps every non-constant operand", w.FuncName(fn))
			// the result accumulator: phi of the connective's type in the header
			var acc *ssa.Phi
			for _, ins := range h.Instrs {
				if p, ok := ins.(*ssa.Phi); ok && types.Identical(p.Type(), c) {
					acc = p
				}
			}
			if acc == nil {
				r.Unk("R11.7", key, w.Pos(fn.Pos()), "no accumulator of the connective's type is carried by the operand loop")
				continue
			}
			var bad []string
			_, trunc := exploreEdges(h.Succs[0], &pstate{phi: map[*ssa.Phi]ssa.Value{}, facts: map[string]string{}},
				func(b *ssa.BasicBlock) bool { return b == h || !body[b] },
				func(ins ssa.Instruction, st *pstate) {},
				func(from, to *ssa.BasicBlock, st *pstate) {
					if to != h {
						return
					}
					in := phiIncoming(acc, from, st)
					if in != ssa.Value(acc) {
						return // something was appended (or the accumulator replaced)
					}
					// unchanged accumulator: some successful type test on this path must be to a constant type
					for k, v := range st.facts {
						if v != "=true" || !strings.HasPrefix(k, "cond:v:") {
							continue
						}
						name := strings.TrimPrefix(k, "cond:v:")
						for _, b := range fn.Blocks {
							for _, ins := range b.Instrs {
								ex, ok := ins.(*ssa.Extract)
								if !ok || ex.Name() != name || ex.Index != 1 {
									continue
								}
								if ta, ok := ex.Tuple.(*ssa.TypeAssert); ok && m.isConstType(ta.AssertedType) {
									return
								}
							}
						}
					}
					bad = append(bad, w.InstrPos(from.Instrs[len(from.Instrs)-1]))
				})
			if trunc {
				r.Unk("R11.7", key, w.Pos(fn.Pos()), "state space too large")
				continue
			}
			if len(bad) > 0 {
				bad = dedupe(bad)
				sort.Strings(bad)
				r.Bad("R11.7", key, bad[0], "an operand that is not a constant can be left out of the result (iteration ending at "+strings.Join(bad, ", ")+"): the normal form then has other models than the formula (e.g. a literal dropped because its variable was seen with the other sign)")
			} else {
				r.OK("R11.7", key, w.Pos(fn.Pos()), "operands are dropped only in a constant case")
			}
		}
	}
	if n < 2 {
		r.Unk("R11.7", "operand loops", "-", fmt.Sprintf("%d operand loop(s) found in the normal-form methods of the n-ary connectives", n))
	}
}

// ---------- R11.8: `no model` is returned only under a solver status other than Sat ----------

func ruleR11_8(w *World, r *Report) {
	r.Rule("R11.8", "the function that hands the clauses to the solver returns the nil model only under a solver status found different from Sat (an empty clause list is a satisfiable problem)", 1)
	sat, _ := w.statusConst("Sat")
	n := 0
	for _, fn := range w.Fns {
		if w.PkgName(fn) != "bf" || fn.Signature.Results().Len() != 1 {
			continue
		}
		if _, isMap := fn.Signature.Results().At(0).Type().Underlying().(*types.Map); !isMap {
			continue
		}
		// calls a solver's Solve
		var solve *ssa.Call
		for _, ci := range callsIn(fn) {
			if c, ok := ci.(*ssa.Call); ok && typeShort(c.Type()) == "solver.Status" {
				solve = c
			}
		}
		if solve == nil {
			continue
		}
		n++
		key := w.FuncName(fn) + " answers `no model` only when the solver does"
		var bad []string
		allInstrs(fn, func(ins ssa.Instruction) {
			ret, ok := ins.(*ssa.Return)
			if !ok || len(ret.Results) != 1 {
				return
			}
			if k, isK := ret.Results[0].(*ssa.Const); !isK || !k.IsNil() {
				return
			}
			okc := false
			for _, ec := range dominatingConds(ret.Block()) {
				bo, isB := ec.Cond.(*ssa.BinOp)
				if !isB || (bo.Op != token.NEQ && bo.Op != token.EQL) || bo.X != ssa.Value(solve) {
					continue
				}
				if k, isK := constInt(bo.Y); isK && k == sat && (bo.Op == token.NEQ) == ec.True {
					okc = true
				}
			}
			if !okc {
				bad = append(bad, w.InstrPos(ret))
			}
		})
		if len(bad) > 0 {
			r.Bad("R11.8", key, bad[0], "the nil model is returned at "+strings.Join(bad, ", ")+" without the solver having answered something other than Sat: formulas that fold to True (no clause at all) are reported as having no model")
		} else {
			r.OK("R11.8", key, w.InstrPos(solve), "nil only under status != Sat")
		}
	}
	if n == 0 {
		r.Unk("R11.8", "solve bridge", "-", "no function of package bf returning a map calls a solver")
	}
}

// ---------- R12.3: name comments are written for the variables of the formula only ----------

func ruleR12_3(w *World, r *Report) {
	r.Rule("R12.3", "bf.Dimacs collects a name for the comment lines only from a key of the counted variable map whose dummy flag is false (helper variables have no index in that numbering)", 1)
	m, _ := bfOf(w)
	if m.err != "" {
		r.Unk("R12.3", "bf.Formula", "-", m.err)
		return
	}
	fn := w.Func(m.pkg, "Dimacs")
	if fn == nil {
		r.Unk("R12.3", "bf.Dimacs", "-", "exported function not found")
		return
	}
	// follow the writer helpers as R12.1 does: look at Dimacs and at the module functions it calls
	fns := []*ssa.Function{fn}
	for _, ci := range callsIn(fn) {
		if g := ci.Common().StaticCallee(); g != nil && m.inPkg[w.unwrap(g)] && len(w.unwrap(g).Blocks) > 0 {
			fns = append(fns, w.unwrap(g))
		}
	}
	n := 0
	for _, f := range fns {
		allInstrs(f, func(ins ssa.Instruction) {
			// a map range: Next on a Range over a map keyed by the variable type
			nx, ok := ins.(*ssa.Next)
			if !ok {
				return
			}
			rg, ok := nx.Iter.(*ssa.Range)
			if !ok {
				return
			}
			mt, ok := rg.X.Type().Underlying().(*types.Map)
			if !ok {
				return
			}
			st, ok := mt.Key().Underlying().(*types.Struct)
			if !ok {
				return
			}
			flag := -1
			nameIdx := -1
			for i := 0; i < st.NumFields(); i++ {
				if b, isB := st.Field(i).Type().Underlying().(*types.Basic); isB {
					if b.Kind() == types.Bool {
						flag = i
					}
					if b.Kind() == types.String {
						nameIdx = i
					}
				}
			}
			if flag < 0 || nameIdx < 0 {
				return
			}
			// key value: extract #1 of the Next
			var key ssa.Value
			for _, ref := range *nx.Referrers() {
				if ex, isE := ref.(*ssa.Extract); isE && ex.Index == 1 {
					key = ex
				}
			}
			if key == nil {
				return
			}
			// the key may be spilled into a local cell
			var cell *ssa.Alloc
			for _, ref := range *key.Referrers() {
				if st, isS := ref.(*ssa.Store); isS && st.Val == key {
					if al, isAl := st.Addr.(*ssa.Alloc); isAl {
						cell = al
					}
				}
			}
			isFieldOfKey := func(v ssa.Value, idx int) bool {
				switch x := v.(type) {
				case *ssa.Field:
					return x.X == key && x.Field == idx
				case *ssa.UnOp:
					if fa, isFA := x.X.(*ssa.FieldAddr); isFA && x.Op == token.MUL {
						return cell != nil && fa.X == ssa.Value(cell) && fa.Field == idx
					}
				}
				return false
			}
			// stores of key.name (collection of the name)
			allInstrs(f, func(i2 ssa.Instruction) {
				st2, isS := i2.(*ssa.Store)
				if !isS || !isFieldOfKey(st2.Val, nameIdx) {
					return
				}
				n++
				k := fmt.Sprintf("%s name collection #%d", w.FuncName(f), n)
				okc := false
				for _, ec := range dominatingConds(st2.Block()) {
					if isFieldOfKey(ec.Cond, flag) && !ec.True {
						okc = true
					}
				}
				r.Check(okc, "R12.3", k, w.InstrPos(st2), "only under a false dummy flag",
					"the name of a helper variable (dummy flag set) is collected for the comment lines: it has no index in the numbering of the formula's variables, so the line maps it to index 0 or to another variable's index")
			})
		})
	}
	if n == 0 {
		r.Unk("R12.3", "name collection", "-", "no loop over a map keyed by variables collects names in bf.Dimacs or its helpers")
	}
}

// ---------- R12.4: helper variables are registered with the dummy flag ----------

func ruleR12_4(w *World, r *Report) {
	r.Rule("R12.4", "the allocator of helper indices (no formula argument) registers its fresh index under a key whose dummy flag is set: a formula variable carrying the same name is a different key", 1)
	m, _ := bfOf(w)
	if m.err != "" {
		r.Unk("R12.4", "bf.Formula", "-", m.err)
		return
	}
	n := 0
	for fn := range m.auxAllocators() {
		// allocators that take no variable / literal argument
		takesVar := false
		for i, p := range fn.Params {
			if i == 0 && fn.Signature.Recv() != nil {
				continue
			}
			if _, isStruct := p.Type().Underlying().(*types.Struct); isStruct {
				takesVar = true
			}
		}
		if takesVar {
			continue
		}
		allInstrs(fn, func(ins ssa.Instruction) {
			// the key handed to a shared numbering step (`vars.add(dummyVar(name))`) is the key registered
			if c, isC := ins.(*ssa.Call); isC {
				g := c.Call.StaticCallee()
				if g == nil || !m.inPkg[g] || !returnsFreshIndex(g) {
					return
				}
				for _, a := range c.Call.Args {
					st, ok := a.Type().Underlying().(*types.Struct)
					if !ok {
						continue
					}
					flag := -1
					for i := 0; i < st.NumFields(); i++ {
						if b, isB := st.Field(i).Type().Underlying().(*types.Basic); isB && b.Kind() == types.Bool {
							flag = i
						}
					}
					if flag < 0 {
						continue
					}
					n++
					key := fmt.Sprintf("%s registers helper #%d", w.FuncName(fn), n)
					r.Check(structFieldIsTrue(w, a, flag, 0), "R12.4", key, w.InstrPos(c), "key built with the dummy flag set",
						"the helper index is registered under a key whose dummy flag is not set: a variable of the formula that happens to carry the generated name is looked up as the same key and shares the helper's index (and gets no name comment)")
				}
				return
			}
			mu, ok := ins.(*ssa.MapUpdate)
			if !ok {
				return
			}
			st, ok := mu.Key.Type().Underlying().(*types.Struct)
			if !ok {
				return
			}
			flag := -1
			for i := 0; i < st.NumFields(); i++ {
				if b, isB := st.Field(i).Type().Underlying().(*types.Basic); isB && b.Kind() == types.Bool {
					flag = i
				}
			}
			if flag < 0 {
				return
			}
			n++
			key := fmt.Sprintf("%s registers helper #%d", w.FuncName(fn), n)
			r.Check(structFieldIsTrue(w, mu.Key, flag, 0), "R12.4", key, w.InstrPos(mu), "key built with the dummy flag set",
				"the helper index is registered under a key whose dummy flag is not set: a variable of the formula that happens to carry the generated name is looked up as the same key and shares the helper's index (and gets no name comment)")
		})
	}
	if n == 0 {
		r.Unk("R12.4", "helper allocator", "-", "no index allocator without formula argument updates a map keyed by variables")
	}
}

// structFieldIsTrue: struct value v has field #idx equal to the constant true (composite built locally, or result of a
// function all of whose returns do).
func structFieldIsTrue(w *World, v ssa.Value, idx int, depth int) bool {
	if depth > 3 {
		return false
	}
	switch x := v.(type) {
	case *ssa.UnOp:
		if x.Op != token.MUL {
			return false
		}
		al, ok := x.X.(*ssa.Alloc)
		if !ok {
			return false
		}
		set := false
		for _, ref := range *al.Referrers() {
			fa, isFA := ref.(*ssa.FieldAddr)
			if !isFA || fa.Field != idx {
				continue
			}
			for _, r2 := range *fa.Referrers() {
				if st, isS := r2.(*ssa.Store); isS && st.Addr == ssa.Value(fa) {
					k, isK := st.Val.(*ssa.Const)
					if !isK || k.Value == nil || k.Value.String() != "true" {
						return false
					}
					set = true
				}
			}
		}
		return set
	case *ssa.Call:
		sc := x.Call.StaticCallee()
		if sc == nil || len(sc.Blocks) == 0 {
			return false
		}
		sc = w.unwrap(sc)
		all, any := true, false
		for _, b := range sc.Blocks {
			if ret, ok := b.Instrs[len(b.Instrs)-1].(*ssa.Return); ok && len(ret.Results) == 1 {
				any = true
				if !structFieldIsTrue(w, ret.Results[0], idx, depth+1) {
					all = false
				}
			}
		}
		return all && any
	}
	return false
}

// ---------- R15.7: the literals handed to the constraint constructor are a slice of their own ----------

func ruleR15_7(w *World, r *Report) {
	r.Rule("R15.7", "in DetectAtMostOne the slice handed to the cardinality-constraint constructor (which keeps it) is built from an allocation made in the same iteration of the candidate loop, not carried over from an earlier iteration or from outside the loop", 1)
	fn := w.Func("solver", "Problem.DetectAtMostOne")
	if fn == nil {
		r.Unk("R15.7", "(*solver.Problem).DetectAtMostOne", "-", "method not found")
		return
	}
	n := 0
	for _, ci := range callsIn(fn) {
		c, ok := ci.(*ssa.Call)
		if !ok || len(c.Call.Args) == 0 || !inLoop(fn, c.Block()) {
			continue
		}
		var lits ssa.Value
		if typeShort(c.Type()) == "*solver.Clause" {
			for _, a := range c.Call.Args {
				if typeShort(a.Type()) == "[]solver.Lit" {
					lits = a
				}
			}
		} else if h := c.Call.StaticCallee(); h != nil && w.PkgName(h) == "solver" && len(h.Blocks) > 0 {
			// a helper that builds the constraint from the group it is handed (`pb.addAtMostOne(constr)`)
			for ai, a := range c.Call.Args {
				if typeShort(a.Type()) != "[]solver.Lit" || ai >= len(h.Params) {
					continue
				}
				for _, hi := range callsIn(h) {
					hc, isCall := hi.(*ssa.Call)
					if !isCall || typeShort(hc.Type()) != "*solver.Clause" {
						continue
					}
					for _, ha := range hc.Call.Args {
						if ha == ssa.Value(h.Params[ai]) {
							lits = a
						}
					}
				}
			}
		}
		if lits == nil {
			continue
		}
		n++
		key := fmt.Sprintf("%s constraint #%d owns its literals", w.FuncName(fn), n)
		// outermost loop around the call
		var outer *ssa.BasicBlock
		for _, h := range loopHeaders(fn) {
			lb := loopBlocks(fn, h)
			if lb[c.Block()] && (outer == nil || len(lb) > len(loopBlocks(fn, outer))) {
				outer = h
			}
		}
		body := loopBlocks(fn, outer)
		why := ""
		seen := map[ssa.Value]bool{}
		var walk func(v ssa.Value)
		walk = func(v ssa.Value) {
			if v == nil || seen[v] || why != "" {
				return
			}
			seen[v] = true
			switch x := v.(type) {
			case *ssa.Call:
				if b, isB := x.Call.Value.(*ssa.Builtin); isB && b.Name() == "append" {
					walk(x.Call.Args[0])
					return
				}
				why = "the slice comes from a call the rule does not model"
			case *ssa.Slice:
				if al, isAl := x.X.(*ssa.Alloc); isAl {
					// a composite literal: the backing array is allocated where the Alloc executes
					if !body[al.Block()] {
						why = "its backing array is allocated outside the candidate loop"
					}
					return
				}
				walk(x.X)
			case *ssa.MakeSlice:
				if !body[x.Block()] {
					why = "it is allocated once, outside the candidate loop, and reused"
				}
			case *ssa.Const:
				// nil slice: append allocates
			case *ssa.Phi:
				if x.Block() == outer {
					why = "it is carried from one candidate to the next"
					return
				}
				for _, e := range x.Edges {
					walk(e)
				}
			default:
				if ins, isI := v.(ssa.Instruction); isI && !body[ins.Block()] {
					why = "it is defined outside the candidate loop"
				}
			}
		}
		walk(lits)
		r.Check(why == "", "R15.7", key, w.InstrPos(c), "built from an allocation of the same iteration",
			"the constructor keeps the slice it is given, and "+why+": the literals of a constraint emitted earlier are overwritten by a later candidate")
	}
	if n == 0 {
		r.Unk("R15.7", "constraint construction", "-", "no constructor call with a literal slice inside a loop of DetectAtMostOne")
	}
}

func isParserLevel(w *World, callee *ssa.Function) bool {
	return callee != nil && w.PkgName(callee) == "bf" && callee.Signature.Recv() != nil && callee.Signature.Results().Len() == 2 &&
		isErrorType(callee.Signature.Results().At(1).Type()) && typeShort(callee.Signature.Recv().Type()) == "*bf.parser"
}

// testsEofFirst: on every path from its entry, fn tests the end-of-input flag (itself or through the first parser
// method it calls) before it consumes a token or builds anything; returning early is fine.
func testsEofFirst(w *World, fn *ssa.Function, scan *ssa.Function, depth int) bool {
	if depth > 4 || len(fn.Blocks) == 0 {
		return false
	}
	seen := map[*ssa.BasicBlock]bool{}
	var ok func(b *ssa.BasicBlock) bool
	ok = func(b *ssa.BasicBlock) bool {
		if seen[b] {
			return true
		}
		seen[b] = true
		for _, ins := range b.Instrs {
			switch x := ins.(type) {
			case *ssa.Call:
				if w.staticCalleeIs(x, scan) {
					return false
				}
				if callee := x.Call.StaticCallee(); isParserLevel(w, callee) {
					return testsEofFirst(w, callee, scan, depth+1)
				}
			case *ssa.If:
				if ld, isL := x.Cond.(*ssa.UnOp); isL && ld.Op == token.MUL {
					if _, f, _, okF := fieldOf(ld.X); okF && f == "eof" {
						return true
					}
				}
			case *ssa.Return:
				return true
			}
		}
		for _, s := range b.Succs {
			if !ok(s) {
				return false
			}
		}
		return true
	}
	return ok(fn.Blocks[0])
}

// ---------- R17.4: after an operator is consumed, end of input is tested before the right operand ----------

func ruleR17_4(w *World, r *Report) {
	r.Rule("R17.4", "in the formula parser, between the call that consumes a token and a following call that parses an operand, the end-of-input flag is tested (a missing right operand is an error, not an empty variable)", 4)
	// the token reader: the method of the parser without parameters or results that advances the text scanner; the
	// name is only the fallback
	scan := w.Func("bf", "parser.scan")
	for _, f := range w.Fns {
		if w.PkgName(f) != "bf" || f.Signature.Recv() == nil || typeShort(f.Signature.Recv().Type()) != "*bf.parser" ||
			f.Signature.Params().Len() != 0 || f.Signature.Results().Len() != 0 {
			continue
		}
		for _, ci := range callsIn(f) {
			if c, ok := ci.(*ssa.Call); ok && isScannerScan(c) {
				scan = f
			}
		}
	}
	if scan == nil {
		r.Unk("R17.4", "(*bf.parser).scan", "-", "method not found")
		return
	}
	// checked readers: methods of the parser returning only an error that consume a token and answer nil only behind
	// the outcome `not at the end of input` of a test made after the token was consumed (`scanOperand()`)
	checked := map[*ssa.Function]bool{}
	for _, h := range w.Fns {
		if w.PkgName(h) != "bf" || h.Signature.Recv() == nil || typeShort(h.Signature.Recv().Type()) != "*bf.parser" ||
			h.Signature.Results().Len() != 1 || !isErrorType(h.Signature.Results().At(0).Type()) {
			continue
		}
		var sc *ssa.Call
		for _, ci := range callsIn(h) {
			if c, ok := ci.(*ssa.Call); ok && w.staticCalleeIs(c, scan) {
				sc = c
			}
		}
		if sc == nil {
			continue
		}
		okAll, rets := true, 0
		allInstrs(h, func(ins ssa.Instruction) {
			ret, isRet := ins.(*ssa.Return)
			if !isRet || len(ret.Results) != 1 || !isNilConst(ret.Results[0]) {
				return
			}
			rets++
			tested := false
			for _, ec := range dominatingConds(ret.Block()) {
				if ld, isL := ec.Cond.(*ssa.UnOp); isL && ld.Op == token.MUL && !ec.True {
					if _, f, _, okF := fieldOf(ld.X); okF && f == "eof" && (ec.If.Block() == sc.Block() || sc.Block().Dominates(ec.If.Block())) {
						tested = true
					}
				}
			}
			if !tested {
				okAll = false
			}
		})
		if okAll && rets > 0 {
			checked[h] = true
		}
	}
	n := 0
	for _, fn := range w.Fns {
		if w.PkgName(fn) != "bf" || fn.Signature.Recv() == nil || typeShort(fn.Signature.Recv().Type()) != "*bf.parser" {
			continue
		}
		res := fn.Signature.Results()
		if res.Len() != 2 || !isErrorType(res.At(1).Type()) {
			continue
		}
		var bad []string
		sites := 0
		for _, ci := range callsIn(fn) {
			sc, ok := ci.(*ssa.Call)
			if ok && sc.Call.StaticCallee() != nil && checked[sc.Call.StaticCallee()] {
				sites++ // consumed and tested by the checked reader
				continue
			}
			if !ok || !w.staticCalleeIs(sc, scan) {
				continue
			}
			// walk forward from the scan call; stop at an eof test; report operand-parsing calls reached before one
			seen := map[*ssa.BasicBlock]bool{}
			var walk func(b *ssa.BasicBlock, from int)
			walk = func(b *ssa.BasicBlock, from int) {
				for i := from; i < len(b.Instrs); i++ {
					switch x := b.Instrs[i].(type) {
					case *ssa.Call:
						if w.staticCalleeIs(x, scan) {
							return // a later scan starts its own obligation
						}
						callee := x.Call.StaticCallee()
						if isParserLevel(w, callee) {
							sites++
							if !testsEofFirst(w, callee, scan, 0) {
								bad = append(bad, w.InstrPos(x))
							}
							return
						}
					case *ssa.If:
						if ld, isL := x.Cond.(*ssa.UnOp); isL && ld.Op == token.MUL {
							if _, f, _, okF := fieldOf(ld.X); okF && f == "eof" {
								sites++
								return // tested
							}
						}
					case *ssa.Return:
						return
					}
				}
				for _, s := range b.Succs {
					if !seen[s] {
						seen[s] = true
						walk(s, 0)
					}
				}
			}
			walk(sc.Block(), indexOfInstr(sc.Block(), sc)+1)
		}
		if sites == 0 {
			continue
		}
		n++
		key := w.FuncName(fn) + " tests end of input after consuming a token"
		if len(bad) > 0 {
			bad = dedupe(bad)
			sort.Strings(bad)
			r.Bad("R17.4", key, bad[0], "an operand is parsed at "+strings.Join(bad, ", ")+" right after a token was consumed, without testing the end-of-input flag in between: a text ending with a dangling operator is accepted, the missing operand becoming a variable with an empty name")
		} else {
			r.OK("R17.4", key, w.Pos(fn.Pos()), "every consumed token is followed by an end-of-input test before an operand is parsed")
		}
	}
	if n < 4 {
		r.Unk("R17.4", "parser levels", "-", fmt.Sprintf("%d parser method(s) with a consume-then-parse sequence found", n))
	}
}

// ---------- R3.6: slices sorted in parallel have the same length ----------

// A sorter type with a literal slice and a weight slice (Less / Swap index both with the same position) is only safe
// when both slices have the same length. Where both are built locally the lengths must be the length of the same
// thing; `make([]int, len(s.minWeights))` next to `make([]Lit, len(s.minLits))` is equal only when weights are
// present, although SetCostFunc documents that weights may be nil.
func ruleR3_6(w *World, r *Report) {
	r.Rule("R3.6", "where a sorter over parallel literal / weight slices is built from slices made in the same function, both are made with the length of the same list (or the site is dominated by a test that the shorter-when-nil list is not nil)", 1)
	lenOrigin := func(fn *ssa.Function, v ssa.Value, at ssa.Instruction) (string, bool) {
		for i := 0; i < 4; i++ {
			switch x := v.(type) {
			case *ssa.MakeSlice:
				if c, ok := x.Len.(*ssa.Call); ok {
					if b, isB := c.Call.Value.(*ssa.Builtin); isB && b.Name() == "len" {
						if o, f, _, okF := loadedFieldOf(c.Call.Args[0]); okF {
							return o + "." + f, true
						}
					}
				}
				return "", false
			case *ssa.UnOp:
				if x.Op != token.MUL {
					return "", false
				}
				o, f, _, okF := fieldOf(x.X)
				if !okF {
					return "", false
				}
				// the last store to that field in this function that dominates the use
				var last *ssa.Store
				for _, st := range storesToField(fn, o, f) {
					if instrDominates(st, at) && (last == nil || instrDominates(last, st)) {
						last = st
					}
				}
				if last == nil {
					return "", false
				}
				v = last.Val
				continue
			}
			break
		}
		return "", false
	}
	n := 0
	for _, fn := range w.Fns {
		if w.PkgName(fn) != "solver" {
			continue
		}
		allInstrs(fn, func(ins ssa.Instruction) {
			al, ok := ins.(*ssa.Alloc)
			if !ok {
				return
			}
			st, ok := derefNamedStruct(al.Type())
			if !ok || st.NumFields() != 2 {
				return
			}
			li, wi := -1, -1
			for i := 0; i < 2; i++ {
				switch typeShort(st.Field(i).Type()) {
				case "[]solver.Lit":
					li = i
				case "[]int":
					wi = i
				}
			}
			if li < 0 || wi < 0 {
				return
			}
			var lv, wv ssa.Value
			var at ssa.Instruction
			for _, ref := range *al.Referrers() {
				fa, isFA := ref.(*ssa.FieldAddr)
				if !isFA {
					continue
				}
				for _, r2 := range *fa.Referrers() {
					if s2, isS := r2.(*ssa.Store); isS && s2.Addr == ssa.Value(fa) {
						if fa.Field == li {
							lv = s2.Val
						} else {
							wv = s2.Val
						}
						at = s2
					}
				}
			}
			if lv == nil || wv == nil {
				return
			}
			lo, ok1 := lenOrigin(fn, lv, at)
			wo, ok2 := lenOrigin(fn, wv, at)
			if ok1 && !ok2 {
				// the literal slice is made here but the weight slice is not: it is storage that lives elsewhere
				if o, f, _, okF := loadedFieldOf(wv); okF {
					n++
					r.Bad("R3.6", fmt.Sprintf("%s parallel sorter #%d", w.FuncName(fn), n), w.InstrPos(at), fmt.Sprintf("the sorter is given %s.%s itself, not a copy made here: sorting permutes the stored weights, which stay paired by position with the unsorted cost literals", o, f))
				}
				return
			}
			if !ok1 || !ok2 {
				return // lengths come from the caller: the constructor's own contract (R2.1)
			}
			n++
			key := fmt.Sprintf("%s parallel sorter #%d", w.FuncName(fn), n)
			if lo == wo {
				r.OK("R3.6", key, w.InstrPos(at), "both slices have the length of "+lo)
				return
			}
			// different lists: equal only when the second is known non-nil here
			guarded := false
			for _, ec := range dominatingConds(at.Block()) {
				if bo, isB := ec.Cond.(*ssa.BinOp); isB && isNilConst(bo.Y) && (bo.Op == token.NEQ) == ec.True && (bo.Op == token.NEQ || bo.Op == token.EQL) {
					if o, f, _, okF := loadedFieldOf(bo.X); okF && o+"."+f == wo {
						guarded = true
					}
				}
			}
			r.Check(guarded, "R3.6", key, w.InstrPos(at), "the weight list is known non-nil here",
				fmt.Sprintf("the literal slice has the length of %s and the weight slice the length of %s: when the weight list is nil (documented: all weights are 1) the sorter indexes an empty slice and panics", lo, wo))
		})
	}
	if n == 0 {
		r.Unk("R3.6", "parallel sorters", "-", "no sorter over a literal slice and a weight slice is built from locally made slices")
	}
}

func derefNamedStruct(t types.Type) (*types.Struct, bool) {
	if p, ok := t.Underlying().(*types.Pointer); ok {
		t = p.Elem()
	}
	st, ok := t.Underlying().(*types.Struct)
	return st, ok
}

// ---------- R5.7: the blocking clause of a model watches its two deepest decisions ----------

// After a model, the clause `not all decisions again` is stored, the search backjumps one level and goes on with the
// negation of the deepest decision. A clause watches its first two literals. If those are the shallowest decisions,
// both watches are false from the start and stay so while only deeper levels are retracted: the clause is never
// woken again, the same decisions can be taken again, and a model is delivered twice. So the literal the search
// continues with must be at a watched position, and the list must be ordered deepest first.
func ruleR5_7(w *World, r *Report) {
	r.Rule("R5.7", "where the negated decisions of a found model are stored as a clause and the search continues with one of them, that literal is taken from a watched position of the clause (index 0 or 1), and the function that lists the negated decisions puts deeper levels at smaller indexes", 2)
	npc := w.Func("solver", "NewClause")
	if npc == nil {
		r.Unk("R5.7", "solver.NewClause", "-", "constructor not found")
		return
	}
	producers := map[*ssa.Function]bool{}
	n := 0
	for _, fn := range w.Fns {
		if w.PkgName(fn) != "solver" {
			continue
		}
		for _, ci := range callsIn(fn) {
			mk, ok := ci.(*ssa.Call)
			if !ok || !w.staticCalleeIs(mk, npc) || len(mk.Call.Args) != 1 {
				continue
			}
			lits := mk.Call.Args[0]
			// the clause becomes the reason of a literal taken from the same list
			for _, ref := range *mk.Referrers() {
				st, isS := ref.(*ssa.Store)
				if !isS || st.Val != ssa.Value(mk) {
					continue
				}
				ia, isIA := st.Addr.(*ssa.IndexAddr)
				if !isIA {
					continue
				}
				if _, isR := isFieldLoad(ia.X, "solver.Solver", "reason"); !isR {
					continue
				}
				n++
				key := fmt.Sprintf("%s continues with a watched literal of the blocking clause #%d", w.FuncName(fn), n)
				// the variable index: Var(L) with L = lits[idx]
				idx := ia.Index
				if c, isC := idx.(*ssa.Convert); isC {
					idx = c.X
				}
				var L ssa.Value
				if vc, isC := idx.(*ssa.Call); isC && len(vc.Call.Args) == 1 {
					L = vc.Call.Args[0]
				}
				if ph, isP := L.(*ssa.Phi); isP {
					// the literal variable of the loop: take the edge defined in this iteration
					for _, e := range ph.Edges {
						if sl, _, okE := elemOfSlice(e); okE && sl == lits {
							L = e
						}
					}
				}
				sl, pos, okE := elemOfSlice(L)
				if !okE || sl != lits {
					r.Unk("R5.7", key, w.InstrPos(st), "the literal that gets the clause as reason is not an element of the clause's literal list")
					continue
				}
				k, isK := constInt(pos)
				r.Check(isK && (k == 0 || k == 1), "R5.7", key, w.InstrPos(st), fmt.Sprintf("element %d of the list", k),
					"the search continues with an element of the list that is not at a watched position (e.g. the last one): the clause watches its two first literals, which are false from the start; after a backjump that keeps them the clause is never examined again and the blocked model can be found a second time")
				if c, isC := lits.(*ssa.Call); isC {
					for _, callee := range w.Callees[c] {
						producers[callee] = true
					}
				}
				if pr, isP := lits.(*ssa.Parameter); isP {
					// the step lives in a helper: the list is what the callers pass
					if pi := paramIndex(fn, pr); pi >= 0 {
						for _, site := range w.Callers[fn] {
							if args := site.Common().Args; pi < len(args) {
								if c, isC := args[pi].(*ssa.Call); isC {
									for _, callee := range w.Callees[c] {
										producers[callee] = true
									}
								}
							}
						}
					}
				}
			}
		}
	}
	if n == 0 {
		r.Unk("R5.7", "blocking clauses", "-", "no clause built from a list becomes the reason of an element of that list")
		return
	}
	var ps []*ssa.Function
	for p := range producers {
		ps = append(ps, p)
	}
	sort.Slice(ps, func(i, j int) bool { return w.FuncName(ps[i]) < w.FuncName(ps[j]) })
	for _, g := range ps {
		key := w.FuncName(g) + " lists deeper decisions first"
		var bad []string
		stores := 0
		allInstrs(g, func(ins ssa.Instruction) {
			st, ok := ins.(*ssa.Store)
			if !ok || typeShort(st.Val.Type()) != "solver.Lit" {
				return
			}
			ia, ok := st.Addr.(*ssa.IndexAddr)
			if !ok {
				return
			}
			if _, isMk := ia.X.(*ssa.MakeSlice); !isMk {
				return
			}
			stores++
			f := lfOf(ia.Index, 0)
			neg, pos := 0, 0
			for atom, c := range f.terms {
				_ = atom
				if c < 0 {
					neg++
				} else if c > 0 {
					pos++
				}
			}
			// the level of the variable must enter with a negative sign: index = (number of levels) - level
			if neg == 0 {
				bad = append(bad, fmt.Sprintf("%s: index %s grows with the level", w.InstrPos(st), f.String()))
			}
		})
		switch {
		case stores == 0:
			r.Unk("R5.7", key, w.Pos(g.Pos()), "no indexed store of a literal into a slice made here")
		case len(bad) > 0:
			r.Bad("R5.7", key, w.Pos(g.Pos()), "the negated decisions are listed shallowest first ("+strings.Join(bad, "; ")+"): the clause built from the list watches the two shallowest decisions, which are the last to be retracted, instead of the two deepest")
		default:
			r.OK("R5.7", key, w.Pos(g.Pos()), fmt.Sprintf("%d store(s), position = levels - level", stores))
		}
	}
}

// ---------- R9.7: a literal from a list is bound at the top level of a live solver only after its status was consulted ----------

// Binding overwrites. On a live solver a literal handed in from a list (forced literals of an added constraint, unit
// clauses re-installed by Assume, assumptions) may already be false at the top level because an earlier element of the
// same list propagated its negation; writing the binding anyway hides the contradiction, and the propagation that
// follows starts from an inconsistent assignment (observed: optimum 0 with a model violating a constraint).
func ruleR9_7(w *World, r *Report) {
	r.Rule("R9.7", "in every method of a live Solver that binds the elements of a literal list at level 1, the binding of an element is dominated by a test of that element's current status that excludes `already false` (which must lead to Unsat instead)", 2)
	unsatK, _ := w.statusConst("Unsat")
	n := 0
	for _, fn := range w.Fns {
		if w.PkgName(fn) != "solver" || fn.Signature.Recv() == nil || typeShort(fn.Signature.Recv().Type()) != "*solver.Solver" {
			continue
		}
		k := 0
		seen := map[ssa.Value]bool{}
		allInstrs(fn, func(ins ssa.Instruction) {
			st, ok := ins.(*ssa.Store)
			if !ok {
				return
			}
			lit, ok := level1Binding(st)
			if !ok || seen[lit] {
				return
			}
			if _, _, isElem := elemOfSlice(lit); !isElem {
				return
			}
			seen[lit] = true
			k++
			n++
			key := fmt.Sprintf("%s consults the status before binding list element #%d", w.FuncName(fn), k)
			// evidence carried by a branch edge (condition, polarity)
			evidence := func(cond ssa.Value, pol bool) bool {
				bo, isB := cond.(*ssa.BinOp)
				if !isB || (bo.Op != token.EQL && bo.Op != token.NEQ) {
					return false
				}
				c, isC := bo.X.(*ssa.Call)
				if !isC {
					return false
				}
				// `abs(model[lit.Var()]) == 1` false: not bound at the top level, hence unbound once deeper levels are retracted
				if typeShort(c.Type()) == "solver.decLevel" && len(c.Call.Args) == 1 {
					if ld, isL := c.Call.Args[0].(*ssa.UnOp); isL && ld.Op == token.MUL {
						if ia, isIA := ld.X.(*ssa.IndexAddr); isIA {
							if _, isM := isFieldLoad(ia.X, "solver.Solver", "model"); isM {
								idx := ia.Index
								if cv, isCv := idx.(*ssa.Convert); isCv {
									idx = cv.X
								}
								if vc, isV := idx.(*ssa.Call); isV && len(vc.Call.Args) == 1 && vc.Call.Args[0] == lit {
									if k1, isK1 := constInt(bo.Y); isK1 && k1 == 1 && (bo.Op == token.NEQ) == pol {
										return true
									}
								}
							}
						}
					}
					return false
				}
				if typeShort(c.Type()) != "solver.Status" {
					return false
				}
				same := false
				for _, a := range c.Call.Args {
					if a == lit {
						same = true
					}
				}
				kk, isK := constInt(bo.Y)
				if !same || !isK {
					return false
				}
				// `== Unsat` false edge, `!= Unsat` true edge, or `== X` true edge for another constant X
				if kk == unsatK && (bo.Op == token.NEQ) == pol {
					return true
				}
				return kk != unsatK && (bo.Op == token.EQL) == pol
			}
			// every path from the definition of the element to the binding passes an edge carrying evidence
			defBlock := fn.Blocks[0]
			if li, isI := lit.(ssa.Instruction); isI {
				defBlock = li.Block()
			}
			visited := map[*ssa.BasicBlock]bool{}
			var covered func(b *ssa.BasicBlock) bool
			covered = func(b *ssa.BasicBlock) bool {
				if b == defBlock || len(b.Preds) == 0 {
					return false
				}
				if visited[b] {
					return true
				}
				visited[b] = true
				for _, p := range b.Preds {
					if iff, isIf := p.Instrs[len(p.Instrs)-1].(*ssa.If); isIf && p.Succs[0] != p.Succs[1] {
						if evidence(iff.Cond, p.Succs[0] == b) {
							continue
						}
					}
					if !covered(p) {
						return false
					}
				}
				return true
			}
			okc := covered(st.Block())
			r.Check(okc, "R9.7", key, w.InstrPos(st), "bound only when not already false",
				"the element is bound without its current status having been consulted: when an earlier element of the list has propagated its negation at the top level, the binding is overwritten instead of the contradiction being reported, and the solver goes on from an inconsistent assignment (a model violating a constraint can be returned)")
		})
	}
	if n == 0 {
		r.Unk("R9.7", "level-1 bindings of list elements", "-", "no method of Solver binds elements of a literal list at level 1")
	}
}

// ---------- R7.4: a method that promises a MUS returns a set that went through a minimising scheme ----------

func ruleR7_4(w *World, r *Report) {
	r.Rule("R7.4", "every (problem, nil) return of a MUS* method of explain.Problem hands on the result of another MUS* method, or comes after a deletion loop (every candidate clause relaxed in turn, kept exactly when the solver then answers Sat), or is the insertion scheme (the returned set is the one a solver built from it just found Unsat, grown by the last clause added before Unsat)", 3)
	unsatK, _ := w.statusConst("Unsat")
	satK, _ := w.statusConst("Sat")
	isMUS := func(fn *ssa.Function) bool {
		if w.PkgName(fn) != "explain" || fn.Signature.Recv() == nil || fn.Signature.Params().Len() != 0 || !strings.HasPrefix(fn.Name(), "MUS") {
			return false
		}
		res := fn.Signature.Results()
		return res.Len() == 2 && typeShort(res.At(0).Type()) == "*explain.Problem" && isErrorType(res.At(1).Type())
	}
	n := 0
	for _, fn := range w.Fns {
		if !isMUS(fn) {
			continue
		}
		k := 0
		allInstrs(fn, func(ins ssa.Instruction) {
			ret, ok := ins.(*ssa.Return)
			if !ok || len(ret.Results) != 2 {
				return
			}
			// delegation of both results
			if ex, isEx := ret.Results[0].(*ssa.Extract); isEx {
				if c, isC := ex.Tuple.(*ssa.Call); isC {
					for _, callee := range w.Callees[c] {
						if isMUS(callee) {
							k++
							n++
							r.OK("R7.4", fmt.Sprintf("%s success return #%d is minimal", w.FuncName(fn), k), w.InstrPos(ret), "result of "+w.FuncName(callee))
							return
						}
					}
				}
			}
			if e, isK := ret.Results[1].(*ssa.Const); !isK || !e.IsNil() {
				return
			}
			if p, isK := ret.Results[0].(*ssa.Const); isK && p.IsNil() {
				return
			}
			k++
			n++
			key := fmt.Sprintf("%s success return #%d is minimal", w.FuncName(fn), k)
			// deletion scheme
			for _, h := range loopHeaders(fn) {
				body := loopBlocks(fn, h)
				if body[ret.Block()] || !h.Dominates(ret.Block()) {
					continue
				}
				onlyHeader := true
				for b := range body {
					if b == h {
						continue
					}
					for _, s := range b.Succs {
						if !body[s] {
							onlyHeader = false
						}
					}
				}
				decides := false
				for b := range body {
					iff, isIf := b.Instrs[len(b.Instrs)-1].(*ssa.If)
					if !isIf || !dominatesLatches(h, b) {
						continue
					}
					if bo, isB := iff.Cond.(*ssa.BinOp); isB && (bo.Op == token.EQL || bo.Op == token.NEQ) {
						if c, isC := bo.X.(*ssa.Call); isC && typeShort(c.Type()) == "solver.Status" {
							if kk, isK := constInt(bo.Y); isK && kk == satK {
								decides = true
							}
						}
					}
				}
				if onlyHeader && decides {
					r.OK("R7.4", key, w.InstrPos(ret), "after a deletion loop: every candidate is relaxed in turn and kept exactly when the rest becomes satisfiable")
					return
				}
			}
			// insertion scheme: under `st == Unsat` for a solver built from the Clauses of the returned problem
			for _, ec := range dominatingConds(ret.Block()) {
				bo, isB := ec.Cond.(*ssa.BinOp)
				if !isB || !((bo.Op == token.EQL) == ec.True) || (bo.Op != token.EQL && bo.Op != token.NEQ) {
					continue
				}
				if kk, isK := constInt(bo.Y); !isK || kk != unsatK || typeShort(bo.X.Type()) != "solver.Status" {
					continue
				}
				// some call in the function takes the Clauses of the returned value
				built := false
				for _, ci := range callsIn(fn) {
					for _, a := range ci.Common().Args {
						if base, isF := isFieldLoad(a, "explain.Problem", "Clauses"); isF && base == ret.Results[0] {
							built = true
						}
					}
				}
				if built {
					r.OK("R7.4", key, w.InstrPos(ret), "insertion scheme: the returned set is the one the solver just found unsatisfiable, and it grows only by the clause that made the candidate set unsatisfiable")
					return
				}
			}
			r.Bad("R7.4", key, w.InstrPos(ret), "the set returned as a MUS is established unsatisfiable at most: no deletion loop, no insertion scheme and no other MUS method stands between the gathered clauses and the return, so clauses that are not needed for unsatisfiability (duplicates, clauses of other cores) can be part of the result")
		})
	}
	if n < 3 {
		r.Unk("R7.4", "MUS methods", "-", fmt.Sprintf("%d success return(s) of MUS* methods found", n))
	}
}

// ---------- R11.9: formula constructors do not embed helper variables in the formula they return ----------

// A helper variable with its defining equivalences inside the formula is only sound where the formula occurs
// positively: under a negation (or on either side of an equivalence) the solver is free to break the definitions and
// thereby "falsify" the formula for any assignment of the real variables. Helper variables belong to the clause-level
// translation, which runs on the whole formula after negations were pushed to the leaves.
func ruleR11_9(w *World, r *Report) {
	r.Rule("R11.9", "no exported constructor of package bf returning a Formula builds that formula from helper variables (variables created with the dummy flag): such definitions are only sound at positive polarity", 1)
	m, _ := bfOf(w)
	if m.err != "" {
		r.Unk("R11.9", "bf.Formula", "-", m.err)
		return
	}
	// makers of helper variables: functions returning a struct whose bool flag is the constant true
	makers := map[*ssa.Function]bool{}
	for _, fn := range m.fns {
		res := fn.Signature.Results()
		if res.Len() != 1 {
			continue
		}
		st, ok := res.At(0).Type().Underlying().(*types.Struct)
		if !ok {
			continue
		}
		flag := -1
		for i := 0; i < st.NumFields(); i++ {
			if b, isB := st.Field(i).Type().Underlying().(*types.Basic); isB && b.Kind() == types.Bool {
				flag = i
			}
		}
		if flag < 0 {
			continue
		}
		all, any := true, false
		for _, b := range fn.Blocks {
			if ret, isRet := b.Instrs[len(b.Instrs)-1].(*ssa.Return); isRet && len(ret.Results) == 1 {
				any = true
				if !structFieldIsTrue(w, ret.Results[0], flag, 0) {
					all = false
				}
			}
		}
		if all && any {
			makers[fn] = true
		}
	}
	if len(makers) == 0 {
		r.Unk("R11.9", "helper-variable makers", "-", "no function of package bf returns a variable with the dummy flag set")
		return
	}
	n := 0
	for _, fn := range m.fns {
		if fn.Object() == nil || !fn.Object().Exported() || fn.Signature.Recv() != nil || fn.Signature.Results().Len() != 1 || !m.isFormula(fn.Signature.Results().At(0).Type()) {
			continue
		}
		n++
		key := "bf." + fn.Name() + " builds its formula from real variables only"
		var via []string
		for g := range w.Reachable(fn) {
			if !m.inPkg[g] {
				continue
			}
			for _, ci := range callsIn(g) {
				for _, c := range w.Callees[ci] {
					if makers[c] {
						via = append(via, w.FuncName(g)+" at "+w.InstrPos(ci))
					}
				}
			}
		}
		if len(via) > 0 {
			via = dedupe(via)
			sort.Strings(via)
			r.Bad("R11.9", key, w.Pos(fn.Pos()), "the returned formula contains helper variables and their definitions ("+strings.Join(via, "; ")+"): under a negation the solver may break the definitions instead of the property they encode, so the negated formula is satisfied by assignments that do not satisfy it")
		} else {
			r.OK("R11.9", key, w.Pos(fn.Pos()), "no helper variable is created on the way")
		}
	}
	if n == 0 {
		r.Unk("R11.9", "constructors", "-", "no exported constructor returning a Formula")
	}
}

// ---------- R18.8: a printer of a parsed problem consults its status ----------

// The parsers simplify while reading and may conclude Unsat; what is then left in Units / Clauses no longer says so.
// A printer whose output does not depend on Problem.Status prints the same text for a problem and for the same
// constraints found contradictory, so the text of an unsatisfiable problem can read back as a satisfiable one.
func ruleR18_8(w *World, r *Report) {
	r.Rule("R18.8", "every whole-problem printer of solver.Problem reads Problem.Status (a problem found unsatisfiable while being read must be rendered as an unsatisfiable text)", 2)
	n := 0
	for _, fam := range printerFamilies {
		for _, root := range fam.Roots {
			fn := w.Func(root[0], root[1])
			if fn == nil || fn.Signature.Recv() == nil || typeShort(fn.Signature.Recv().Type()) != "*solver.Problem" {
				continue
			}
			n++
			key := w.FuncName(fn) + " consults the status"
			reads := false
			for g := range w.Reachable(fn) {
				allInstrs(g, func(ins ssa.Instruction) {
					if u, ok := ins.(*ssa.UnOp); ok && u.Op == token.MUL {
						if o, f, _, okF := fieldOf(u.X); okF && o == "solver.Problem" && f == "Status" {
							reads = true
						}
					}
				})
			}
			r.Check(reads, "R18.8", key, w.Pos(fn.Pos()), "the rendering depends on Problem.Status",
				"the printer never reads Problem.Status: a problem that the parser found unsatisfiable is printed from what simplification left over, and that text can be satisfiable when read back")
			if !reads {
				continue
			}
			// the constraints left over are rendered only when the status is known not to be Unsat: every loop over
			// Problem.Clauses / Problem.Units reachable from the printer sits behind the outcome `Status != Unsat` of a test
			// of the status alone (`Status == Unsat && nothing left` lets an unsatisfiable problem with leftovers through)
			unsatK, _ := w.statusConst("Unsat")
			excluded := func(b *ssa.BasicBlock) bool {
				for _, ec := range dominatingConds(b) {
					bo, ok := ec.Cond.(*ssa.BinOp)
					if !ok || (bo.Op != token.EQL && bo.Op != token.NEQ) {
						continue
					}
					if o, f, _, okF := loadedFieldOf(bo.X); !okF || o != "solver.Problem" || f != "Status" {
						continue
					}
					if k, isK := constInt(bo.Y); !isK || k != unsatK {
						continue
					}
					if (bo.Op == token.EQL) != ec.True {
						return true
					}
				}
				return false
			}
			scope := w.Reachable(fn)
			var covered func(g *ssa.Function, b *ssa.BasicBlock, depth int) bool
			covered = func(g *ssa.Function, b *ssa.BasicBlock, depth int) bool {
				if excluded(b) {
					return true
				}
				if g == fn || depth > 2 {
					return false
				}
				sites := 0
				for caller := range scope {
					for _, ci := range callsIn(caller) {
						if !w.staticCalleeIs(ci, g) {
							continue
						}
						sites++
						if !covered(caller, ci.Block(), depth+1) {
							return false
						}
					}
				}
				return sites > 0
			}
			k := 0
			for g := range scope {
				if w.PkgName(g) != "solver" || len(g.Blocks) == 0 {
					continue
				}
				for _, h := range loopHeaders(g) {
					over := ""
					for b := range loopBlocks(g, h) {
						for _, ins := range b.Instrs {
							if ia, ok := ins.(*ssa.IndexAddr); ok {
								for _, f := range []string{"Clauses", "Units"} {
									if _, isF := isFieldLoad(ia.X, "solver.Problem", f); isF {
										over = f
									}
								}
							}
						}
					}
					if over == "" {
						continue
					}
					k++
					r.Check(covered(g, h, 0), "R18.8", fmt.Sprintf("%s renders %s only when not Unsat (%s)", w.FuncName(fn), over, w.FuncName(g)), w.InstrPos(h.Instrs[len(h.Instrs)-1]),
						"behind the outcome Status != Unsat", "the constraints left after simplification are printed on a path where the status may be Unsat (the test of the status is missing, or combined with another condition): a problem found unsatisfiable while being read, with satisfiable leftovers, is printed as a satisfiable text")
				}
			}
		}
	}
	if n == 0 {
		r.Unk("R18.8", "problem printers", "-", "no printer with receiver *solver.Problem among the printer roots")
	}
}

// ---------- R18.9: the declared variable count travels through the OPB text ----------

func ruleR18_9(w *World, r *Report) {
	r.Rule("R18.9", "every whole-problem OPB printer emits the `#variable=` declaration and the OPB reader looks for it: variables that occur in no printed constraint (bound, eliminated or unused) stay part of the problem when the text is read back", 3)
	const marker = "#variable="
	hasConst := func(fn *ssa.Function) bool {
		found := false
		for g := range w.Reachable(fn) {
			if !w.InModule(g) {
				continue
			}
			allInstrs(g, func(ins ssa.Instruction) {
				for _, op := range ins.Operands(nil) {
					if op == nil || *op == nil {
						continue
					}
					if s, ok := constString(*op); ok && strings.Contains(s, marker) {
						found = true
					}
				}
			})
		}
		return found
	}
	n := 0
	for _, fam := range printerFamilies {
		if fam.Name != "OPB" {
			continue
		}
		for _, root := range fam.Roots {
			fn := w.Func(root[0], root[1])
			if fn == nil || fn.Signature.Recv() == nil {
				continue
			}
			t := typeShort(fn.Signature.Recv().Type())
			if t != "*solver.Problem" && t != "*solver.Solver" {
				continue // printers of a single constraint
			}
			n++
			r.Check(hasConst(fn), "R18.9", w.FuncName(fn)+" declares the variable count", w.Pos(fn.Pos()), "emits "+marker,
				"the rendering has no `"+marker+"` declaration: variables that appear in no printed constraint are lost when the text is read back (fewer variables, fewer models)")
		}
		if p := w.Func(fam.Parser[0], fam.Parser[1]); p != nil {
			n++
			r.Check(hasConst(p), "R18.9", w.FuncName(p)+" reads the declared variable count", w.Pos(p.Pos()), "looks for "+marker,
				"the reader never looks for the `"+marker+"` declaration its printers emit: the variable count is taken from the constraints alone, so declared variables that occur in none of them disappear")
		} else {
			r.Unk("R18.9", "OPB reader", "-", "parser not found")
		}
	}
	if n == 0 {
		r.Unk("R18.9", "OPB printers", "-", "no whole-problem printer in the OPB family")
	}
}

// ---------- R14.4: a backward walk over the trail cannot run off its start ----------

func ruleR14_4(w *World, r *Report) {
	r.Rule("R14.4", "in the conflict analysers, a loop that walks the trail backwards (index decremented, then used) either tests the index against 0 or searches for a member of a marked set whose remaining population is kept positive by the enclosing loop (`for nbLvl > 1`)", 2)
	n := 0
	perFn := map[*ssa.Function]int{}
	// the analysers and the helpers each of them hands part of its walk to (solver functions it calls directly that
	// are not analysers themselves); a walk is counted for, and named after, the analyser it belongs to
	type unit struct{ fn, owner *ssa.Function }
	var units []unit
	isAn := map[*ssa.Function]bool{}
	for _, an := range conflictAnalysers(w) {
		isAn[an] = true
	}
	seenHelper := map[*ssa.Function]bool{}
	for _, an := range conflictAnalysers(w) {
		units = append(units, unit{an, an})
		var hs []*ssa.Function
		for _, ci := range callsIn(an) {
			h := ci.Common().StaticCallee()
			if h != nil && w.PkgName(h) == "solver" && !isAn[h] && !seenHelper[h] && len(h.Blocks) > 0 {
				seenHelper[h] = true
				hs = append(hs, h)
			}
		}
		sortFns(hs)
		for _, h := range hs {
			units = append(units, unit{h, an})
		}
	}
	for _, u := range units {
		fn := u.fn
		for _, h := range loopHeaders(fn) {
			body := loopBlocks(fn, h)
			// a decrementing index used on the trail inside this loop, the decrement being in this loop too
			var dec *ssa.BinOp
			for b := range body {
				for _, ins := range b.Instrs {
					bo, ok := ins.(*ssa.BinOp)
					if !ok || bo.Op != token.SUB {
						continue
					}
					if k, isK := constInt(bo.Y); !isK || k != 1 {
						continue
					}
					if _, isPhi := bo.X.(*ssa.Phi); !isPhi || typeShort(bo.Type()) != "int" {
						continue
					}
					onTrail := func(idx ssa.Value) bool {
						for _, ref := range *idx.Referrers() {
							if ia, isIA := ref.(*ssa.IndexAddr); isIA && ia.Index == idx {
								if _, isT := isFieldLoad(ia.X, "solver.Solver", "trail"); isT {
									return true
								}
							}
						}
						return false
					}
					if onTrail(bo) {
						dec = bo
					}
					for _, ref := range *bo.Referrers() {
						// the decremented value flows into the loop's index phi, which is what indexes the trail
						if ph, isPhi := ref.(*ssa.Phi); isPhi && body[ph.Block()] && onTrail(ph) {
							dec = bo
						}
					}
				}
			}
			if dec == nil {
				continue
			}
			// innermost loop containing the decrement only
			inner := true
			for _, h2 := range loopHeaders(fn) {
				if h2 != h && body[h2] && loopBlocks(fn, h2)[dec.Block()] {
					inner = false
				}
			}
			if !inner {
				continue
			}
			n++
			perFn[u.owner]++
			key := fmt.Sprintf("%s backward trail walk #%d", w.FuncName(u.owner), perFn[u.owner])
			// evidence A: the index (or its phi) is compared with 0 somewhere in the loop
			evid := ""
			for b := range body {
				for _, ins := range b.Instrs {
					bo, ok := ins.(*ssa.BinOp)
					if !ok {
						continue
					}
					switch bo.Op {
					case token.GEQ, token.GTR, token.LSS, token.LEQ:
						if (bo.X == ssa.Value(dec) || bo.X == dec.X) && isConstIntVal(bo.Y) {
							evid = "the index is tested against a constant"
						}
					}
				}
			}
			// evidence B: the walk looks for a marked variable and the enclosing loop keeps the number of marked ones above 1
			if evid == "" {
				memb := false
				for b := range body {
					iff, isIf := b.Instrs[len(b.Instrs)-1].(*ssa.If)
					if !isIf {
						continue
					}
					c := iff.Cond
					if u, isU := c.(*ssa.UnOp); isU && u.Op == token.NOT {
						c = u.X
					}
					if ld, isL := c.(*ssa.UnOp); isL && ld.Op == token.MUL {
						if ia, isIA := ld.X.(*ssa.IndexAddr); isIA && typeShort(ia.X.Type()) == "[]bool" {
							memb = true
						}
					}
				}
				counter := false
				// when the walk lives in a helper of the analyser, the loop that keeps the population positive is the one
				// around the helper's call in the analyser
				if u.fn != u.owner {
					for _, ci := range callsIn(u.owner) {
						if !w.staticCalleeIs(ci, u.fn) {
							continue
						}
						for _, h2 := range loopHeaders(u.owner) {
							if !loopBlocks(u.owner, h2)[ci.Block()] {
								continue
							}
							if iff, isIf := h2.Instrs[len(h2.Instrs)-1].(*ssa.If); isIf {
								if bo, isB := iff.Cond.(*ssa.BinOp); isB && bo.Op == token.GTR {
									if _, isPhi := bo.X.(*ssa.Phi); isPhi && isConstIntVal(bo.Y) {
										counter = true
									}
								}
							}
						}
					}
				}
				for _, h2 := range loopHeaders(fn) {
					if h2 != h && !loopBlocks(fn, h2)[h] {
						continue // neither this loop nor one around it
					}
					if iff, isIf := h2.Instrs[len(h2.Instrs)-1].(*ssa.If); isIf {
						if bo, isB := iff.Cond.(*ssa.BinOp); isB && bo.Op == token.GTR {
							if _, isPhi := bo.X.(*ssa.Phi); isPhi && isConstIntVal(bo.Y) {
								counter = true
							}
						}
					}
				}
				if memb && counter {
					evid = "the walk searches a marked variable and the enclosing loop runs only while more than one is left"
				}
			}
			r.Check(evid != "", "R14.4", key, w.InstrPos(dec), evid,
				"the index is decremented and used on the trail without any test against 0 and without a population argument: when no earlier literal satisfies the stopping condition the walk reads trail[-1] and panics")
		}
	}
	if n == 0 {
		r.Unk("R14.4", "trail walks", "-", "no backward walk over the trail in a conflict analyser")
	}
}

func isConstIntVal(v ssa.Value) bool {
	_, ok := constInt(v)
	return ok
}

// ---------- R13.10: the DIMACS reader of package explain ends a clause at the terminator, not at the end of a line ----------

func ruleR13_10(w *World, r *Report) {
	r.Rule("R13.10", "in explain.ParseCNF a clause is handed to the problem inside the reading loop only under a test that the token just read is the terminator 0 (a clause may span several lines and a line may hold several clauses); what is still pending at the end of the input is flushed after the loop", 1)
	fn := w.Func("explain", "ParseCNF")
	if fn == nil {
		r.Unk("R13.10", "explain.ParseCNF", "-", "function not found")
		return
	}
	// clause sinks: module functions that append to Problem.Clauses
	isSink := func(c *ssa.Function) bool {
		for _, gs := range growthSites(c) {
			if gs.Field == "explain.Problem.Clauses" {
				return true
			}
		}
		return false
	}
	n := 0
	var bad []string
	// the reading loop of ParseCNF, and the helpers it hands the tokens of a line to (`pb.parseFields(pending, fields)`)
	type scanUnit struct {
		f      *ssa.Function
		inLoop bool
	}
	units := []scanUnit{{fn, true}}
	for _, ci := range callsIn(fn) {
		h := ci.Common().StaticCallee()
		if h == nil || w.PkgName(h) != "explain" || len(h.Blocks) == 0 || isSink(h) || !inLoop(fn, ci.Block()) {
			continue
		}
		callsSink := false
		for _, cj := range callsIn(h) {
			for _, callee := range w.Callees[cj] {
				if isSink(callee) {
					callsSink = true
				}
			}
		}
		if callsSink {
			units = append(units, scanUnit{h, false})
		}
	}
	for _, u := range units {
		for _, ci := range callsIn(u.f) {
			c, ok := ci.(*ssa.Call)
			if !ok || (u.inLoop && !inLoop(u.f, c.Block())) {
				continue
			}
			sink := false
			for _, callee := range w.Callees[c] {
				if isSink(callee) {
					sink = true
				}
			}
			if !sink {
				continue
			}
			n++
			okc := false
			for _, ec := range dominatingConds(c.Block()) {
				bo, isB := ec.Cond.(*ssa.BinOp)
				if !isB || (bo.Op != token.EQL && bo.Op != token.NEQ) || (bo.Op == token.EQL) != ec.True {
					continue
				}
				if s, isS := constString(bo.Y); isS && s == "0" {
					okc = true
				}
				if k, isK := constInt(bo.Y); isK && k == 0 && typeShort(bo.X.Type()) == "int" {
					okc = true
				}
			}
			if !okc {
				bad = append(bad, w.InstrPos(c))
			}
		}
	}
	key := "explain.ParseCNF closes clauses at the terminator"
	switch {
	case n == 0:
		r.Unk("R13.10", key, w.Pos(fn.Pos()), "no call handing a clause to the problem inside the reading loop")
	case len(bad) > 0:
		r.Bad("R13.10", key, bad[0], "a clause is handed to the problem at "+strings.Join(bad, ", ")+" once per line, whether or not the terminator 0 was read: a clause written over two lines becomes two clauses, two clauses on one line become one (with the inner 0 dropped), and the MUS / certificate functions then work on another formula")
	default:
		r.OK("R13.10", key, w.Pos(fn.Pos()), fmt.Sprintf("%d hand-over(s) in the loop, each under a terminator test", n))
	}
}

// ---------- R9.8: a constraint handed to a live solver is freed of repeated variables before it is scanned ----------

// Everything behind AppendClause (the scan, the watches, conflict analysis) assumes that a constraint mentions each
// variable once: the parsers guarantee it for what they build, but AppendClause receives the constraint as the caller
// wrote it. Detecting a repetition needs a loop over the literals that remembers the variables met (a set keyed by
// variable or literal that is read and written) or compares two literals of the constraint.
func ruleR9_8(w *World, r *Report) {
	r.Rule("R9.8", "before Solver.AppendClause examines the literals of the new constraint, the constraint passes through a duplicate detection over its literals (a loop that keeps a set keyed by variable / literal, or compares two literals of the constraint)", 1)
	fn := w.Func("solver", "Solver.AppendClause")
	if fn == nil || len(fn.Params) < 2 {
		r.Unk("R9.8", "solver.(*Solver).AppendClause", "-", "method not found")
		return
	}
	key := "(*solver.Solver).AppendClause merges repeated variables first"
	detects := func(g *ssa.Function) bool {
		found := false
		for _, h := range loopHeaders(g) {
			body := loopBlocks(g, h)
			readsElem := false
			setRead, setWrite := false, false
			cmpTwo := false
			for b := range body {
				for _, ins := range b.Instrs {
					if v, ok := ins.(ssa.Value); ok {
						if _, _, isE := clauseElem(w, v); isE {
							readsElem = true
						}
					}
					switch x := ins.(type) {
					case *ssa.Lookup:
						if mt, ok := x.X.Type().Underlying().(*types.Map); ok {
							if k := typeShort(mt.Key()); k == "solver.Var" || k == "solver.Lit" {
								setRead = true
							}
						}
					case *ssa.MapUpdate:
						if mt, ok := x.Map.Type().Underlying().(*types.Map); ok {
							if k := typeShort(mt.Key()); k == "solver.Var" || k == "solver.Lit" {
								setWrite = true
							}
						}
					case *ssa.BinOp:
						if x.Op == token.EQL || x.Op == token.NEQ {
							_, _, e1 := clauseElem(w, x.X)
							_, _, e2 := clauseElem(w, x.Y)
							if e1 && e2 {
								cmpTwo = true
							}
							// lit == other.Negation()
							if c, isC := x.Y.(*ssa.Call); isC && e1 && len(c.Call.Args) == 1 {
								if _, _, e3 := clauseElem(w, c.Call.Args[0]); e3 {
									cmpTwo = true
								}
							}
						}
					}
				}
			}
			if readsElem && ((setRead && setWrite) || cmpTwo) {
				found = true
			}
		}
		return found
	}
	clause := fn.Params[1]
	// the scan: first status call in a loop of AppendClause or of its scan helper
	scanFn, via := appendClauseScanFn(w)
	var scanAt ssa.Instruction
	if via != nil {
		scanAt = via
	} else {
		for _, ci := range callsIn(scanFn) {
			if c, ok := ci.(*ssa.Call); ok && typeShort(c.Type()) == "solver.Status" && inLoop(scanFn, c.Block()) {
				if scanAt == nil || instrDominates(c, scanAt) {
					scanAt = c
				}
			}
		}
	}
	if scanAt == nil {
		r.Unk("R9.8", key, w.Pos(fn.Pos()), "the scan over the literals of the new constraint was not found")
		return
	}
	ok := false
	where := ""
	if via == nil && detects(fn) {
		// detection inside AppendClause itself must come before the scan: accept only when its loop dominates the scan
		for _, h := range loopHeaders(fn) {
			if h.Dominates(scanAt.Block()) && !loopBlocks(fn, h)[scanAt.Block()] {
				ok, where = true, "in AppendClause itself"
			}
		}
	}
	for _, ci := range callsIn(fn) {
		c, isC := ci.(*ssa.Call)
		if !isC || !instrDominates(c, scanAt) {
			continue
		}
		passes := false
		for _, a := range c.Call.Args {
			if a == ssa.Value(clause) {
				passes = true
			}
		}
		if !passes {
			continue
		}
		for _, callee := range w.Callees[c] {
			if w.PkgName(callee) == "solver" && detects(callee) {
				ok, where = true, "by "+w.FuncName(callee)
			}
		}
	}
	r.Check(ok, "R9.8", key, w.InstrPos(scanAt), "repeated variables are detected "+where+" before the scan",
		"nothing between the entry of AppendClause and the scan of the new constraint detects a variable that occurs twice: a clause such as (x x x), or a constraint with x and not x, reaches the watch lists and conflict analysis, which assume distinct variables (observed: index out of range in learnClause, wrong answers)")
}

// ---------- R4.6: the cost function of the MaxSAT problem pairs every blocking literal with its weight ----------

func ruleR4_6(w *World, r *Report) {
	r.Rule("R4.6", "in maxsat.New the literal list and the weight list given to SetCostFunc are filled together (one append to each, in the same block, per blocking literal) and reach the call unchanged - in particular the weights are not replaced by nil on some path", 1)
	fn := w.Func("maxsat", "New")
	if fn == nil {
		r.Unk("R4.6", "maxsat.New", "-", "function not found")
		return
	}
	var call *ssa.Call
	for _, ci := range callsIn(fn) {
		if c, ok := ci.(*ssa.Call); ok && strings.HasSuffix(w.calleeName(&c.Call), ".SetCostFunc") {
			call = c
		}
	}
	key := "maxsat.New hands the collected weights to the cost function"
	if call == nil || len(call.Call.Args) < 3 {
		r.Unk("R4.6", key, w.Pos(fn.Pos()), "no call of SetCostFunc")
		return
	}
	lits, weights := call.Call.Args[len(call.Call.Args)-2], call.Call.Args[len(call.Call.Args)-1]
	// an accumulator: a header phi whose loop edge is append(phi, one element) and whose entry edge is a fresh slice
	accum := func(v ssa.Value) (*ssa.Phi, *ssa.Call, string) {
		phi, ok := v.(*ssa.Phi)
		if !ok {
			return nil, nil, "it is not the list built by the collecting loop (" + v.String() + ")"
		}
		var app *ssa.Call
		for _, e := range phi.Edges {
			switch x := e.(type) {
			case *ssa.Call:
				if b, isB := x.Call.Value.(*ssa.Builtin); isB && b.Name() == "append" && x.Call.Args[0] == ssa.Value(phi) && appendedElem(x) != nil {
					app = x
					continue
				}
				return nil, nil, "one of the values reaching the call is not the collected list"
			case *ssa.MakeSlice:
			case *ssa.Const:
				return nil, nil, "on some path the list is replaced by a constant (nil): the weights are then taken to be 1"
			default:
				return nil, nil, "one of the values reaching the call is not the collected list"
			}
		}
		if app == nil {
			return nil, nil, "nothing is appended to it in a loop"
		}
		return phi, app, ""
	}
	// the two lists may be built by a helper of New that returns them (`optLits, optWeights := pb.costFunc()`)
	if ll, wl := w.resultLeaves(lits), w.resultLeaves(weights); len(ll) == 1 && len(wl) == 1 {
		lits, weights = ll[0], wl[0]
	}
	_, la, why1 := accum(lits)
	_, wa, why2 := accum(weights)
	switch {
	case why1 != "":
		r.Bad("R4.6", key, w.InstrPos(call), "the literal list of the cost function: "+why1)
	case why2 != "":
		r.Bad("R4.6", key, w.InstrPos(call), "the weight list of the cost function: "+why2+": the solver then minimises the number of violated soft constraints instead of their weight")
	case la.Block() != wa.Block():
		r.Bad("R4.6", key, w.InstrPos(call), "a blocking literal and its weight are not appended together: the two lists can get out of step")
	default:
		r.OK("R4.6", key, w.InstrPos(call), "both lists are filled together and reach the call unchanged")
	}
}

// ---------- R9.9: entries added to a table of lists do not share storage ----------

func ruleR9_9(w *World, r *Report) {
	r.Rule("R9.9", "wherever a Solver table whose elements are lists is grown, the lists appended are nil or separately allocated: the same non-nil slice is never appended at two positions, nor allocated once outside the growth loop", 4)
	n := 0
	for _, fn := range w.LibFns() {
		if w.PkgName(fn) != "solver" {
			continue
		}
		k := 0
		for _, ci := range callsIn(fn) {
			c, ok := ci.(*ssa.Call)
			if !ok {
				continue
			}
			b, isB := c.Call.Value.(*ssa.Builtin)
			if !isB || b.Name() != "append" || len(c.Call.Args) != 2 {
				continue
			}
			st, isSl := c.Type().Underlying().(*types.Slice)
			if !isSl {
				continue
			}
			if _, elemIsSlice := st.Elem().Underlying().(*types.Slice); !elemIsSlice {
				continue
			}
			o, f, _, okF := loadedFieldOf(c.Call.Args[0])
			if !okF || !strings.HasPrefix(o, "solver.") {
				continue
			}
			// the variadic elements
			sl, isS := c.Call.Args[1].(*ssa.Slice)
			if !isS {
				continue
			}
			al, isAl := sl.X.(*ssa.Alloc)
			if !isAl {
				continue
			}
			var vals []ssa.Value
			for _, ref := range *al.Referrers() {
				if ia, isIA := ref.(*ssa.IndexAddr); isIA {
					for _, r2 := range *ia.Referrers() {
						if s2, isSt := r2.(*ssa.Store); isSt && s2.Addr == ssa.Value(ia) {
							vals = append(vals, s2.Val)
						}
					}
				}
			}
			if len(vals) == 0 {
				continue
			}
			k++
			n++
			key := fmt.Sprintf("%s grows %s.%s #%d with lists of their own", w.FuncName(fn), o, f, k)
			why := ""
			for i, v := range vals {
				if kc, isK := v.(*ssa.Const); isK && kc.IsNil() {
					continue
				}
				for j := i + 1; j < len(vals); j++ {
					if vals[j] == v {
						why = "the same slice is appended at two positions: the two lists share one backing array, and entries added to one overwrite the other's"
					}
				}
				if vi, isI := v.(ssa.Instruction); isI && inLoop(fn, c.Block()) {
					same := false
					for _, h := range loopHeaders(fn) {
						lb := loopBlocks(fn, h)
						if lb[c.Block()] && lb[vi.Block()] {
							same = true
						}
					}
					if !same {
						why = "a slice allocated once outside the growth loop is appended in every iteration: all these lists share one backing array"
					}
				}
			}
			r.Check(why == "", "R9.9", key, w.InstrPos(c), fmt.Sprintf("%d element(s), nil or separately allocated", len(vals)), why)
		}
	}
	if n == 0 {
		r.Unk("R9.9", "tables of lists", "-", "no growth of a Solver table whose elements are lists")
	}
}

// ---------- R9.10: Solve skips the search only when the problem is already known unsatisfiable ----------

func ruleR9_10(w *World, r *Report) {
	r.Rule("R9.10", "every return of Solver.Solve that is not preceded by the reset of the status to Indet (after which the search runs) lies under a test that the status is Unsat: constraints added since the last answer are never answered from the old status", 1)
	fn := w.Func("solver", "Solver.Solve")
	if fn == nil {
		r.Unk("R9.10", "solver.(*Solver).Solve", "-", "method not found")
		return
	}
	indet, _ := w.statusConst("Indet")
	unsat, _ := w.statusConst("Unsat")
	var reset *ssa.Store
	for _, st := range storesToField(fn, "solver.Solver", "status") {
		if k, ok := constInt(st.Val); ok && k == indet {
			if reset == nil || instrDominates(st, reset) {
				reset = st
			}
		}
	}
	key := "(*solver.Solver).Solve answers from the old status only when it is Unsat"
	if reset == nil {
		r.Unk("R9.10", key, w.Pos(fn.Pos()), "Solve never resets the status to Indet")
		return
	}
	var bad []string
	nEarly := 0
	allInstrs(fn, func(ins ssa.Instruction) {
		ret, ok := ins.(*ssa.Return)
		if !ok || instrDominates(reset, ret) || ret.Block() == fn.Recover {
			return
		}
		nEarly++
		okc := false
		for _, ec := range dominatingConds(ret.Block()) {
			bo, isB := ec.Cond.(*ssa.BinOp)
			if !isB || (bo.Op != token.EQL && bo.Op != token.NEQ) || (bo.Op == token.EQL) != ec.True {
				continue
			}
			if _, isF := isFieldLoad(bo.X, "solver.Solver", "status"); !isF {
				continue
			}
			if k, isK := constInt(bo.Y); isK && k == unsat {
				okc = true
			}
		}
		if !okc {
			bad = append(bad, w.InstrPos(ret))
		}
	})
	if len(bad) > 0 {
		r.Bad("R9.10", key, bad[0], "Solve can return at "+strings.Join(bad, ", ")+" without searching although the status is not Unsat: after constraints were added (AppendClause binds forced literals at the top level and leaves the old status) the previous answer and the previous model are returned")
	} else {
		r.OK("R9.10", key, w.InstrPos(reset), fmt.Sprintf("%d early return(s), each under status == Unsat", nEarly))
	}
}

// ---------- R1.13: the median position on the learned list is len/2 rounded down ----------

func ruleR1_13(w *World, r *Report) {
	r.Rule("R1.13", "where the clause-deletion functions index the learned list with a quotient, the quotient is (length of the list) / 2 rounded down: the largest halving that is a valid index for every non-empty list ((n+1)/2 is not, for n = 1)", 1)
	n := 0
	for _, fn := range w.Fns {
		if w.PkgName(fn) != "solver" {
			continue
		}
		allInstrs(fn, func(ins ssa.Instruction) {
			ia, ok := ins.(*ssa.IndexAddr)
			if !ok {
				return
			}
			if _, isL := isFieldLoad(ia.X, "solver.watcherList", "learned"); !isL {
				return
			}
			q, ok := ia.Index.(*ssa.BinOp)
			if !ok || q.Op != token.QUO {
				return
			}
			n++
			key := fmt.Sprintf("%s median of the learned list #%d", w.FuncName(fn), n)
			two, isTwo := constInt(q.Y)
			isLen := isLenOf(q.X, func(x ssa.Value) bool {
				_, isF := isFieldLoad(x, "solver.watcherList", "learned")
				return isF
			})
			r.Check(isTwo && two == 2 && isLen, "R1.13", key, w.InstrPos(ia), "len(learned) / 2",
				"the position read on the learned list is not len/2 rounded down (e.g. (len+1)/2): with a single learned clause it is one past the end and the reduction panics")
		})
	}
	if n == 0 {
		r.Unk("R1.13", "median accesses", "-", "no access to the learned list at a quotient position")
	}
}

// ---------- R2.10: the degree kept in a local and the degree stored in the constraint move together ----------

func ruleR2_10(w *World, r *Report) {
	r.Rule("R2.10", "in the parse-time simplifier of cardinality constraints, every trip of the literal scan that lowers the local copy of the degree and goes on scanning also lowers the degree stored in the constraint by the same amount (the constraint that stays in the problem must ask for what is left to satisfy)", 1)
	// the method that changes the stored degree: the method of *Clause with one int parameter and no result that
	// adds its parameter to a field; the name is only the fallback
	upd := w.Func("solver", "Clause.updateCardinality")
	for _, f := range w.Fns {
		if w.PkgName(f) != "solver" || f.Signature.Recv() == nil || typeShort(f.Signature.Recv().Type()) != "*solver.Clause" ||
			f.Signature.Params().Len() != 1 || f.Signature.Results().Len() != 0 || typeShort(f.Signature.Params().At(0).Type()) != "int" || len(f.Params) != 2 {
			continue
		}
		adds := false
		allInstrs(f, func(ins ssa.Instruction) {
			st, ok := ins.(*ssa.Store)
			if !ok {
				return
			}
			if _, isFA := st.Addr.(*ssa.FieldAddr); !isFA {
				return
			}
			if bo, isB := st.Val.(*ssa.BinOp); isB && bo.Op == token.ADD {
				if cv, isC := bo.Y.(*ssa.Convert); isC && cv.X == ssa.Value(f.Params[1]) {
					adds = true
				}
				if bo.Y == ssa.Value(f.Params[1]) {
					adds = true
				}
			}
		})
		if adds {
			upd = f
		}
	}
	cardFn := w.Func("solver", "Clause.Cardinality")
	if upd == nil || cardFn == nil {
		r.Unk("R2.10", "(*solver.Clause).updateCardinality / Cardinality", "-", "method not found")
		return
	}
	n := 0
	for _, fn := range w.Fns {
		if w.PkgName(fn) != "solver" || fn.Signature.Recv() == nil || typeShort(fn.Signature.Recv().Type()) != "*solver.Problem" {
			continue
		}
		for _, h := range loopHeaders(fn) {
			body := loopBlocks(fn, h)
			// a header phi whose entry value is a Cardinality() call: the local copy of the degree
			var card *ssa.Phi
			var clause ssa.Value
			for _, ins := range h.Instrs {
				p, ok := ins.(*ssa.Phi)
				if !ok {
					break
				}
				for i, e := range p.Edges {
					if body[h.Preds[i]] {
						continue
					}
					if c, isC := e.(*ssa.Call); isC && w.staticCalleeIs(c, cardFn) && len(c.Call.Args) == 1 {
						card, clause = p, c.Call.Args[0]
					}
				}
			}
			if card == nil {
				continue
			}
			n++
			key := fmt.Sprintf("%s keeps the stored degree in step with its local copy #%d", w.FuncName(fn), n)
			var bad []string
			_, trunc := exploreEdges(h.Succs[0], &pstate{phi: map[*ssa.Phi]ssa.Value{}, facts: map[string]string{}, coarse: true},
				func(b *ssa.BasicBlock) bool { return b == h || !body[b] },
				func(ins ssa.Instruction, st *pstate) {
					if c, ok := ins.(*ssa.Call); ok && w.staticCalleeIs(c, upd) && len(c.Call.Args) == 2 && c.Call.Args[0] == clause {
						if k, isK := constInt(c.Call.Args[1]); isK {
							st.facts["stored"] = fmt.Sprint(k)
						} else {
							st.facts["stored"] = "?"
						}
					}
				},
				func(from, to *ssa.BasicBlock, st *pstate) {
					if to != h {
						return
					}
					d := lfAdd(lfOf(phiIncoming(card, from, st), 0), lfOf(card, 0), -1)
					delta := "0"
					if len(d.terms) == 0 || d.String() == (linForm{c: d.c, terms: map[string]int64{}}).String() {
						delta = fmt.Sprint(d.c)
					} else {
						delta = "?"
					}
					stored := st.facts["stored"]
					if stored == "" {
						stored = "0"
					}
					if delta != stored {
						bad = append(bad, fmt.Sprintf("a trip ending at %s changes the local degree by %s and the stored degree by %s", w.InstrPos(from.Instrs[len(from.Instrs)-1]), delta, stored))
					}
				})
			switch {
			case trunc:
				r.Unk("R2.10", key, w.Pos(fn.Pos()), "state space too large")
			case len(bad) > 0:
				bad = dedupe(bad)
				sort.Strings(bad)
				r.Bad("R2.10", key, w.Pos(fn.Pos()), strings.Join(bad, "; ")+": the constraint kept in the problem still asks for the weight that the removed true literal already provided, so it is too strong (wrong Unsat, or a degree above the number of literals)")
			default:
				r.OK("R2.10", key, w.Pos(fn.Pos()), "local and stored degree change together on every trip that goes on")
			}
		}
	}
	if n == 0 {
		r.Unk("R2.10", "degree copies", "-", "no loop carrying a local copy of Cardinality() in a method of Problem")
	}
}

// ---------- R5.8: an Unsat answer whose returned value is discarded has been recorded in the solver ----------

func ruleR5_8(w *World, r *Report) {
	r.Rule("R5.8", "where a call returning a solver.Status is made for its effect only (the result is discarded), every path of the callee that returns Unsat has stored Unsat into Solver.status first: Unsat must never be lost, it ends the enumeration loops", 2)
	unsat, _ := w.statusConst("Unsat")
	// recordsUnsat: the value returned at ret is Unsat and the function stored Unsat into the status before
	var returnsUnrecorded func(fn *ssa.Function, depth int) []string
	returnsUnrecorded = func(fn *ssa.Function, depth int) []string {
		var bad []string
		if depth > 3 {
			return nil
		}
		allInstrs(fn, func(ins ssa.Instruction) {
			ret, ok := ins.(*ssa.Return)
			if !ok || len(ret.Results) != 1 {
				return
			}
			switch x := ret.Results[0].(type) {
			case *ssa.Const:
				if k, isK := constInt(x); isK && k == unsat {
					stored := false
					for _, st := range storesToField(fn, "solver.Solver", "status") {
						if v, isV := constInt(st.Val); isV && v == unsat && instrDominates(st, ret) {
							stored = true
						}
					}
					if !stored {
						bad = append(bad, w.FuncName(fn)+" returns Unsat at "+w.InstrPos(ret)+" without having stored it")
					}
				}
			case *ssa.Call:
				for _, c := range w.Callees[x] {
					if typeShort(c.Signature.Results().At(0).Type()) == "solver.Status" && w.PkgName(c) == "solver" {
						bad = append(bad, returnsUnrecorded(c, depth+1)...)
					}
				}
			}
		})
		return bad
	}
	n := 0
	for _, fn := range w.LibFns() {
		if w.PkgName(fn) != "solver" {
			continue
		}
		k := 0
		for _, ci := range callsIn(fn) {
			c, ok := ci.(*ssa.Call)
			if !ok || typeShort(c.Type()) != "solver.Status" || len(*c.Referrers()) != 0 {
				continue
			}
			var bad []string
			any := false
			for _, callee := range w.Callees[c] {
				if w.PkgName(callee) != "solver" || len(callee.Blocks) == 0 {
					continue
				}
				any = true
				bad = append(bad, returnsUnrecorded(callee, 0)...)
			}
			if !any {
				continue
			}
			k++
			n++
			key := fmt.Sprintf("%s discarded status #%d", w.FuncName(fn), k)
			if len(bad) > 0 {
				r.Bad("R5.8", key, w.InstrPos(c), "the result of the call is discarded and "+strings.Join(dedupe(bad), "; ")+": the loop that made the call goes on searching although the problem (with the models blocked so far) is exhausted, and counts or delivers assignments again")
			} else {
				r.OK("R5.8", key, w.InstrPos(c), "every Unsat return of the callee is recorded in the status before")
			}
		}
	}
	if n == 0 {
		r.Unk("R5.8", "discarded statuses", "-", "no call with a discarded solver.Status result")
	}
}

// ---------- R3.7: the decision heap is rebuilt between adding a constraint and searching again ----------

func ruleR3_7(w *World, r *Report) {
	r.Rule("R3.7", "in every loop of package solver that adds a constraint with AppendClause and then solves again, the decision heap is rebuilt in between (AppendClause retracts bindings; the variables it unbinds must be decidable again)", 1)
	app := w.Func("solver", "Solver.AppendClause")
	solve := w.Func("solver", "Solver.Solve")
	if app == nil || solve == nil {
		r.Unk("R3.7", "anchors", "-", "Solver.AppendClause or Solver.Solve not found")
		return
	}
	rebuild := map[*ssa.Function]bool{}
	for _, fn := range w.Fns {
		if w.PkgName(fn) != "solver" || fn.Signature.Recv() == nil || fn.Signature.Params().Len() != 0 {
			continue
		}
		for _, ci := range callsIn(fn) {
			for _, c := range w.Callees[ci] {
				if strings.HasSuffix(w.FuncName(c), "(*solver.queue).build") {
					rebuild[fn] = true
				}
			}
		}
	}
	n := 0
	isRebuild := func(ck ssa.CallInstruction) bool {
		for _, c := range w.Callees[ck] {
			if rebuild[c] {
				return true
			}
		}
		return false
	}
	// events: an AppendClause call inside a loop, or a call (inside a loop) of a helper that makes one
	type event struct {
		fn          *ssa.Function
		at          ssa.CallInstruction
		rebuiltIn   bool // the helper rebuilds the heap itself after adding the constraint
		description string
	}
	var events []event
	for _, fn := range w.Fns {
		if w.PkgName(fn) != "solver" {
			continue
		}
		for _, ci := range callsIn(fn) {
			if !w.staticCalleeIs(ci, app) {
				continue
			}
			solvesAfter := false
			for _, cj := range callsIn(fn) {
				if w.staticCalleeIs(cj, solve) && instrDominates(ci, cj) {
					solvesAfter = true
				}
			}
			if inLoop(fn, ci.Block()) || solvesAfter {
				events = append(events, event{fn, ci, false, "AppendClause"})
				continue
			}
			inHelper := false
			for _, ck := range callsIn(fn) {
				if isRebuild(ck) && instrDominates(ci, ck) {
					inHelper = true
				}
			}
			for _, site := range w.Callers[fn] {
				g := site.Parent()
				if w.PkgName(g) == "solver" && inLoop(g, site.Block()) {
					events = append(events, event{g, site, inHelper, w.FuncName(fn)})
				}
			}
		}
	}
	for _, ev := range events {
		fn, ci := ev.fn, ev.at
		for _, cj := range callsIn(fn) {
			if !w.staticCalleeIs(cj, solve) || !instrDominates(ci, cj) {
				continue
			}
			n++
			key := fmt.Sprintf("%s rebuilds the heap between %s and Solve #%d", w.FuncName(fn), ev.description, n)
			ok := ev.rebuiltIn
			for _, ck := range callsIn(fn) {
				if isRebuild(ck) && instrDominates(ci, ck) && instrDominates(ck, cj) {
					ok = true
				}
			}
			r.Check(ok, "R3.7", key, w.InstrPos(cj), "heap rebuilt in between",
				"the search is resumed after AppendClause without the decision heap having been rebuilt: variables unbound by the retraction inside AppendClause are missing from the heap, so the search can stop with `no variable left` while some are unbound")
		}
	}
	if n == 0 {
		r.Unk("R3.7", "optimisation loops", "-", "no loop adds a constraint with AppendClause and solves again")
	}
}
