package main

import (
	"fmt"
	"go/token"
	"strings"

	"golang.org/x/tools/go/ssa"
)

// R3.5: the improvement step of the linear search is the stated one, in every method of Solver that adds
// a strengthening pseudo-boolean constraint in a loop (today Optimal and Minimize):
//   cost      = sum of the weights (or 1) of the cost literals that are TRUE in the model just found
//   maxCost   = sum of all weights, or the number of cost literals when there are no weights
//   new constraint: sum of weights of the NEGATED cost literals >= maxCost - cost + 1   (strictly better)
//   stop when cost == 0
// Sibling agreement (R3.1) cannot see an edit applied to both siblings alike; this rule checks the content.

func valueByName(fn *ssa.Function) map[string]ssa.Value {
	m := map[string]ssa.Value{}
	for _, p := range fn.Params {
		m["P:"+p.Name()] = p
	}
	allInstrs(fn, func(ins ssa.Instruction) {
		if v, ok := ins.(ssa.Value); ok {
			m[v.Name()] = v
		}
	})
	return m
}

func isFieldLoadOf(v ssa.Value, field string) bool {
	_, ok := isFieldLoad(v, "solver.Solver", field)
	return ok
}

// elemOfField: v == load(field)[idx]; returns idx.
func elemOfField(v ssa.Value, field string) (ssa.Value, bool) {
	ld, ok := v.(*ssa.UnOp)
	if !ok || ld.Op != token.MUL {
		return nil, false
	}
	ia, ok := ld.X.(*ssa.IndexAddr)
	if !ok || !isFieldLoadOf(ia.X, field) {
		return nil, false
	}
	return ia.Index, true
}

func copiedFrom(v ssa.Value, pred func(src ssa.Value) bool) bool {
	mk, ok := v.(*ssa.MakeSlice)
	if !ok {
		return false
	}
	for _, r := range *mk.Referrers() {
		if c, ok := r.(*ssa.Call); ok {
			if b, ok := c.Call.Value.(*ssa.Builtin); ok && b.Name() == "copy" && c.Call.Args[0] == ssa.Value(mk) && pred(c.Call.Args[1]) {
				return true
			}
		}
	}
	return false
}

func ruleR3_5(w *World, r *Report) {
	r.Rule("R3.5", "every optimisation loop of Solver adds, after a model of cost c, the constraint `negated cost literals weigh at least maxCost - c + 1`, where c counts exactly the cost literals true in the model (1 or their weight each) and maxCost is the total weight (or the number of cost literals), and stops when c == 0", 2)
	npb := w.Func("solver", "NewPBClause")
	ncc := w.Func("solver", "NewCardClause") // the same constraint with every weight 1
	app := w.Func("solver", "Solver.AppendClause")
	if npb == nil || app == nil {
		r.Unk("R3.5", "anchors", "-", "solver.NewPBClause or Solver.AppendClause not found")
		return
	}
	readsMinLits := func(fn *ssa.Function) bool {
		reads := false
		for g := range w.Reachable(fn) {
			allInstrs(g, func(ins ssa.Instruction) {
				if u, ok := ins.(*ssa.UnOp); ok && u.Op == token.MUL && qualField(u.X) == "solver.Solver.minLits" {
					reads = true
				}
			})
		}
		return reads
	}
	// a step context: the construction np in function fn, seen from the function that holds the optimisation loop
	type stepCtx struct {
		fn     *ssa.Function
		np     *ssa.Call
		caller ssa.CallInstruction // nil when fn itself holds the loop
		loopFn *ssa.Function
		at     ssa.Instruction
	}
	var ctxs []stepCtx
	for _, fn := range w.Fns {
		if w.PkgName(fn) != "solver" || fn.Signature.Recv() == nil || fn.Parent() != nil {
			continue
		}
		for _, ci := range callsIn(fn) {
			c, ok := ci.(*ssa.Call)
			if !ok || !(w.staticCalleeIs(c, npb) || (ncc != nil && w.staticCalleeIs(c, ncc))) {
				continue
			}
			feeds := false
			for _, rr := range *c.Referrers() {
				if c2, ok := rr.(*ssa.Call); ok && w.staticCalleeIs(c2, app) {
					feeds = true
				}
			}
			if !feeds {
				continue
			}
			if inLoop(fn, c.Block()) {
				if readsMinLits(fn) {
					ctxs = append(ctxs, stepCtx{fn, c, nil, fn, c})
				}
				continue
			}
			// the step was extracted into a helper: look at its call sites inside loops
			for _, cs := range w.Callers[fn] {
				g := cs.Parent()
				if w.PkgName(g) == "solver" && inLoop(g, cs.Block()) && readsMinLits(g) {
					ctxs = append(ctxs, stepCtx{fn, c, cs, g, cs})
				}
			}
		}
	}
	one := linForm{c: 1, terms: map[string]int64{}}
	_ = one
	for _, cx := range ctxs {
		name := w.FuncName(cx.loopFn)
		cardForm := ncc != nil && w.staticCalleeIs(cx.np, ncc)
		if cardForm {
			name += " (cardinality form)"
		}
		resolve := func(v ssa.Value) ssa.Value {
			if cx.caller == nil {
				return v
			}
			if pi := paramIndex(cx.fn, v); pi >= 0 {
				args := cx.caller.Common().Args
				if pi < len(args) {
					return args[pi]
				}
			}
			return v
		}
		// degree: linear form in fn, parameters substituted by the caller's arguments
		deg := lfOf(cx.np.Call.Args[len(cx.np.Call.Args)-1], 0)
		valsF, valsG := valueByName(cx.fn), valueByName(cx.loopFn)
		final := linForm{c: deg.c, terms: map[string]int64{}}
		atomVal := map[string]ssa.Value{}
		for k, coef := range deg.terms {
			if coef == 0 {
				continue
			}
			v := valsF[k]
			if v != nil {
				if rv := resolve(v); rv != v {
					sub := lfOf(rv, 0)
					final = lfAdd(final, lfScale(sub, coef), 1)
					for k2 := range sub.terms {
						atomVal[k2] = valsG[k2]
					}
					continue
				}
			}
			final.terms[k] += coef
			atomVal[k] = v
		}
		var M, C ssa.Value
		okShape := final.c == 1
		for k, coef := range final.terms {
			switch coef {
			case 0:
			case 1:
				if M != nil {
					okShape = false
				}
				M = atomVal[k]
			case -1:
				if C != nil {
					okShape = false
				}
				C = atomVal[k]
			default:
				okShape = false
			}
		}
		if !okShape || M == nil || C == nil {
			r.Bad("R3.5", name+" degree of the strengthening constraint", w.InstrPos(cx.at), "the degree is "+final.String()+", not (total weight) - (cost of the model) + 1: the next model is not forced to be strictly better, or better ones are excluded")
			continue
		}
		// look through helpers: a value that is the result of a module call stands for what the callee returns
		var through func(v ssa.Value, d int) ssa.Value
		through = func(v ssa.Value, d int) ssa.Value {
			c, ok := v.(*ssa.Call)
			if !ok || d > 2 || len(w.Callees[c]) != 1 {
				return v
			}
			callee := w.Callees[c][0]
			var rets []ssa.Value
			allInstrs(callee, func(ins ssa.Instruction) {
				if ret, ok := ins.(*ssa.Return); ok && len(ret.Results) == 1 {
					rets = append(rets, ret.Results[0])
				}
			})
			if len(rets) != 1 {
				return v
			}
			return through(rets[0], d+1)
		}
		Mv, Cv := through(M, 0), through(C, 0)
		// ---- maxCost ----
		{
			var bad []string
			// the alternatives the total is chosen from: edges of a merge phi, or the values returned by a helper
			type leaf struct {
				v   ssa.Value
				blk *ssa.BasicBlock
			}
			var leaves []leaf
			if mphi, ok := Mv.(*ssa.Phi); ok && len(mphi.Edges) == 2 {
				for i, e := range mphi.Edges {
					leaves = append(leaves, leaf{e, mphi.Block().Preds[i]})
				}
			} else if mc, ok := M.(*ssa.Call); ok && len(w.Callees[mc]) == 1 {
				allInstrs(w.Callees[mc][0], func(ins ssa.Instruction) {
					if ret, ok := ins.(*ssa.Return); ok && len(ret.Results) == 1 {
						leaves = append(leaves, leaf{ret.Results[0], ret.Block()})
					}
				})
			}
			if len(leaves) != 2 {
				bad = append(bad, "the total weight is not chosen between the number of cost literals and the sum of the weights")
			} else {
				sawLen, sawSum := false, false
				for _, lf := range leaves {
					e := lf.v
					if isLenOf(e, func(x ssa.Value) bool { return isFieldLoadOf(x, "minLits") }) {
						found, holds := underCond(lf.blk, func(c ssa.Value) (bool, bool) {
							bo, ok := c.(*ssa.BinOp)
							if !ok || (bo.Op != token.EQL && bo.Op != token.NEQ) || !isFieldLoadOf(bo.X, "minWeights") || !isNilConst(bo.Y) {
								return false, false
							}
							return true, bo.Op == token.EQL
						})
						if found && holds {
							sawLen = true
						} else {
							bad = append(bad, "the number of cost literals is used as total weight although weights may be present")
						}
					}
					if acc, ok := e.(*ssa.Phi); ok {
						for _, ae := range acc.Edges {
							if add, ok := ae.(*ssa.BinOp); ok && add.Op == token.ADD && add.X == ssa.Value(acc) {
								if idx, ok := elemOfField(add.Y, "minWeights"); ok {
									if fullRangeIndex(idx, func(b ssa.Value) bool {
										return isLenOf(b, func(x ssa.Value) bool { return isFieldLoadOf(x, "minWeights") })
									}) {
										sawSum = true
									}
								}
							}
						}
						hasZero := false
						for _, ae := range acc.Edges {
							if k, ok := constInt(ae); ok && k == 0 {
								hasZero = true
							}
						}
						if !hasZero {
							sawSum = false
						}
					}
				}
				if !sawLen {
					bad = append(bad, "without weights the total is not len(minLits)")
				}
				if !sawSum {
					bad = append(bad, "with weights the total is not the sum of every weight starting from 0")
				}
			}
			key := name + " total weight"
			if len(bad) > 0 {
				r.Bad("R3.5", key, w.InstrPos(cx.at), strings.Join(dedupe(bad), "; "))
			} else {
				r.OK("R3.5", key, w.InstrPos(cx.at), "len(minLits) when minWeights == nil, else the sum over all weights")
			}
		}
		// ---- cost ----
		{
			var bad []string
			cphi, ok := Cv.(*ssa.Phi)
			if !ok {
				bad = append(bad, "the cost is not accumulated in a loop over the cost literals")
			} else {
				zero, incs := false, 0
				for i, e := range cphi.Edges {
					if k, ok := constInt(e); ok {
						if k == 0 {
							zero = true
						} else {
							bad = append(bad, fmt.Sprintf("the cost starts from %d", k))
						}
						continue
					}
					if e == ssa.Value(cphi) {
						continue
					}
					add, ok := e.(*ssa.BinOp)
					if !ok || add.Op != token.ADD || add.X != ssa.Value(cphi) {
						bad = append(bad, "the cost is updated by something other than an addition")
						continue
					}
					incs++
					pred := cphi.Block().Preds[i]
					litTrue := false
					for _, ec := range dominatingConds(pred) {
						bo, ok := ec.Cond.(*ssa.BinOp)
						if !ok || (bo.Op != token.EQL && bo.Op != token.NEQ) {
							continue
						}
						gt, isGT := bo.X.(*ssa.BinOp)
						pos, isCall := bo.Y.(*ssa.Call)
						if !isGT || !isCall {
							gt, isGT = bo.Y.(*ssa.BinOp)
							pos, isCall = bo.X.(*ssa.Call)
						}
						if !isGT || !isCall || gt.Op != token.GTR {
							continue
						}
						if k, ok := constInt(gt.Y); !ok || k != 0 {
							continue
						}
						ld, ok := gt.X.(*ssa.UnOp)
						if !ok || ld.Op != token.MUL {
							continue
						}
						ia, ok := ld.X.(*ssa.IndexAddr)
						if !ok || !isFieldLoadOf(ia.X, "model") {
							continue
						}
						vc, ok := ia.Index.(*ssa.Call)
						if !ok || len(vc.Call.Args) != 1 || len(pos.Call.Args) != 1 || vc.Call.Args[0] != pos.Call.Args[0] {
							continue
						}
						if w.calleeName(&pos.Call) != "(solver.Lit).IsPositive" || w.calleeName(&vc.Call) != "(solver.Lit).Var" {
							continue
						}
						idx, ok := elemOfField(pos.Call.Args[0], "minLits")
						if !ok {
							continue
						}
						if (bo.Op == token.EQL) == ec.True {
							litTrue = true
						} else {
							bad = append(bad, "the cost counts the cost literals that are FALSE in the model")
						}
						if k, ok := constInt(add.Y); ok {
							if k != 1 {
								bad = append(bad, fmt.Sprintf("an unweighted cost literal counts %d", k))
							}
							found, holds := underCond(pred, func(c ssa.Value) (bool, bool) {
								b2, ok := c.(*ssa.BinOp)
								if !ok || (b2.Op != token.EQL && b2.Op != token.NEQ) || !isFieldLoadOf(b2.X, "minWeights") || !isNilConst(b2.Y) {
									return false, false
								}
								return true, b2.Op == token.EQL
							})
							if !(found && holds) {
								bad = append(bad, "a cost literal counts 1 although weights may be present")
							}
						} else if wphi, isPhi := add.Y.(*ssa.Phi); isPhi && len(wphi.Edges) == 2 {
							// `w := 1; if s.minWeights != nil { w = s.minWeights[i] }; cost += w`
							okOne, okW := false, false
							for ei, e := range wphi.Edges {
								if k, isK := constInt(e); isK && k == 1 {
									found, holds := underCond(wphi.Block().Preds[ei], func(c ssa.Value) (bool, bool) {
										b2, ok := c.(*ssa.BinOp)
										if !ok || (b2.Op != token.EQL && b2.Op != token.NEQ) || !isFieldLoadOf(b2.X, "minWeights") || !isNilConst(b2.Y) {
											return false, false
										}
										return true, b2.Op == token.EQL
									})
									// the constant edge may come straight from the block of the test (no else branch)
									if found && holds {
										okOne = true
									} else if iff, isIf := wphi.Block().Preds[ei].Instrs[len(wphi.Block().Preds[ei].Instrs)-1].(*ssa.If); isIf {
										if b2, isB := iff.Cond.(*ssa.BinOp); isB && isFieldLoadOf(b2.X, "minWeights") && isNilConst(b2.Y) {
											nilEdge := 0 // successor taken when minWeights == nil
											if b2.Op == token.NEQ {
												nilEdge = 1
											}
											if wphi.Block().Preds[ei].Succs[nilEdge] == wphi.Block() {
												okOne = true
											}
										}
									}
								} else if widx, isW := elemOfField(e, "minWeights"); isW && widx == idx {
									okW = true
								}
							}
							if !okOne || !okW {
								bad = append(bad, "the amount added is not 1 without weights and the weight of the same cost literal otherwise")
							}
						} else if widx, ok := elemOfField(add.Y, "minWeights"); !ok || widx != idx {
							bad = append(bad, "the amount added is not the weight of the same cost literal")
						}
						if !fullRangeIndex(idx, func(b ssa.Value) bool {
							return isLenOf(b, func(x ssa.Value) bool { return isFieldLoadOf(x, "minLits") })
						}) {
							bad = append(bad, "the cost loop does not visit every cost literal")
						}
					}
					if !litTrue {
						bad = append(bad, "an increment of the cost is not guarded by `the cost literal is true in the model`")
					}
				}
				if !zero {
					bad = append(bad, "the cost is not reset to 0 for each model")
				}
				if incs == 0 {
					bad = append(bad, "the cost is never increased")
				}
			}
			key := name + " cost of the model"
			if len(bad) > 0 {
				r.Bad("R3.5", key, w.InstrPos(cx.at), strings.Join(dedupe(bad), "; "))
			} else {
				r.OK("R3.5", key, w.InstrPos(cx.at), "sum over the cost literals true in the model of 1 / their weight, from 0")
			}
		}
		// ---- stop on cost == 0, before the constraint is added (in the function that holds the loop) ----
		{
			stop := false
			allInstrs(cx.loopFn, func(ins ssa.Instruction) {
				iff, ok := ins.(*ssa.If)
				if !ok {
					return
				}
				bo, ok := iff.Cond.(*ssa.BinOp)
				if !ok || bo.Op != token.EQL || bo.X != C {
					return
				}
				if k, ok := constInt(bo.Y); !ok || k != 0 {
					return
				}
				if !reachableBlocks(iff.Block().Succs[0], true)[cx.at.Block()] && iff.Block().Dominates(cx.at.Block()) {
					stop = true
				}
			})
			r.Check(stop, "R3.5", name+" stops at cost 0", w.InstrPos(cx.at), "a test `cost == 0` dominates the construction and leaves the loop",
				"the loop does not stop when a model of cost 0 is found: a constraint of degree maxCost+1, which no assignment satisfies, is added and the optimum is reported Unsat or lost")
		}
		// ---- literals and weights of the constraint ----
		{
			var bad []string
			srcIs := func(pred func(ssa.Value) bool) func(ssa.Value) bool {
				return func(s ssa.Value) bool { return pred(resolve(s)) }
			}
			if !copiedFrom(cx.np.Call.Args[0], srcIs(func(s ssa.Value) bool { return isFieldLoadOf(s, "hypothesis") })) {
				bad = append(bad, "the literals of the constraint are not a private copy of the hypothesis (the constructor sorts them in place)")
			}
			if cardForm {
				// no weights: sound only where the cost function has none
				unweighted := false
				for _, ec := range dominatingConds(cx.np.Block()) {
					if bo, ok := ec.Cond.(*ssa.BinOp); ok && (bo.Op == token.EQL || bo.Op == token.NEQ) && isFieldLoadOf(bo.X, "minWeights") && isNilConst(bo.Y) && (bo.Op == token.EQL) == ec.True {
						unweighted = true
					}
				}
				if !unweighted {
					bad = append(bad, "a cardinality constraint (every weight 1) is added on a path where the cost function may have weights")
				}
			} else if !copiedFrom(cx.np.Call.Args[1], srcIs(func(s ssa.Value) bool {
				// the sorted weight list may be built by a helper of the loop (`weights := s.initHypothesis()`): every
				// value it returns must be such a copy
				leaves := w.resultLeaves(s)
				for _, l := range leaves {
					if !copiedFrom(l, func(s2 ssa.Value) bool { return isFieldLoadOf(s2, "minWeights") }) {
						return false
					}
				}
				return len(leaves) > 0
			})) {
				bad = append(bad, "the weights of the constraint are not a private copy of (a copy of) the cost weights")
			}
			neg := false
			// the hypothesis is filled in the loop function or in a solver helper it calls before the loop
			negFns := []*ssa.Function{cx.loopFn}
			for g := range w.Reachable(cx.loopFn) {
				if g != cx.loopFn && w.PkgName(g) == "solver" {
					negFns = append(negFns, g)
				}
			}
			for _, nf := range negFns {
				allInstrs(nf, func(ins ssa.Instruction) {
					st, ok := ins.(*ssa.Store)
					if !ok {
						return
					}
					ia, ok := st.Addr.(*ssa.IndexAddr)
					if !ok || !isFieldLoadOf(ia.X, "hypothesis") {
						return
					}
					c, ok := st.Val.(*ssa.Call)
					if !ok || w.calleeName(&c.Call) != "(solver.Lit).Negation" {
						return
					}
					idx, ok := elemOfField(c.Call.Args[0], "minLits")
					if ok && idx == ia.Index && fullRangeIndex(idx, func(b ssa.Value) bool {
						return isLenOf(b, func(x ssa.Value) bool { return isFieldLoadOf(x, "minLits") })
					}) {
						neg = true
					}
				})
			}
			if !neg {
				bad = append(bad, "the hypothesis is not the negation of every cost literal")
			}
			key := name + " literals and weights of the constraint"
			if len(bad) > 0 {
				r.Bad("R3.5", key, w.InstrPos(cx.at), strings.Join(bad, "; "))
			} else {
				r.OK("R3.5", key, w.InstrPos(cx.at), "negated cost literals with their weights, on private copies")
			}
		}
		r.OK("R3.5", name+" degree of the strengthening constraint", w.InstrPos(cx.at), "maxCost - cost + 1")
	}
	loops := map[*ssa.Function]bool{}
	for _, cx := range ctxs {
		loops[cx.loopFn] = true
	}
	if len(loops) < 2 {
		// Minimize may delegate to Optimal (or the reverse): then one loop serves both
		delegates := false
		for _, name := range []string{"Solver.Optimal", "Solver.Minimize"} {
			f := w.Func("solver", name)
			if f == nil || loops[f] {
				continue
			}
			for g := range w.Reachable(f) {
				if loops[g] {
					delegates = true
				}
			}
		}
		if !delegates {
			r.Unk("R3.5", "optimisation loops", "-", fmt.Sprintf("%d optimisation loop(s) found, expected Optimal and Minimize", len(loops)))
		}
	}
}
