package main

import (
	"fmt"
	"go/token"
	"go/types"
	"sort"
	"strings"

	"golang.org/x/tools/go/ssa"
)

// Rules added after the second round of externally written mutants (see DESIGN.md section 9).

// ---------- R2.7: unit literals collected by a front-end are checked against each other ----------

// unitConsistencyLoop: fn contains a loop over Problem.Units that binds Model entries and stores Unsat into
// Problem.Status on an opposite binding; returns the loop header.
func unitConsistencyLoop(w *World, fn *ssa.Function) *ssa.BasicBlock {
	unsat, _ := w.statusConst("Unsat")
	for _, h := range loopHeaders(fn) {
		body := loopBlocks(fn, h)
		overUnits, binds, fails := false, false, false
		for b := range body {
			for _, ins := range b.Instrs {
				switch x := ins.(type) {
				case *ssa.UnOp:
					if x.Op == token.MUL {
						if ia, ok := x.X.(*ssa.IndexAddr); ok {
							if _, ok := isFieldLoad(ia.X, "solver.Problem", "Units"); ok {
								overUnits = true
							}
						}
					}
				case *ssa.Store:
					if ia, ok := x.Addr.(*ssa.IndexAddr); ok {
						if _, ok := isFieldLoad(ia.X, "solver.Problem", "Model"); ok {
							binds = true
						}
					}
				}
			}
		}
		// the failure store may sit in a block that leaves the loop (return): look at blocks dominated by the body entry
		for _, b := range fn.Blocks {
			if len(h.Succs) == 2 && h.Succs[0].Dominates(b) {
				for _, ins := range b.Instrs {
					if st, ok := ins.(*ssa.Store); ok && qualField(st.Addr) == "solver.Problem.Status" {
						if v, ok := constInt(st.Val); ok && v == unsat {
							fails = true
						}
					}
				}
			}
		}
		if overUnits && binds && fails {
			return h
		}
	}
	return nil
}

// conflictTableWrong evaluates, in the consistency loop with header h, when an already bound variable leads to the
// Unsat store: for the four combinations of (binding positive / negative, unit positive / negative) it must be
// exactly when the signs differ. Returns "" when that is so (or when the shape is not the bound/unbound split this
// check knows), otherwise what is wrong.
func conflictTableWrong(w *World, fn *ssa.Function, h *ssa.BasicBlock) string {
	unsat, _ := w.statusConst("Unsat")
	body := loopBlocks(fn, h)
	isModelEntry := func(v ssa.Value) bool {
		ld, ok := v.(*ssa.UnOp)
		if !ok || ld.Op != token.MUL {
			return false
		}
		ia, ok := ld.X.(*ssa.IndexAddr)
		if !ok {
			return false
		}
		_, isM := isFieldLoad(ia.X, "solver.Problem", "Model")
		return isM
	}
	var split *ssa.If
	for b := range body {
		if iff, ok := b.Instrs[len(b.Instrs)-1].(*ssa.If); ok {
			if bo, isB := iff.Cond.(*ssa.BinOp); isB && bo.Op == token.EQL && isModelEntry(bo.X) {
				if k, isK := constInt(bo.Y); isK && k == 0 {
					split = iff
				}
			}
		}
	}
	if split == nil {
		return ""
	}
	// evaluate a condition under (bindingPositive, unitPositive); ok=false when it is not made of the known atoms
	var eval func(v ssa.Value, mp, up bool) (val bool, ok bool)
	eval = func(v ssa.Value, mp, up bool) (bool, bool) {
		switch x := v.(type) {
		case *ssa.UnOp:
			if x.Op == token.NOT {
				a, ok := eval(x.X, mp, up)
				return !a, ok
			}
		case *ssa.Call:
			if strings.HasSuffix(w.calleeName(&x.Call), ".IsPositive") {
				return up, true
			}
		case *ssa.BinOp:
			if isModelEntry(x.X) {
				if k, isK := constInt(x.Y); isK && (k == 0 || k == 1 || k == -1) {
					m := int64(-1)
					if mp {
						m = 1
					}
					switch x.Op {
					case token.GTR:
						return m > k, true
					case token.LSS:
						return m < k, true
					case token.GEQ:
						return m >= k, true
					case token.LEQ:
						return m <= k, true
					case token.EQL:
						return m == k, true
					case token.NEQ:
						return m != k, true
					}
				}
			}
			if x.Op == token.EQL || x.Op == token.NEQ {
				a, ok1 := eval(x.X, mp, up)
				b, ok2 := eval(x.Y, mp, up)
				if ok1 && ok2 {
					return (a == b) == (x.Op == token.EQL), true
				}
			}
		}
		return false, false
	}
	for _, mp := range []bool{true, false} {
		for _, up := range []bool{true, false} {
			b := split.Block().Succs[1]
			fails, known := false, true
			for steps := 0; steps < 50; steps++ {
				for _, ins := range b.Instrs {
					if st, ok := ins.(*ssa.Store); ok && qualField(st.Addr) == "solver.Problem.Status" {
						if v, ok := constInt(st.Val); ok && v == unsat {
							fails = true
						}
					}
				}
				if fails || b == h || !h.Dominates(b) {
					break
				}
				last := b.Instrs[len(b.Instrs)-1]
				if iff, ok := last.(*ssa.If); ok {
					val, okE := eval(iff.Cond, mp, up)
					if !okE {
						known = false
						break
					}
					if val {
						b = b.Succs[0]
					} else {
						b = b.Succs[1]
					}
					continue
				}
				if len(b.Succs) != 1 {
					break
				}
				b = b.Succs[0]
			}
			if !known {
				return ""
			}
			if fails != (mp != up) {
				sign := map[bool]string{true: "positive", false: "negative"}
				if fails {
					return fmt.Sprintf("the loop that compares the unit literals concludes Unsat for a variable bound %s and a %s unit literal, which agree", sign[mp], sign[up])
				}
				return fmt.Sprintf("the loop that compares the unit literals does not conclude Unsat for a variable bound %s and a %s unit literal: the two opposite unit clauses are read as satisfiable (the second one is ignored)", sign[mp], sign[up])
			}
		}
	}
	return ""
}

func ruleR2_7(w *World, r *Report) {
	r.Rule("R2.7", "every constraint front-end that puts unit literals into Problem.Units itself (not through the checked addUnit) binds them in a loop that concludes Unsat on two opposite units, before the simplifier runs", 4)
	eff := w.effects()
	// raw appenders: growth of Problem.Units in a function that is not itself a checked appender
	raw := map[*ssa.Function]bool{}
	unsat, _ := w.statusConst("Unsat")
	for _, fn := range w.Fns {
		if w.PkgName(fn) != "solver" {
			continue
		}
		grows := false
		for _, gs := range growthSites(fn) {
			if gs.Field == "solver.Problem.Units" {
				grows = true
			}
		}
		if !grows {
			continue
		}
		checked := false
		if fn.Signature.Params().Len() == 1 && typeShort(fn.Signature.Params().At(0).Type()) == "solver.Lit" {
			for _, st := range storesToField(fn, "solver.Problem", "Status") {
				if v, ok := constInt(st.Val); ok && v == unsat {
					checked = true // addUnit: one literal, checked against the current binding
				}
			}
		}
		if !checked {
			raw[fn] = true
		}
	}
	isSimplifier := func(c *ssa.Function) bool {
		return c.Signature.Recv() != nil && c.Signature.Params().Len() == 0 && typeShort(c.Signature.Recv().Type()) == "*solver.Problem" &&
			eff.WritesAny(c, "solver.Problem.Clauses") && eff.WritesAny(c, "solver.Problem.Model")
	}
	n := 0
	for _, fn := range w.Fns {
		if w.PkgName(fn) != "solver" || fn.Parent() != nil {
			continue
		}
		var simp ssa.CallInstruction
		for _, ci := range callsIn(fn) {
			for _, c := range w.Callees[ci] {
				if isSimplifier(c) {
					simp = ci
				}
			}
		}
		if simp == nil {
			continue
		}
		reachesRaw := raw[fn]
		for g := range w.Reachable(fn) {
			if raw[g] && g != fn {
				// only through calls made before the simplifier; reachability is enough for the front-ends of this package
				reachesRaw = true
			}
		}
		if !reachesRaw {
			continue
		}
		n++
		key := w.FuncName(fn) + " checks its unit literals against each other"
		h := unitConsistencyLoop(w, fn)
		if h == nil {
			// the loop may live in a helper of the front-end (`if !pb.bindUnits() { return &pb }`): its call stands
			// for the loop
			handled := false
			for _, ci := range callsIn(fn) {
				hf := ci.Common().StaticCallee()
				if hf == nil || w.PkgName(hf) != "solver" || hf == fn || isSimplifier(hf) {
					continue
				}
				hh := unitConsistencyLoop(w, hf)
				if hh == nil {
					continue
				}
				handled = true
				before := ci.Block() != simp.Block() && ci.Block().Dominates(simp.Block())
				if ci.Block() == simp.Block() {
					for _, ins := range ci.Block().Instrs {
						if ins == ssa.Instruction(ci) {
							before = true
						}
						if ins == ssa.Instruction(simp) {
							break
						}
					}
				}
				if !before {
					r.Bad("R2.7", key, w.InstrPos(simp), "the simplifier can run on a path that has not checked the unit literals")
				} else if why := conflictTableWrong(w, hf, hh); why != "" {
					r.Bad("R2.7", key, w.InstrPos(simp), why)
				} else {
					r.OK("R2.7", key, w.InstrPos(simp), "consistency loop over Units (in "+w.FuncName(hf)+") runs before the simplifier; Unsat exactly when the variable is bound with the other sign")
				}
				break
			}
			if handled {
				continue
			}
		}
		switch {
		case h == nil:
			r.Bad("R2.7", key, w.InstrPos(simp), "unit literals are collected and handed to the simplifier without the loop that binds them and answers Unsat on two opposite units: the simplifier copies units into the model without comparing them, so `x` and `not x` together are read as satisfiable")
		case !h.Dominates(simp.Block()):
			r.Bad("R2.7", key, w.InstrPos(simp), "the simplifier can run on a path that has not checked the unit literals")
		default:
			if why := conflictTableWrong(w, fn, h); why != "" {
				r.Bad("R2.7", key, w.InstrPos(simp), why)
			} else {
				r.OK("R2.7", key, w.InstrPos(simp), "consistency loop over Units dominates the simplifier; Unsat exactly when the variable is bound with the other sign")
			}
		}
	}
	if n == 0 {
		r.Unk("R2.7", "constraint front-ends", "-", "no function of package solver collects units and calls a simplifier")
	}
}

// ---------- R2.8: conflict analysis marks only falsified literals of an antecedent ----------

func ruleR2_8(w *World, r *Report) {
	r.Rule("R2.8", "in clause learning, a literal read from a conflict or reason constraint marks its variable as met only on the path where the literal is false under the current bindings (constraints of degree > 1 contain true literals that are no reason for the conflict)", 2)
	n := 0
	// scope: the clause-learning analyser (the one that consults the assumption flags) and what it calls; the
	// bookkeeping sets of other analysers (activity bumping in the cutting-planes analyser) are not `met` sets
	scope := map[*ssa.Function]bool{}
	for _, an := range conflictAnalysers(w) {
		reads := false
		allInstrs(an, func(ins ssa.Instruction) {
			if u, ok := ins.(*ssa.UnOp); ok && u.Op == token.MUL {
				if o, f, _, ok := fieldOf(u.X); ok && o == "solver.Solver" && f == "assumptions" {
					reads = true
				}
			}
		})
		if reads {
			for g := range w.Reachable(an) {
				scope[g] = true
			}
		}
	}
	for _, fn := range w.Fns {
		if w.PkgName(fn) != "solver" || !scope[fn] {
			continue
		}
		allInstrs(fn, func(ins ssa.Instruction) {
			st, ok := ins.(*ssa.Store)
			if !ok {
				return
			}
			if k, ok := st.Val.(*ssa.Const); !ok || k.Value == nil || k.Value.String() != "true" {
				return
			}
			ia, ok := st.Addr.(*ssa.IndexAddr)
			if !ok || typeShort(ia.X.Type()) != "[]bool" {
				return
			}
			// index = Var(l) with l = (*Clause).Get(c, i)
			vc, ok := ia.Index.(*ssa.Call)
			if !ok || w.calleeName(&vc.Call) != "(solver.Lit).Var" {
				return
			}
			lit := vc.Call.Args[0]
			if _, _, ok := clauseElem(w, lit); !ok {
				return
			}
			// only the sets handed around as parameters / locals of the analysers (not fields)
			switch ia.X.(type) {
			case *ssa.Parameter, *ssa.Slice, *ssa.Phi:
			default:
				return
			}
			n++
			key := fmt.Sprintf("%s marks a clause literal as met #%d", w.FuncName(fn), n)
			unsat, _ := w.statusConst("Unsat")
			okc := false
			for _, ec := range dominatingConds(st.Block()) {
				bo, ok := ec.Cond.(*ssa.BinOp)
				if !ok || (bo.Op != token.EQL && bo.Op != token.NEQ) {
					continue
				}
				sc, ok := bo.X.(*ssa.Call)
				if !ok || typeShort(sc.Type()) != "solver.Status" {
					continue
				}
				hasLit := false
				for _, a := range sc.Call.Args {
					if a == lit {
						hasLit = true
					}
				}
				k, isK := constInt(bo.Y)
				if !hasLit || !isK || k != unsat {
					continue
				}
				if (bo.Op == token.EQL) == ec.True {
					okc = true
				}
			}
			r.Check(okc, "R2.8", key, w.InstrPos(st), "only under litStatus(lit) == Unsat",
				"a literal of the antecedent is marked as met without being known false: a true literal of a cardinality/PB antecedent then counts as a reason, clause minimisation drops literals it must keep, and the learned clause is not implied")
		})
	}
	if n < 2 {
		r.Unk("R2.8", "met marking", "-", fmt.Sprintf("%d marking site(s) found, expected the conflict and the reason loop", n))
	}
}

// clauseElem: v is a literal read from a constraint, through the accessor `c.Get(i)` or directly as `c.lits[i]`;
// returns the constraint and the index.
func clauseElem(w *World, v ssa.Value) (recv, idx ssa.Value, ok bool) {
	switch x := v.(type) {
	case *ssa.Call:
		if w.calleeName(&x.Call) == "(*solver.Clause).Get" && len(x.Call.Args) == 2 {
			return x.Call.Args[0], x.Call.Args[1], true
		}
	case *ssa.UnOp:
		if x.Op != token.MUL {
			return nil, nil, false
		}
		if ia, isIA := x.X.(*ssa.IndexAddr); isIA {
			if base, isF := isFieldLoad(ia.X, "solver.Clause", "lits"); isF {
				return base, ia.Index, true
			}
		}
	}
	return nil, nil, false
}

// ---------- R14.3: every decision gets a decision level of its own ----------

func ruleR14_3(w *World, r *Report) {
	r.Rule("R14.3", "in the search loops, on every path on which a new decision literal is chosen, the level carried to the next iteration is a fresh one (previous level + 1, or the constant first decision level)", 2)
	n := 0
	for _, fn := range w.Fns {
		if w.PkgName(fn) != "solver" || fn.Signature.Results().Len() != 1 || typeShort(fn.Signature.Results().At(0).Type()) != "solver.Status" {
			continue
		}
		// a search loop: header with phis of type Lit and decLevel
		for _, h := range loopHeaders(fn) {
			nested := false
			for _, h2 := range loopHeaders(fn) {
				if h2 != h && loopBlocks(fn, h2)[h] {
					nested = true
				}
			}
			if nested {
				continue
			}
			var lvl, lit *ssa.Phi
			for _, ins := range h.Instrs {
				phi, ok := ins.(*ssa.Phi)
				if !ok {
					break
				}
				switch typeShort(phi.Type()) {
				case "solver.decLevel":
					lvl = phi
				case "solver.Lit":
					lit = phi
				}
			}
			if lvl == nil || lit == nil {
				continue
			}
			n++
			key := fmt.Sprintf("%s search loop #%d: decisions get fresh levels", w.FuncName(fn), n)
			body := loopBlocks(fn, h)
			bad := map[string]bool{}
			_, trunc := exploreEdges(h.Succs[0], &pstate{phi: map[*ssa.Phi]ssa.Value{}, facts: map[string]string{}},
				func(b *ssa.BasicBlock) bool { return b == h || !body[b] },
				func(ins ssa.Instruction, st *pstate) {
					c, ok := ins.(*ssa.Call)
					if !ok || typeShort(c.Type()) != "solver.Lit" || len(w.Callees[c]) == 0 {
						return
					}
					for _, callee := range w.Callees[c] {
						if callee.Signature.Params().Len() == 0 && callee.Signature.Recv() != nil {
							st.facts["decided"] = w.InstrPos(c)
							st.facts["decisionValue"] = c.Name()
						}
					}
				},
				func(from, to *ssa.BasicBlock, st *pstate) {
					if to != h || st.facts["decided"] == "" {
						return
					}
					// is the decision the literal carried on?
					if lv := phiIncoming(lit, from, st); lv == nil || lv.Name() != st.facts["decisionValue"] {
						return
					}
					in := phiIncoming(lvl, from, st)
					if _, ok := constInt(in); ok {
						return
					}
					if bo, ok := in.(*ssa.BinOp); ok && bo.Op == token.ADD {
						if k, ok := constInt(bo.Y); ok && k == 1 {
							return
						}
					}
					bad[st.facts["decided"]] = true
				})
			if trunc {
				r.Unk("R14.3", key, w.InstrPos(h.Instrs[len(h.Instrs)-1]), "state space too large")
				continue
			}
			if len(bad) > 0 {
				var ps []string
				for p := range bad {
					ps = append(ps, p)
				}
				r.Bad("R14.3", key, w.InstrPos(h.Instrs[len(h.Instrs)-1]), "the decision taken at "+strings.Join(sortedStrings(ps), ", ")+" is carried to the next iteration with the level of the previous binding: decision and propagated literals share a level, and conflict analysis later walks the level down to the top and concludes Unsat wrongly")
			} else {
				r.OK("R14.3", key, w.InstrPos(h.Instrs[len(h.Instrs)-1]), "level + 1 or the first decision level on every deciding path")
			}
		}
	}
	if n < 2 {
		r.Unk("R14.3", "search loops", "-", fmt.Sprintf("%d search loop(s) found, expected two", n))
	}
}

// ---------- R18.7: slots of a pre-sized slice of lines are filled by loops that tile it ----------

func ruleR18_7(w *World, r *Report) {
	r.Rule("R18.7", "when a printer pre-sizes its slice of lines as the sum of the lengths of several lists and fills it by index, the loop over the k-th list writes at (its own index) + (the lengths of the lists before it)", 0)
	n := 0
	for _, fn := range w.Fns {
		if w.PkgName(fn) != "solver" && w.PkgName(fn) != "explain" && w.PkgName(fn) != "bf" {
			continue
		}
		allInstrs(fn, func(ins ssa.Instruction) {
			mk, ok := ins.(*ssa.MakeSlice)
			if !ok || typeShort(mk.Type()) != "[]string" {
				return
			}
			total := lfOf(mk.Len, 0)
			nlen := 0
			for k, v := range total.terms {
				if v != 0 && strings.HasPrefix(k, "len(") {
					nlen++
				}
			}
			if nlen < 2 || total.c != 0 {
				return
			}
			// indexed stores into the slice
			type fill struct {
				st     *ssa.Store
				offset linForm
				list   string
			}
			var fills []fill
			for _, ref := range *mk.Referrers() {
				ia, ok := ref.(*ssa.IndexAddr)
				if !ok {
					continue
				}
				for _, r2 := range *ia.Referrers() {
					st, ok := r2.(*ssa.Store)
					if !ok || st.Addr != ssa.Value(ia) {
						continue
					}
					// index = loopIndex + offset ; find the loop index: a full-range index over some list
					idx := lfOf(ia.Index, 0)
					found := false
					for term := range idx.terms {
						// which value is this atom
						for _, b := range fn.Blocks {
							for _, i2 := range b.Instrs {
								v, isV := i2.(ssa.Value)
								if !isV || lfAtom(v) != term {
									continue
								}
								var listName string
								lenBound := func(bound ssa.Value) bool {
									if c, ok := bound.(*ssa.Call); ok {
										if bb, ok := c.Call.Value.(*ssa.Builtin); ok && bb.Name() == "len" {
											listName = lfAtom(c)
											return true
										}
									}
									return false
								}
								// classic loop: the phi is the index; range loop: phi+1 is the index
								if fullRangeIndex(v, lenBound) {
									off := lfAdd(idx, linForm{terms: map[string]int64{term: 1}}, -1)
									fills = append(fills, fill{st, off, listName})
									found = true
								} else if phi, isPhi := v.(*ssa.Phi); isPhi {
									for _, pr := range *phi.Referrers() {
										if add, ok := pr.(*ssa.BinOp); ok && add.Op == token.ADD && add.X == ssa.Value(phi) && fullRangeIndex(add, lenBound) {
											off := lfAdd(idx, linForm{c: 1, terms: map[string]int64{term: 1}}, -1)
											fills = append(fills, fill{st, off, listName})
											found = true
										}
									}
								}
							}
						}
					}
					_ = found
				}
			}
			if len(fills) < 2 {
				return
			}
			n++
			key := fmt.Sprintf("%s lines slice filled by %d loops", w.FuncName(fn), len(fills))
			// order the fills by offset size: offsets must be 0, len(L1), len(L1)+len(L2), ... for the lists in some order
			var bad []string
			covered := linForm{terms: map[string]int64{}}
			remaining := append([]fill(nil), fills...)
			for len(remaining) > 0 {
				progress := false
				for i, f := range remaining {
					if f.offset.equal(covered) {
						covered = lfAdd(covered, linForm{terms: map[string]int64{f.list: 1}}, 1)
						remaining = append(remaining[:i], remaining[i+1:]...)
						progress = true
						break
					}
				}
				if !progress {
					for _, f := range remaining {
						bad = append(bad, fmt.Sprintf("the loop over %s writes at offset %s, but the slots filled so far end at %s", f.list, f.offset.String(), covered.String()))
					}
					break
				}
			}
			if len(bad) == 0 && !covered.equal(total) {
				bad = append(bad, fmt.Sprintf("the loops fill %s slots of %s", covered.String(), total.String()))
			}
			if len(bad) > 0 {
				r.Bad("R18.7", key, w.InstrPos(mk), strings.Join(bad, "; ")+": lines overwrite each other and blank lines remain")
			} else {
				r.OK("R18.7", key, w.InstrPos(mk), "offsets tile the allocation")
			}
		})
	}
	if n == 0 {
		r.OK("R18.7", "pre-sized line slices", "-", "no printer fills a pre-sized slice of lines by index from several lists: nothing to tile")
	}
}

// ---------- R19.8: the count printed by -count is the number of models received ----------

func ruleR19_8(w *World, r *Report) {
	r.Rule("R19.8", "in the command's model-counting path the only bare number printed on stdout is the counter incremented once per model received from the enumeration channel", 1)
	n := 0
	for _, fn := range w.Fns {
		if w.PkgName(fn) != "main" {
			continue
		}
		// a function that starts Enumerate on a channel of models
		var g *ssa.Go
		for _, ci := range callsIn(fn) {
			if gg, ok := ci.(*ssa.Go); ok {
				for _, a := range gg.Call.Args {
					if typeShort(a.Type()) == "chan []bool" {
						g = gg
					}
				}
			}
		}
		if g == nil {
			continue
		}
		var ch ssa.Value
		for _, a := range g.Call.Args {
			if typeShort(a.Type()) == "chan []bool" {
				ch = a
			}
		}
		for _, ci := range callsIn(fn) {
			call, ok := ci.(*ssa.Call)
			if !ok {
				continue
			}
			name := w.calleeName(&call.Call)
			if name != "fmt.Println" && name != "fmt.Print" {
				continue
			}
			// single int argument
			sl, ok := call.Call.Args[0].(*ssa.Slice)
			if !ok {
				continue
			}
			al, ok := sl.X.(*ssa.Alloc)
			if !ok {
				continue
			}
			var arg ssa.Value
			cnt := 0
			for _, ref := range *al.Referrers() {
				if ia, ok := ref.(*ssa.IndexAddr); ok {
					for _, r2 := range *ia.Referrers() {
						if st, ok := r2.(*ssa.Store); ok {
							cnt++
							arg = st.Val
							if mi, ok := arg.(*ssa.MakeInterface); ok {
								arg = mi.X
							}
						}
					}
				}
			}
			if cnt != 1 || arg == nil {
				continue
			}
			if b, ok := arg.Type().Underlying().(*types.Basic); !ok || b.Info()&types.IsInteger == 0 {
				continue
			}
			n++
			key := fmt.Sprintf("%s number printed #%d", w.FuncName(fn), n)
			// arg must be a phi counter: 0 initially, +1 in the body of the receive loop over ch
			okc := false
			if phi, ok := arg.(*ssa.Phi); ok {
				sites := drainSites(fn, func(v ssa.Value) bool { return v == ch })
				inRecvLoop := false
				for _, s := range sites {
					if phi.Block() == s.Recv.Block() {
						inRecvLoop = true
					}
				}
				okc = isUnitCounter(phi) && inRecvLoop
			}
			r.Check(okc, "R19.8", key, w.InstrPos(call), "the per-model counter of the receive loop",
				"a number that is not the count of models received from the enumeration is printed as the answer (e.g. a shortcut computed from the parsed problem, which ignores variables already bound by unit propagation)")
		}
	}
	if n == 0 {
		r.Unk("R19.8", "model counting path", "-", "no function of package main starts an enumeration and prints a number")
	}
}

// ---------- R13.8: line readers skip only blank and comment lines ----------

func ruleR13_8(w *World, r *Report) {
	r.Rule("R13.8", "in the line-based readers (OPB, WCNF), the call that parses a constraint line is guarded only by tests of the whole line or of its first character (blank line, comment marker, header marker): no other condition makes the reader skip a line", 2)
	type reader struct{ pkg, fn string }
	n := 0
	for _, rd := range []reader{{"solver", "ParseOPB"}, {"maxsat", "ParseWCNF"}} {
		fn := w.Func(rd.pkg, rd.fn)
		if fn == nil {
			r.Unk("R13.8", rd.pkg+"."+rd.fn, "-", "function not found")
			continue
		}
		// the line: result of (*bufio.Scanner).Text
		var line ssa.Value
		allInstrs(fn, func(ins ssa.Instruction) {
			if c, ok := ins.(*ssa.Call); ok && w.calleeName(&c.Call) == "(*bufio.Scanner).Text" {
				line = c
			}
		})
		if line == nil {
			// the reading loop may live in a helper of the reader (`pb.readOPBLines(f)`): look in what it calls
			var hs []*ssa.Function
			for g := range w.Reachable(fn) {
				if g != fn && w.PkgName(g) == rd.pkg {
					hs = append(hs, g)
				}
			}
			sortFns(hs)
			for _, g := range hs {
				allInstrs(g, func(ins ssa.Instruction) {
					if c, ok := ins.(*ssa.Call); ok && line == nil && w.calleeName(&c.Call) == "(*bufio.Scanner).Text" {
						line = c
						fn = g
					}
				})
			}
		}
		if line == nil {
			r.Unk("R13.8", rd.pkg+"."+rd.fn, w.Pos(fn.Pos()), "no scanner.Text() call")
			continue
		}
		// the line parser: a module call taking the line as an argument, inside the loop
		for _, ci := range callsIn(fn) {
			call, ok := ci.(*ssa.Call)
			if !ok || len(w.Callees[call]) == 0 {
				continue
			}
			takes := false
			for _, a := range call.Call.Args {
				if a == line {
					takes = true
				}
			}
			if !takes {
				continue
			}
			n++
			key := fmt.Sprintf("%s.%s hands every constraint line to %s", rd.pkg, rd.fn, w.FuncName(w.Callees[call][0]))
			var bad []string
			lineBlock := line.(ssa.Instruction).Block()
			for _, ec := range dominatingConds(call.Block()) {
				if !lineBlock.Dominates(ec.If.Block()) {
					continue // a condition established before the line was read (the scan loop itself)
				}
				if !aboutLine(ec.Cond, line, 0) {
					bad = append(bad, "the parse is skipped depending on a condition at "+w.InstrPos(ec.If)+" that is not a test of the line or of its first character")
				}
			}
			if len(bad) > 0 {
				r.Bad("R13.8", key, w.InstrPos(call), strings.Join(dedupe(bad), "; ")+": well-formed lines (e.g. an empty clause `4 0`) are silently dropped")
			} else {
				r.OK("R13.8", key, w.InstrPos(call), "only blank / comment / header tests guard the call")
			}
		}
	}
	if n == 0 {
		r.Unk("R13.8", "line readers", "-", "no line parser call found")
	}
}

// aboutLine: the condition compares the line, or its first byte, with a constant.
func aboutLine(c ssa.Value, line ssa.Value, depth int) bool {
	if depth > 3 {
		return false
	}
	switch x := c.(type) {
	case *ssa.UnOp:
		if x.Op == token.NOT {
			return aboutLine(x.X, line, depth+1)
		}
	case *ssa.BinOp:
		if x.Op != token.EQL && x.Op != token.NEQ {
			return false
		}
		side := func(v ssa.Value) bool {
			if v == line {
				return true
			}
			if ix, ok := v.(*ssa.Index); ok && ix.X == line {
				if k, ok := constInt(ix.Index); ok && k == 0 {
					return true
				}
			}
			if lk, ok := v.(*ssa.Lookup); ok && lk.X == line {
				if k, ok := constInt(lk.Index); ok && k == 0 {
					return true
				}
			}
			return false
		}
		_, cx := x.X.(*ssa.Const)
		_, cy := x.Y.(*ssa.Const)
		return (side(x.X) && cy) || (side(x.Y) && cx)
	case *ssa.Call:
		// strings.HasPrefix(line, "<marker>"): a test of how the line starts
		if sc := x.Call.StaticCallee(); sc != nil && sc.Pkg != nil && sc.Pkg.Pkg.Path() == "strings" && sc.Name() == "HasPrefix" && len(x.Call.Args) == 2 {
			_, isConst := x.Call.Args[1].(*ssa.Const)
			return x.Call.Args[0] == line && isConst
		}
	}
	return false
}

// ---------- R2.9: a PB propagation step says "still satisfiable" only for one of three reasons ----------

// The propagation function of a pseudo-boolean constraint is called when a watched literal becomes false. It may
// answer true because the constraint is already satisfied, because every unbound literal was just propagated, or
// after it brought the watches up to date. Any other true exit leaves a false literal watched without replacement:
// later falsifications of unwatched literals go unnoticed and a violated constraint is never detected.
func ruleR2_9(w *World, r *Report) {
	r.Rule("R2.9", "the propagation function of a pseudo-boolean constraint returns true only when the constraint was found satisfied, when all its unbound literals were just propagated, or after the call that updates its watches", 1)
	eff := w.effects()
	// watch updaters: functions with a single *Clause parameter writing pbData.watched
	upd := map[*ssa.Function]bool{}
	for _, fn := range w.Fns {
		if w.PkgName(fn) != "solver" || fn.Signature.Recv() == nil || fn.Signature.Params().Len() != 1 ||
			typeShort(fn.Signature.Params().At(0).Type()) != "*solver.Clause" {
			continue
		}
		if eff.WritesAny(fn, "solver.pbData.watched") && fn.Signature.Results().Len() == 0 {
			upd[fn] = true
		}
	}
	n := 0
	for _, fn := range w.Fns {
		if w.PkgName(fn) != "solver" || fn.Signature.Recv() == nil {
			continue
		}
		ps, rs := fn.Signature.Params(), fn.Signature.Results()
		if ps.Len() != 2 || rs.Len() != 1 || typeShort(ps.At(0).Type()) != "*solver.Clause" || typeShort(ps.At(1).Type()) != "solver.decLevel" || typeShort(rs.At(0).Type()) != "bool" {
			continue
		}
		var updCalls []ssa.CallInstruction
		for _, ci := range callsIn(fn) {
			for _, c := range w.Callees[ci] {
				if upd[c] {
					updCalls = append(updCalls, ci)
				}
			}
		}
		if len(updCalls) == 0 {
			continue
		}
		n++
		key := w.FuncName(fn) + " justifies every true exit"
		clause, lvl := fn.Params[1], fn.Params[2]
		var bad []string
		nRet := 0
		allInstrs(fn, func(ins ssa.Instruction) {
			ret, ok := ins.(*ssa.Return)
			if !ok || len(ret.Results) != 1 {
				return
			}
			if k, ok := ret.Results[0].(*ssa.Const); !ok || k.Value == nil || k.Value.String() != "true" {
				if _, isConst := ret.Results[0].(*ssa.Const); !isConst {
					bad = append(bad, "the value returned at "+w.InstrPos(ret)+" is computed, not one of the justified constants")
				}
				return
			}
			nRet++
			// (c) watches updated
			for _, u := range updCalls {
				if instrDominates(u, ret) {
					return
				}
			}
			// (a) found satisfied: under the true edge of a boolean co-result of a module call on the clause
			for _, ec := range dominatingConds(ret.Block()) {
				if ex, ok := ec.Cond.(*ssa.Extract); ok && ec.True && typeShort(ex.Type()) == "bool" {
					if c, ok := ex.Tuple.(*ssa.Call); ok {
						for _, a := range c.Call.Args {
							if a == ssa.Value(clause) {
								return
							}
						}
					}
				}
			}
			// (b) everything unbound propagated: in the block of the return (or dominating it under `slack == 0`), a call
			// f(clause, lvl) of a function that propagates every unbound literal of its argument in a full-range loop
			for _, ci := range callsIn(fn) {
				c, ok := ci.(*ssa.Call)
				if !ok || !instrDominates(c, ret) || len(c.Call.Args) != 3 || c.Call.Args[1] != ssa.Value(clause) || c.Call.Args[2] != ssa.Value(lvl) {
					continue
				}
				for _, callee := range w.Callees[c] {
					if callee.Signature.Results().Len() == 0 && propagatesAllUnbound(w, callee) {
						zero := false
						for _, ec := range dominatingConds(c.Block()) {
							if bo, ok := ec.Cond.(*ssa.BinOp); ok && ec.True && bo.Op == token.EQL {
								if k, ok := constInt(bo.Y); ok && k == 0 {
									zero = true
								}
							}
						}
						if zero {
							return
						}
					}
				}
			}
			// (b') the same loop written out here: under `slack == 0`, a loop left before the return
			for _, h := range loopHeaders(fn) {
				body := loopBlocks(fn, h)
				if body[ret.Block()] || !h.Dominates(ret.Block()) {
					continue
				}
				zero := false
				for _, ec := range dominatingConds(h) {
					if bo, ok := ec.Cond.(*ssa.BinOp); ok && ec.True && bo.Op == token.EQL {
						if k, ok := constInt(bo.Y); ok && k == 0 {
							zero = true
						}
					}
				}
				if zero && propagatesAllUnboundIn(w, fn, clause, body) {
					return
				}
			}
			bad = append(bad, "true is returned at "+w.InstrPos(ret)+" although the constraint was not found satisfied, not everything unbound was propagated and the watches were not updated")
		})
		if len(bad) > 0 {
			r.Bad("R2.9", key, w.Pos(fn.Pos()), strings.Join(dedupe(bad), "; ")+": a watched literal that just became false keeps its watch, the constraint is no longer woken when its remaining literals are falsified")
		} else {
			r.OK("R2.9", key, w.Pos(fn.Pos()), fmt.Sprintf("%d true exit(s): satisfied / all propagated / watches updated", nRet))
		}
	}
	if n == 0 {
		r.Unk("R2.9", "PB propagation function", "-", "no method (clause, level) bool calling a watch updater of pbData.watched")
	}
}

// propagatesAllUnbound: fn(clause, lvl) runs a full-range loop over its clause argument and hands every literal whose
// status is Indet to a function that binds it (writes Solver.model) with this clause as reason.
func propagatesAllUnbound(w *World, fn *ssa.Function) bool {
	if len(fn.Params) != 3 {
		return false
	}
	return propagatesAllUnboundIn(w, fn, fn.Params[1], nil)
}

// propagatesAllUnboundIn: the same, for the clause value cl and the binding calls in the given blocks of fn (all of
// them when within is nil): the loop written out in the propagation function itself.
func propagatesAllUnboundIn(w *World, fn *ssa.Function, cl ssa.Value, within map[*ssa.BasicBlock]bool) bool {
	eff := w.effects()
	getter := w.Func("solver", "Clause.Get")
	lenFn := w.Func("solver", "Clause.Len")
	ok := false
	for _, ci := range callsIn(fn) {
		c, isCall := ci.(*ssa.Call)
		if !isCall || !inLoop(fn, c.Block()) || (within != nil && !within[c.Block()]) {
			continue
		}
		binds := false
		for _, callee := range w.Callees[c] {
			if eff.WritesAny(callee, "solver.Solver.model") && eff.WritesAny(callee, "solver.Solver.reason") {
				binds = true
			}
		}
		if !binds {
			continue
		}
		// the literal argument is clause.Get(i) with i full range
		for _, a := range c.Call.Args {
			g, isG := a.(*ssa.Call)
			if !isG || !w.staticCalleeIs(g, getter) || g.Call.Args[0] != cl {
				continue
			}
			if fullRangeIndex(g.Call.Args[1], func(b ssa.Value) bool {
				lc, isL := b.(*ssa.Call)
				return isL && w.staticCalleeIs(lc, lenFn) && lc.Call.Args[0] == cl
			}) {
				ok = true
			}
		}
	}
	return ok
}

// ---------- R8.8: who may write the unit bindings of a certificate problem ----------

// propagationCore: prop is the method the RUP test calls that (transitively) writes the unit bindings; core is the
// function holding the sweep over the clauses (prop itself, or a helper of it such as `propagateOnce(done)`): the
// function reachable from prop, in package explain, with a loop reading pb.Clauses[i] that writes bindings itself.
func propagationCore(w *World) (prop, core *ssa.Function) {
	rup := rupTest(w)
	if rup == nil {
		return nil, nil
	}
	eff := w.effects()
	for _, ci := range callsIn(rup) {
		for _, c := range w.Callees[ci] {
			if w.PkgName(c) == "explain" && c.Signature.Recv() != nil && eff.WritesAny(c, "explain.Problem.units") {
				prop = c
			}
		}
	}
	if prop == nil {
		return nil, nil
	}
	readsClausesInLoop := func(f *ssa.Function) bool {
		for _, h := range loopHeaders(f) {
			for b := range loopBlocks(f, h) {
				for _, ins := range b.Instrs {
					if ia, ok := ins.(*ssa.IndexAddr); ok {
						if _, isC := isFieldLoad(ia.X, "explain.Problem", "Clauses"); isC {
							return true
						}
					}
				}
			}
		}
		return false
	}
	cands := []*ssa.Function{prop}
	for g := range w.Reachable(prop) {
		if g != prop && w.PkgName(g) == "explain" {
			cands = append(cands, g)
		}
	}
	sortFns(cands[1:])
	for _, f := range cands {
		if len(f.Blocks) > 0 && eff.DirectWritesAny(f, "explain.Problem.units") && readsClausesInLoop(f) {
			return prop, f
		}
	}
	return prop, prop
}

func ruleR8_8(w *World, r *Report) {
	r.Rule("R8.8", "the unit bindings of an existing explain.Problem are written only by the propagation method and by the RUP test that restores them; other functions write bindings only into a problem they are building", 2)
	rup := rupTest(w)
	if rup == nil {
		r.Unk("R8.8", "RUP test", "-", "not found")
		return
	}
	var prop *ssa.Function
	for _, ci := range callsIn(rup) {
		for _, c := range w.Callees[ci] {
			if w.PkgName(c) == "explain" && c.Signature.Recv() != nil && w.effects().WritesAny(c, "explain.Problem.units") {
				prop = c
			}
		}
	}
	if prop == nil {
		r.Unk("R8.8", "propagation method", "-", "the RUP test calls no method that writes units")
		return
	}
	fresh := func(base ssa.Value) bool {
		for i := 0; i < 4; i++ {
			switch x := base.(type) {
			case *ssa.Alloc:
				return true
			case *ssa.UnOp:
				if al, ok := x.X.(*ssa.Alloc); ok && x.Op == token.MUL {
					// a local pointer cell: every store into it is a fresh allocation
					all := true
					for _, ref := range *al.Referrers() {
						if st, ok := ref.(*ssa.Store); ok && st.Addr == ssa.Value(al) {
							if _, isAl := st.Val.(*ssa.Alloc); !isAl {
								all = false
							}
						}
					}
					return all
				}
				return false
			case *ssa.Phi:
				for _, e := range x.Edges {
					if _, isAl := e.(*ssa.Alloc); !isAl {
						return false
					}
				}
				return true
			default:
				return false
			}
		}
		return false
	}
	// buildingOnly: the problem written is one the function allocated, or a parameter that every caller (recursively)
	// fills with a problem it allocated (the parser's helper methods)
	var buildingOnly func(fn *ssa.Function, base ssa.Value, depth int) bool
	buildingOnly = func(fn *ssa.Function, base ssa.Value, depth int) bool {
		if fresh(base) {
			return true
		}
		p, ok := base.(*ssa.Parameter)
		if !ok || depth > 3 {
			return false
		}
		if fn.Object() != nil && fn.Object().Exported() {
			return false
		}
		pi := paramIndex(fn, p)
		callers := w.Callers[fn]
		if pi < 0 || len(callers) == 0 {
			return false
		}
		for _, site := range callers {
			args := site.Common().Args
			if pi >= len(args) || !buildingOnly(site.Parent(), args[pi], depth+1) {
				return false
			}
		}
		return true
	}
	// helpers of the propagation method: unexported functions all of whose callers are the method or such helpers
	inner := map[*ssa.Function]bool{prop: true}
	for changed := true; changed; {
		changed = false
		for g := range w.Reachable(prop) {
			if inner[g] || w.PkgName(g) != "explain" || (g.Object() != nil && g.Object().Exported()) || len(w.Callers[g]) == 0 {
				continue
			}
			all := true
			for _, site := range w.Callers[g] {
				if !inner[site.Parent()] {
					all = false
				}
			}
			if all {
				inner[g] = true
				changed = true
			}
		}
	}
	eff := w.effects()
	for _, fn := range w.Fns {
		if w.PkgName(fn) != "explain" {
			continue
		}
		var sites []string
		foreign := false
		allInstrs(fn, func(ins ssa.Instruction) {
			if c, isCall := ins.(*ssa.Call); isCall {
				// the table of bindings handed to a helper that writes it (`bind(pb.units, lit)`)
				if callee := c.Call.StaticCallee(); callee != nil {
					for i, a := range c.Call.Args {
						if b, isU := isFieldLoad(a, "explain.Problem", "units"); isU && eff.WritesParamElems(callee, i) {
							sites = append(sites, w.InstrPos(c))
							if !buildingOnly(fn, b, 0) {
								foreign = true
							}
						}
					}
				}
				return
			}
			st, ok := ins.(*ssa.Store)
			if !ok {
				return
			}
			var base ssa.Value
			if ia, ok := st.Addr.(*ssa.IndexAddr); ok {
				b, isU := isFieldLoad(ia.X, "explain.Problem", "units")
				if !isU {
					return
				}
				base = b
			} else if o, f, b, ok := fieldOf(st.Addr); ok && o == "explain.Problem" && f == "units" {
				base = b
			} else {
				return
			}
			sites = append(sites, w.InstrPos(st))
			if !buildingOnly(fn, base, 0) {
				foreign = true
			}
		})
		if len(sites) == 0 {
			continue
		}
		key := w.FuncName(fn) + " writes unit bindings"
		switch {
		case fn == prop || fn == rup || inner[fn]:
			r.OK("R8.8", key, sites[0], "the propagation method (or a helper only it calls) / the RUP test that restores the bindings")
		case !foreign:
			r.OK("R8.8", key, sites[0], "only into a problem under construction (allocated here or by every caller)")
		default:
			r.Bad("R8.8", key, sites[0], "unit bindings of a problem that already exists are written outside the propagation method and the restoring RUP test (at "+strings.Join(sites, ", ")+"): the binding survives the call, so a later check or MUS extraction on the same problem starts from facts that are not unit clauses of the problem (clauses deriving them are never tagged)")
		}
	}
}

// ---------- R8.9: the propagation loop skips a clause only when it is marked satisfied ----------

func ruleR8_9(w *World, r *Report) {
	r.Rule("R8.9", "in the propagation method of explain.Problem, an iteration over the clause list goes on to the next clause without reading the clause's literals only under a true entry of the local table of clauses already found satisfied", 1)
	rup := rupTest(w)
	if rup == nil {
		r.Unk("R8.9", "RUP test", "-", "not found")
		return
	}
	_, prop := propagationCore(w) // the function holding the sweep over the clauses
	if prop == nil {
		r.Unk("R8.9", "propagation method", "-", "the RUP test calls no method that writes units")
		return
	}
	// outer loop: its body reads pb.Clauses[i]; inner loop: nested, reads the literals of that element
	var outer, inner *ssa.BasicBlock
	var clauseElem ssa.Value
	heads := loopHeaders(prop)
	for _, h := range heads {
		body := loopBlocks(prop, h)
		for b := range body {
			for _, ins := range b.Instrs {
				ia, ok := ins.(*ssa.IndexAddr)
				if !ok {
					continue
				}
				if _, isC := isFieldLoad(ia.X, "explain.Problem", "Clauses"); isC {
					if outer == nil || len(body) < len(loopBlocks(prop, outer)) {
						outer = h
						for _, ref := range *ia.Referrers() {
							if u, ok := ref.(*ssa.UnOp); ok && u.Op == token.MUL {
								clauseElem = u
							}
						}
					}
				}
			}
		}
	}
	if outer == nil || clauseElem == nil {
		r.Unk("R8.9", w.FuncName(prop)+" clause loop", w.Pos(prop.Pos()), "no loop reading pb.Clauses[i] found")
		return
	}
	obody := loopBlocks(prop, outer)
	for _, h := range heads {
		if h == outer || !obody[h] {
			continue
		}
		for b := range loopBlocks(prop, h) {
			for _, ins := range b.Instrs {
				if ia, ok := ins.(*ssa.IndexAddr); ok && ia.X == clauseElem {
					inner = h
				}
			}
		}
	}
	if inner == nil {
		// the literals may be examined by a helper that is handed the clause (`sat, unbound, unit := pb.clauseStatus(clause)`)
		for b := range obody {
			for _, ins := range b.Instrs {
				c, ok := ins.(*ssa.Call)
				if !ok {
					continue
				}
				passes := false
				for _, a := range c.Call.Args {
					if a == clauseElem {
						passes = true
					}
				}
				g := c.Call.StaticCallee()
				if !passes || g == nil || len(g.Blocks) == 0 || w.PkgName(g) != "explain" || len(loopHeaders(g)) == 0 {
					continue
				}
				inner = c.Block() // what follows the call has looked at the clause
			}
		}
	}
	if inner == nil {
		r.Unk("R8.9", w.FuncName(prop)+" clause loop", w.Pos(prop.Pos()), "no nested loop over the literals of the clause found")
		return
	}
	key := w.FuncName(prop) + " examines every clause not yet satisfied"
	var bad []string
	n := 0
	for _, p := range outer.Preds {
		if !obody[p] || inner.Dominates(p) {
			continue
		}
		n++
		justified := false
		conds := dominatingConds(p)
		if iff, ok := p.Instrs[len(p.Instrs)-1].(*ssa.If); ok {
			// the jump is the branch itself (empty `continue` blocks are fused away)
			if p.Succs[0] == outer && p.Succs[1] != outer {
				conds = append(conds, edgeCond{Cond: iff.Cond, True: true})
			} else if p.Succs[1] == outer && p.Succs[0] != outer {
				conds = append(conds, edgeCond{Cond: iff.Cond, True: false})
			}
		}
		for _, ec := range conds {
			ld, ok := ec.Cond.(*ssa.UnOp)
			if !ok || ld.Op != token.MUL || !ec.True {
				continue
			}
			ia, ok := ld.X.(*ssa.IndexAddr)
			if !ok {
				continue
			}
			if _, isMk := ia.X.(*ssa.MakeSlice); isMk && typeShort(ia.X.Type()) == "[]bool" {
				justified = true
			}
			if _, isP := ia.X.(*ssa.Parameter); isP && typeShort(ia.X.Type()) == "[]bool" {
				justified = true // the table is kept by the caller across sweeps (`propagateOnce(done)`)
			}
		}
		if !justified {
			bad = append(bad, w.InstrPos(p.Instrs[len(p.Instrs)-1]))
		}
	}
	if len(bad) > 0 {
		sort.Strings(bad)
		r.Bad("R8.9", key, bad[0], "the loop goes on to the next clause without looking at the literals of the current one, and not because it is marked satisfied (jump at "+strings.Join(bad, ", ")+"): a clause falsified or made unit by the bindings is ignored, so derivable lines are rejected (or conflicts missed)")
	} else {
		r.OK("R8.9", key, w.Pos(prop.Pos()), fmt.Sprintf("%d skip edge(s), each under the satisfied-table", n))
	}
}

// ---------- R13.9: the variable count covers every literal the OPB term reader produces ----------

func ruleR13_9(w *World, r *Report) {
	r.Rule("R13.9", "the OPB term reader raises Problem.NbVars to every variable index it returns (in the iteration that appends it), or else every caller does so in a loop over the whole returned list - also the caller that reads the objective line, whose variables need not occur in any constraint", 1)
	n := 0
	for _, fn := range w.Fns {
		if w.PkgName(fn) != "solver" || fn.Signature.Recv() == nil || typeShort(fn.Signature.Recv().Type()) != "*solver.Problem" {
			continue
		}
		res := fn.Signature.Results()
		if res.Len() != 3 || typeShort(res.At(0).Type()) != "[]int" || typeShort(res.At(1).Type()) != "[]int" || !isErrorType(res.At(2).Type()) {
			continue
		}
		n++
		key := w.FuncName(fn) + " results are covered by NbVars"
		raisesIn := func(f *ssa.Function) (inLoopStore bool, fullLoopOver func(v ssa.Value) bool) {
			var stores []*ssa.Store
			for _, st := range storesToField(f, "solver.Problem", "NbVars") {
				if inLoop(f, st.Block()) {
					stores = append(stores, st)
				}
			}
			return len(stores) > 0, func(v ssa.Value) bool {
				for _, st := range stores {
					// the stored value derives from an element of v read with a full-range index
					ok := false
					seen := map[ssa.Value]bool{}
					var walk func(x ssa.Value, d int)
					walk = func(x ssa.Value, d int) {
						if x == nil || seen[x] || d > 6 {
							return
						}
						seen[x] = true
						switch y := x.(type) {
						case *ssa.UnOp:
							if y.Op == token.MUL {
								if ia, isIA := y.X.(*ssa.IndexAddr); isIA && ia.X == v {
									if fullRangeIndex(ia.Index, func(b ssa.Value) bool {
										return isLenOf(b, func(z ssa.Value) bool { return z == v })
									}) {
										ok = true
									}
									return
								}
							}
							walk(y.X, d+1)
						case *ssa.Call:
							for _, a := range y.Call.Args {
								walk(a, d+1)
							}
						case *ssa.Convert:
							walk(y.X, d+1)
						case *ssa.BinOp:
							walk(y.X, d+1)
							walk(y.Y, d+1)
						case *ssa.Phi:
							for _, e := range y.Edges {
								walk(e, d+1)
							}
						}
					}
					walk(st.Val, 0)
					if ok {
						return true
					}
				}
				return false
			}
		}
		// A: inside the reader, the value stored into NbVars in the loop is the integer whose (signed) value is appended
		okA := false
		if has, _ := raisesIn(fn); has {
			for _, st := range storesToField(fn, "solver.Problem", "NbVars") {
				if !inLoop(fn, st.Block()) {
					continue
				}
				// guarded by `val > NbVars`
				for _, ec := range dominatingConds(st.Block()) {
					if bo, ok := ec.Cond.(*ssa.BinOp); ok && ec.True && bo.Op == token.GTR && bo.X == st.Val {
						if _, isNb := isFieldLoad(bo.Y, "solver.Problem", "NbVars"); isNb {
							// every return of a non-nil list passes through the loop: the store is in the reader's only loop
							okA = true
						}
					}
				}
			}
		}
		if okA {
			r.OK("R13.9", key, w.Pos(fn.Pos()), "raised inside the reader, per term")
			continue
		}
		var bad []string
		callers := w.Callers[fn]
		for _, site := range callers {
			c, isCall := site.(*ssa.Call)
			if !isCall {
				continue
			}
			var lits ssa.Value
			for _, ref := range *c.Referrers() {
				if ex, ok := ref.(*ssa.Extract); ok && ex.Index == 1 {
					lits = ex
				}
			}
			covered := false
			if lits != nil {
				if has, full := raisesIn(site.Parent()); has && full(lits) {
					covered = true
				}
			}
			if !covered {
				bad = append(bad, w.FuncName(site.Parent())+" at "+w.InstrPos(site))
			}
		}
		if len(bad) > 0 || len(callers) == 0 {
			sort.Strings(bad)
			r.Bad("R13.9", key, w.Pos(fn.Pos()), "the reader does not raise NbVars itself and these callers do not raise it over the whole list they receive: "+strings.Join(bad, "; ")+": a variable that occurs only there (typically in the objective) is beyond the declared count, and building a solver indexes past its tables")
		} else {
			r.OK("R13.9", key, w.Pos(fn.Pos()), fmt.Sprintf("raised by each of the %d caller(s) over the whole list", len(callers)))
		}
	}
	if n == 0 {
		r.Unk("R13.9", "OPB term reader", "-", "no method of Problem returning ([]int, []int, error)")
	}
}

// ---------- R7.3: every success return of an extraction method rests on evidence of unsatisfiability ----------

func ruleR7_3(w *World, r *Report) {
	r.Rule("R7.3", "every return of (problem, nil) from an unsatisfiable-subset / MUS method of explain.Problem is justified: under a solver status found equal to Unsat, under a minimisation that returned -1, under a certificate found valid, after a deletion loop that re-solves for every candidate clause of a subset obtained without error, or it hands on the result of another such method", 5)
	unsatK, _ := w.statusConst("Unsat")
	fam := map[*ssa.Function]bool{}
	for _, fn := range w.Fns {
		if w.PkgName(fn) != "explain" || fn.Signature.Recv() == nil || fn.Signature.Params().Len() != 0 {
			continue
		}
		res := fn.Signature.Results()
		if res.Len() == 2 && typeShort(res.At(0).Type()) == "*explain.Problem" && isErrorType(res.At(1).Type()) {
			fam[fn] = true
		}
	}
	if len(fam) == 0 {
		r.Unk("R7.3", "extraction methods", "-", "no method of explain.Problem returning (*Problem, error)")
		return
	}
	evidence := func(fn *ssa.Function, b *ssa.BasicBlock) string {
		for _, ec := range dominatingConds(b) {
			cond, pos := ec.Cond, ec.True
			for {
				u, ok := cond.(*ssa.UnOp)
				if !ok || u.Op != token.NOT {
					break
				}
				cond, pos = u.X, !pos
			}
			switch x := cond.(type) {
			case *ssa.BinOp:
				if x.Op != token.EQL && x.Op != token.NEQ {
					continue
				}
				eq := (x.Op == token.EQL) == pos
				if !eq {
					continue
				}
				if k, ok := constInt(x.Y); ok {
					if typeShort(x.X.Type()) == "solver.Status" && k == unsatK {
						return "a solver status equal to Unsat"
					}
					if c, isC := x.X.(*ssa.Call); isC && k == -1 && strings.HasSuffix(w.calleeName(&c.Call), ".Minimize") {
						return "a minimisation that found no model"
					}
				}
			case *ssa.Extract:
				if pos && typeShort(x.Type()) == "bool" {
					if c, isC := x.Tuple.(*ssa.Call); isC && x.Index == 0 {
						for _, callee := range w.Callees[c] {
							if w.PkgName(callee) == "explain" {
								return "a certificate found valid"
							}
						}
					}
				}
			}
		}
		return ""
	}
	var names []*ssa.Function
	for fn := range fam {
		names = append(names, fn)
	}
	sort.Slice(names, func(i, j int) bool { return w.FuncName(names[i]) < w.FuncName(names[j]) })
	for _, fn := range names {
		k := 0
		allInstrs(fn, func(ins ssa.Instruction) {
			ret, ok := ins.(*ssa.Return)
			if !ok || len(ret.Results) != 2 {
				return
			}
			if e, isK := ret.Results[1].(*ssa.Const); !isK || !e.IsNil() {
				// not a success return, unless it hands on both results of another family method
				if ex, isEx := ret.Results[1].(*ssa.Extract); isEx {
					if c, isC := ex.Tuple.(*ssa.Call); isC {
						for _, callee := range w.Callees[c] {
							if fam[callee] {
								k++
								r.OK("R7.3", fmt.Sprintf("%s success return #%d", w.FuncName(fn), k), w.InstrPos(ret), "hands on the result of "+w.FuncName(callee))
							}
						}
					}
				}
				return
			}
			if p, isK := ret.Results[0].(*ssa.Const); isK && p.IsNil() {
				return
			}
			k++
			key := fmt.Sprintf("%s success return #%d", w.FuncName(fn), k)
			if ev := evidence(fn, ret.Block()); ev != "" {
				r.OK("R7.3", key, w.InstrPos(ret), "under "+ev)
				return
			}
			// deletion scheme: after the normal exit of a full-range loop whose every iteration re-solves, on a subset
			// obtained from a family method whose error was checked
			delegated := false
			for _, ec := range dominatingConds(ret.Block()) {
				if bo, isB := ec.Cond.(*ssa.BinOp); isB && bo.Op == token.NEQ && !ec.True && isNilConst(bo.Y) {
					if ex, isEx := bo.X.(*ssa.Extract); isEx {
						if c, isC := ex.Tuple.(*ssa.Call); isC {
							for _, callee := range w.Callees[c] {
								if fam[callee] {
									delegated = true
								}
							}
						}
					}
				}
			}
			afterSolveLoop := false
			for _, h := range loopHeaders(fn) {
				body := loopBlocks(fn, h)
				if body[ret.Block()] || !h.Dominates(ret.Block()) {
					continue
				}
				solves := false
				for b := range body {
					for _, i2 := range b.Instrs {
						if c, isC := i2.(*ssa.Call); isC && typeShort(c.Type()) == "solver.Status" && dominatesLatches(h, b) {
							solves = true
						}
					}
				}
				// left only through its header (the loop ran over every candidate)
				onlyHeader := true
				for b := range body {
					if b == h {
						continue
					}
					for _, s := range b.Succs {
						if !body[s] {
							onlyHeader = false
						}
					}
				}
				if solves && onlyHeader {
					afterSolveLoop = true
				}
			}
			if delegated && afterSolveLoop {
				r.OK("R7.3", key, w.InstrPos(ret), "after a loop that re-solves for every clause of a subset obtained without error")
				return
			}
			r.Bad("R7.3", key, w.InstrPos(ret), "a problem is returned without error although nothing on the way establishes that it is unsatisfiable (no status equal to Unsat, no minimisation returning -1, no valid certificate, not after a complete deletion loop): satisfiable inputs or non-minimal / satisfiable subsets can be returned as a MUS")
		})
	}
}
