package main

import (
	"fmt"
	"go/ast"
	"go/token"
	"go/types"
	"os"
	"sort"
	"strings"

	"golang.org/x/tools/go/ssa"
)

// C17: the text syntax of formulas (bf/parser.go). R17.1 extracts the precedence / associativity table of the
// recursive-descent parser, R17.2 the end-of-input check of Parse, R17.3 "error => no formula".
// Parser methods are identified by their position in the chain of operand callees that starts at the function
// bf.Parse calls, never by name.

func init() {
	register(&property{
		ID: "C17",
		Explanation: "the precedence and associativity table of the recursive-descent parser reached from bf.Parse is the documented one: following the left-operand callees from Parse gives the levels ';' (And), '=' (Eq), '->' (Implies), '|' (Or), '&' (And), each taking its left operand from the next tighter level and its right operand from itself, then '^' (Not, operand: itself), then the atom, whose '(' re-enters at the loosest level and requires ')', whose '{' builds Unique and which otherwise builds Var; " +
			"bf.Parse returns a formula without error only on the path where the end of input was reached; every parser function returns a nil formula whenever it returns a non-nil error.",
		NotDecided: "tokenisation by text/scanner, the behaviour on every corrupted text, equivalence of the parsed formula with the text for every input; nothing is executed.",
		Rules:      []ruleFn{ruleR17_1, ruleR17_2, ruleR17_3, ruleR17_4, ruleR17_5, ruleR17_6},
	})
}

// ---------------------------------------------------------------------------------------------------------------
// parser model
// ---------------------------------------------------------------------------------------------------------------

type parserModel struct {
	w      *World
	m      *bfModel
	parse  *ssa.Function
	level0 *ssa.Function
	fns    []*ssa.Function // functions returning (Formula, error) reachable from Parse, Parse included
	err    string
}

func (m *bfModel) returnsFormulaErr(fn *ssa.Function) bool {
	res := fn.Signature.Results()
	if res.Len() != 2 || !m.isFormula(res.At(0).Type()) {
		return false
	}
	return types.Identical(res.At(1).Type(), types.Universe.Lookup("error").Type())
}

func newParserModel(w *World) *parserModel {
	m, _ := bfOf(w)
	pm := &parserModel{w: w, m: m}
	if m.err != "" {
		pm.err = m.err
		return pm
	}
	pm.parse = w.Func(m.pkg, "Parse")
	if pm.parse == nil || !m.returnsFormulaErr(pm.parse) {
		pm.err = "exported function " + m.pkg + ".Parse returning (Formula, error) not found"
		return pm
	}
	seen := map[*ssa.Function]bool{}
	var visit func(fn *ssa.Function)
	visit = func(fn *ssa.Function) {
		if seen[fn] {
			return
		}
		seen[fn] = true
		for _, c := range callsIn(fn) {
			if sc := c.Common().StaticCallee(); sc != nil {
				sc = w.unwrap(sc)
				if m.inPkg[sc] && m.returnsFormulaErr(sc) {
					visit(sc)
				}
			}
		}
		// parser functions handed around as values (`p.parseBinary("|", p.parseAnd, Or)`)
		allInstrs(fn, func(ins ssa.Instruction) {
			for _, op := range ins.Operands(nil) {
				if op == nil || *op == nil {
					continue
				}
				if fv := funcValueOf(w, *op); fv != nil && m.inPkg[fv] && m.returnsFormulaErr(fv) {
					visit(fv)
				}
			}
		})
	}
	visit(pm.parse)
	for fn := range seen {
		pm.fns = append(pm.fns, fn)
	}
	sort.Slice(pm.fns, func(i, j int) bool { return pm.fns[i].String() < pm.fns[j].String() })
	var first []*ssa.Function
	for _, c := range callsIn(pm.parse) {
		if sc := c.Common().StaticCallee(); sc != nil {
			sc = w.unwrap(sc)
			if sc != pm.parse && seen[sc] {
				dup := false
				for _, f := range first {
					if f == sc {
						dup = true
					}
				}
				if !dup {
					first = append(first, sc)
				}
			}
		}
	}
	if len(first) != 1 {
		pm.err = fmt.Sprintf("bf.Parse calls %d distinct parser functions; the loosest level is not determined", len(first))
		return pm
	}
	pm.level0 = first[0]
	return pm
}

// funcValueOf: the source function a function value denotes (a function, a method value `p.parseAnd`, a literal).
func funcValueOf(w *World, v ssa.Value) *ssa.Function {
	switch x := v.(type) {
	case *ssa.MakeClosure:
		if f, ok := x.Fn.(*ssa.Function); ok {
			return w.unwrap(f)
		}
	case *ssa.Function:
		return w.unwrap(x)
	}
	return nil
}

// A pnode is a parser function together with what is known about its parameters at the call considered: string
// constants and function values (a parser written with a generic level, `parseBinary(op, operand, build)`, is one
// function used as several levels).
type pnode struct {
	fn  *ssa.Function
	env map[*ssa.Parameter]ssa.Value
}

func envValString(v ssa.Value) string {
	switch x := v.(type) {
	case *ssa.MakeClosure:
		return x.Fn.String()
	case *ssa.Function:
		return x.String()
	case *ssa.Const:
		return x.String()
	}
	return v.Name()
}

func (n *pnode) key() string {
	var ks []string
	for p, v := range n.env {
		ks = append(ks, p.Name()+"="+envValString(v))
	}
	sort.Strings(ks)
	return n.fn.String() + "{" + strings.Join(ks, ",") + "}"
}

// Name: the function name, with the string constants it was instantiated with.
func (n *pnode) Name() string {
	var ks []string
	for _, v := range n.env {
		if s, ok := constString(v); ok {
			ks = append(ks, fmt.Sprintf("%q", s))
		}
	}
	sort.Strings(ks)
	if len(ks) == 0 {
		return n.fn.Name()
	}
	return n.fn.Name() + "(" + strings.Join(ks, ",") + ")"
}

func (n *pnode) resolve(v ssa.Value) ssa.Value {
	if p, ok := v.(*ssa.Parameter); ok {
		if b, ok := n.env[p]; ok {
			return b
		}
	}
	return v
}

// tokenTest: cond compares a string field of the receiver with a string literal (or with a parameter bound to one).
// eq tells whether the comparison is an equality.
func tokenTest(n *pnode, cond ssa.Value) (tok string, eq bool, ok bool) {
	fn := n.fn
	bo, isB := cond.(*ssa.BinOp)
	if !isB || (bo.Op != token.EQL && bo.Op != token.NEQ) {
		return "", false, false
	}
	x, y := n.resolve(bo.X), n.resolve(bo.Y)
	if _, isK := x.(*ssa.Const); isK {
		x, y = y, x
	}
	s, isS := constString(y)
	if !isS {
		return "", false, false
	}
	ld, isL := x.(*ssa.UnOp)
	if !isL || ld.Op != token.MUL {
		return "", false, false
	}
	fa, isF := ld.X.(*ssa.FieldAddr)
	if !isF || len(fn.Params) == 0 || fa.X != ssa.Value(fn.Params[0]) {
		return "", false, false
	}
	return s, bo.Op == token.EQL, true
}

// successTokens: for a helper of the parser that returns only an error (`func (p *parser) scanArrow() error`), the
// token equalities that hold on every path that returns nil: what a caller knows after `if err := h(); err != nil
// { return }`. ok is false when the helper is not of that kind or its successful returns disagree.
func (pm *parserModel) successTokens(h *ssa.Function) ([]string, bool) {
	if h == nil || !pm.m.inPkg[h] || len(h.Blocks) == 0 || h.Signature.Results().Len() != 1 || !isErrorType(h.Signature.Results().At(0).Type()) {
		return nil, false
	}
	var out []string
	n := 0
	hn := &pnode{fn: h}
	for _, b := range h.Blocks {
		ret, ok := b.Instrs[len(b.Instrs)-1].(*ssa.Return)
		if !ok || len(ret.Results) != 1 || !allNil(ret.Results[0]) {
			continue
		}
		toks := pm.tokensAt(hn, b)
		if n > 0 && !sameToks(toks, out) {
			return nil, false
		}
		out = toks
		n++
	}
	return out, n > 0
}

// tokensAt: the token equalities known to hold (at the time of their test) on every path to block b, outermost
// first; the tokens a successful error-only helper has seen count at the place of the test of its error.
func (pm *parserModel) tokensAt(n *pnode, b *ssa.BasicBlock) []string {
	var out []string
	conds := dominatingConds(b)
	for i := len(conds) - 1; i >= 0; i-- {
		ec := conds[i]
		c := ec.Cond
		pol := ec.True
		for {
			if u, ok := c.(*ssa.UnOp); ok && u.Op == token.NOT {
				c = u.X
				pol = !pol
				continue
			}
			break
		}
		if tok, eq, ok := tokenTest(n, c); ok && eq == pol {
			out = append(out, tok)
			continue
		}
		// `err != nil` false (or `err == nil` true) for the error of a helper
		if bo, ok := c.(*ssa.BinOp); ok && (bo.Op == token.EQL || bo.Op == token.NEQ) && (bo.Op == token.EQL) == pol {
			x, y := bo.X, bo.Y
			if isNilConst(x) {
				x, y = y, x
			}
			if call, isCall := x.(*ssa.Call); isCall && isNilConst(y) {
				if sc := call.Call.StaticCallee(); sc != nil {
					if toks, ok := pm.successTokens(pm.w.unwrap(sc)); ok {
						out = append(out, toks...)
					}
				}
			}
		}
	}
	return out
}

type parserSite struct {
	call   *ssa.Call
	callee *pnode // parser function (instantiated), or nil
	ctor   string // exported constructor of the package, or ""
	toks   []string
	owner  *pnode // the function the call is in
}

func (s parserSite) tokKey() string { return strings.Join(s.toks, " ") }

var bfCtors = map[string]bool{"And": true, "Or": true, "Not": true, "Eq": true, "Implies": true, "Xor": true, "Unique": true, "Var": true}

func (pm *parserModel) sites(n *pnode) []parserSite {
	fn := n.fn
	var out []parserSite
	isParser := map[*ssa.Function]bool{}
	for _, f := range pm.fns {
		isParser[f] = true
	}
	for _, ci := range callsIn(fn) {
		c, ok := ci.(*ssa.Call)
		if !ok {
			continue
		}
		sc := c.Call.StaticCallee()
		static := sc != nil
		if sc == nil {
			// a call through a parameter bound to a function value
			sc = funcValueOf(pm.w, n.resolve(c.Call.Value))
			if sc == nil {
				continue
			}
		} else {
			sc = pm.w.unwrap(sc)
		}
		if !pm.m.inPkg[sc] {
			continue
		}
		s := parserSite{call: c, toks: pm.tokensAt(n, c.Block()), owner: n}
		switch {
		case isParser[sc] && sc != pm.parse:
			child := &pnode{fn: sc, env: map[*ssa.Parameter]ssa.Value{}}
			if static {
				for i, a := range c.Call.Args {
					if i >= len(sc.Params) {
						break
					}
					a = n.resolve(a)
					if _, isStr := constString(a); isStr {
						child.env[sc.Params[i]] = a
					} else if funcValueOf(pm.w, a) != nil {
						child.env[sc.Params[i]] = a
					}
				}
			}
			s.callee = child
		case sc.Parent() == nil && sc.Signature.Recv() == nil && ast.IsExported(sc.Name()) && sc.Signature.Results().Len() == 1 && pm.m.isFormula(sc.Signature.Results().At(0).Type()):
			s.ctor = sc.Name()
		default:
			continue
		}
		out = append(out, s)
	}
	return out
}

// delegate: a parser function that only hands on the results of one unconditional call of another parser function
// (`func (p *parser) parseOr() (Formula, error) { return p.parseBinary("|", p.parseAnd, Or) }`) is that other
// function, instantiated; anything else is itself.
func (pm *parserModel) delegate(n *pnode) *pnode {
	for i := 0; i < 4; i++ {
		ss := pm.sites(n)
		if len(ss) != 1 || ss[0].callee == nil || len(ss[0].toks) != 0 || ss[0].callee.fn == n.fn {
			return n
		}
		only := true
		for _, b := range n.fn.Blocks {
			ret, ok := b.Instrs[len(b.Instrs)-1].(*ssa.Return)
			if !ok || len(ret.Results) != 2 {
				continue
			}
			src, unknown := formulaSources(ret.Results[0], ret)
			if unknown || len(src) != 1 || !src[ss[0].call] {
				only = false
			}
		}
		if !only {
			return n
		}
		n = ss[0].callee
	}
	return n
}

// formulaSources: the calls whose results a formula value is made of (through cells, phis, variadic packing).
func formulaSources(v ssa.Value, at ssa.Instruction) (calls map[*ssa.Call]bool, unknown bool) {
	calls = map[*ssa.Call]bool{}
	seen := map[ssa.Value]bool{}
	var walk func(v ssa.Value, at ssa.Instruction)
	walk = func(v ssa.Value, at ssa.Instruction) {
		if v == nil || seen[v] {
			return
		}
		seen[v] = true
		switch x := v.(type) {
		case *ssa.Const:
		case *ssa.Extract:
			if c, ok := x.Tuple.(*ssa.Call); ok {
				calls[c] = true
			} else {
				unknown = true
			}
		case *ssa.Call:
			calls[x] = true
		case *ssa.Phi:
			for _, e := range x.Edges {
				walk(e, at)
			}
		case *ssa.MakeInterface:
			walk(x.X, at)
		case *ssa.ChangeInterface:
			walk(x.X, at)
		case *ssa.ChangeType:
			walk(x.X, at)
		case *ssa.Slice:
			walk(x.X, at)
		case *ssa.Alloc:
			// an array filled element by element (variadic packing)
			for _, ref := range *x.Referrers() {
				if ia, ok := ref.(*ssa.IndexAddr); ok {
					for _, r2 := range *ia.Referrers() {
						if st, ok := r2.(*ssa.Store); ok && st.Addr == ssa.Value(ia) {
							walk(st.Val, st)
						}
					}
				}
			}
		case *ssa.UnOp:
			if x.Op != token.MUL {
				unknown = true
				return
			}
			al, ok := x.X.(*ssa.Alloc)
			if !ok {
				unknown = true
				return
			}
			stores, _ := reachingStores(x, al, -1)
			for _, st := range stores {
				walk(st.Val, st)
			}
		default:
			unknown = true
		}
	}
	walk(v, at)
	return
}

// ---------------------------------------------------------------------------------------------------------------
// R17.1 precedence table
// ---------------------------------------------------------------------------------------------------------------

type levelSpec struct {
	toks []string
	ctor string
	desc string
}

var binaryLevels = []levelSpec{
	{[]string{";"}, "And", "';' conjunction of clauses"},
	{[]string{"="}, "Eq", "'=' equivalence"},
	{[]string{"-", ">"}, "Implies", "'->' implication"},
	{[]string{"|"}, "Or", "'|' disjunction"},
	{[]string{"&"}, "And", "'&' conjunction"},
}

func sameToks(a, b []string) bool {
	if len(a) != len(b) {
		return false
	}
	for i := range a {
		if a[i] != b[i] {
			return false
		}
	}
	return true
}

func ruleR17_1(w *World, r *Report) {
	const id = "R17.1"
	r.Rule(id, "the recursive-descent parser has the documented precedence table: levels ';' '=' '->' '|' '&' from loosest to tightest, each building And / Eq / Implies / Or / And from a left operand of the next tighter level and a right operand of its own level, then prefix '^' building Not, then the atom: '(' re-enters at the loosest level and requires ')', '{' builds Unique, anything else Var", 10)
	pm := newParserModel(w)
	if pm.err != "" {
		r.Unk(id, "grammar chain", "-", pm.err)
		return
	}
	// ---- the chain of levels
	chain := []*pnode{pm.delegate(&pnode{fn: pm.level0})}
	rows := map[string][]parserSite{}
	inChain := map[string]bool{chain[0].key(): true}
	for len(chain) < 20 {
		cur := chain[len(chain)-1]
		ss := pm.sites(cur)
		rows[cur.key()] = ss
		next := map[string]*pnode{}
		for _, s := range ss {
			if s.callee != nil && len(s.toks) == 0 {
				d := pm.delegate(s.callee)
				next[d.key()] = d
			}
		}
		if len(next) == 0 {
			break
		}
		if len(next) > 1 {
			r.Unk(id, "grammar chain", w.Pos(cur.fn.Pos()), fmt.Sprintf("level %d (%s) takes its unconditional operand from %d different functions", len(chain)-1, w.FuncName(cur.fn), len(next)))
			return
		}
		var n *pnode
		for _, f := range next {
			n = f
		}
		if inChain[n.key()] {
			r.Unk(id, "grammar chain", w.Pos(cur.fn.Pos()), fmt.Sprintf("level %d (%s) takes its unconditional operand from a looser level (%s): left recursion", len(chain)-1, w.FuncName(cur.fn), w.FuncName(n.fn)))
			return
		}
		inChain[n.key()] = true
		chain = append(chain, n)
	}
	var names []string
	for i, f := range chain {
		names = append(names, fmt.Sprintf("%d:%s", i, f.Name()))
	}
	want := len(binaryLevels) + 2
	if len(chain) != want {
		r.Bad(id, "grammar chain", w.Pos(pm.parse.Pos()), fmt.Sprintf("following the left-operand callees from Parse gives %d levels (%s); the documented grammar has %d (';' '=' '->' '|' '&' '^' atom)", len(chain), strings.Join(names, " "), want))
	} else {
		r.OK(id, "grammar chain", w.Pos(pm.parse.Pos()), "levels from loosest to tightest: "+strings.Join(names, " "))
	}
	levelOf := func(f *pnode) string {
		f = pm.delegate(f)
		for i, g := range chain {
			if g.key() == f.key() {
				return fmt.Sprintf("level %d (%s)", i, g.Name())
			}
		}
		return "a function outside the chain (" + f.Name() + ")"
	}
	same := func(a, b *pnode) bool { return pm.delegate(a).key() == pm.delegate(b).key() }
	// ---- binary levels
	for k, spec := range binaryLevels {
		key := fmt.Sprintf("level %d %s", k, spec.desc)
		if k >= len(chain) {
			r.Unk(id, key, "-", "the chain has no such level")
			continue
		}
		fn := chain[k]
		pos := w.Pos(fn.fn.Pos())
		var left, right, ctor *parserSite
		var problems []string
		for i := range rows[fn.key()] {
			s := &rows[fn.key()][i]
			switch {
			case s.callee != nil && len(s.toks) == 0:
				if left != nil && !same(left.callee, s.callee) {
					problems = append(problems, "two unconditional operand calls")
				}
				left = s
			case s.callee != nil:
				if !sameToks(s.toks, spec.toks) {
					problems = append(problems, fmt.Sprintf("an operand is parsed after the token sequence %q, expected %q", s.tokKey(), strings.Join(spec.toks, " ")))
				}
				if right != nil {
					problems = append(problems, "more than one operand call behind the operator")
				}
				right = s
			case s.ctor != "":
				if !sameToks(s.toks, spec.toks) {
					problems = append(problems, fmt.Sprintf("%s is built after the token sequence %q, expected %q", s.ctor, s.tokKey(), strings.Join(spec.toks, " ")))
				}
				if ctor != nil {
					problems = append(problems, "more than one constructor applied")
				}
				ctor = s
			}
		}
		switch {
		case left == nil || right == nil || ctor == nil:
			have := []string{}
			for _, s := range rows[fn.key()] {
				have = append(have, fmt.Sprintf("[%s]%s%s", s.tokKey(), s.ctor, nameOr(s.callee)))
			}
			r.Bad(id, key, pos, fmt.Sprintf("%s does not have the shape <left operand> [%s <right operand> -> %s]: found %s", fn.Name(), strings.Join(spec.toks, ""), spec.ctor, strings.Join(have, " ")))
			continue
		case len(problems) > 0:
			r.Bad(id, key, w.InstrPos(ctor.call), fn.Name()+": "+strings.Join(problems, "; "))
			continue
		case ctor.ctor != spec.ctor:
			r.Bad(id, key, w.InstrPos(ctor.call), fmt.Sprintf("%s: operator %q builds %s, the documented meaning is %s", fn.Name(), strings.Join(spec.toks, ""), ctor.ctor, spec.ctor))
			continue
		case !same(right.callee, fn):
			r.Bad(id, key, w.InstrPos(right.call), fmt.Sprintf("%s: the right operand of %q is parsed at %s, not at the operator's own level: repetition of the operator is not right-nested", fn.Name(), strings.Join(spec.toks, ""), levelOf(right.callee)))
			continue
		}
		// operands feed the constructor
		if st, d := ctorOperands(ctor, left, right, spec.ctor == "Implies"); st != Discharged {
			if st == Violated {
				r.Bad(id, key, w.InstrPos(ctor.call), fn.Name()+": "+d)
			} else {
				r.Unk(id, key, w.InstrPos(ctor.call), fn.Name()+": "+d)
			}
			continue
		}
		if st, d := returnsOnly(fn.fn, []*ssa.Call{left.call, ctor.call}, ctor.call); st != Discharged {
			if st == Violated {
				r.Bad(id, key, pos, fn.Name()+": "+d)
			} else {
				r.Unk(id, key, pos, fn.Name()+": "+d)
			}
			continue
		}
		r.OK(id, key, w.InstrPos(ctor.call), fmt.Sprintf("%s: left operand from %s, on %q right operand from itself, builds %s(left, right)", fn.Name(), levelOf(left.callee), strings.Join(spec.toks, ""), spec.ctor))
	}
	// ---- prefix level
	kp := len(binaryLevels)
	keyP := fmt.Sprintf("level %d '^' negation", kp)
	if kp >= len(chain) {
		r.Unk(id, keyP, "-", "the chain has no such level")
	} else {
		fn := chain[kp]
		var down, self, ctor *parserSite
		var problems []string
		for i := range rows[fn.key()] {
			s := &rows[fn.key()][i]
			switch {
			case s.callee != nil && len(s.toks) == 0:
				down = s
			case s.callee != nil:
				if !sameToks(s.toks, []string{"^"}) {
					problems = append(problems, fmt.Sprintf("an operand is parsed after %q, expected \"^\"", s.tokKey()))
				}
				if self != nil {
					problems = append(problems, "more than one operand call behind the operator")
				}
				self = s
			case s.ctor != "":
				if !sameToks(s.toks, []string{"^"}) {
					problems = append(problems, fmt.Sprintf("%s is built after %q, expected \"^\"", s.ctor, s.tokKey()))
				}
				if ctor != nil {
					problems = append(problems, "more than one constructor applied")
				}
				ctor = s
			}
		}
		if os.Getenv("GSVERIF_DEBUG") != "" {
			for _, s := range rows[fn.key()] {
				fmt.Fprintf(os.Stderr, "R17.1 prefix row: toks=%q ctor=%s callee=%v\n", s.toks, s.ctor, s.callee != nil)
			}
		}
		iterOK, iterWhy := false, ""
		if down != nil && self == nil && ctor != nil && ctor.ctor == "Not" && len(ctor.toks) == 0 {
			iterOK, iterWhy = iteratedPrefix(fn, down, ctor)
		}
		switch {
		case iterOK:
			r.OK(id, keyP, w.InstrPos(ctor.call), fmt.Sprintf("%s: counts the '^' it reads, parses the operand at %s and applies Not as many times: %s", fn.Name(), levelOf(down.callee), iterWhy))
		case down != nil && self == nil && ctor != nil && iterWhy != "":
			r.Bad(id, keyP, w.Pos(fn.fn.Pos()), fn.Name()+" does not have the shape ['^' <operand> -> Not] | <atom>, nor its iterated form: "+iterWhy)
		case down == nil || self == nil || ctor == nil:
			r.Bad(id, keyP, w.Pos(fn.fn.Pos()), fn.Name()+" does not have the shape ['^' <operand> -> Not] | <atom>")
		case len(problems) > 0:
			r.Bad(id, keyP, w.InstrPos(ctor.call), fn.Name()+": "+strings.Join(problems, "; "))
		case ctor.ctor != "Not":
			r.Bad(id, keyP, w.InstrPos(ctor.call), fmt.Sprintf("%s: '^' builds %s instead of Not", fn.Name(), ctor.ctor))
		case !same(self.callee, fn):
			r.Bad(id, keyP, w.InstrPos(self.call), fmt.Sprintf("%s: the operand of '^' is parsed at %s, not at the level of '^' itself", fn.Name(), levelOf(self.callee)))
		default:
			st, d := ctorOperands(ctor, self, nil, false)
			if st == Discharged {
				st, d = returnsOnly(fn.fn, []*ssa.Call{down.call, ctor.call}, ctor.call)
			}
			switch st {
			case Discharged:
				r.OK(id, keyP, w.InstrPos(ctor.call), fmt.Sprintf("%s: on '^' operand from itself, builds Not(operand); otherwise %s", fn.Name(), levelOf(down.callee)))
			case Violated:
				r.Bad(id, keyP, w.InstrPos(ctor.call), fn.Name()+": "+d)
			default:
				r.Unk(id, keyP, w.InstrPos(ctor.call), fn.Name()+": "+d)
			}
		}
	}
	// ---- atom
	ka := kp + 1
	keyParen := fmt.Sprintf("level %d atom: parenthesised group", ka)
	keyUniq := fmt.Sprintf("level %d atom: exactly-one group", ka)
	keyVar := fmt.Sprintf("level %d atom: identifier", ka)
	if ka >= len(chain) {
		for _, k := range []string{keyParen, keyUniq, keyVar} {
			r.Unk(id, k, "-", "the chain has no such level")
		}
		return
	}
	fn := chain[ka]
	// the sites of the atom level, with those of the parser functions it delegates a kind of atom to
	// (`case "(": return p.parseGroup()`): their tokens are prefixed with those of the delegating call
	var atomSites []parserSite
	var expand func(n *pnode, prefix []string, depth int)
	expand = func(n *pnode, prefix []string, depth int) {
		for _, s := range pm.sites(n) {
			s.toks = append(append([]string(nil), prefix...), s.toks...)
			if s.callee != nil && depth < 3 && !inChain[pm.delegate(s.callee).key()] && s.callee.fn != n.fn {
				expand(s.callee, s.toks, depth+1)
				continue
			}
			atomSites = append(atomSites, s)
		}
	}
	expand(fn, nil, 0)
	prefixOf := map[*pnode][]string{}
	for _, s := range atomSites {
		if _, ok := prefixOf[s.owner]; !ok {
			prefixOf[s.owner] = s.toks[:len(s.toks)-len(pm.tokensAt(s.owner, s.call.Block()))]
		}
	}
	var group []*parserSite
	var uniq, vr []*parserSite
	var other []string
	for i := range atomSites {
		s := &atomSites[i]
		switch {
		case s.callee != nil:
			group = append(group, s)
		case s.ctor == "Unique":
			uniq = append(uniq, s)
		case s.ctor == "Var":
			vr = append(vr, s)
		default:
			other = append(other, s.ctor)
		}
	}
	top := &pnode{fn: pm.level0}
	// parenthesis
	switch {
	case len(group) != 1:
		r.Bad(id, keyParen, w.Pos(fn.fn.Pos()), fmt.Sprintf("%s calls the parser %d times; expected exactly one re-entry, after '('", fn.Name(), len(group)))
	case len(group[0].toks) == 0 || group[0].toks[0] != "(":
		r.Bad(id, keyParen, w.InstrPos(group[0].call), fmt.Sprintf("%s re-enters the parser after the token sequence %q, not after '('", fn.Name(), group[0].tokKey()))
	case !same(group[0].callee, top):
		r.Bad(id, keyParen, w.InstrPos(group[0].call), fmt.Sprintf("after '(' the parser re-enters at %s; the documented grammar (atom ::= '(' formula ')') re-enters at the loosest level, %s, the one Parse starts from: a group containing the looser operator(s) is rejected", levelOf(group[0].callee), levelOf(top)))
	default:
		// the group is returned only after ')'
		owner := group[0].owner
		n, bad := 0, ""
		for _, b := range owner.fn.Blocks {
			ret, ok := b.Instrs[len(b.Instrs)-1].(*ssa.Return)
			if !ok || len(ret.Results) != 2 || !isSuccessReturn(ret) {
				continue
			}
			src, _ := formulaSources(ret.Results[0], ret)
			if !src[group[0].call] {
				continue
			}
			n++
			toks := append(append([]string(nil), prefixOf[owner]...), pm.tokensAt(owner, b)...)
			if !sameToks(toks, []string{"(", ")"}) {
				bad = fmt.Sprintf("the group is returned at %s after the token sequence %q, not after '(' ... ')'", w.InstrPos(ret), strings.Join(toks, " "))
			}
		}
		switch {
		case bad != "":
			r.Bad(id, keyParen, w.InstrPos(group[0].call), owner.Name()+": "+bad)
		case n == 0:
			r.Unk(id, keyParen, w.InstrPos(group[0].call), owner.Name()+": the parsed group is never returned")
		default:
			r.OK(id, keyParen, w.InstrPos(group[0].call), fmt.Sprintf("%s: '(' re-enters at %s and the group is returned only after ')'", owner.Name(), levelOf(top)))
		}
	}
	// exactly-one group
	switch {
	case len(uniq) != 1:
		r.Bad(id, keyUniq, w.Pos(fn.fn.Pos()), fmt.Sprintf("%s builds Unique at %d places; expected once, after '{'", fn.Name(), len(uniq)))
	case len(uniq[0].toks) == 0 || uniq[0].toks[0] != "{":
		r.Bad(id, keyUniq, w.InstrPos(uniq[0].call), fmt.Sprintf("%s builds Unique after the token sequence %q, not after '{'", fn.Name(), uniq[0].tokKey()))
	case !sameToks(uniq[0].toks, []string{"{", "}"}):
		r.Bad(id, keyUniq, w.InstrPos(uniq[0].call), fmt.Sprintf("%s builds Unique after the token sequence %q, expected '{' ... '}'", fn.Name(), uniq[0].tokKey()))
	default:
		r.OK(id, keyUniq, w.InstrPos(uniq[0].call), uniq[0].owner.Name()+": '{' ... '}' builds Unique")
	}
	// identifier
	switch {
	case len(other) > 0:
		r.Bad(id, keyVar, w.Pos(fn.fn.Pos()), fmt.Sprintf("%s applies %v, which no atom of the documented grammar builds", fn.Name(), other))
	case len(vr) != 1:
		r.Bad(id, keyVar, w.Pos(fn.fn.Pos()), fmt.Sprintf("%s builds Var at %d places; expected once, as the default", fn.Name(), len(vr)))
	case len(vr[0].toks) != 0:
		r.Bad(id, keyVar, w.InstrPos(vr[0].call), fmt.Sprintf("%s builds Var only after the token sequence %q", fn.Name(), vr[0].tokKey()))
	default:
		r.OK(id, keyVar, w.InstrPos(vr[0].call), fn.Name()+": any other token builds Var")
	}
}

func nameOr(f *pnode) string {
	if f == nil {
		return ""
	}
	return f.Name()
}

// isSuccessReturn: the error result is the nil constant (directly or through the named-result cell).
func isSuccessReturn(ret *ssa.Return) bool {
	return allNil(ret.Results[len(ret.Results)-1])
}

func allNil(v ssa.Value) bool {
	switch x := v.(type) {
	case *ssa.Const:
		return x.IsNil()
	case *ssa.UnOp:
		if x.Op != token.MUL {
			return false
		}
		al, ok := x.X.(*ssa.Alloc)
		if !ok {
			return false
		}
		stores, zero := reachingStores(x, al, -1)
		if zero && len(stores) == 0 {
			return true
		}
		if zero {
			return false
		}
		for _, st := range stores {
			if k, ok := st.Val.(*ssa.Const); !ok || !k.IsNil() {
				return false
			}
		}
		return len(stores) > 0
	}
	return false
}

// ctorOperands: the constructor is applied to the results of the operand calls; for an ordered constructor the
// first argument comes from a, the second from b.
func ctorOperands(ctor, a, b *parserSite, ordered bool) (Status, string) {
	args := ctor.call.Call.Args
	all := map[*ssa.Call]bool{}
	var per []map[*ssa.Call]bool
	for _, arg := range args {
		src, unknown := formulaSources(arg, ctor.call)
		if unknown {
			return Undecided, "an argument of " + ctor.ctor + " is not made of parser results only"
		}
		per = append(per, src)
		for c := range src {
			all[c] = true
		}
	}
	wantN := 1
	if b != nil {
		wantN = 2
	}
	if !all[a.call] || (b != nil && !all[b.call]) || len(all) != wantN {
		return Violated, fmt.Sprintf("%s is not applied to exactly the parsed operand(s)", ctor.ctor)
	}
	if ordered && b != nil {
		if len(per) != 2 || len(per[0]) != 1 || !per[0][a.call] || len(per[1]) != 1 || !per[1][b.call] {
			return Violated, ctor.ctor + " is applied to its operands in the wrong order (first argument must be the left operand)"
		}
	}
	return Discharged, ""
}

// returnsOnly: every successful return yields the result of one of the allowed calls, and must (some return) yields
// the constructor's result.
func returnsOnly(fn *ssa.Function, allowed []*ssa.Call, must *ssa.Call) (Status, string) {
	sawMust := false
	for _, b := range fn.Blocks {
		ret, ok := b.Instrs[len(b.Instrs)-1].(*ssa.Return)
		if !ok || len(ret.Results) != 2 || !isSuccessReturn(ret) {
			continue
		}
		src, unknown := formulaSources(ret.Results[0], ret)
		if unknown {
			return Undecided, "a successful return yields a formula that is not made of parser results only"
		}
		if len(src) != 1 {
			return Undecided, fmt.Sprintf("a successful return yields a formula made of %d calls", len(src))
		}
		for c := range src {
			ok := false
			for _, a := range allowed {
				if a == c {
					ok = true
				}
			}
			if !ok {
				return Violated, "a successful return yields " + c.String() + " instead of the left operand or the built formula"
			}
			if c == must {
				sawMust = true
			}
		}
	}
	if !sawMust {
		return Violated, "the formula built by the constructor is never returned"
	}
	return Discharged, ""
}

// ---------------------------------------------------------------------------------------------------------------
// R17.2 end of input
// ---------------------------------------------------------------------------------------------------------------

// eofFieldOf: the boolean field that records "the scanner returned EOF": stored, somewhere in the package, from a
// value computed by comparing (*text/scanner.Scanner).Scan() with scanner.EOF (-1).
func eofFieldOf(w *World, m *bfModel) (fieldRef, bool) {
	var found []fieldRef
	for _, fn := range m.fns {
		allInstrs(fn, func(ins ssa.Instruction) {
			st, ok := ins.(*ssa.Store)
			if !ok {
				return
			}
			fa, ok := st.Addr.(*ssa.FieldAddr)
			if !ok {
				return
			}
			if b, ok := st.Val.Type().Underlying().(*types.Basic); !ok || b.Kind() != types.Bool {
				return
			}
			seen := map[ssa.Value]bool{}
			hit := false
			var walk func(v ssa.Value)
			walk = func(v ssa.Value) {
				if v == nil || seen[v] {
					return
				}
				seen[v] = true
				switch x := v.(type) {
				case *ssa.Phi:
					for _, e := range x.Edges {
						walk(e)
					}
				case *ssa.BinOp:
					if x.Op == token.EQL {
						a, b := x.X, x.Y
						if _, isK := a.(*ssa.Const); isK {
							a, b = b, a
						}
						if c, ok := a.(*ssa.Call); ok && isScannerScan(c) {
							if k, ok := constInt(b); ok && k == -1 {
								hit = true
							}
						}
					}
					walk(x.X)
					walk(x.Y)
				}
			}
			walk(st.Val)
			if hit {
				if fr, ok := fieldAddrRef(fa); ok {
					found = append(found, fr)
				}
			}
		})
	}
	if len(found) == 0 {
		return fieldRef{}, false
	}
	for _, f := range found[1:] {
		if !f.same(found[0]) {
			return fieldRef{}, false
		}
	}
	return found[0], true
}

// isScannerScan: a call of (*text/scanner.Scanner).Scan.
func isScannerScan(c *ssa.Call) bool {
	sc := c.Call.StaticCallee()
	if sc == nil || sc.Name() != "Scan" || sc.Object() == nil || sc.Object().Pkg() == nil {
		return false
	}
	return sc.Object().Pkg().Path() == "text/scanner" && sc.Signature.Recv() != nil
}

func ruleR17_2(w *World, r *Report) {
	const id = "R17.2"
	r.Rule(id, "bf.Parse returns a formula with a nil error only on the path on which the end-of-input flag of the parser is set, with nothing consumed in between", 1)
	pm := newParserModel(w)
	key := "bf.Parse end of input"
	if pm.err != "" {
		r.Unk(id, key, "-", pm.err)
		return
	}
	eof, ok := eofFieldOf(w, pm.m)
	if !ok {
		r.Unk(id, key, w.Pos(pm.parse.Pos()), "the end-of-input flag (boolean field stored from Scan() == scanner.EOF) was not found")
		return
	}
	fn := pm.parse
	n := 0
	for _, b := range fn.Blocks {
		ret, isRet := b.Instrs[len(b.Instrs)-1].(*ssa.Return)
		if !isRet || len(ret.Results) != 2 || !isSuccessReturn(ret) {
			continue
		}
		if allNil(ret.Results[0]) {
			continue
		}
		n++
		// the innermost dominating test of the flag
		var under *ssa.BasicBlock
		for _, ec := range dominatingConds(b) {
			c, pol := ec.Cond, ec.True
			for {
				if u, ok := c.(*ssa.UnOp); ok && u.Op == token.NOT {
					c, pol = u.X, !pol
					continue
				}
				break
			}
			if fr, ok := loadedField(c); ok && fr.same(eof) && pol {
				if ec.True {
					under = ec.If.Block().Succs[0]
				} else {
					under = ec.If.Block().Succs[1]
				}
				break
			}
		}
		if under == nil {
			r.Bad(id, key, w.InstrPos(ret), fmt.Sprintf("a formula is returned without error on a path that does not test the end-of-input flag %s: trailing tokens are accepted", eof.String()))
			return
		}
		// nothing consumed between the test and the return
		for _, b2 := range fn.Blocks {
			if !under.Dominates(b2) || !(b2 == b || reachableBlocks(b2, false)[b]) {
				continue
			}
			for _, ins := range b2.Instrs {
				switch x := ins.(type) {
				case *ssa.Call:
					if sc := x.Call.StaticCallee(); sc != nil && pm.m.inPkg[w.unwrap(sc)] {
						r.Bad(id, key, w.InstrPos(x), "the parser is advanced between the end-of-input test and the successful return")
						return
					}
				case *ssa.Store:
					if fa, ok := x.Addr.(*ssa.FieldAddr); ok {
						if fr, ok := fieldAddrRef(fa); ok && fr.same(eof) {
							r.Bad(id, key, w.InstrPos(x), "the end-of-input flag is overwritten between its test and the successful return")
							return
						}
					}
				}
			}
		}
	}
	if n == 0 {
		r.Unk(id, key, w.Pos(fn.Pos()), "bf.Parse has no successful return of a formula")
		return
	}
	r.OK(id, key, w.Pos(fn.Pos()), fmt.Sprintf("%d successful return(s), each dominated by the test of %s being set", n, eof.String()))
}

// ---------------------------------------------------------------------------------------------------------------
// R17.3 error => no formula (AST of every return statement, co-inductive over the parser functions)
// ---------------------------------------------------------------------------------------------------------------

type retCheck struct {
	fn    *ssa.Function
	decl  *ast.FuncDecl
	info  *types.Info
	nNilE int
	nNilF int
	nPair int
	bad   []string
}

func isNilExpr(info *types.Info, e ast.Expr) bool {
	id, ok := ast.Unparen(e).(*ast.Ident)
	if !ok {
		return false
	}
	_, isNil := info.Uses[id].(*types.Nil)
	return isNil
}

func calleeObj(info *types.Info, e ast.Expr) *types.Func {
	call, ok := ast.Unparen(e).(*ast.CallExpr)
	if !ok {
		return nil
	}
	switch fx := ast.Unparen(call.Fun).(type) {
	case *ast.Ident:
		f, _ := info.Uses[fx].(*types.Func)
		return f
	case *ast.SelectorExpr:
		f, _ := info.Uses[fx.Sel].(*types.Func)
		return f
	}
	return nil
}

// pairedVars: fv and ev only ever receive, together, the two results of one call of a function in good (or nil for
// the formula alone); neither has its address taken nor is captured by a function literal.
func pairedVars(decl *ast.FuncDecl, info *types.Info, fv, ev types.Object, good map[*types.Func]bool) (bool, string) {
	ok := true
	why := ""
	fail := func(s string) {
		if ok {
			ok, why = false, s
		}
	}
	objOf := func(e ast.Expr) types.Object {
		id, isId := ast.Unparen(e).(*ast.Ident)
		if !isId {
			return nil
		}
		if o := info.Defs[id]; o != nil {
			return o
		}
		return info.Uses[id]
	}
	ast.Inspect(decl.Body, func(n ast.Node) bool {
		switch s := n.(type) {
		case *ast.FuncLit:
			ast.Inspect(s, func(n2 ast.Node) bool {
				if id, isId := n2.(*ast.Ident); isId {
					if o := info.Uses[id]; o != nil && (o == fv || o == ev) {
						fail("captured by a function literal")
					}
				}
				return true
			})
			return false
		case *ast.UnaryExpr:
			if s.Op == token.AND {
				if o := objOf(s.X); o != nil && (o == fv || o == ev) {
					fail("its address is taken")
				}
			}
		case *ast.IncDecStmt:
			if o := objOf(s.X); o != nil && (o == fv || o == ev) {
				fail("modified in place")
			}
		case *ast.RangeStmt:
			for _, e := range []ast.Expr{s.Key, s.Value} {
				if e != nil {
					if o := objOf(e); o != nil && (o == fv || o == ev) {
						fail("assigned by a range clause")
					}
				}
			}
		case *ast.ValueSpec:
			for _, nm := range s.Names {
				if o := info.Defs[nm]; o != nil && (o == fv || o == ev) && len(s.Values) > 0 {
					fail("initialised by a var declaration")
				}
			}
		case *ast.AssignStmt:
			touchesF, touchesE := false, false
			for _, l := range s.Lhs {
				if o := objOf(l); o != nil {
					if o == fv {
						touchesF = true
					}
					if o == ev {
						touchesE = true
					}
				}
			}
			if !touchesF && !touchesE {
				return true
			}
			if len(s.Lhs) == 2 && len(s.Rhs) == 1 && objOf(s.Lhs[0]) == fv && objOf(s.Lhs[1]) == ev {
				if f := calleeObj(info, s.Rhs[0]); f != nil && good[f] {
					return true
				}
				fail("assigned together from something that is not a parser function known to return no formula with an error")
				return true
			}
			if touchesF && !touchesE && len(s.Lhs) == 1 && len(s.Rhs) == 1 && isNilExpr(info, s.Rhs[0]) {
				return true
			}
			if touchesE && !touchesF && len(s.Lhs) == 1 && len(s.Rhs) == 1 && isNilExpr(info, s.Rhs[0]) {
				return true
			}
			fail("assigned separately from the other result")
		}
		return true
	})
	return ok, why
}

func (rc *retCheck) run(w *World, good map[*types.Func]bool) {
	rc.nNilE, rc.nNilF, rc.nPair, rc.bad = 0, 0, 0, nil
	var named []types.Object
	if rc.decl.Type.Results != nil {
		for _, fl := range rc.decl.Type.Results.List {
			for _, nm := range fl.Names {
				named = append(named, rc.info.Defs[nm])
			}
		}
	}
	ast.Inspect(rc.decl.Body, func(n ast.Node) bool {
		if _, isLit := n.(*ast.FuncLit); isLit {
			return false
		}
		ret, ok := n.(*ast.ReturnStmt)
		if !ok {
			return true
		}
		pos := w.Pos(ret.Pos())
		var fe, ee ast.Expr
		var fv, ev types.Object
		switch len(ret.Results) {
		case 2:
			fe, ee = ret.Results[0], ret.Results[1]
			if isNilExpr(rc.info, ee) {
				rc.nNilE++
				return true
			}
			if isNilExpr(rc.info, fe) {
				rc.nNilF++
				return true
			}
			if id, ok := ast.Unparen(fe).(*ast.Ident); ok {
				fv = rc.info.Uses[id]
			}
			if id, ok := ast.Unparen(ee).(*ast.Ident); ok {
				ev = rc.info.Uses[id]
			}
		case 1:
			if f := calleeObj(rc.info, ret.Results[0]); f != nil && good[f] {
				rc.nPair++
				return true
			}
			rc.bad = append(rc.bad, pos+": returns the results of a call that is not a parser function known to return no formula with an error")
			return true
		case 0:
			if len(named) == 2 {
				fv, ev = named[0], named[1]
			}
		}
		if fv == nil || ev == nil {
			rc.bad = append(rc.bad, pos+": returns a formula expression together with an error expression")
			return true
		}
		if _, isVar := fv.(*types.Var); !isVar {
			rc.bad = append(rc.bad, pos+": returns a non-nil formula together with an error")
			return true
		}
		if ok, why := pairedVars(rc.decl, rc.info, fv, ev, good); ok {
			rc.nPair++
		} else {
			rc.bad = append(rc.bad, fmt.Sprintf("%s: returns %s together with the error %s, and %s can be non-nil when the error is (%s)", pos, fv.Name(), ev.Name(), fv.Name(), why))
		}
		return true
	})
}

func ruleR17_3(w *World, r *Report) {
	const id = "R17.3"
	r.Rule(id, "every parser function (bf.Parse included) returns a nil formula whenever it returns a non-nil error: in each return statement the error is nil, or the formula is nil, or both come unchanged from one call of a parser function with the same guarantee", 8)
	pm := newParserModel(w)
	if pm.err != "" {
		r.Unk(id, "parser functions", "-", pm.err)
		return
	}
	var checks []*retCheck
	good := map[*types.Func]bool{}
	for _, fn := range pm.fns {
		decl := w.Decl(fn)
		info := w.TypesInfo(fn)
		obj, _ := fn.Object().(*types.Func)
		if decl == nil || decl.Body == nil || info == nil || obj == nil {
			r.Unk(id, w.FuncName(fn)+" error => no formula", w.Pos(fn.Pos()), "no syntax available")
			continue
		}
		checks = append(checks, &retCheck{fn: fn, decl: decl, info: info})
		good[obj] = true
	}
	// greatest fixpoint: assume every function has the guarantee, drop those that cannot be shown to
	for changed := true; changed; {
		changed = false
		for _, rc := range checks {
			obj := rc.fn.Object().(*types.Func)
			if !good[obj] {
				continue
			}
			rc.run(w, good)
			if len(rc.bad) > 0 {
				delete(good, obj)
				changed = true
			}
		}
	}
	for _, rc := range checks {
		rc.run(w, good)
		key := w.FuncName(rc.fn) + " error => no formula"
		if len(rc.bad) > 0 {
			r.Bad(id, key, w.Pos(rc.fn.Pos()), strings.Join(rc.bad, "; "))
		} else {
			r.OK(id, key, w.Pos(rc.fn.Pos()), fmt.Sprintf("%d return(s) with a nil error, %d with a nil formula, %d handing on both results of a parser function", rc.nNilE, rc.nNilF, rc.nPair))
		}
	}
}

// ---------------------------------------------------------------------------------------------------------------
// R17.5 / R17.6 (after the fourth round of external mutants)
// ---------------------------------------------------------------------------------------------------------------

// R17.5: the tokenisation is the default one of text/scanner.
func ruleR17_5(w *World, r *Report) {
	const id = "R17.5"
	r.Rule(id, "package bf leaves the token classes of its text/scanner.Scanner at their defaults: no store into Mode, Whitespace or IsIdentRune (an identifier that may contain `-` swallows the arrow of `a->b`; white space would start to matter)", 1)
	m, _ := bfOf(w)
	key := "bf scanner configuration"
	if m.err != "" {
		r.Unk(id, key, "-", m.err)
		return
	}
	var bad []string
	scanners := 0
	for _, fn := range m.fns {
		allInstrs(fn, func(ins ssa.Instruction) {
			switch x := ins.(type) {
			case *ssa.Alloc:
				if typeShort(x.Type()) == "*text/scanner.Scanner" || strings.HasSuffix(x.Type().String(), "text/scanner.Scanner") {
					scanners++
				}
			case *ssa.Store:
				fa, ok := x.Addr.(*ssa.FieldAddr)
				if !ok {
					return
				}
				pt, ok := fa.X.Type().Underlying().(*types.Pointer)
				if !ok || !strings.HasSuffix(pt.Elem().String(), "text/scanner.Scanner") {
					return
				}
				st, ok := pt.Elem().Underlying().(*types.Struct)
				if !ok {
					return
				}
				switch name := st.Field(fa.Field).Name(); name {
				case "Mode", "Whitespace", "IsIdentRune":
					bad = append(bad, fmt.Sprintf("%s is set at %s", name, w.InstrPos(x)))
				}
			}
		})
	}
	if len(bad) > 0 {
		r.Bad(id, key, w.Pos(m.fns[0].Pos()), strings.Join(bad, "; ")+": the token classes are no longer those the documented syntax is written for (operators directly after a name, white space between tokens)")
	} else {
		r.OK(id, key, "-", "no store into Mode / Whitespace / IsIdentRune of a text/scanner.Scanner in package bf")
	}
}

// R17.6: a variable is built only from a token that is neither an operator nor a closing parenthesis.
func ruleR17_6(w *World, r *Report) {
	const id = "R17.6"
	r.Rule(id, "the parser builds a variable (Var) from the current token only where that token is known to be neither an operator (the package's operator predicate answered false) nor `)`: otherwise a missing operand or an unbalanced `)` becomes a variable instead of an error", 1)
	pm := newParserModel(w)
	if pm.err != "" {
		r.Unk(id, "variable sites", "-", pm.err)
		return
	}
	isParser := map[*ssa.Function]bool{}
	for _, f := range pm.fns {
		isParser[f] = true
	}
	tokenLoad := func(fn *ssa.Function, v ssa.Value) bool {
		ld, ok := v.(*ssa.UnOp)
		if !ok || ld.Op != token.MUL {
			return false
		}
		fa, ok := ld.X.(*ssa.FieldAddr)
		return ok && len(fn.Params) > 0 && fa.X == ssa.Value(fn.Params[0]) && basicInfo(ld.Type())&types.IsString != 0
	}
	// what is excluded on entry to block b of fn: the operator predicate, the token ")"
	var excluded func(fn *ssa.Function, b *ssa.BasicBlock, depth int) (op, paren bool)
	excluded = func(fn *ssa.Function, b *ssa.BasicBlock, depth int) (op, paren bool) {
		n := &pnode{fn: fn}
		for _, ec := range dominatingConds(b) {
			c, pol := ec.Cond, ec.True
			for {
				if u, ok := c.(*ssa.UnOp); ok && u.Op == token.NOT {
					c, pol = u.X, !pol
					continue
				}
				break
			}
			if call, ok := c.(*ssa.Call); ok && !pol && len(call.Call.Args) == 1 && tokenLoad(fn, call.Call.Args[0]) {
				if sc := call.Call.StaticCallee(); sc != nil && pm.m.inPkg[w.unwrap(sc)] {
					op = true
				}
			}
			if tok, eq, ok := tokenTest(n, c); ok && tok == ")" && eq != pol {
				paren = true
			}
		}
		if (op && paren) || depth >= 2 {
			return
		}
		// the tests may be made by the callers (a sub-parser for identifiers)
		sites, allOp, allParen := 0, true, true
		for _, g := range pm.fns {
			for _, ci := range callsIn(g) {
				if sc := ci.Common().StaticCallee(); sc == nil || w.unwrap(sc) != fn || g == fn {
					continue
				}
				sites++
				o2, p2 := excluded(g, ci.Block(), depth+1)
				allOp, allParen = allOp && o2, allParen && p2
			}
		}
		if sites > 0 {
			op, paren = op || allOp, paren || allParen
		}
		return
	}
	n := 0
	for _, fn := range pm.fns {
		for _, ci := range callsIn(fn) {
			c, ok := ci.(*ssa.Call)
			if !ok {
				continue
			}
			sc := c.Call.StaticCallee()
			if sc == nil || !pm.m.inPkg[w.unwrap(sc)] || sc.Name() != "Var" || sc.Signature.Recv() != nil {
				continue
			}
			if len(c.Call.Args) != 1 || !tokenLoad(fn, c.Call.Args[0]) {
				continue
			}
			n++
			key := fmt.Sprintf("%s variable site #%d", w.FuncName(fn), n)
			op, paren := excluded(fn, c.Block(), 0)
			var bad []string
			if !op {
				bad = append(bad, "an operator token can reach the construction of a variable (the operator predicate is not known false there): `a & ` followed by an operator is read as a variable named after the operator")
			}
			if !paren {
				bad = append(bad, "the token `)` can reach the construction of a variable: an unbalanced or misplaced `)` is read as a variable named `)` and the text is accepted")
			}
			if len(bad) > 0 {
				r.Bad(id, key, w.InstrPos(c), strings.Join(bad, "; "))
			} else {
				r.OK(id, key, w.InstrPos(c), "behind `not an operator` and `not )`")
			}
		}
	}
	if n == 0 {
		r.Unk(id, "variable sites", "-", "no parser function builds Var from the current token")
	}
}

// iteratedPrefix recognises the iterative form of the prefix level: a first loop counts the '^' tokens it passes
// (counter 0 before the loop, +1 in every iteration, the increment behind a positive test of "^" made in that
// iteration), the operand is parsed once after that loop, and a second loop wraps it into Not once per unit of the
// counter (formula and counter are the loop's two variables, the counter goes down by 1 with every Not and the loop
// runs while it is > 0); the function returns that formula or no formula at all.
func iteratedPrefix(n *pnode, down, ctor *parserSite) (bool, string) {
	fn := n.fn
	if len(ctor.call.Call.Args) != 1 {
		return false, "Not is applied to more than one value"
	}
	arg := ctor.call.Call.Args[0]
	phiF, ok := arg.(*ssa.Phi)
	if !ok || len(phiF.Edges) != 2 {
		return false, "Not is not applied to the formula carried by a loop"
	}
	h2 := phiF.Block()
	body2 := loopBlocks(fn, h2)
	if len(body2) != 2 || !body2[ctor.call.Block()] || ctor.call.Block() == h2 {
		return false, "the loop applying Not is not a loop of one step"
	}
	isDown := func(v ssa.Value) bool {
		ex, ok := v.(*ssa.Extract)
		return ok && ex.Index == 0 && ex.Tuple == ssa.Value(down.call)
	}
	var fromIn, fromBack ssa.Value
	inIdx := -1
	for i, e := range phiF.Edges {
		if body2[h2.Preds[i]] {
			fromBack = e
		} else {
			fromIn, inIdx = e, i
		}
	}
	if fromIn == nil || !isDown(fromIn) || fromBack != ssa.Value(ctor.call) {
		return false, "the formula of the loop is not the operand wrapped into Not once per iteration"
	}
	iff, ok := h2.Instrs[len(h2.Instrs)-1].(*ssa.If)
	if !ok || !body2[h2.Succs[0]] || body2[h2.Succs[1]] {
		return false, "the loop applying Not has no test of its own"
	}
	var phiM *ssa.Phi
	if bo, ok := iff.Cond.(*ssa.BinOp); ok {
		if k, isK := constInt(bo.Y); isK && k == 0 && bo.Op == token.GTR {
			phiM, _ = bo.X.(*ssa.Phi)
		} else if k, isK := constInt(bo.X); isK && k == 0 && bo.Op == token.LSS {
			phiM, _ = bo.Y.(*ssa.Phi)
		} else if k, isK := constInt(bo.Y); isK && k == 0 && bo.Op == token.NEQ {
			phiM, _ = bo.X.(*ssa.Phi)
		}
	}
	if phiM == nil || phiM.Block() != h2 || len(phiM.Edges) != 2 {
		return false, "the loop applying Not does not run while a counter is above 0"
	}
	dec, ok := phiM.Edges[1-inIdx].(*ssa.BinOp)
	if !ok || dec.Op != token.SUB || dec.X != ssa.Value(phiM) || dec.Block() != ctor.call.Block() {
		return false, "the counter does not go down by 1 with every Not"
	}
	if k, isK := constInt(dec.Y); !isK || k != 1 {
		return false, "the counter does not go down by 1 with every Not"
	}
	phiN, ok := phiM.Edges[inIdx].(*ssa.Phi)
	if !ok || len(phiN.Edges) != 2 {
		return false, "the counter is not the one of a loop over the '^' tokens"
	}
	h1 := phiN.Block()
	body1 := loopBlocks(fn, h1)
	if len(body1) == 0 || body1[down.call.Block()] || !h1.Dominates(down.call.Block()) {
		return false, "the operand is not parsed after the loop over the '^' tokens"
	}
	var inc *ssa.BinOp
	zero := false
	for i, e := range phiN.Edges {
		if body1[h1.Preds[i]] {
			inc, _ = e.(*ssa.BinOp)
		} else if k, isK := constInt(e); isK && k == 0 {
			zero = true
		}
	}
	if !zero || inc == nil || inc.Op != token.ADD || inc.X != ssa.Value(phiN) || !body1[inc.Block()] {
		return false, "the counter does not start at 0 and go up by 1 per iteration"
	}
	if k, isK := constInt(inc.Y); !isK || k != 1 {
		return false, "the counter does not go up by 1 per iteration"
	}
	for _, h := range loopHeaders(fn) {
		if h != h1 && body1[h] && loopBlocks(fn, h)[inc.Block()] {
			return false, "the counter goes up in an inner loop"
		}
	}
	counted := false
	for _, ec := range dominatingConds(inc.Block()) {
		c, pol := ec.Cond, ec.True
		for {
			if u, ok := c.(*ssa.UnOp); ok && u.Op == token.NOT {
				c, pol = u.X, !pol
				continue
			}
			break
		}
		if tok, eq, ok := tokenTest(n, c); ok && tok == "^" && eq == pol && body1[ec.If.Block()] {
			counted = true
		}
	}
	if !counted {
		return false, "the counter goes up in an iteration that has not seen the token '^'"
	}
	// what the function returns: that formula, or none
	some := false
	for _, b := range fn.Blocks {
		ret, ok := b.Instrs[len(b.Instrs)-1].(*ssa.Return)
		if !ok || len(ret.Results) == 0 {
			continue
		}
		switch {
		case ret.Results[0] == ssa.Value(phiF) && !body2[b]:
			some = true
		case isNilConst(ret.Results[0]):
		default:
			return false, "a formula other than the wrapped operand is returned at " + b.String()
		}
	}
	if !some {
		return false, "the wrapped operand is never returned"
	}
	return true, "counter " + phiN.Comment + " (0, +1 behind the test of '^'), Not applied while the counter is > 0 (-1 per application)"
}
