package main

import (
	"fmt"
	"go/token"
	"go/types"
	"strings"

	"golang.org/x/tools/go/ssa"
)

// Rules added after the third round of externally written mutants (see DESIGN.md section 9).

// ---------- R18.4: a '+' is only put in front of a number known to be non-negative ----------

// stringChoices returns the constant strings a value can take (phi of constants) with, for each, the
// predecessor block that selects it; ok=false when something else can flow in.
func stringChoices(v ssa.Value) (vals []string, preds []*ssa.BasicBlock, ok bool) {
	if s, isC := constString(v); isC {
		return []string{s}, []*ssa.BasicBlock{nil}, true
	}
	phi, isPhi := v.(*ssa.Phi)
	if !isPhi {
		return nil, nil, false
	}
	for i, e := range phi.Edges {
		s, isC := constString(e)
		if !isC {
			return nil, nil, false
		}
		vals = append(vals, s)
		preds = append(preds, phi.Block().Preds[i])
	}
	return vals, preds, true
}

// knownNonNegative: on entry to block b (nil: anywhere) value w is >= 0 by a dominating test on w itself.
func knownNonNegative(b *ssa.BasicBlock, wv ssa.Value) bool {
	if k, ok := constInt(wv); ok {
		return k >= 0
	}
	if b == nil {
		return false
	}
	conds := dominatingConds(b)
	// the block itself may be the successor of a test in its single predecessor: dominatingConds covers idoms
	for _, ec := range conds {
		bo, ok := ec.Cond.(*ssa.BinOp)
		if !ok || bo.X != wv {
			continue
		}
		k, isK := constInt(bo.Y)
		if !isK {
			continue
		}
		switch bo.Op {
		case token.GEQ:
			if ec.True && k >= 0 {
				return true
			}
		case token.GTR:
			if ec.True && k >= -1 {
				return true
			}
		case token.LSS:
			if !ec.True && k <= 0 {
				return true
			}
		case token.LEQ:
			if !ec.True && k <= -1 {
				return true
			}
		}
	}
	return false
}

func ruleR18_4(w *World, r *Report) {
	r.Rule("R18.4", "in the printers of package solver, a \"+\" placed directly in front of a printed number is chosen only on paths where that number is known to be non-negative (a negative coefficient carries its own sign)", 1)
	n := 0
	for _, fn := range w.Fns {
		if w.PkgName(fn) != "solver" {
			continue
		}
		for _, ci := range callsIn(fn) {
			call, ok := ci.(*ssa.Call)
			if ok {
				// a "+" written on its own into a builder / writer (`sb.WriteByte('+')`): the sign of what follows
				if pkg, name := stdCallee(&call.Call); (pkg == "strings" || pkg == "bytes") && len(call.Call.Args) == 2 {
					plus := false
					if strings.HasSuffix(name, ".WriteByte") || strings.HasSuffix(name, ".WriteRune") {
						if k, isK := constInt(call.Call.Args[1]); isK && k == '+' {
							plus = true
						}
					}
					if strings.HasSuffix(name, ".WriteString") {
						if sv, isS := constString(call.Call.Args[1]); isS && sv == "+" {
							plus = true
						}
					}
					if plus {
						n++
						key := fmt.Sprintf("%s sign in front of number #%d", w.FuncName(fn), n)
						okc := false
						for _, ec := range dominatingConds(call.Block()) {
							bo, isB := ec.Cond.(*ssa.BinOp)
							if !isB || typeShort(bo.X.Type()) != "int" {
								continue
							}
							if k, isK := constInt(bo.Y); isK && k == 0 && ((bo.Op == token.GEQ && ec.True) || (bo.Op == token.LSS && !ec.True) || (bo.Op == token.GTR && ec.True)) {
								okc = true
							}
						}
						r.Check(okc, "R18.4", key, w.InstrPos(call), "\"+\" only when the number is >= 0",
							"a \"+\" is written on a path where the number that follows may be negative: the text \"+-3 x2\" is not a term of the format")
						continue
					}
				}
			}
			if !ok || w.calleeName(&call.Call) != "fmt.Sprintf" {
				continue
			}
			format, args, ok := printfArgs(&call.Call)
			if !ok {
				continue
			}
			// walk the verbs
			ai := 0
			for i := 0; i < len(format); i++ {
				if format[i] != '%' || i+1 >= len(format) {
					continue
				}
				verb := format[i+1]
				if verb == '%' {
					i++
					continue
				}
				argIdx := ai
				ai++
				if verb != 's' || i+3 >= len(format) || format[i+2] != '%' || format[i+3] != 'd' || argIdx+1 >= len(args) {
					continue
				}
				// "%s%d": the string argument may be a sign
				vals, preds, okc := stringChoices(args[argIdx])
				hasPlus := false
				for _, v := range vals {
					if strings.HasSuffix(v, "+") {
						hasPlus = true
					}
				}
				if okc && !hasPlus {
					continue
				}
				n++
				key := fmt.Sprintf("%s sign in front of number #%d", w.FuncName(fn), n)
				if !okc {
					r.Unk("R18.4", key, w.InstrPos(call), "the text printed in front of the number is not a choice between constants")
					continue
				}
				num := args[argIdx+1]
				var bad []string
				for k, v := range vals {
					if !strings.HasSuffix(v, "+") {
						continue
					}
					if !knownNonNegative(preds[k], num) {
						bad = append(bad, "a \"+\" is chosen on a path where the number may be negative: the text \"+-3 x2\" is not a term of the format")
					}
				}
				if len(bad) > 0 {
					r.Bad("R18.4", key, w.InstrPos(call), strings.Join(dedupe(bad), "; "))
				} else {
					r.OK("R18.4", key, w.InstrPos(call), "\"+\" only when the number is >= 0")
				}
			}
		}
	}
}

// ---------- R18.5: the degree printed after ">=" is the clause's Cardinality() ----------

func ruleR18_5(w *World, r *Report) {
	r.Rule("R18.5", "the right-hand side a constraint printer writes after \">=\" is the constraint's minimal cardinality as returned by Cardinality() on the printed clause", 1)
	n := 0
	for _, fn := range w.Fns {
		if w.PkgName(fn) != "solver" || fn.Signature.Recv() == nil || typeShort(fn.Signature.Recv().Type()) != "*solver.Clause" {
			continue
		}
		for _, ci := range callsIn(fn) {
			call, ok := ci.(*ssa.Call)
			if !ok || w.calleeName(&call.Call) != "fmt.Sprintf" {
				continue
			}
			format, args, ok := printfArgs(&call.Call)
			if !ok || !strings.Contains(format, ">= %d") {
				continue
			}
			// which argument feeds the %d after ">="
			idx := strings.Count(format[:strings.Index(format, ">= %d")], "%")
			n++
			key := fmt.Sprintf("%s degree after \">=\"", w.FuncName(fn))
			if idx >= len(args) {
				r.Unk("R18.5", key, w.InstrPos(call), "cannot match the verb with an argument")
				continue
			}
			c, isCall := args[idx].(*ssa.Call)
			ok2 := isCall && w.calleeName(&c.Call) == "(*solver.Clause).Cardinality" && len(c.Call.Args) == 1 && c.Call.Args[0] == ssa.Value(fn.Params[0])
			r.Check(ok2, "R18.5", key, w.InstrPos(call), "Cardinality() of the receiver",
				"the number printed after \">=\" is not the clause's Cardinality(): for learned clauses the LBD bits of the same word would be printed as a degree, and the text read back is a stronger constraint")
		}
	}
}

// ---------- R18.6: Solver.PBString prints only top-level facts as unit constraints ----------

func ruleR18_6(w *World, r *Report) {
	r.Rule("R18.6", "Solver.PBString renders a variable as a unit constraint only when its binding is the top-level one (model entry +1 / -1), with the matching right-hand side", 2)
	fn := w.Func("solver", "Solver.PBString")
	if fn == nil {
		r.Unk("R18.6", "solver.(*Solver).PBString", "-", "method not found")
		return
	}
	n := 0
	for _, ci := range callsIn(fn) {
		call, ok := ci.(*ssa.Call)
		if !ok || w.calleeName(&call.Call) != "fmt.Sprintf" {
			continue
		}
		format, _, ok := printfArgs(&call.Call)
		if !ok {
			continue
		}
		var want int64
		switch {
		case strings.Contains(format, "= 1 ;"):
			want = 1
		case strings.Contains(format, "= 0 ;"):
			want = -1
		default:
			continue
		}
		n++
		key := fmt.Sprintf("(*solver.Solver).PBString unit line %q", format)
		okc := false
		for _, ec := range dominatingConds(call.Block()) {
			bo, isB := ec.Cond.(*ssa.BinOp)
			if !isB || bo.Op != token.EQL || !ec.True {
				continue
			}
			k, isK := constInt(bo.Y)
			if !isK || k != want {
				continue
			}
			if ld, isL := bo.X.(*ssa.UnOp); isL && ld.Op == token.MUL {
				if ia, isIA := ld.X.(*ssa.IndexAddr); isIA {
					if _, isF := isFieldLoad(ia.X, "solver.Solver", "model"); isF {
						okc = true
					}
				}
			}
		}
		r.Check(okc, "R18.6", key, w.InstrPos(call), fmt.Sprintf("printed under model[i] == %d", want),
			"a unit constraint is printed for bindings other than the top-level one: decisions and their consequences of the last search are written as facts, and the text read back has fewer models")
	}
	if n < 2 {
		r.Unk("R18.6", "(*solver.Solver).PBString unit lines", w.Pos(fn.Pos()), "the two unit-constraint formats were not found")
	}
}

// ---------- R15.4: an exists-flag is reset for every element of the enclosing for-all loop ----------

func ruleR15_4(w *World, r *Report) {
	r.Rule("R15.4", "in DetectAtMostOne, a boolean that records `a match was found` in an inner search loop enters that loop as the constant false on every iteration of the enclosing loop (it is not carried over from the previous element)", 0)
	fn := w.Func("solver", "Problem.DetectAtMostOne")
	if fn == nil {
		r.Unk("R15.4", "solver.(*Problem).DetectAtMostOne", "-", "method not found")
		return
	}
	n := 0
	// shape 1 (flag set and loop left by break): a bool phi after an inner loop merging the constant true coming
	// from inside the loop with the value the flag has when the loop is exhausted
	// shape 2 (flag set, loop continues): a bool phi in the inner loop header with a back edge carrying true
	isConstBool := func(v ssa.Value, want string) bool {
		k, ok := v.(*ssa.Const)
		return ok && k.Value != nil && k.Value.String() == want
	}
	heads := loopHeaders(fn)
	nestedIn := func(h *ssa.BasicBlock) bool {
		for _, h2 := range heads {
			if h2 != h && loopBlocks(fn, h2)[h] {
				return true
			}
		}
		return false
	}
	allInstrs(fn, func(ins ssa.Instruction) {
		phi, ok := ins.(*ssa.Phi)
		if !ok || typeShort(phi.Type()) != "bool" {
			return
		}
		for _, h := range heads {
			if !nestedIn(h) {
				continue
			}
			body := loopBlocks(fn, h)
			var entry []ssa.Value
			fromInside := false
			if phi.Block() == h {
				for i, e := range phi.Edges {
					if body[h.Preds[i]] {
						if isConstBool(e, "true") {
							fromInside = true
						}
					} else {
						entry = append(entry, e)
					}
				}
			} else if !body[phi.Block()] {
				for i, e := range phi.Edges {
					pred := phi.Block().Preds[i]
					if pred == h {
						entry = append(entry, e) // value when the loop is exhausted
					} else if (body[pred] || (len(h.Succs) == 2 && h.Succs[0].Dominates(pred))) && isConstBool(e, "true") {
						fromInside = true // set on the way out of the loop body (break)
					}
				}
			}
			if !fromInside || len(entry) == 0 {
				continue
			}
			n++
			key := fmt.Sprintf("(*solver.Problem).DetectAtMostOne found-flag #%d", n)
			okc := true
			for _, e := range entry {
				// the value the flag has without a match must be the constant false (directly or as the header's own
				// phi whose entry edges are all false)
				if isConstBool(e, "false") {
					continue
				}
				if p2, ok := e.(*ssa.Phi); ok && p2.Block() == h {
					for i, e2 := range p2.Edges {
						if !body[h.Preds[i]] && !isConstBool(e2, "false") {
							okc = false
						}
					}
					continue
				}
				okc = false
			}
			r.Check(okc, "R15.4", key, w.InstrPos(h.Instrs[len(h.Instrs)-1]), "false unless this search finds a match",
				"the flag keeps the value it had for the previous element: once one member of the clique matched, every later member counts as matched, so literals that are not pairwise exclusive are put into one at-most-one constraint (models are lost)")
		}
	})
	if n == 0 {
		r.OK("R15.4", "(*solver.Problem).DetectAtMostOne found-flag", w.Pos(fn.Pos()), "no inner search loop keeps a found-flag (the membership test is done otherwise): nothing to reset")
	}
}

// ---------- R15.5: removal indexes are compared with positions in the whole clause list ----------

func ruleR15_5(w *World, r *Report) {
	r.Rule("R15.5", "the function that rebuilds Problem.Clauses compares the recorded removal indexes with the index of a loop over the whole, unsliced clause list", 1)
	n := 0
	for _, fn := range w.Fns {
		if w.PkgName(fn) != "solver" || len(fn.Blocks) == 0 {
			continue
		}
		// the rebuilding function: a method of *Problem taking the removal list and storing Clauses, or a function
		// taking the clause list and the removal list and returning the rebuilt list
		var list, whole ssa.Value
		for _, p := range fn.Params {
			switch typeShort(p.Type()) {
			case "[]int":
				list = p
			case "[]*solver.Clause":
				whole = p
			}
		}
		if list == nil {
			continue
		}
		isMethodForm := fn.Signature.Recv() != nil && typeShort(fn.Signature.Recv().Type()) == "*solver.Problem" && fn.Signature.Params().Len() == 1 && len(storesToField(fn, "solver.Problem", "Clauses")) > 0
		isFuncForm := whole != nil && fn.Signature.Results().Len() == 1 && typeShort(fn.Signature.Results().At(0).Type()) == "[]*solver.Clause"
		if !isMethodForm && !isFuncForm {
			continue
		}
		allInstrs(fn, func(ins ssa.Instruction) {
			bo, ok := ins.(*ssa.BinOp)
			if !ok || bo.Op != token.EQL {
				return
			}
			var idx ssa.Value
			if isElemOf(bo.Y, list) {
				idx = bo.X
			} else if isElemOf(bo.X, list) {
				idx = bo.Y
			}
			if idx == nil {
				return
			}
			n++
			key := fmt.Sprintf("%s removal index comparison #%d", w.FuncName(fn), n)
			full := fullRangeIndex(idx, func(b ssa.Value) bool {
				return isLenOf(b, func(x ssa.Value) bool {
					if _, ok := isFieldLoad(x, "solver.Problem", "Clauses"); ok {
						return true
					}
					return whole != nil && x == whole
				})
			})
			r.Check(full, "R15.5", key, w.InstrPos(bo), "compared with the index of a loop over all of pb.Clauses",
				"the removal indexes (positions in the whole clause list) are compared with an index that is not the position in the whole list (e.g. relative to a sub-slice): a clause that is not subsumed is removed instead")
		})
	}
	if n == 0 {
		r.Unk("R15.5", "removal index comparison", "-", "no function of *solver.Problem taking the removal list compares its elements with a loop index")
	}
}

func isElemOf(v ssa.Value, slice ssa.Value) bool {
	ld, ok := v.(*ssa.UnOp)
	if !ok || ld.Op != token.MUL {
		return false
	}
	ia, ok := ld.X.(*ssa.IndexAddr)
	return ok && ia.X == slice
}

// ---------- R15.6: parallel per-literal lists are extended together ----------

func ruleR15_6(w *World, r *Report) {
	r.Rule("R15.6", "in DetectAtMostOne the two parallel per-literal lists (implied literals and clause indexes) receive their entries together: every append to one is accompanied, in the same block and for the same literal, by an append to the other", 2)
	fn := w.Func("solver", "Problem.DetectAtMostOne")
	if fn == nil {
		r.Unk("R15.6", "solver.(*Problem).DetectAtMostOne", "-", "method not found")
		return
	}
	// element appends: Store to IndexAddr(T, k) of append(load IndexAddr(T, k), x), T a local [][]X
	type app struct {
		tbl ssa.Value
		key ssa.Value
		st  *ssa.Store
	}
	var apps []app
	// the tables may be built by a helper of the method (`propagates, indexes := binaryImplications(...)`)
	scanFns := []*ssa.Function{fn}
	for _, ci := range callsIn(fn) {
		if h := ci.Common().StaticCallee(); h != nil && w.PkgName(h) == "solver" && len(h.Blocks) > 0 && h != fn {
			scanFns = append(scanFns, h)
		}
	}
	for _, sf := range scanFns {
		allInstrs(sf, func(ins ssa.Instruction) {
			st, ok := ins.(*ssa.Store)
			if !ok {
				return
			}
			ia, ok := st.Addr.(*ssa.IndexAddr)
			if !ok {
				return
			}
			c, ok := st.Val.(*ssa.Call)
			if !ok {
				return
			}
			if b, ok := c.Call.Value.(*ssa.Builtin); !ok || b.Name() != "append" {
				return
			}
			if _, isMk := ia.X.(*ssa.MakeSlice); !isMk {
				return
			}
			apps = append(apps, app{ia.X, ia.Index, st})
		})
	}
	// tables that are paired at least once
	paired := map[ssa.Value]ssa.Value{}
	for _, a := range apps {
		for _, b := range apps {
			if a.tbl != b.tbl && a.key == b.key && a.st.Block() == b.st.Block() {
				paired[a.tbl] = b.tbl
			}
		}
	}
	if len(paired) == 0 {
		// the implied literal and the clause index may be kept as one record in a single per-literal list: then
		// there is nothing to keep in step
		k := 0
		for _, a := range apps {
			if outer, ok := a.tbl.Type().Underlying().(*types.Slice); ok {
				if inner, ok := outer.Elem().Underlying().(*types.Slice); ok {
					if stt, ok := inner.Elem().Underlying().(*types.Struct); ok && stt.NumFields() >= 2 {
						k++
						r.OK("R15.6", fmt.Sprintf("(*solver.Problem).DetectAtMostOne parallel append #%d", k), w.InstrPos(a.st), "literal and clause index are one record of a single list")
					}
				}
			}
		}
		if k > 0 {
			return
		}
		r.Unk("R15.6", "(*solver.Problem).DetectAtMostOne parallel lists", w.Pos(fn.Pos()), "no pair of per-literal lists extended together")
		return
	}
	n := 0
	for _, a := range apps {
		other, ok := paired[a.tbl]
		if !ok {
			continue
		}
		n++
		key := fmt.Sprintf("(*solver.Problem).DetectAtMostOne parallel append #%d", n)
		has := false
		for _, b := range apps {
			if b.tbl == other && b.key == a.key && b.st.Block() == a.st.Block() {
				has = true
			}
		}
		r.Check(has, "R15.6", key, w.InstrPos(a.st), "the sibling list gets its entry in the same block",
			"one of the two parallel lists gets an entry without the other: positions no longer correspond, so the clause index looked up for an implied literal designates another clause, which is then removed although it is not subsumed")
	}
}

// ---------- R2.5: slices handed to an in-place normaliser are not used afterwards ----------

// inPlaceNormalisers: functions of package solver that write elements of, or cut elements out of, a slice parameter.
func inPlaceNormalisers(w *World) map[*ssa.Function][]int {
	out := map[*ssa.Function][]int{}
	for _, fn := range w.Fns {
		if w.PkgName(fn) != "solver" || fn.Parent() != nil || fn.Object() == nil || !fn.Object().Exported() {
			continue
		}
		for pi, p := range fn.Params {
			if _, ok := p.Type().Underlying().(*types.Slice); !ok {
				continue
			}
			// values derived from the parameter by phis / re-slicing / append-cut
			derived := map[ssa.Value]bool{p: true}
			for changed := true; changed; {
				changed = false
				allInstrs(fn, func(ins ssa.Instruction) {
					v, ok := ins.(ssa.Value)
					if !ok || derived[v] {
						return
					}
					switch x := ins.(type) {
					case *ssa.Phi:
						for _, e := range x.Edges {
							if derived[e] {
								derived[v] = true
								changed = true
							}
						}
					case *ssa.Slice:
						if derived[x.X] {
							derived[v] = true
							changed = true
						}
					case *ssa.Call:
						if b, ok := x.Call.Value.(*ssa.Builtin); ok && b.Name() == "append" && derived[x.Call.Args[0]] {
							derived[v] = true
							changed = true
						}
					}
				})
			}
			writes := false
			allInstrs(fn, func(ins ssa.Instruction) {
				switch x := ins.(type) {
				case *ssa.Store:
					if ia, ok := x.Addr.(*ssa.IndexAddr); ok && derived[ia.X] {
						writes = true
					}
				case *ssa.Call:
					if b, ok := x.Call.Value.(*ssa.Builtin); ok && b.Name() == "append" && derived[x.Call.Args[0]] {
						writes = true
					}
				}
			})
			if writes {
				out[fn] = append(out[fn], pi)
			}
		}
	}
	return out
}

func ruleR2_5(w *World, r *Report) {
	r.Rule("R2.5", "a slice handed to a constraint normaliser that rewrites its arguments in place (signs flipped, zero terms cut out) is not used by the caller afterwards: only the returned constraint is", 4)
	norm := inPlaceNormalisers(w)
	if len(norm) == 0 {
		r.Unk("R2.5", "in-place normalisers", "-", "no exported function of package solver rewrites a slice parameter")
		return
	}
	count := map[string]int{}
	for _, fn := range w.Fns {
		for _, ci := range callsIn(fn) {
			call, ok := ci.(*ssa.Call)
			if !ok {
				continue
			}
			for _, callee := range w.Callees[call] {
				pis, ok := norm[callee]
				if !ok {
					continue
				}
				count[w.FuncName(fn)]++
				key := fmt.Sprintf("%s call #%d of %s", w.FuncName(fn), count[w.FuncName(fn)], w.FuncName(callee))
				var bad []string
				for _, pi := range pis {
					if pi >= len(call.Call.Args) {
						continue
					}
					arg := call.Call.Args[pi]
					if _, isConst := arg.(*ssa.Const); isConst {
						continue
					}
					for _, ref := range *arg.Referrers() {
						if ref == ssa.Instruction(call) {
							continue
						}
						if _, ok := ref.(*ssa.DebugRef); ok {
							continue
						}
						if ref.Block() == nil || !instrReachableFrom(call, ref) {
							continue
						}
						// a use on the loop back edge that re-enters before the call (the next iteration's own value) is
						// the same SSA value only when it is loop invariant: that is exactly the harmful case too
						bad = append(bad, fmt.Sprintf("argument #%d is used again at %s after %s has rewritten it in place", pi, w.InstrPos(ref), w.FuncName(callee)))
					}
				}
				if len(bad) > 0 {
					r.Bad("R2.5", key, w.InstrPos(call), strings.Join(dedupe(bad), "; ")+": signs and positions of the caller's copy no longer match the terms it believes it holds")
				} else {
					r.OK("R2.5", key, w.InstrPos(call), "arguments dead after the call")
				}
			}
		}
	}
}

// ---------- R12.2: clause literals are never integer constants ----------

func ruleR12_2(w *World, r *Report) {
	r.Rule("R12.2", "no function of package bf writes an integer constant into a clause: every literal of the CNF comes from the index allocator, so that the header's variable count covers it", 1)
	n := 0
	for _, fn := range w.Fns {
		if w.PkgName(fn) != "bf" {
			continue
		}
		var bad []string
		allInstrs(fn, func(ins ssa.Instruction) {
			st, ok := ins.(*ssa.Store)
			if !ok {
				return
			}
			ia, ok := st.Addr.(*ssa.IndexAddr)
			if !ok {
				return
			}
			// element of an []int / [N]int that is itself (going to be) an element of a [][]int
			et := ia.X.Type()
			if p, ok := et.Underlying().(*types.Pointer); ok {
				et = p.Elem()
			}
			isIntSeq := false
			switch u := et.Underlying().(type) {
			case *types.Array:
				isIntSeq = typeShort(u.Elem()) == "int"
			case *types.Slice:
				isIntSeq = typeShort(u.Elem()) == "int"
			}
			if !isIntSeq {
				return
			}
			if _, isConst := st.Val.(*ssa.Const); !isConst {
				return
			}
			// does this int sequence flow into a [][]int ?
			flows := false
			seen := map[ssa.Value]bool{}
			var walk func(v ssa.Value, d int)
			walk = func(v ssa.Value, d int) {
				if v == nil || seen[v] || d > 6 || flows {
					return
				}
				seen[v] = true
				for _, ref := range *v.Referrers() {
					switch y := ref.(type) {
					case *ssa.Slice:
						walk(y, d+1)
					case *ssa.Store:
						if y.Val == v {
							if ia2, ok := y.Addr.(*ssa.IndexAddr); ok {
								t2 := ia2.X.Type()
								if p, ok := t2.Underlying().(*types.Pointer); ok {
									t2 = p.Elem()
								}
								switch u := t2.Underlying().(type) {
								case *types.Array:
									if typeShort(u.Elem()) == "[]int" {
										flows = true
									}
								case *types.Slice:
									if typeShort(u.Elem()) == "[]int" {
										flows = true
									}
								}
							}
						}
					case *ssa.Call:
						if typeShort(y.Type()) == "[][]int" {
							flows = true
						}
					}
				}
			}
			walk(ia.X, 0)
			if flows {
				bad = append(bad, "constant "+st.Val.Name()+" stored as a clause literal at "+w.InstrPos(st))
			}
		})
		if len(bad) > 0 {
			n++
			r.Bad("R12.2", w.FuncName(fn)+" clause literals", w.Pos(fn.Pos()), strings.Join(dedupe(bad), "; ")+": the literal was never handed out by the variable table, so the exported header does not count it and it can clash with a real variable")
		}
	}
	r.OK("R12.2", "package bf clause literals", "-", fmt.Sprintf("%d function(s) write constants into clauses", n))
}

// ---------- R13.7: a clause terminator always closes a clause ----------

func ruleR13_7(w *World, r *Report) {
	r.Rule("R13.7", "in solver.ParseCNF, on every path on which the integer just read is the terminator 0, a clause is appended to the problem before the reader goes on (also when the clause is empty: the empty clause makes the problem unsatisfiable)", 1)
	fn := w.Func("solver", "ParseCNF")
	if fn == nil {
		r.Unk("R13.7", "solver.ParseCNF", "-", "function not found")
		return
	}
	// the integer reader: a call returning (int, error) inside a loop
	readerIn := func(f *ssa.Function) *ssa.Call {
		var rd *ssa.Call
		for _, ci := range callsIn(f) {
			c, ok := ci.(*ssa.Call)
			if !ok || !inLoop(f, c.Block()) {
				continue
			}
			if tup, ok := c.Type().(*types.Tuple); ok && tup.Len() == 2 && typeShort(tup.At(0).Type()) == "int" && isErrorType(tup.At(1).Type()) && len(w.Callees[c]) > 0 {
				rd = c
			}
		}
		return rd
	}
	rd := readerIn(fn)
	key := "solver.ParseCNF terminator closes a clause"
	isClauseAppend := func(ins ssa.Instruction) bool {
		st, ok := ins.(*ssa.Store)
		if !ok || qualField(st.Addr) != "solver.Problem.Clauses" {
			return false
		}
		c, ok := st.Val.(*ssa.Call)
		if !ok {
			return false
		}
		b, ok := c.Call.Value.(*ssa.Builtin)
		return ok && b.Name() == "append"
	}
	if rd == nil {
		// the literals of one clause may be read by a helper (`lits, isClause, err := readClause(&b, r, n)`): the helper
		// must answer `a clause was read` (a boolean result that is true) on every path that met the terminator, and
		// the parser must append a clause whenever that answer is not known to be false
		for _, ci := range callsIn(fn) {
			hc, ok := ci.(*ssa.Call)
			h := ci.Common().StaticCallee()
			if !ok || h == nil || w.PkgName(h) != "solver" || h == fn || !inLoop(fn, hc.Block()) {
				continue
			}
			hrd := readerIn(h)
			if hrd == nil {
				continue
			}
			var hval ssa.Value
			for _, ref := range *hrd.Referrers() {
				if ex, ok := ref.(*ssa.Extract); ok && ex.Index == 0 {
					hval = ex
				}
			}
			if hval == nil {
				continue
			}
			nres := h.Signature.Results().Len()
			flagOK := make([]bool, nres)
			for i := 0; i < nres; i++ {
				flagOK[i] = typeShort(h.Signature.Results().At(i).Type()) == "bool"
			}
			tested, swallowed := false, map[string]bool{}
			exploreEdges(hrd.Block(), &pstate{phi: map[*ssa.Phi]ssa.Value{}, facts: map[string]string{}},
				func(b *ssa.BasicBlock) bool { return b == hrd.Block() },
				func(ins ssa.Instruction, st *pstate) {
					if ins == ssa.Instruction(hrd) {
						for k := range st.facts {
							delete(st.facts, k)
						}
						return
					}
					ret, isRet := ins.(*ssa.Return)
					if !isRet || st.facts[st.vkey(hval)] != "=0" || len(ret.Results) != nres || !isNilConst(ret.Results[nres-1]) {
						return
					}
					for i := 0; i < nres; i++ {
						k, isK := st.resolve(ret.Results[i]).(*ssa.Const)
						if !isK || k.Value == nil || k.Value.String() != "true" {
							flagOK[i] = false
						}
					}
				},
				func(from, to *ssa.BasicBlock, st *pstate) {
					if st.facts[st.vkey(hval)] == "=0" {
						tested = true
						if to == hrd.Block() {
							swallowed[w.InstrPos(from.Instrs[len(from.Instrs)-1])] = true
						}
					}
				})
			if !tested {
				r.Bad("R13.7", key, w.InstrPos(hrd), "the integer read is never compared with the terminator 0")
				return
			}
			if len(swallowed) > 0 {
				r.Bad("R13.7", key, w.InstrPos(hrd), "after a terminator 0 the helper "+w.FuncName(h)+" goes on reading the next integer into the same clause: two clauses are merged")
				return
			}
			bi := -1
			for i, okF := range flagOK {
				if okF {
					bi = i
				}
			}
			if bi < 0 {
				r.Bad("R13.7", key, w.InstrPos(hrd), "the helper "+w.FuncName(h)+" does not answer `a clause was read` (a boolean result that is true) on every path that met the terminator 0: an empty clause `0` is silently dropped and an unsatisfiable text is read as satisfiable")
				return
			}
			var flag ssa.Value
			for _, ref := range *hc.Referrers() {
				if ex, ok := ref.(*ssa.Extract); ok && ex.Index == bi {
					flag = ex
				}
			}
			missing := map[string]bool{}
			mayBeClause := func(st *pstate) bool {
				return flag == nil || st.facts["cond:"+st.vkey(flag)] != "=false"
			}
			exploreEdges(hc.Block(), &pstate{phi: map[*ssa.Phi]ssa.Value{}, facts: map[string]string{}},
				func(b *ssa.BasicBlock) bool { return b == hc.Block() },
				func(ins ssa.Instruction, st *pstate) {
					if ins == ssa.Instruction(hc) {
						for k := range st.facts {
							delete(st.facts, k)
						}
						st.facts["after"] = "yes"
						return
					}
					if st.facts["after"] != "yes" {
						return
					}
					if isClauseAppend(ins) {
						st.facts["appended"] = "yes"
					}
					if ret, ok := ins.(*ssa.Return); ok && st.facts["appended"] != "yes" && mayBeClause(st) && len(ret.Results) == 2 && isNilConst(ret.Results[1]) {
						missing[w.InstrPos(ret)] = true
					}
				},
				func(from, to *ssa.BasicBlock, st *pstate) {
					if st.facts["after"] == "yes" && to == hc.Block() && st.facts["appended"] != "yes" && mayBeClause(st) {
						missing[w.InstrPos(from.Instrs[len(from.Instrs)-1])] = true
					}
				})
			if len(missing) > 0 {
				var ps []string
				for p := range missing {
					ps = append(ps, p)
				}
				r.Bad("R13.7", key, w.InstrPos(hc), "after the helper "+w.FuncName(h)+" answered that a clause was read the parser can go on (reached "+strings.Join(sortedStrings(ps), ", ")+") without having appended a clause: an empty clause `0` is silently dropped and an unsatisfiable text is read as satisfiable")
			} else {
				r.OK("R13.7", key, w.InstrPos(hc), "the helper "+w.FuncName(h)+" answers true on every terminator and the parser appends a clause unless the answer is false")
			}
			return
		}
		r.Unk("R13.7", key, w.Pos(fn.Pos()), "no call reading an integer (int, error) inside a loop")
		return
	}
	var val ssa.Value
	for _, ref := range *rd.Referrers() {
		if ex, ok := ref.(*ssa.Extract); ok && ex.Index == 0 {
			val = ex
		}
	}
	if val == nil {
		r.Unk("R13.7", key, w.InstrPos(rd), "the integer read is not used")
		return
	}
	missing := map[string]bool{}
	tested := false
	exploreEdges(rd.Block(), &pstate{phi: map[*ssa.Phi]ssa.Value{}, facts: map[string]string{}},
		func(b *ssa.BasicBlock) bool { return b == rd.Block() },
		func(ins ssa.Instruction, st *pstate) {
			if ins == ssa.Instruction(rd) {
				for k := range st.facts {
					delete(st.facts, k)
				}
				return
			}
			if isClauseAppend(ins) {
				st.facts["appended"] = "yes"
			}
			if ret, ok := ins.(*ssa.Return); ok && st.facts[st.vkey(val)] == "=0" && st.facts["appended"] != "yes" {
				// returning an error is fine; returning the problem is not
				if len(ret.Results) == 2 && isNilConst(ret.Results[1]) {
					missing[w.InstrPos(ret)] = true
				}
			}
		},
		func(from, to *ssa.BasicBlock, st *pstate) {
			if st.facts[st.vkey(val)] == "=0" {
				tested = true
				// leaving for the next integer / next clause without having appended
				if (to == rd.Block() || !reachesBlock(to, rd.Block(), rd.Block())) && st.facts["appended"] != "yes" && to == rd.Block() {
					missing[w.InstrPos(from.Instrs[len(from.Instrs)-1])] = true
				}
			}
		})
	// paths that leave the inner loop (break) with val == 0 and no append: check the blocks after the loop too
	if !tested {
		r.Bad("R13.7", key, w.InstrPos(rd), "the integer read is never compared with the terminator 0")
		return
	}
	// second exploration: from the reader to the next execution of the reader through any path (outer loop)
	leaks := map[string]bool{}
	exploreEdges(rd.Block(), &pstate{phi: map[*ssa.Phi]ssa.Value{}, facts: map[string]string{}},
		nil,
		func(ins ssa.Instruction, st *pstate) {
			if ins == ssa.Instruction(rd) {
				if st.facts["zero"] == "pending" {
					leaks[w.InstrPos(rd)] = true
				}
				for k := range st.facts {
					delete(st.facts, k)
				}
				return
			}
			if st.facts[st.vkey(val)] == "=0" && st.facts["appended"] != "yes" {
				st.facts["zero"] = "pending"
			}
			if isClauseAppend(ins) {
				st.facts["appended"] = "yes"
				delete(st.facts, "zero")
			}
			if ret, ok := ins.(*ssa.Return); ok && st.facts["zero"] == "pending" && len(ret.Results) == 2 && isNilConst(ret.Results[1]) {
				leaks[w.InstrPos(ret)] = true
			}
		}, nil)
	for k := range leaks {
		missing[k] = true
	}
	if len(missing) > 0 {
		var ps []string
		for p := range missing {
			ps = append(ps, p)
		}
		r.Bad("R13.7", key, w.InstrPos(rd), "after a terminator 0 the reader can go on (reached "+strings.Join(sortedStrings(ps), ", ")+") without having appended a clause: an empty clause `0` is silently dropped and an unsatisfiable text is read as satisfiable")
	} else {
		r.OK("R13.7", key, w.InstrPos(rd), "every path with the integer == 0 appends a clause before the next read or the successful return")
	}
}

func reachesBlock(from, to, avoid *ssa.BasicBlock) bool {
	return reachableBlocks(from, true)[to]
}

// ---------- R8.7: the propagation method is only entered through the save/restore wrapper ----------

func ruleR8_7(w *World, r *Report) {
	r.Rule("R8.7", "the propagation method of explain.Problem, which writes the unit bindings, is called only by the RUP test that saves the bindings before and stores them back afterwards", 1)
	rup := rupTest(w)
	if rup == nil {
		r.Unk("R8.7", "RUP test", "-", "not found")
		return
	}
	var prop *ssa.Function
	for _, ci := range callsIn(rup) {
		for _, c := range w.Callees[ci] {
			if w.PkgName(c) == "explain" && c.Signature.Recv() != nil && w.effects().WritesAny(c, "explain.Problem.units") {
				prop = c
			}
		}
	}
	if prop == nil {
		r.Unk("R8.7", "propagation method", "-", "the RUP test calls no method that writes units")
		return
	}
	n := 0
	for _, cs := range w.Callers[prop] {
		n++
		caller := cs.Parent()
		key := fmt.Sprintf("call #%d of %s from %s", n, w.FuncName(prop), w.FuncName(caller))
		r.Check(caller == rup, "R8.7", key, w.InstrPos(cs), "inside the save/restore wrapper",
			"the propagation is run directly on the problem: its unit bindings (assumed negation, propagated literals) stay in the caller's problem, and later checks or extractions on the same problem start from polluted bindings")
	}
}
