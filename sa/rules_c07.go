package main

import (
	"fmt"
	"go/token"
	"go/types"
	"strings"

	"golang.org/x/tools/go/ssa"
)

func init() {
	register(&property{
		ID:          "C07",
		Explanation: "(R7.1) the caller's problem is left unchanged: no code reachable from the MUS / unsatisfiable-subset methods of *explain.Problem stores into storage that may belong to the receiver (its Clauses backing array, one of its clause arrays, NbVars, NbClauses) - whole-program storage-distance analysis with the receiver protected; accepted idioms: the private scratch fields units/tagged, and growth of Clauses under a deferred restoration; (R7.2) the error of a sub-extraction is tested before its result is used, and an error is propagated as a non-nil error with no problem.",
		NotDecided:  "unsatisfiability and minimality of the returned clause set, and that its clauses occur in the input (depend on the solver's answers).",
		Rules:       []ruleFn{ruleR7_1, ruleR7_2, ruleR7_3, ruleR7_4, ruleR13_10, ruleR8_2, ruleR8_3, ruleR8_6, ruleR8_7, ruleR8_8, ruleR8_9, ruleR9_4, ruleR9_5, ruleR9_6, ruleR9_8, ruleR9_12, ruleR8_10, ruleR10_1_3, ruleR10_4, ruleR10_5, ruleR13_13},
		Fixtures:    []func(*World) []string{fixtureR7_1},
	})
}

// extractionMethods: exported methods of *explain.Problem returning (*Problem, error).
func extractionMethods(w *World, pkg, typ string) []*ssa.Function {
	var out []*ssa.Function
	for _, fn := range w.Fns {
		if w.PkgName(fn) != pkg || fn.Signature.Recv() == nil || fn.Object() == nil || !fn.Object().Exported() {
			continue
		}
		if typeShort(fn.Signature.Recv().Type()) != "*"+pkg+"."+typ {
			continue
		}
		rs := fn.Signature.Results()
		if rs.Len() == 2 && typeShort(rs.At(0).Type()) == "*"+pkg+"."+typ && typeShort(rs.At(1).Type()) == "error" {
			out = append(out, fn)
		}
	}
	return out
}

func runRecvE4(w *World, methods []*ssa.Function) *e4 {
	prot := map[*ssa.Parameter]bool{}
	for _, m := range methods {
		prot[m.Params[0]] = true
	}
	// appending to a slice of the receiver writes into its spare capacity (and, for a clause that is a window on a
	// shared array, into the next clause): a sink like a store
	a := &e4{w: w, protParam: prot, inertGlobal: map[*ssa.Global]string{}, appendIsSink: true}
	a.run(w.Fns)
	return a
}

// defersRestorer: fn defers (in its entry block) a call of a restorer on its receiver.
func defersRestorer(w *World, fn *ssa.Function) bool {
	if len(fn.Blocks) == 0 {
		return false
	}
	for _, ins := range fn.Blocks[0].Instrs {
		if d, ok := ins.(*ssa.Defer); ok {
			for _, c := range w.Callees[d] {
				if isRestorer(c) {
					return true
				}
			}
		}
	}
	// an unexported helper every caller of which has deferred the restoration before it calls the helper
	if obj := fn.Object(); obj != nil && !obj.Exported() && fn.Parent() == nil && len(w.Callers[fn]) > 0 {
		for _, ci := range w.Callers[fn] {
			p := ci.Parent()
			if p == nil || p == fn || ci.Common().StaticCallee() != fn || len(p.Blocks) == 0 || ci.Block() != p.Blocks[0] {
				return false
			}
			before := false
			for _, ins := range p.Blocks[0].Instrs {
				if ins == ssa.Instruction(ci) {
					break
				}
				if d, ok := ins.(*ssa.Defer); ok {
					for _, c := range w.Callees[d] {
						if isRestorer(c) {
							before = true
						}
					}
				}
			}
			if !before {
				return false
			}
		}
		return true
	}
	return false
}

func ruleR7_1(w *World, r *Report) {
	r.Rule("R7.1", "no store reachable from an extraction method of *explain.Problem goes through a reference into the receiver's storage, except into the scratch fields units/tagged and the growth of Clauses that a deferred restore undoes", 5)
	ms := extractionMethods(w, "explain", "Problem")
	if len(ms) < 2 {
		r.Unk("R7.1", "extraction methods", "-", fmt.Sprintf("%d exported method(s) of *explain.Problem return (*Problem, error)", len(ms)))
		return
	}
	a := runRecvE4(w, ms)
	perFn := map[*ssa.Function][]string{}
	for _, k := range a.sortedSinks() {
		s := a.sinks[k]
		fields := chainFields(s.Chain)
		exempt := ""
		for _, f := range fields {
			if f == "units" || f == "tagged" {
				exempt = "private scratch field " + f + " (not observable by the caller)"
			}
		}
		if exempt == "" && s.Kind == "store" && strings.HasSuffix(s.Chain, ".Clauses") && !strings.Contains(s.Chain, "[") {
			// assignment of the Clauses field itself
			if isRestorer(s.Fn) {
				exempt = "the restoration itself"
			} else if defersRestorer(w, s.Fn) {
				exempt = "growth of Clauses undone by the deferred restore (R8.2)"
			}
		}
		if exempt == "" && s.Kind == "append" && strings.HasSuffix(s.Chain, ".Clauses)") && !strings.Contains(s.Chain, "[") && defersRestorer(w, s.Fn) {
			exempt = "growth of Clauses (append to the list itself) undone by the deferred restore (R8.2)"
		}
		key := "sink " + k
		if exempt != "" {
			r.OK("R7.1", key, w.InstrPos(s.Instr), "accepted: "+exempt)
		} else {
			r.Bad("R7.1", key, w.InstrPos(s.Instr), "writes storage that may belong to the caller's problem ("+s.Kind+" through "+s.Chain+"): the caller's clauses or counters change under its feet")
			perFn[s.Fn] = append(perFn[s.Fn], k)
		}
	}
	for _, m := range ms {
		reach := w.Reachable(m)
		var bad []string
		for fn, ks := range perFn {
			if reach[fn] {
				bad = append(bad, ks...)
			}
		}
		key := w.FuncName(m) + " leaves the receiver unchanged"
		if len(bad) > 0 {
			r.Bad("R7.1", key, w.Pos(m.Pos()), fmt.Sprintf("%d offending store(s) reachable: %s", len(bad), strings.Join(dedupe(bad), " ;; ")))
		} else {
			r.OK("R7.1", key, w.Pos(m.Pos()), fmt.Sprintf("%d functions reachable, no store into the receiver's storage", len(reach)))
		}
	}
}

func fixtureR7_1(fw *World) []string {
	var fails []string
	ms := extractionMethods(fw, "recvmut", "Problem")
	if len(ms) == 0 {
		return []string{"R7.1 fixture: no extraction methods in package recvmut"}
	}
	a := runRecvE4(fw, ms)
	hit := func(name string) bool {
		for k, s := range a.sinks {
			_ = k
			if s.Fn.Name() == name {
				return true
			}
		}
		return false
	}
	for _, n := range []string{"BadShallow", "BadDirect", "BadCounter", "badHelper"} {
		if !hit(n) {
			fails = append(fails, "R7.1 fixture: expected a sink in "+n)
		}
	}
	for _, n := range []string{"GoodClone", "GoodSubset", "GoodRead"} {
		if hit(n) {
			fails = append(fails, "R7.1 fixture: unexpected sink in "+n)
		}
	}
	return fails
}

// ---------- R7.2 ----------

func ruleR7_2(w *World, r *Report) {
	r.Rule("R7.2", "in package explain, a result returned together with an error is dereferenced only on the path where the error was found nil; extraction methods propagate a sub-extraction's error as (nil, non-nil error)", 3)
	for _, fn := range w.Fns {
		if w.PkgName(fn) != "explain" {
			continue
		}
		n := 0
		for _, ci := range callsIn(fn) {
			call, ok := ci.(*ssa.Call)
			if !ok {
				continue
			}
			tup, ok := call.Type().(*types.Tuple)
			if !ok || tup.Len() < 2 || !isErrorType(tup.At(tup.Len()-1).Type()) {
				continue
			}
			if len(*call.Referrers()) == 0 {
				continue // results entirely unused (fmt.Printf)
			}
			n++
			key := fmt.Sprintf("%s checks the error of call #%d (%s)", w.FuncName(fn), n, w.calleeName(&call.Call))
			var errV ssa.Value
			var others []*ssa.Extract
			for _, rr := range *call.Referrers() {
				if ex, ok := rr.(*ssa.Extract); ok {
					if ex.Index == tup.Len()-1 {
						errV = ex
					} else {
						others = append(others, ex)
					}
				}
			}
			// uses of the other results that dereference them
			var derefs []ssa.Instruction
			for _, ex := range others {
				if !refBearing(ex.Type()) {
					continue
				}
				for _, u := range *ex.Referrers() {
					switch y := u.(type) {
					case *ssa.FieldAddr, *ssa.IndexAddr, *ssa.Lookup:
						derefs = append(derefs, u)
					case *ssa.UnOp:
						if y.Op == token.MUL {
							derefs = append(derefs, u)
						}
					case *ssa.Call:
						// method call on the result / passing it on: treat as a use that needs a valid value
						if y.Call.IsInvoke() || (len(y.Call.Args) > 0 && y.Call.Args[0] == ssa.Value(ex) && y.Call.Signature().Recv() != nil) {
							derefs = append(derefs, u)
						}
					}
				}
			}
			if len(derefs) == 0 {
				r.OK("R7.2", key, w.InstrPos(call), "no other result is dereferenced")
				continue
			}
			if errV == nil {
				r.Bad("R7.2", key, w.InstrPos(call), "the error is discarded and another result is dereferenced at "+w.InstrPos(derefs[0]))
				continue
			}
			var bad []string
			for _, d := range derefs {
				okd := false
				for _, ec := range dominatingConds(d.Block()) {
					bo, ok := ec.Cond.(*ssa.BinOp)
					if !ok || (bo.Op != token.EQL && bo.Op != token.NEQ) {
						continue
					}
					if !((bo.X == errV && isNilConst(bo.Y)) || (bo.Y == errV && isNilConst(bo.X))) {
						continue
					}
					errIsNil := (bo.Op == token.EQL) == ec.True
					if errIsNil {
						okd = true
					}
				}
				if !okd {
					bad = append(bad, "a result is dereferenced at "+w.InstrPos(d)+" on a path where the error has not been found nil")
				}
			}
			if len(bad) > 0 {
				r.Bad("R7.2", key, w.InstrPos(call), strings.Join(dedupe(bad), "; "))
			} else {
				r.OK("R7.2", key, w.InstrPos(call), fmt.Sprintf("%d dereference(s), all under err == nil", len(derefs)))
			}
		}
	}
	// propagation in extraction methods
	ms := extractionMethods(w, "explain", "Problem")
	isM := map[*ssa.Function]bool{}
	for _, m := range ms {
		isM[m] = true
	}
	for _, m := range ms {
		for _, ci := range callsIn(m) {
			call, ok := ci.(*ssa.Call)
			if !ok || len(w.Callees[call]) != 1 || !isM[w.Callees[call][0]] {
				continue
			}
			key := fmt.Sprintf("%s propagates the error of %s", w.FuncName(m), w.FuncName(w.Callees[call][0]))
			var errV ssa.Value
			for _, rr := range *call.Referrers() {
				if ex, ok := rr.(*ssa.Extract); ok && ex.Index == 1 {
					errV = ex
				}
			}
			if errV == nil {
				// tail call `return pb.MUSDeletion()` returns the tuple as is
				allTail := true
				for _, rr := range *call.Referrers() {
					if _, ok := rr.(*ssa.Return); !ok {
						if ex, ok := rr.(*ssa.Extract); ok {
							for _, r2 := range *ex.Referrers() {
								if _, ok := r2.(*ssa.Return); !ok {
									allTail = false
								}
							}
						} else {
							allTail = false
						}
					}
				}
				r.Check(allTail, "R7.2", key, w.InstrPos(call), "results returned unchanged", "the error of the sub-extraction is dropped")
				continue
			}
			var bad []string
			found := false
			allInstrs(m, func(ins ssa.Instruction) {
				ret, ok := ins.(*ssa.Return)
				if !ok || len(ret.Results) != 2 {
					return
				}
				// is this return on the err != nil edge?
				for _, ec := range dominatingConds(ret.Block()) {
					bo, ok := ec.Cond.(*ssa.BinOp)
					if !ok || (bo.Op != token.EQL && bo.Op != token.NEQ) {
						continue
					}
					if !((bo.X == errV && isNilConst(bo.Y)) || (bo.Y == errV && isNilConst(bo.X))) {
						continue
					}
					if (bo.Op == token.NEQ) == ec.True {
						found = true
						if !isNilConst(ret.Results[0]) {
							bad = append(bad, "a problem is returned together with the error at "+w.InstrPos(ret))
						}
						if isNilConst(ret.Results[1]) {
							bad = append(bad, "the error is swallowed at "+w.InstrPos(ret)+" (nil error returned on the error path)")
						}
					}
				}
			})
			if !found {
				// tuple may be returned directly
				direct := false
				for _, rr := range *errV.Referrers() {
					if _, ok := rr.(*ssa.Return); ok {
						direct = true
					}
				}
				if !direct {
					bad = append(bad, "no return on the err != nil path: the error of the sub-extraction is ignored")
				}
			}
			if len(bad) > 0 {
				r.Bad("R7.2", key, w.InstrPos(call), strings.Join(dedupe(bad), "; "))
			} else {
				r.OK("R7.2", key, w.InstrPos(call), "error path returns (nil, non-nil error)")
			}
		}
	}
}
