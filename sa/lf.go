package main

import (
	"fmt"
	"go/token"
	"sort"
	"strings"

	"golang.org/x/tools/go/ssa"
)

// Integer linear forms over SSA values (part of engine E8): c0 + sum ci*atom_i. Atoms are canonical names of
// SSA values that are not themselves +,-,*const,negation: parameters, phis, loads (by address chain), len(x).

type linForm struct {
	c     int64
	terms map[string]int64
}

func (l linForm) String() string {
	var ks []string
	for k, v := range l.terms {
		if v != 0 {
			ks = append(ks, fmt.Sprintf("%+d*%s", v, k))
		}
	}
	sort.Strings(ks)
	return fmt.Sprintf("%d%s", l.c, strings.Join(ks, ""))
}

func (l linForm) equal(o linForm) bool { return l.String() == o.String() }

func lfAdd(a, b linForm, sign int64) linForm {
	out := linForm{c: a.c + sign*b.c, terms: map[string]int64{}}
	for k, v := range a.terms {
		out.terms[k] += v
	}
	for k, v := range b.terms {
		out.terms[k] += sign * v
	}
	return out
}

func lfScale(a linForm, k int64) linForm {
	out := linForm{c: a.c * k, terms: map[string]int64{}}
	for n, v := range a.terms {
		out.terms[n] = v * k
	}
	return out
}

// lfAtom names a value: len(x) by the name of x, loads by address chain, everything else by register name.
func lfAtom(v ssa.Value) string {
	switch x := v.(type) {
	case *ssa.Call:
		if b, ok := x.Call.Value.(*ssa.Builtin); ok && b.Name() == "len" {
			return "len(" + lfAtom(x.Call.Args[0]) + ")"
		}
	case *ssa.UnOp:
		if x.Op == token.MUL {
			return "*" + chainOf(x.X)
		}
	case *ssa.Parameter:
		return "P:" + x.Name()
	case *ssa.Slice:
		if x.Low == nil && x.High == nil {
			return lfAtom(x.X)
		}
	}
	return v.Name()
}

// lfOf computes the linear form of an integer SSA value.
func lfOf(v ssa.Value, depth int) linForm {
	if k, ok := constInt(v); ok {
		return linForm{c: k, terms: map[string]int64{}}
	}
	if depth < 12 {
		switch x := v.(type) {
		case *ssa.BinOp:
			switch x.Op {
			case token.ADD:
				return lfAdd(lfOf(x.X, depth+1), lfOf(x.Y, depth+1), 1)
			case token.SUB:
				return lfAdd(lfOf(x.X, depth+1), lfOf(x.Y, depth+1), -1)
			case token.MUL:
				if k, ok := constInt(x.Y); ok {
					return lfScale(lfOf(x.X, depth+1), k)
				}
				if k, ok := constInt(x.X); ok {
					return lfScale(lfOf(x.Y, depth+1), k)
				}
			}
		case *ssa.UnOp:
			if x.Op == token.SUB {
				return lfScale(lfOf(x.X, depth+1), -1)
			}
		case *ssa.Convert:
			return lfOf(x.X, depth+1)
		case *ssa.ChangeType:
			return lfOf(x.X, depth+1)
		}
	}
	return linForm{terms: map[string]int64{lfAtom(v): 1}}
}

// isNegOfLoad: v == -(load of addr')) where addr' indexes slice s at index idx.
func isNegOfElem(v ssa.Value, s, idx ssa.Value) bool {
	u, ok := v.(*ssa.UnOp)
	if !ok || u.Op != token.SUB {
		return false
	}
	return isElemLoad(u.X, s, idx)
}

// isElemLoad: v == s[idx].
func isElemLoad(v ssa.Value, s, idx ssa.Value) bool {
	ld, ok := v.(*ssa.UnOp)
	if !ok || ld.Op != token.MUL {
		return false
	}
	ia, ok := ld.X.(*ssa.IndexAddr)
	return ok && ia.X == s && ia.Index == idx
}

// lfOfEnv is lfOf with the phis of env replaced by the forms they received on the path walked.
func lfOfEnv(v ssa.Value, env map[*ssa.Phi]linForm, depth int) linForm {
	if p, ok := v.(*ssa.Phi); ok {
		if f, ok := env[p]; ok {
			return f
		}
	}
	if k, ok := constInt(v); ok {
		return linForm{c: k, terms: map[string]int64{}}
	}
	if depth < 12 {
		switch x := v.(type) {
		case *ssa.BinOp:
			switch x.Op {
			case token.ADD:
				return lfAdd(lfOfEnv(x.X, env, depth+1), lfOfEnv(x.Y, env, depth+1), 1)
			case token.SUB:
				return lfAdd(lfOfEnv(x.X, env, depth+1), lfOfEnv(x.Y, env, depth+1), -1)
			case token.MUL:
				if k, ok := constInt(x.Y); ok {
					return lfScale(lfOfEnv(x.X, env, depth+1), k)
				}
				if k, ok := constInt(x.X); ok {
					return lfScale(lfOfEnv(x.Y, env, depth+1), k)
				}
			}
		case *ssa.UnOp:
			if x.Op == token.SUB {
				return lfScale(lfOfEnv(x.X, env, depth+1), -1)
			}
		case *ssa.Convert:
			return lfOfEnv(x.X, env, depth+1)
		case *ssa.ChangeType:
			return lfOfEnv(x.X, env, depth+1)
		}
	}
	return linForm{terms: map[string]int64{lfAtom(v): 1}}
}

// nextIterationForms walks every acyclic path from block start to the header of loop variable I (a phi of the
// header) and returns, as linear forms over the values of the current iteration, what I receives for the next one.
// complete is false when the walk was cut (too many paths).
func nextIterationForms(I *ssa.Phi, start *ssa.BasicBlock) (forms []linForm, complete bool) {
	header := I.Block()
	complete = true
	budget := 4096
	var walk func(b *ssa.BasicBlock, env map[*ssa.Phi]linForm, onPath map[*ssa.BasicBlock]bool)
	walk = func(b *ssa.BasicBlock, env map[*ssa.Phi]linForm, onPath map[*ssa.BasicBlock]bool) {
		if budget--; budget < 0 {
			complete = false
			return
		}
		for _, to := range b.Succs {
			pi := -1
			for i, p := range to.Preds {
				if p == b {
					pi = i
				}
			}
			if to == header {
				if pi >= 0 {
					forms = append(forms, lfOfEnv(I.Edges[pi], env, 0))
				}
				continue
			}
			if onPath[to] {
				continue
			}
			env2 := map[*ssa.Phi]linForm{}
			for k, v := range env {
				env2[k] = v
			}
			for _, ins := range to.Instrs {
				phi, ok := ins.(*ssa.Phi)
				if !ok {
					break
				}
				if pi >= 0 {
					env2[phi] = lfOfEnv(phi.Edges[pi], env, 0)
				}
			}
			onPath[to] = true
			walk(to, env2, onPath)
			delete(onPath, to)
		}
	}
	walk(start, map[*ssa.Phi]linForm{}, map[*ssa.BasicBlock]bool{start: true})
	return forms, complete
}
