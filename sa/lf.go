package main

import (
	"fmt"
	"go/token"
	"sort"
	"strings"

	"golang.org/x/tools/go/ssa"
)

// Integer linear forms over SSA values (part of engine E8): c0 + sum ci*atom_i. Atoms are canonical names of
// SSA values that are not themselves +,-,*const,negation: parameters, phis, loads (by address chain), len(x).

type linForm struct {
	c     int64
	terms map[string]int64
}

func (l linForm) String() string {
	var ks []string
	for k, v := range l.terms {
		if v != 0 {
			ks = append(ks, fmt.Sprintf("%+d*%s", v, k))
		}
	}
	sort.Strings(ks)
	return fmt.Sprintf("%d%s", l.c, strings.Join(ks, ""))
}

func (l linForm) equal(o linForm) bool { return l.String() == o.String() }

func lfAdd(a, b linForm, sign int64) linForm {
	out := linForm{c: a.c + sign*b.c, terms: map[string]int64{}}
	for k, v := range a.terms {
		out.terms[k] += v
	}
	for k, v := range b.terms {
		out.terms[k] += sign * v
	}
	return out
}

func lfScale(a linForm, k int64) linForm {
	out := linForm{c: a.c * k, terms: map[string]int64{}}
	for n, v := range a.terms {
		out.terms[n] = v * k
	}
	return out
}

// lfAtom names a value: len(x) by the name of x, loads by address chain, everything else by register name.
func lfAtom(v ssa.Value) string {
	switch x := v.(type) {
	case *ssa.Call:
		if b, ok := x.Call.Value.(*ssa.Builtin); ok && b.Name() == "len" {
			return "len(" + lfAtom(x.Call.Args[0]) + ")"
		}
	case *ssa.UnOp:
		if x.Op == token.MUL {
			return "*" + chainOf(x.X)
		}
	case *ssa.Parameter:
		return "P:" + x.Name()
	case *ssa.Slice:
		if x.Low == nil && x.High == nil {
			return lfAtom(x.X)
		}
	}
	return v.Name()
}

// lfOf computes the linear form of an integer SSA value.
func lfOf(v ssa.Value, depth int) linForm {
	if k, ok := constInt(v); ok {
		return linForm{c: k, terms: map[string]int64{}}
	}
	if depth < 12 {
		switch x := v.(type) {
		case *ssa.BinOp:
			switch x.Op {
			case token.ADD:
				return lfAdd(lfOf(x.X, depth+1), lfOf(x.Y, depth+1), 1)
			case token.SUB:
				return lfAdd(lfOf(x.X, depth+1), lfOf(x.Y, depth+1), -1)
			case token.MUL:
				if k, ok := constInt(x.Y); ok {
					return lfScale(lfOf(x.X, depth+1), k)
				}
				if k, ok := constInt(x.X); ok {
					return lfScale(lfOf(x.Y, depth+1), k)
				}
			}
		case *ssa.UnOp:
			if x.Op == token.SUB {
				return lfScale(lfOf(x.X, depth+1), -1)
			}
		case *ssa.Convert:
			return lfOf(x.X, depth+1)
		case *ssa.ChangeType:
			return lfOf(x.X, depth+1)
		}
	}
	return linForm{terms: map[string]int64{lfAtom(v): 1}}
}

// isNegOfLoad: v == -(load of addr')) where addr' indexes slice s at index idx.
func isNegOfElem(v ssa.Value, s, idx ssa.Value) bool {
	u, ok := v.(*ssa.UnOp)
	if !ok || u.Op != token.SUB {
		return false
	}
	return isElemLoad(u.X, s, idx)
}

// isElemLoad: v == s[idx].
func isElemLoad(v ssa.Value, s, idx ssa.Value) bool {
	ld, ok := v.(*ssa.UnOp)
	if !ok || ld.Op != token.MUL {
		return false
	}
	ia, ok := ld.X.(*ssa.IndexAddr)
	return ok && ia.X == s && ia.Index == idx
}
