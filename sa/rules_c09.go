package main

import (
	"fmt"
	"go/constant"
	"go/token"
	"go/types"
	"sort"
	"strings"

	"golang.org/x/tools/go/ssa"
)

func init() {
	register(&property{
		ID:          "C09",
		Explanation: "(a) every per-variable table of the solver (discovered from the constructor's allocations and from indexing by Var/Lit) is grown, by the right number of elements per new variable, by every function that raises the variable count, the count is raised last and views built from a table are rebuilt after its growth; (b) in AppendClause a literal's variable is announced before the literal is used; (c) Unsat is absorbing: code reachable from AppendClause only ever stores Unsat into the status and Solve returns at once on Unsat; (d) AppendClause keeps its lower/upper weight bounds by the three-valued rule (true: both, false: none, unbound: upper only); (e) every forced literal of an added constraint is bound and propagated; (f) the published model is re-allocated from the current variable set on every Sat answer (R1.5).",
		NotDecided:  "equivalence of incremental solving with solving from scratch (depends on the search history and on the simplification arithmetic of AppendClause).",
		Rules:       []ruleFn{ruleR9_1, ruleR9_2, ruleR9_3, ruleR9_4, ruleR9_5, ruleR9_6, ruleR9_7, ruleR9_8, ruleR9_9, ruleR9_10, ruleR9_11, ruleR9_12, ruleR9_13, ruleR9_14, ruleR1_5, ruleR2_2},
	})
}

// statusConst returns the integer value of the named solver.Status constant.
func (w *World) statusConst(name string) (int64, bool) {
	p := w.ByName["solver"]
	if p == nil {
		return 0, false
	}
	c, ok := p.Types.Scope().Lookup(name).(*types.Const)
	if !ok {
		return 0, false
	}
	v, ok := constant.Int64Val(c.Val())
	return v, ok
}

// qualField names a field address "pkg.Type.field" ("" if not a field address).
func qualField(v ssa.Value) string {
	o, f, _, ok := fieldOf(v)
	if !ok {
		return ""
	}
	return o + "." + f
}

// isCountValue: v is (a copy of) the variable count: a load of Solver.nbVars or Problem.NbVars.
func isCountValue(v ssa.Value) bool {
	u, ok := v.(*ssa.UnOp)
	if !ok || u.Op != token.MUL {
		return false
	}
	q := qualField(u.X)
	return q == "solver.Solver.nbVars" || q == "solver.Problem.NbVars"
}

// countMultiple returns k when v = k * count (k in {1,2,..}), 0 otherwise.
func countMultiple(v ssa.Value) int64 {
	if isCountValue(v) {
		return 1
	}
	if b, ok := v.(*ssa.BinOp); ok && b.Op == token.MUL {
		if k, ok := constInt(b.Y); ok && isCountValue(b.X) {
			return k
		}
		if k, ok := constInt(b.X); ok && isCountValue(b.Y) {
			return k
		}
	}
	if b, ok := v.(*ssa.BinOp); ok && b.Op == token.SHL {
		if k, ok := constInt(b.Y); ok && isCountValue(b.X) {
			return 1 << uint(k)
		}
	}
	return 0
}

type perVarField struct {
	Name   string // pkg.Type.field
	Mult   int64  // elements per variable (0 when unknown: discovered by indexing only)
	Why    string
	Exempt string
}

// perVarFields discovers the per-variable tables of the solver.
func perVarFields(w *World) (map[string]*perVarField, []string) {
	out := map[string]*perVarField{}
	var notes []string
	ctor := w.Func("solver", "New")
	if ctor == nil {
		return nil, []string{"constructor solver.New not found"}
	}
	// (a) allocations of the constructor (and what it calls) with a length linear in the variable count
	for fn := range w.Reachable(ctor) {
		if w.PkgName(fn) != "solver" {
			continue
		}
		allInstrs(fn, func(ins ssa.Instruction) {
			st, ok := ins.(*ssa.Store)
			if !ok {
				return
			}
			q := qualField(st.Addr)
			if !strings.HasPrefix(q, "solver.Solver.") && !strings.HasPrefix(q, "solver.watcherList.") {
				return
			}
			if mk, ok := st.Val.(*ssa.MakeSlice); ok {
				if k := countMultiple(mk.Len); k > 0 {
					if old := out[q]; old == nil || old.Mult == 0 {
						out[q] = &perVarField{Name: q, Mult: k, Why: fmt.Sprintf("allocated by %s with %d element(s) per variable", w.FuncName(fn), k)}
					}
				}
			}
		})
	}
	// (b) fields indexed by a Var or a Lit anywhere in the package
	for _, fn := range w.Fns {
		if w.PkgName(fn) != "solver" {
			continue
		}
		allInstrs(fn, func(ins ssa.Instruction) {
			ia, ok := ins.(*ssa.IndexAddr)
			if !ok {
				return
			}
			idxT := ia.Index.Type()
			if c, ok := ia.Index.(*ssa.Convert); ok {
				idxT = c.X.Type()
			}
			tn := typeShort(idxT)
			if tn != "solver.Var" && tn != "solver.Lit" {
				return
			}
			u, ok := ia.X.(*ssa.UnOp)
			if !ok || u.Op != token.MUL {
				return
			}
			q := qualField(u.X)
			if !strings.HasPrefix(q, "solver.Solver.") && !strings.HasPrefix(q, "solver.watcherList.") {
				return
			}
			if out[q] == nil {
				out[q] = &perVarField{Name: q, Mult: 0, Why: "indexed by a " + tn + " in " + w.FuncName(fn)}
			}
		})
	}
	// exemption by usage: a table whose loaded value is only ever re-sliced to [:0] or appended to (scratch buffer)
	for q, f := range out {
		parts := strings.Split(q, ".")
		owner, field := parts[0]+"."+parts[1], parts[2]
		scratch := true
		uses := 0
		for _, fn := range w.Fns {
			allInstrs(fn, func(ins ssa.Instruction) {
				u, ok := ins.(*ssa.UnOp)
				if !ok || u.Op != token.MUL {
					return
				}
				if o, fl, _, ok := fieldOf(u.X); !ok || o != owner || fl != field {
					return
				}
				for _, r := range *u.Referrers() {
					uses++
					switch y := r.(type) {
					case *ssa.Slice:
						if hi, ok := constInt(y.High); !ok || hi != 0 {
							scratch = false
						}
					case *ssa.Call:
						if b, ok := y.Call.Value.(*ssa.Builtin); !ok || b.Name() != "append" || y.Call.Args[0] != u {
							scratch = false
						}
					case *ssa.DebugRef:
					default:
						scratch = false
					}
				}
			})
		}
		if scratch && uses > 0 {
			f.Exempt = "only ever used as x[:0] scratch space and appended to: its length is irrelevant"
		}
	}
	return out, notes
}

// growthSites finds, in fn, stores `F = append(load F, k elements)` or `F = make(T, multiple of count)`.
type growthSite struct {
	Field string
	Elems int64 // elements appended per execution (0: re-made from the count)
	Store *ssa.Store
	Fn    *ssa.Function
}

func growthSites(fn *ssa.Function) []growthSite {
	var out []growthSite
	allInstrs(fn, func(ins ssa.Instruction) {
		st, ok := ins.(*ssa.Store)
		if !ok {
			return
		}
		q := qualField(st.Addr)
		if q == "" {
			return
		}
		switch v := st.Val.(type) {
		case *ssa.Call:
			b, ok := v.Call.Value.(*ssa.Builtin)
			if !ok || b.Name() != "append" || len(v.Call.Args) != 2 {
				return
			}
			src, ok := v.Call.Args[0].(*ssa.UnOp)
			if !ok || src.Op != token.MUL || qualField(src.X) != q {
				return
			}
			// number of appended elements: slice of a varargs array
			n := int64(-1)
			if sl, ok := v.Call.Args[1].(*ssa.Slice); ok {
				if al, ok := sl.X.(*ssa.Alloc); ok {
					if at, ok := al.Type().Underlying().(*types.Pointer).Elem().Underlying().(*types.Array); ok {
						n = at.Len()
					}
				}
			}
			// bulk growth: append(F, make(T, k*(newCount - oldCount))...) with oldCount the current variable count
			if mk, ok := v.Call.Args[1].(*ssa.MakeSlice); ok {
				lf := lfOf(mk.Len, 0)
				var k int64
				okBulk := lf.c == 0
				pos, neg := int64(0), int64(0)
				for name, c := range lf.terms {
					switch {
					case c == 0:
					case strings.Contains(name, "nbVars") && c < 0:
						neg = -c
					case c > 0 && pos == 0:
						pos = c
					default:
						okBulk = false
					}
				}
				if okBulk && pos > 0 && pos == neg {
					k = pos
					out = append(out, growthSite{q, -k, st, fn}) // negative: bulk growth by k per new variable
					return
				}
			}
			out = append(out, growthSite{q, n, st, fn})
		case *ssa.MakeSlice:
			if countMultiple(v.Len) > 0 {
				out = append(out, growthSite{q, 0, st, fn})
			}
		}
	})
	return out
}

func ruleR9_1(w *World, r *Report) {
	r.Rule("R9.1", "every function other than the constructor that raises Solver.nbVars grows every per-variable table (by the constructor's number of elements per variable, inside a loop over the new variables), raises the count only after all growth, and rebuilds views derived from a table after the table has grown", 11)
	fields, notes := perVarFields(w)
	if fields == nil {
		r.Unk("R9.1", "per-variable tables", "-", strings.Join(notes, "; "))
		return
	}
	ctor := w.Func("solver", "New")
	inCtor := w.Reachable(ctor)
	var growers []*ssa.Function
	for _, fn := range w.Fns {
		if w.PkgName(fn) != "solver" || fn == ctor {
			continue
		}
		if len(storesToField(fn, "solver.Solver", "nbVars")) > 0 {
			growers = append(growers, fn)
		}
	}
	_ = inCtor
	if len(growers) == 0 {
		r.Unk("R9.1", "growers", "-", "no function other than the constructor stores Solver.nbVars: the anchor of the rule is gone")
		return
	}
	var names []string
	for q := range fields {
		names = append(names, q)
	}
	sort.Strings(names)
	for _, g := range growers {
		reach := w.Reachable(g)
		var sites []growthSite
		for fn := range reach {
			sites = append(sites, growthSites(fn)...)
		}
		cntStores := storesToField(g, "solver.Solver", "nbVars")
		for _, q := range names {
			f := fields[q]
			key := fmt.Sprintf("%s grows %s", w.FuncName(g), strings.TrimPrefix(q, "solver."))
			if f.Exempt != "" {
				r.OK("R9.1", key, w.Pos(g.Pos()), "exempt: "+f.Exempt)
				continue
			}
			var mine []growthSite
			for _, s := range sites {
				if s.Field == q {
					mine = append(mine, s)
				}
			}
			if len(mine) == 0 {
				r.Bad("R9.1", key, w.Pos(g.Pos()), fmt.Sprintf("table %s (%s) is not grown when the variable count is raised: indexing it with a new variable is out of range", q, f.Why))
				continue
			}
			var bad []string
			for _, s := range mine {
				if s.Elems < -1 || bulkOne(s) {
					// bulk growth by -Elems elements per new variable: no loop needed
					if f.Mult > 0 && -s.Elems != f.Mult {
						bad = append(bad, fmt.Sprintf("the bulk growth at %s adds %d element(s) per variable, the constructor allocates %d", w.InstrPos(s.Store), -s.Elems, f.Mult))
					}
				} else if s.Elems != 0 {
					if !w.repeatedUnder(g, s.Fn, s.Store, 0) {
						bad = append(bad, "the append at "+w.InstrPos(s.Store)+" is not inside a loop over the new variables")
					}
					if f.Mult > 0 && s.Elems != f.Mult {
						bad = append(bad, fmt.Sprintf("the append at %s adds %d element(s) per variable, the constructor allocates %d", w.InstrPos(s.Store), s.Elems, f.Mult))
					}
				}
				// the count must be raised after the growth: a growth site must not be reachable from the count store
				for _, cs := range cntStores {
					if s.Fn == g {
						if instrReachableFrom(cs, s.Store) {
							bad = append(bad, "growth at "+w.InstrPos(s.Store)+" can run after the count was raised at "+w.InstrPos(cs)+" (its loop starts from the count)")
						}
					} else {
						// growth in a callee: the call must not be reachable from the count store
						for _, ci := range callsIn(g) {
							if ci == nil {
								continue
							}
							for _, c := range w.Callees[ci] {
								if w.Reachable(c)[s.Fn] && instrReachableFrom(cs, ci) {
									bad = append(bad, "growth in "+w.FuncName(s.Fn)+" is called at "+w.InstrPos(ci)+" after the count was raised at "+w.InstrPos(cs))
								}
							}
						}
					}
				}
			}
			if len(bad) > 0 {
				r.Bad("R9.1", key, w.InstrPos(mine[0].Store), strings.Join(dedupe(bad), "; "))
			} else {
				r.OK("R9.1", key, w.InstrPos(mine[0].Store), f.Why)
			}
		}
		// views: a field assigned from a call taking a per-variable table must be re-assigned after the table's growth
		allInstrs(ctor, func(ins ssa.Instruction) {
			st, ok := ins.(*ssa.Store)
			if !ok {
				return
			}
			vq := qualField(st.Addr)
			call, ok := st.Val.(*ssa.Call)
			if !ok || vq == "" || len(w.Callees[call]) == 0 {
				return
			}
			for _, a := range call.Call.Args {
				u, ok := a.(*ssa.UnOp)
				if !ok || u.Op != token.MUL {
					continue
				}
				tq := qualField(u.X)
				if fields[tq] == nil {
					continue
				}
				key := fmt.Sprintf("%s rebuilds view %s of %s", w.FuncName(g), strings.TrimPrefix(vq, "solver."), strings.TrimPrefix(tq, "solver."))
				// find the same assignment in the grower
				var rebuilt *ssa.Store
				for fn := range reach {
					allInstrs(fn, func(i2 ssa.Instruction) {
						s2, ok := i2.(*ssa.Store)
						if !ok || qualField(s2.Addr) != vq {
							return
						}
						if c2, ok := s2.Val.(*ssa.Call); ok && len(w.Callees[c2]) > 0 && w.Callees[c2][0] == w.Callees[call][0] {
							rebuilt = s2
						}
					})
				}
				if rebuilt == nil {
					r.Bad("R9.1", key, w.Pos(g.Pos()), fmt.Sprintf("the constructor builds %s from %s by %s; the grower does not rebuild it, so it keeps the old, shorter table", vq, tq, w.FuncName(w.Callees[call][0])))
					continue
				}
				late := ""
				for _, s := range sites {
					if s.Field == tq && s.Fn == rebuilt.Parent() && instrReachableFrom(rebuilt, s.Store) {
						late = "table " + tq + " is grown at " + w.InstrPos(s.Store) + " after the view was rebuilt at " + w.InstrPos(rebuilt)
					}
				}
				if late != "" {
					r.Bad("R9.1", key, w.InstrPos(rebuilt), late)
				} else {
					r.OK("R9.1", key, w.InstrPos(rebuilt), "rebuilt after the last growth of the table")
				}
			}
		})
	}
}

// R9.2: in AppendClause the variable of each literal is announced (grower called) before the literal is used.
// appendClauseScanFn: the function that holds AppendClause's scan over the literals of the new constraint: AppendClause
// itself, or the one helper it hands the constraint to (`minW, maxW := s.removeBoundLits(clause)`). via is the call.
func appendClauseScanFn(w *World) (scan *ssa.Function, via *ssa.Call) {
	fn := w.Func("solver", "Solver.AppendClause")
	if fn == nil {
		return nil, nil
	}
	hasScan := func(f *ssa.Function) bool {
		for _, ci := range callsIn(f) {
			if c, ok := ci.(*ssa.Call); ok && typeShort(c.Type()) == "solver.Status" && inLoop(f, c.Block()) {
				return true
			}
		}
		return false
	}
	if hasScan(fn) {
		return fn, nil
	}
	if len(fn.Params) < 2 {
		return fn, nil
	}
	clause := fn.Params[1]
	var found *ssa.Function
	var at *ssa.Call
	for _, ci := range callsIn(fn) {
		c, ok := ci.(*ssa.Call)
		if !ok {
			continue
		}
		g := c.Call.StaticCallee()
		if g == nil || len(g.Blocks) == 0 || w.PkgName(g) != "solver" {
			continue
		}
		passes := false
		for _, a := range c.Call.Args {
			// the constraint itself, or what a normalising step made of it
			if a == ssa.Value(clause) || typeShort(a.Type()) == "*solver.Clause" {
				passes = true
			}
		}
		if passes && hasScan(g) {
			if found != nil {
				return fn, nil
			}
			found, at = g, c
		}
	}
	if found != nil {
		return found, at
	}
	return fn, nil
}

func ruleR9_2(w *World, r *Report) {
	r.Rule("R9.2", "in Solver.AppendClause the call announcing a literal's variable dominates every other use of that literal", 1)
	fn, _ := appendClauseScanFn(w)
	if fn == nil {
		r.Unk("R9.2", "solver.(*Solver).AppendClause", "-", "function not found")
		return
	}
	isGrower := func(c *ssa.Function) bool { return len(storesToField(c, "solver.Solver", "nbVars")) > 0 }
	found := 0
	for _, ci := range callsIn(fn) {
		call, ok := ci.(*ssa.Call)
		if !ok {
			continue
		}
		cs := w.Callees[call]
		if len(cs) != 1 || !isGrower(cs[0]) {
			continue
		}
		found++
		// the argument is (Lit).Var(L)
		var L ssa.Value
		for _, a := range call.Call.Args {
			if vc, ok := a.(*ssa.Call); ok && typeShort(vc.Type()) == "solver.Var" && len(vc.Call.Args) == 1 {
				L = vc.Call.Args[0]
			}
		}
		key := "(*solver.Solver).AppendClause announces before use"
		if L == nil {
			r.Unk("R9.2", key, w.InstrPos(call), "cannot identify the literal whose variable is announced")
			continue
		}
		var bad []string
		for _, ref := range *L.Referrers() {
			if ref == ssa.Instruction(call) {
				continue
			}
			if vc, ok := ref.(*ssa.Call); ok {
				if typeShort(vc.Type()) == "solver.Var" && instrDominates(vc, call) {
					continue // the Var() conversion feeding the announcement
				}
			}
			if _, ok := ref.(*ssa.DebugRef); ok {
				continue
			}
			if !instrDominates(call, ref) {
				bad = append(bad, "the literal is used at "+w.InstrPos(ref)+" on a path that has not announced its variable")
			}
		}
		if len(bad) > 0 {
			r.Bad("R9.2", key, w.InstrPos(call), strings.Join(bad, "; "))
		} else {
			r.OK("R9.2", key, w.InstrPos(call), fmt.Sprintf("%d other use(s) of the literal, all dominated by the announcement", len(*L.Referrers())-2))
		}
	}
	if found == 0 {
		// the variables may all be announced before the scan, by a function that walks the whole constraint
		app := w.Func("solver", "Solver.AppendClause")
		if app != nil && len(app.Params) >= 2 {
			lenFn := w.Func("solver", "Clause.Len")
			for _, ci := range callsIn(app) {
				c, ok := ci.(*ssa.Call)
				if !ok {
					continue
				}
				passes := false
				for _, a := range c.Call.Args {
					if a == ssa.Value(app.Params[1]) {
						passes = true
					}
				}
				if !passes {
					continue
				}
				for _, callee := range w.Callees[c] {
					if len(callee.Blocks) == 0 || len(callee.Params) < 2 {
						continue
					}
					for _, cj := range callsIn(callee) {
						gc, isC := cj.(*ssa.Call)
						if !isC || len(w.Callees[gc]) != 1 || !isGrower(w.Callees[gc][0]) {
							continue
						}
						for _, a := range gc.Call.Args {
							vc, isV := a.(*ssa.Call)
							if !isV || typeShort(vc.Type()) != "solver.Var" || len(vc.Call.Args) != 1 {
								continue
							}
							recv, idx, isE := clauseElem(w, vc.Call.Args[0])
							if !isE {
								continue
							}
							if fullRangeIndex(idx, func(b ssa.Value) bool {
								lc, isL := b.(*ssa.Call)
								return isL && lenFn != nil && w.staticCalleeIs(lc, lenFn) && len(lc.Call.Args) == 1 && lc.Call.Args[0] == recv
							}) {
								r.OK("R9.2", "(*solver.Solver).AppendClause announces before use", w.InstrPos(c), "every variable of the constraint is announced by "+w.FuncName(callee)+" before the scan")
								return
							}
						}
					}
				}
			}
		}
		r.Bad("R9.2", "(*solver.Solver).AppendClause announces before use", w.Pos(fn.Pos()), "AppendClause never announces the variables of the new constraint to the solver")
	}
}

// R9.3: Unsat is absorbing.
func ruleR9_3(w *World, r *Report) {
	r.Rule("R9.3", "functions reachable from Solver.AppendClause store only the constant Unsat into Solver.status, and Solver.Solve returns before any store to the status when the status is Unsat", 3)
	unsat, ok := w.statusConst("Unsat")
	app := w.Func("solver", "Solver.AppendClause")
	solve := w.Func("solver", "Solver.Solve")
	if !ok || app == nil || solve == nil {
		r.Unk("R9.3", "anchors", "-", "solver.Unsat, Solver.AppendClause or Solver.Solve not found")
		return
	}
	for _, fn := range w.SortedFns(w.Reachable(app)) {
		for i, st := range storesToField(fn, "solver.Solver", "status") {
			key := fmt.Sprintf("%s status store #%d", w.FuncName(fn), i+1)
			if v, isC := constInt(st.Val); isC && v == unsat {
				r.OK("R9.3", key, w.InstrPos(st), "stores Unsat")
			} else {
				r.Bad("R9.3", key, w.InstrPos(st), "a function reachable from AppendClause stores something other than the constant Unsat into the status: an unsatisfiable conjunction can become satisfiable again")
			}
		}
	}
	// Solve: entry test
	key := "(*solver.Solver).Solve returns at once on Unsat"
	stores := storesToField(solve, "solver.Solver", "status")
	var guard *ssa.If
	allInstrs(solve, func(ins ssa.Instruction) {
		iff, ok := ins.(*ssa.If)
		if !ok || guard != nil {
			return
		}
		b, ok := iff.Cond.(*ssa.BinOp)
		if !ok || b.Op != token.EQL {
			return
		}
		if _, ok := isFieldLoad(b.X, "solver.Solver", "status"); !ok {
			return
		}
		if v, ok := constInt(b.Y); ok && v == unsat {
			guard = iff
		}
	})
	if guard == nil {
		r.Bad("R9.3", key, w.Pos(solve.Pos()), "Solve has no `status == Unsat` test")
		return
	}
	var bad []string
	tb, fb := guard.Block().Succs[0], guard.Block().Succs[1]
	// the true edge must return without calling anything
	retOK := false
	for _, ins := range tb.Instrs {
		switch ins.(type) {
		case *ssa.Return:
			retOK = true
		case ssa.CallInstruction:
			if _, isRD := ins.(*ssa.RunDefers); !isRD {
				bad = append(bad, "the Unsat branch calls something before returning ("+w.InstrPos(ins)+")")
			}
		}
	}
	if !retOK {
		bad = append(bad, "the Unsat branch does not return immediately")
	}
	for _, st := range stores {
		if !(len(fb.Preds) == 1 && fb.Dominates(st.Block())) {
			bad = append(bad, "status is stored at "+w.InstrPos(st)+" on a path that has not passed the Unsat test")
		}
	}
	// nothing before the guard may call module code
	for _, ins := range guard.Block().Instrs {
		if ci, ok := ins.(ssa.CallInstruction); ok && len(w.Callees[ci]) > 0 {
			bad = append(bad, "module code is called before the Unsat test ("+w.InstrPos(ins)+")")
		}
	}
	if guard.Block() != solve.Blocks[0] {
		bad = append(bad, "the Unsat test is not the first thing Solve does")
	}
	if len(bad) > 0 {
		r.Bad("R9.3", key, w.InstrPos(guard), strings.Join(bad, "; "))
	} else {
		r.OK("R9.3", key, w.InstrPos(guard), fmt.Sprintf("%d status store(s), all after the test", len(stores)))
	}
}

// repeatedUnder: is instruction ins of fn executed inside a loop, in fn itself or at one of the call sites
// through which root reaches fn?
func (w *World) repeatedUnder(root, fn *ssa.Function, ins ssa.Instruction, depth int) bool {
	if inLoop(fn, ins.Block()) {
		return true
	}
	if fn == root || depth > 4 {
		return false
	}
	reach := w.Reachable(root)
	for _, cs := range w.Callers[fn] {
		if p := cs.Parent(); reach[p] && w.repeatedUnder(root, p, cs, depth+1) {
			return true
		}
	}
	return false
}

// R9.4: three-valued weight bounds of AppendClause.
func ruleR9_4(w *World, r *Report) {
	r.Rule("R9.4", "in Solver.AppendClause the two bounds compared with the degree after the scan are maintained as: literal already true -> both bounds grow by its weight; literal already false -> neither; literal unbound -> only the upper bound grows", 3)
	fn := w.Func("solver", "Solver.AppendClause")
	if fn == nil {
		r.Unk("R9.4", "solver.(*Solver).AppendClause", "-", "method not found")
		return
	}
	sat, _ := w.statusConst("Sat")
	unsat, _ := w.statusConst("Unsat")
	// accumulators: header phis A (lower bound: `A >= card`) and B (upper bound: `B < card`)
	var A, B *ssa.Phi
	var scanFn *ssa.Function
	allInstrs(fn, func(ins ssa.Instruction) {
		bo, ok := ins.(*ssa.BinOp)
		if !ok {
			return
		}
		used := false
		for _, rr := range *bo.Referrers() {
			if _, ok := rr.(*ssa.If); ok {
				used = true
			}
		}
		if !used {
			return
		}
		if _, isCall := bo.Y.(*ssa.Call); !isCall {
			return
		}
		// the bound: a header phi of the scan loop, or the result of the helper that holds the scan
		p, isPhi := bo.X.(*ssa.Phi)
		if !isPhi {
			ex, isEx := bo.X.(*ssa.Extract)
			if !isEx {
				return
			}
			hc, isCall := ex.Tuple.(*ssa.Call)
			if !isCall {
				return
			}
			g := hc.Call.StaticCallee()
			if g == nil || len(g.Blocks) == 0 {
				return
			}
			var rv ssa.Value
			nret := 0
			for _, b := range g.Blocks {
				if ret, ok := b.Instrs[len(b.Instrs)-1].(*ssa.Return); ok && ex.Index < len(ret.Results) {
					rv = ret.Results[ex.Index]
					nret++
				}
			}
			if nret != 1 {
				return
			}
			p, isPhi = rv.(*ssa.Phi)
			if !isPhi {
				return
			}
			scanFn = g
		}
		switch bo.Op {
		case token.GEQ:
			A = p
		case token.LSS:
			B = p
		}
	})
	if A != nil && scanFn != nil {
		fn = scanFn
	}
	if A == nil || B == nil || A.Block() != B.Block() {
		r.Unk("R9.4", "(*solver.Solver).AppendClause bounds", w.Pos(fn.Pos()), "cannot identify the lower/upper weight bounds compared with the degree")
		return
	}
	header := A.Block()
	// the status value switched on
	var statusCall *ssa.Call
	for _, ci := range callsIn(fn) {
		if c, ok := ci.(*ssa.Call); ok && typeShort(c.Type()) == "solver.Status" && loopBlocks(fn, header)[c.Block()] {
			statusCall = c
		}
	}
	if statusCall == nil {
		r.Unk("R9.4", "(*solver.Solver).AppendClause bounds", w.Pos(fn.Pos()), "no literal-status call in the scan loop")
		return
	}
	type delta struct{ a, b string }
	got := map[string]map[delta]bool{"true": {}, "false": {}, "unbound": {}}
	weightAtom := func(l linForm) (string, bool) {
		// exactly one term with coefficient 1 that is a call result (the weight), constant 0
		if l.c != 0 {
			return "", false
		}
		name := ""
		for k, v := range l.terms {
			if v == 0 {
				continue
			}
			if v != 1 || name != "" {
				return "", false
			}
			name = k
		}
		return name, name != ""
	}
	body := header.Succs[0]
	trunc := false
	_, trunc = exploreEdges(body, &pstate{phi: map[*ssa.Phi]ssa.Value{}, facts: map[string]string{}},
		func(b *ssa.BasicBlock) bool { return b == header || !loopBlocks(fn, header)[b] },
		func(ins ssa.Instruction, st *pstate) {},
		func(from, to *ssa.BasicBlock, st *pstate) {
			if to != header {
				return
			}
			cls := ""
			f := st.facts[st.vkey(statusCall)]
			switch {
			case f == fmt.Sprintf("=%d", sat):
				cls = "true"
			case f == fmt.Sprintf("=%d", unsat):
				cls = "false"
			default:
				cls = "unbound"
			}
			if c := w.statusClass(f); c != "" {
				cls = c // also `!= Indet, != Sat` (two tests instead of a switch) pins the status
			}
			da := lfAdd(lfOf(phiIncoming(A, from, st), 0), lfOf(A, 0), -1)
			db := lfAdd(lfOf(phiIncoming(B, from, st), 0), lfOf(B, 0), -1)
			got[cls][delta{da.String(), db.String()}] = true
		})
	if trunc {
		r.Unk("R9.4", "(*solver.Solver).AppendClause bounds", w.Pos(fn.Pos()), "state space too large")
		return
	}
	zero := linForm{terms: map[string]int64{}}.String()
	isWeight := func(s string) bool {
		// "0+1*tNN": a single call result
		return strings.HasPrefix(s, "0+1*t") && strings.Count(s, "*") == 1
	}
	_ = weightAtom
	check := func(cls, wantA, wantB, what string) {
		key := "(*solver.Solver).AppendClause bounds for a literal already " + cls
		if cls == "unbound" {
			key = "(*solver.Solver).AppendClause bounds for an unbound literal"
		}
		if len(got[cls]) == 0 {
			r.Bad("R9.4", key, w.Pos(fn.Pos()), "no path of the scan handles this case")
			return
		}
		var bad []string
		for d := range got[cls] {
			okA := (wantA == "0" && d.a == zero) || (wantA == "w" && isWeight(d.a))
			okB := (wantB == "0" && d.b == zero) || (wantB == "w" && isWeight(d.b))
			if wantA == "w" && wantB == "w" && okA && okB && d.a != d.b {
				// both must grow by the same weight (two calls of Weight(i) are two registers: accept)
				okA = true
			}
			if !okA || !okB {
				bad = append(bad, fmt.Sprintf("lower bound changes by %s and upper bound by %s", d.a, d.b))
			}
		}
		if len(bad) > 0 {
			r.Bad("R9.4", key, w.Pos(fn.Pos()), what+": "+strings.Join(sortedStrings(bad), "; "))
		} else {
			r.OK("R9.4", key, w.Pos(fn.Pos()), what)
		}
	}
	check("true", "w", "w", "a true literal must raise both the weight already obtained and the weight still obtainable")
	check("false", "0", "0", "a false literal contributes to neither bound")
	check("unbound", "0", "w", "an unbound literal raises only the weight still obtainable")
}

// R9.5: every forced literal is bound and propagated.
func ruleR9_5(w *World, r *Report) {
	r.Rule("R9.5", "the function that propagates new top-level units binds and propagates every literal of its argument: no iteration skips the binding call unless the literal is known to be already true", 1)
	sat, _ := w.statusConst("Sat")
	n := 0
	for _, fn := range w.Fns {
		if w.PkgName(fn) != "solver" || fn.Signature.Recv() == nil || fn.Signature.Params().Len() != 1 || typeShort(fn.Signature.Params().At(0).Type()) != "[]solver.Lit" {
			continue
		}
		units := fn.Params[1]
		// binder calls: callee(Lit, decLevel) *Clause with level 1 and the literal an element of units
		var binders []*ssa.Call
		for _, ci := range callsIn(fn) {
			c, ok := ci.(*ssa.Call)
			if !ok || len(w.Callees[c]) != 1 || typeShort(c.Type()) != "*solver.Clause" {
				continue
			}
			args := c.Call.Args
			if len(args) < 2 {
				continue
			}
			lvl, okL := constInt(args[len(args)-1])
			lit := args[len(args)-2]
			if !okL || lvl != 1 || typeShort(lit.Type()) != "solver.Lit" {
				continue
			}
			if ld, ok := lit.(*ssa.UnOp); ok && ld.Op == token.MUL {
				if ia, ok := ld.X.(*ssa.IndexAddr); ok && ia.X == ssa.Value(units) {
					binders = append(binders, c)
				}
			}
		}
		bindFn := fn // the function holding the binding call (fn itself, or a helper handed one element per iteration)
		if len(binders) == 0 {
			for _, ci := range callsIn(fn) {
				hc, ok := ci.(*ssa.Call)
				h := ci.Common().StaticCallee()
				if !ok || h == nil || w.PkgName(h) != "solver" || len(h.Blocks) == 0 || !inLoop(fn, hc.Block()) {
					continue
				}
				for ai, a := range hc.Call.Args {
					ld, isLd := a.(*ssa.UnOp)
					if !isLd || ld.Op != token.MUL || ai >= len(h.Params) {
						continue
					}
					ia, isIA := ld.X.(*ssa.IndexAddr)
					if !isIA || ia.X != ssa.Value(units) {
						continue
					}
					// the helper binds the parameter at level 1
					for _, cj := range callsIn(h) {
						c2, ok2 := cj.(*ssa.Call)
						if !ok2 || typeShort(c2.Type()) != "*solver.Clause" || len(c2.Call.Args) < 2 {
							continue
						}
						lvl, okL := constInt(c2.Call.Args[len(c2.Call.Args)-1])
						if okL && lvl == 1 && c2.Call.Args[len(c2.Call.Args)-2] == ssa.Value(h.Params[ai]) {
							binders = append(binders, hc)
							bindFn = h
						}
					}
				}
			}
		}
		if len(binders) == 0 {
			continue
		}
		n++
		key := w.FuncName(fn) + " binds every unit"
		b0 := binders[0]
		var header *ssa.BasicBlock
		for _, h := range loopHeaders(fn) {
			if loopBlocks(fn, h)[b0.Block()] {
				header = h
			}
		}
		if header == nil {
			r.Bad("R9.5", key, w.InstrPos(b0), "the binding call is not in a loop over the units")
			continue
		}
		lit := b0.Call.Args[len(b0.Call.Args)-2]
		if bindFn != fn {
			// the helper's own order: retraction to level 1 before any write of the model
			okOrder := false
			if cl := levelCleaner(w); cl != nil {
				var clean ssa.CallInstruction
				for _, cj := range callsIn(bindFn) {
					if w.staticCalleeIs(cj, cl) {
						if v, ok := constInt(cj.Common().Args[len(cj.Common().Args)-1]); ok && v == 1 {
							clean = cj
						}
					}
				}
				okOrder = clean != nil
				if clean != nil {
					allInstrs(bindFn, func(ins ssa.Instruction) {
						if st, ok := ins.(*ssa.Store); ok {
							if ia, ok := st.Addr.(*ssa.IndexAddr); ok {
								if _, ok := isFieldLoad(ia.X, "solver.Solver", "model"); ok && !instrDominates(clean, st) {
									okOrder = false
								}
							}
						}
					})
				}
			}
			r.Check(okOrder, "R9.5", w.FuncName(fn)+" retracts before binding", w.InstrPos(b0), "the retraction to level 1 dominates every write of the model in the helper "+w.FuncName(bindFn),
				"a unit is written into the model before the bindings above level 1 are retracted: the retraction then leaves the old decision of that variable on the trail next to the new fact, and a later top-level conflict is not recognised")
			r.OK("R9.5", key, w.InstrPos(b0), "every element of the list is handed to "+w.FuncName(bindFn)+", which binds it")
			continue
		}
		// ordering: everything above level 1 is retracted before this unit is written into the model
		if cl := levelCleaner(w); cl != nil {
			var clean ssa.CallInstruction
			for _, cj := range callsIn(fn) {
				if w.staticCalleeIs(cj, cl) && loopBlocks(fn, header)[cj.Block()] {
					args := cj.Common().Args
					if v, ok := constInt(args[len(args)-1]); ok && v == 1 {
						clean = cj
					}
				}
			}
			okOrder := clean != nil && instrDominates(clean, b0)
			if clean != nil {
				allInstrs(fn, func(ins ssa.Instruction) {
					st, ok := ins.(*ssa.Store)
					if !ok || !loopBlocks(fn, header)[st.Block()] {
						return
					}
					if ia, ok := st.Addr.(*ssa.IndexAddr); ok {
						if _, ok := isFieldLoad(ia.X, "solver.Solver", "model"); ok && !instrDominates(clean, st) {
							okOrder = false
						}
					}
				})
			}
			r.Check(okOrder, "R9.5", w.FuncName(fn)+" retracts before binding", w.InstrPos(b0), "the retraction to level 1 dominates every write of the model in the iteration",
				"a unit is written into the model before the bindings above level 1 are retracted: the retraction then leaves the old decision of that variable on the trail next to the new fact, and a later top-level conflict is not recognised")
		}
		skipped := map[string]bool{}
		body := header.Succs[0]
		exploreEdges(body, &pstate{phi: map[*ssa.Phi]ssa.Value{}, facts: map[string]string{}},
			func(b *ssa.BasicBlock) bool { return b == header || !loopBlocks(fn, header)[b] },
			func(ins ssa.Instruction, st *pstate) {
				if ins == ssa.Instruction(b0) {
					st.facts["bound"] = "yes"
				}
				if c, ok := ins.(*ssa.Call); ok && typeShort(c.Type()) == "solver.Status" {
					for _, a := range c.Call.Args {
						if a == lit {
							st.facts["statusOf"] = st.vkey(c)
						}
					}
				}
			},
			func(from, to *ssa.BasicBlock, st *pstate) {
				if to != header || st.facts["bound"] == "yes" {
					return
				}
				if k := st.facts["statusOf"]; k != "" {
					f := st.facts[k]
					if f == fmt.Sprintf("=%d", sat) {
						return // already true: nothing to do
					}
					// neither unbound nor false: the three-valued status leaves only `true`
					if strings.HasPrefix(f, "!=") {
						ex := map[string]bool{}
						for _, e := range strings.Split(f[2:], ",") {
							ex[e] = true
						}
						indet, _ := w.statusConst("Indet")
						unsatC, _ := w.statusConst("Unsat")
						if ex[fmt.Sprintf("%d", indet)] && ex[fmt.Sprintf("%d", unsatC)] {
							return
						}
					}
				}
				skipped[w.InstrPos(from.Instrs[len(from.Instrs)-1])] = true
			})
		if len(skipped) > 0 {
			var ps []string
			for p := range skipped {
				ps = append(ps, p)
			}
			r.Bad("R9.5", key, w.InstrPos(b0), "an iteration can go on to the next unit without binding the current one (continue at "+strings.Join(sortedStrings(ps), ", ")+"): a forced literal, or the conflict it causes, is silently dropped")
		} else {
			r.OK("R9.5", key, w.InstrPos(b0), "every iteration that goes on has called the binder on the current unit")
		}
	}
	if n == 0 {
		r.Unk("R9.5", "unit propagation function", "-", "no method of package solver taking []Lit binds its elements at level 1")
	}
}

// bulkOne distinguishes "bulk growth by one element per variable" (encoded as Elems == -1 by growthSites when the
// appended slice is make(T, newCount-oldCount)) from "unknown number of appended elements" (also -1).
func bulkOne(s growthSite) bool {
	if s.Elems != -1 {
		return false
	}
	c, ok := s.Store.Val.(*ssa.Call)
	if !ok || len(c.Call.Args) != 2 {
		return false
	}
	_, isMk := c.Call.Args[1].(*ssa.MakeSlice)
	return isMk
}
