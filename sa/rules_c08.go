package main

import (
	"fmt"
	"go/token"
	"sort"
	"strings"

	"golang.org/x/tools/go/ssa"
)

func init() {
	register(&property{
		ID:          "C08",
		Explanation: "(R8.1) no certificate line is added to the clause set unless the reverse-unit-propagation test on that very line succeeded; (R8.2) every function that checks a certificate re-initialises the tags and defers the restoration of the clause set before doing anything else; (R8.3) the RUP test saves the unit bindings before its first write and stores them back on every path to return; (R8.4) every clause used for a propagation or a conflict is tagged (the unsatisfiable subset is read from the tags); (R8.5) the reader-based and the channel-based entry points perform the same per-line steps.",
		NotDecided:  "that the naive propagation loop computes exactly unit propagation to fixpoint, and the behaviour of the checker on every certificate.",
		Rules:       []ruleFn{ruleR8_1, ruleR8_2, ruleR8_3, ruleR8_4, ruleR8_5, ruleR8_6, ruleR8_7, ruleR8_8, ruleR8_9, ruleR8_10, ruleR7_3, ruleR13_10, ruleR8_11, ruleR13_13, ruleR13_14},
	})
}

// rupTest returns the package-level RUP test of package explain: func(*Problem, []int) bool.
func rupTest(w *World) *ssa.Function {
	var cands []*ssa.Function
	for _, fn := range w.Fns {
		if w.PkgName(fn) != "explain" || fn.Parent() != nil {
			continue
		}
		// a function (pb *Problem, clause []int) bool, or the same as a method of *Problem
		if len(fn.Params) == 2 && fn.Signature.Results().Len() == 1 && typeShort(fn.Params[0].Type()) == "*explain.Problem" &&
			typeShort(fn.Params[1].Type()) == "[]int" && typeShort(fn.Signature.Results().At(0).Type()) == "bool" {
			cands = append(cands, fn)
		}
	}
	if len(cands) == 1 {
		return cands[0]
	}
	return nil
}

// rupWrapper describes a helper that parses / prepares a line, runs the RUP test on it and hands back the outcome:
// `func (pb *Problem) checkFields(fields []string) (clause []int, proven bool, err error)`.
type rupWrapper struct {
	boolIdx, clauseIdx int
}

// rupWrappers: functions of package explain without a loop that call the RUP test once and return, at a boolean
// result position, that call's value or the constant false, and at a []int position the clause tested (or nil).
func rupWrappers(w *World, rup *ssa.Function) map[*ssa.Function]rupWrapper {
	out := map[*ssa.Function]rupWrapper{}
	for _, fn := range w.Fns {
		if w.PkgName(fn) != "explain" || fn == rup || len(fn.Blocks) == 0 || len(loopHeaders(fn)) > 0 {
			continue
		}
		var rc *ssa.Call
		for _, ci := range callsIn(fn) {
			if c, ok := ci.(*ssa.Call); ok && w.staticCalleeIs(c, rup) {
				rc = c
			}
		}
		if rc == nil {
			continue
		}
		res := fn.Signature.Results()
		bi, ci := -1, -1
		for i := 0; i < res.Len(); i++ {
			okB, okC := typeShort(res.At(i).Type()) == "bool", typeShort(res.At(i).Type()) == "[]int"
			allInstrs(fn, func(ins ssa.Instruction) {
				ret, isRet := ins.(*ssa.Return)
				if !isRet || i >= len(ret.Results) {
					return
				}
				v := ret.Results[i]
				if okB {
					if k, isK := v.(*ssa.Const); !(v == ssa.Value(rc) || (isK && k.Value != nil && k.Value.String() == "false")) {
						okB = false
					}
				}
				if okC && !(v == rc.Call.Args[len(rc.Call.Args)-1] || isNilConst(v)) {
					okC = false
				}
			})
			if okB {
				bi = i
			}
			if okC {
				ci = i
			}
		}
		if bi >= 0 && ci >= 0 {
			out[fn] = rupWrapper{bi, ci}
		}
	}
	return out
}

// rupOutcome: cond is the outcome of the RUP test of clause x: the call itself, or the boolean result of a wrapper
// whose clause result is x.
func rupOutcome(w *World, rup *ssa.Function, wraps map[*ssa.Function]rupWrapper, cond, x ssa.Value) bool {
	if c, isCall := cond.(*ssa.Call); isCall && w.staticCalleeIs(c, rup) {
		return c.Call.Args[len(c.Call.Args)-1] == x
	}
	if ex, isEx := cond.(*ssa.Extract); isEx {
		if c, isCall := ex.Tuple.(*ssa.Call); isCall {
			if wr, ok := wraps[c.Call.StaticCallee()]; ok && ex.Index == wr.boolIdx {
				if xe, isXE := x.(*ssa.Extract); isXE && xe.Tuple == ex.Tuple && xe.Index == wr.clauseIdx {
					return true
				}
			}
		}
	}
	return false
}

// certCheckers: functions of package explain that call the RUP test (directly or through a wrapper), wrappers excluded.
func certCheckers(w *World, rup *ssa.Function) []*ssa.Function {
	wraps := rupWrappers(w, rup)
	var out []*ssa.Function
	for _, fn := range w.Fns {
		if w.PkgName(fn) != "explain" {
			continue
		}
		if _, isW := wraps[fn]; isW {
			continue
		}
		for _, ci := range callsIn(fn) {
			_, viaW := wraps[ci.Common().StaticCallee()]
			if w.staticCalleeIs(ci, rup) || viaW {
				out = append(out, fn)
				break
			}
		}
	}
	return out
}

// certEntry: an entry point that checks certificate lines. core holds the per-line loop; when core is an unexported
// helper shared by several entry points (the reader-based and the channel-based one handing it a line source), every
// function of package explain that calls it is an entry of its own, and site is its call of the core.
type certEntry struct {
	entry, core *ssa.Function
	site        ssa.CallInstruction
}

func certEntries(w *World, rup *ssa.Function) []certEntry {
	var out []certEntry
	for _, core := range certCheckers(w, rup) {
		var sites []ssa.CallInstruction
		if obj := core.Object(); obj != nil && !obj.Exported() && core.Parent() == nil {
			for _, ci := range w.Callers[core] {
				if p := ci.Parent(); p != nil && p != core && w.PkgName(p) == "explain" && ci.Common().StaticCallee() == core {
					sites = append(sites, ci)
				}
			}
		}
		if len(sites) == 0 {
			out = append(out, certEntry{core, core, nil})
			continue
		}
		sort.Slice(sites, func(i, j int) bool { return w.InstrPos(sites[i]) < w.InstrPos(sites[j]) })
		for _, ci := range sites {
			out = append(out, certEntry{ci.Parent(), core, ci})
		}
	}
	return out
}

// entryName: the name an obligation about the entry point is keyed by.
func (e certEntry) name(w *World) string {
	return w.FuncName(e.entry)
}

// appendedElem: for `F = append(load F, x)` returns x (single element).
func appendedElem(call *ssa.Call) ssa.Value {
	if len(call.Call.Args) != 2 {
		return nil
	}
	sl, ok := call.Call.Args[1].(*ssa.Slice)
	if !ok {
		return nil
	}
	al, ok := sl.X.(*ssa.Alloc)
	if !ok {
		return nil
	}
	var v ssa.Value
	n := 0
	for _, rr := range *al.Referrers() {
		if ia, ok := rr.(*ssa.IndexAddr); ok {
			for _, r2 := range *ia.Referrers() {
				if st, ok := r2.(*ssa.Store); ok && st.Addr == ia {
					v = st.Val
					n++
				}
			}
		}
	}
	if n != 1 {
		return nil
	}
	return v
}

func ruleR8_1(w *World, r *Report) {
	r.Rule("R8.1", "in every function that checks certificate lines, a line is appended to Problem.Clauses only on the edge where the RUP test of that same line returned true", 2)
	rup := rupTest(w)
	if rup == nil {
		r.Unk("R8.1", "RUP test", "-", "package explain has no unique func(*Problem, []int) bool")
		return
	}
	for _, ce := range certEntries(w, rup) {
		fn := ce.core
		n := 0
		for _, gs := range growthSites(fn) {
			if gs.Field != "explain.Problem.Clauses" || gs.Elems == 0 {
				continue
			}
			n++
			key := fmt.Sprintf("%s accepts a line #%d", ce.name(w), n)
			x := appendedElem(gs.Store.Val.(*ssa.Call))
			if x == nil {
				r.Unk("R8.1", key, w.InstrPos(gs.Store), "cannot identify the appended clause")
				continue
			}
			ok := false
			wraps := rupWrappers(w, rup)
			for _, ec := range dominatingConds(gs.Store.Block()) {
				if ec.True && rupOutcome(w, rup, wraps, ec.Cond, x) {
					ok = true
				}
			}
			r.Check(ok, "R8.1", key, w.InstrPos(gs.Store), "dominated by the true edge of the RUP test of the same line",
				"a certificate line is added to the clause set without a successful RUP test of that line: a non-consequence can be accepted and used to 'prove' later lines")
		}
		if n == 0 {
			r.Bad("R8.1", ce.name(w)+" accepts lines", w.Pos(fn.Pos()), "the checker never adds validated lines to the clause set: later lines that depend on earlier ones are rejected")
		}
	}
}

// restorers: methods that store Clauses[:NbClauses] back into the receiver.
func isRestorer(fn *ssa.Function) bool {
	ok := false
	allInstrs(fn, func(ins ssa.Instruction) {
		st, isSt := ins.(*ssa.Store)
		if !isSt || qualField(st.Addr) != "explain.Problem.Clauses" {
			return
		}
		sl, isSl := st.Val.(*ssa.Slice)
		if !isSl || sl.High == nil {
			return
		}
		if _, isF := isFieldLoad(sl.High, "explain.Problem", "NbClauses"); !isF {
			return
		}
		if _, isF := isFieldLoad(sl.X, "explain.Problem", "Clauses"); isF && sl.Low == nil {
			ok = true
		}
	})
	return ok
}

// isParamOrSpill: v is the parameter p, or a load of the local cell p was spilled into (a parameter captured by a
// closure lives in such a cell).
func isParamOrSpill(v ssa.Value, p *ssa.Parameter) bool {
	if v == ssa.Value(p) {
		return true
	}
	ld, ok := v.(*ssa.UnOp)
	if !ok || ld.Op != token.MUL {
		return false
	}
	al, ok := ld.X.(*ssa.Alloc)
	if !ok {
		return false
	}
	n := 0
	for _, ref := range *al.Referrers() {
		if st, isS := ref.(*ssa.Store); isS && st.Addr == ssa.Value(al) {
			n++
			if st.Val != ssa.Value(p) {
				return false
			}
		}
	}
	return n > 0
}

func isTagInit(fn *ssa.Function) bool {
	ok := false
	allInstrs(fn, func(ins ssa.Instruction) {
		st, isSt := ins.(*ssa.Store)
		if isSt && qualField(st.Addr) == "explain.Problem.tagged" {
			if _, isMk := st.Val.(*ssa.MakeSlice); isMk {
				ok = true
			}
		}
	})
	return ok
}

func ruleR8_2(w *World, r *Report) {
	r.Rule("R8.2", "every function that checks certificate lines defers the restoration of Problem.Clauses to its first NbClauses entries, and re-initialises the tags, in its entry block before any line is tested", 2)
	rup := rupTest(w)
	if rup == nil {
		r.Unk("R8.2", "RUP test", "-", "not found")
		return
	}
	for _, ce := range certEntries(w, rup) {
		// the obligation is the entry point's: a shared per-line helper is entered with the restoration deferred and
		// the tags initialised by each of its callers
		fn := ce.entry
		key := w.FuncName(fn) + " restores and re-tags"
		var bad []string
		deferred, inited := false, false
		entry := fn.Blocks[0]
		if ce.site != nil && (len(fn.Params) == 0 || len(ce.site.Common().Args) == 0 || !isParamOrSpill(ce.site.Common().Args[0], fn.Params[0])) {
			bad = append(bad, "the lines are checked against a problem other than the one restored")
		}
		for _, ins := range entry.Instrs {
			switch x := ins.(type) {
			case *ssa.Defer:
				for _, c := range w.Callees[x] {
					if isRestorer(c) && len(x.Call.Args) > 0 && isParamOrSpill(x.Call.Args[0], fn.Params[0]) {
						deferred = true
					}
					// `defer func() { pb.Clauses = pb.Clauses[:pb.NbClauses] }()`: a closure of this function
					if isRestorer(c) && c.Parent() == fn {
						deferred = true
					}
				}
			case *ssa.Call:
				for _, c := range w.Callees[x] {
					if isTagInit(c) && len(x.Call.Args) > 0 && isParamOrSpill(x.Call.Args[0], fn.Params[0]) {
						inited = true
					}
					if (c == rup || (ce.site != nil && c == ce.core)) && !(deferred && inited) {
						bad = append(bad, "a line is tested before the restoration is deferred / the tags are initialised")
					}
				}
			}
		}
		grows := false
		for _, gs := range growthSites(ce.core) {
			if gs.Field == "explain.Problem.Clauses" {
				grows = true
			}
		}
		if grows && !deferred {
			bad = append(bad, "the function appends certificate lines to the caller's clause set but does not defer their removal in its entry block: the problem is left changed")
		}
		if !inited {
			bad = append(bad, "the tags are not re-initialised in the entry block: tags of a previous check leak into this one")
		}
		if len(bad) > 0 {
			r.Bad("R8.2", key, w.Pos(fn.Pos()), strings.Join(dedupe(bad), "; "))
		} else {
			r.OK("R8.2", key, w.Pos(fn.Pos()), "deferred restore and tag initialisation in the entry block")
		}
	}
}

func ruleR8_3(w *World, r *Report) {
	r.Rule("R8.3", "the RUP test copies Problem.units before its first write to them and stores the copy back on every path to return", 1)
	rup := rupTest(w)
	if rup == nil {
		r.Unk("R8.3", "RUP test", "-", "not found")
		return
	}
	key := w.FuncName(rup) + " saves and restores the unit bindings"
	pb := rup.Params[0]
	// the copy: copy(M, load pb.units) with M a fresh MakeSlice
	var copyCall *ssa.Call
	var saved ssa.Value
	allInstrs(rup, func(ins ssa.Instruction) {
		c, ok := ins.(*ssa.Call)
		if !ok {
			return
		}
		if b, ok := c.Call.Value.(*ssa.Builtin); !ok || b.Name() != "copy" {
			return
		}
		if _, ok := c.Call.Args[0].(*ssa.MakeSlice); !ok {
			return
		}
		if base, ok := isFieldLoad(c.Call.Args[1], "explain.Problem", "units"); ok && base == ssa.Value(pb) {
			copyCall, saved = c, c.Call.Args[0]
		}
	})
	if copyCall == nil {
		r.Bad("R8.3", key, w.Pos(rup.Pos()), "the unit bindings are not copied before the test: the test's assumptions and propagations stay in the problem")
		return
	}
	var bad []string
	// the saved slice must be as long as units
	if mk := saved.(*ssa.MakeSlice); true {
		okLen := false
		if c, ok := mk.Len.(*ssa.Call); ok {
			if b, ok := c.Call.Value.(*ssa.Builtin); ok && b.Name() == "len" {
				if base, ok := isFieldLoad(c.Call.Args[0], "explain.Problem", "units"); ok && base == ssa.Value(pb) {
					okLen = true
				}
			}
		}
		if !okLen {
			bad = append(bad, "the saved copy is not allocated with len(units)")
		}
	}
	// every write into units (element store, or call that writes units) is after the copy
	eff := w.effects()
	allInstrs(rup, func(ins ssa.Instruction) {
		switch x := ins.(type) {
		case *ssa.Store:
			if ia, ok := x.Addr.(*ssa.IndexAddr); ok {
				if _, ok := isFieldLoad(ia.X, "explain.Problem", "units"); ok && !instrDominates(copyCall, x) {
					bad = append(bad, "units are written at "+w.InstrPos(x)+" before they were saved")
				}
			}
		case *ssa.Call:
			for _, c := range w.Callees[x] {
				if eff.WritesAny(c, "explain.Problem.units") && !instrDominates(copyCall, x) {
					bad = append(bad, w.FuncName(c)+" (which writes units) is called at "+w.InstrPos(x)+" before they were saved")
				}
			}
		}
	})
	// every return is dominated by `pb.units = saved`
	var restores []*ssa.Store
	for _, st := range storesToField(rup, "explain.Problem", "units") {
		if st.Val == saved {
			restores = append(restores, st)
		}
	}
	allInstrs(rup, func(ins ssa.Instruction) {
		ret, ok := ins.(*ssa.Return)
		if !ok {
			return
		}
		dom := false
		for _, st := range restores {
			if instrDominates(st, ret) {
				dom = true
			}
		}
		if !dom {
			bad = append(bad, "return at "+w.InstrPos(ret)+" is reachable without storing the saved bindings back")
		}
	})
	// nothing writes units after the restore
	for _, st := range restores {
		allInstrs(rup, func(ins ssa.Instruction) {
			if c, ok := ins.(*ssa.Call); ok && instrReachableFrom(st, c) {
				for _, cal := range w.Callees[c] {
					if eff.WritesAny(cal, "explain.Problem.units") {
						bad = append(bad, w.FuncName(cal)+" writes units after they were restored ("+w.InstrPos(c)+")")
					}
				}
			}
		})
	}
	if len(bad) > 0 {
		r.Bad("R8.3", key, w.InstrPos(copyCall), strings.Join(dedupe(bad), "; "))
	} else {
		r.OK("R8.3", key, w.InstrPos(copyCall), fmt.Sprintf("%d restore store(s) dominate every return", len(restores)))
	}
}

// R8.4: tagging.
func ruleR8_4(w *World, r *Report) {
	r.Rule("R8.4", "in the propagation loop of (*Problem).unsat every unit binding derived from a clause and every conflict found in a clause is accompanied, on every path of the same iteration, by tagging that clause under the guard index < NbClauses", 2)
	var fn *ssa.Function
	eff := w.effects()
	for _, f := range w.Fns {
		if w.PkgName(f) == "explain" && f.Signature.Recv() != nil && f.Signature.Params().Len() == 0 && f.Signature.Results().Len() == 1 &&
			typeShort(f.Signature.Results().At(0).Type()) == "bool" && typeShort(f.Signature.Recv().Type()) == "*explain.Problem" {
			// the propagation method writes units (itself, or by handing the table to a helper that writes it)
			if eff.DirectWritesAny(f, "explain.Problem.units") {
				fn = f
			}
		}
	}
	if _, core := propagationCore(w); core != nil {
		fn = core // the function holding the sweep over the clauses (the method itself or its helper)
	}
	if fn == nil {
		r.Unk("R8.4", "propagation method", "-", "no method func (*Problem) () bool writing units found in package explain")
		return
	}
	// tag guards: If (i < load NbClauses) whose true successor stores true into tagged[i]
	type guard struct {
		blk *ssa.BasicBlock
		idx ssa.Value
	}
	var guards []guard
	guardOf := func(b *ssa.BasicBlock) (ssa.Value, bool) {
		iff, ok := b.Instrs[len(b.Instrs)-1].(*ssa.If)
		if !ok {
			return nil, false
		}
		bo, ok := iff.Cond.(*ssa.BinOp)
		if !ok || bo.Op != token.LSS {
			return nil, false
		}
		if _, ok := isFieldLoad(bo.Y, "explain.Problem", "NbClauses"); !ok {
			return nil, false
		}
		for _, ins := range b.Succs[0].Instrs {
			if st, ok := ins.(*ssa.Store); ok {
				if ia, ok := st.Addr.(*ssa.IndexAddr); ok && ia.Index == bo.X {
					if _, ok := isFieldLoad(ia.X, "explain.Problem", "tagged"); ok {
						if k, ok := st.Val.(*ssa.Const); ok && k.Value != nil && k.Value.String() == "true" {
							return bo.X, true
						}
					}
				}
			}
		}
		return nil, false
	}
	// a helper that does the guarded tagging of the clause index it is handed (`pb.tag(i)`): its entry block is the
	// guard; a call of it stands for the guard, in the block of the call
	sameBlock := map[*ssa.BasicBlock]bool{}
	for _, ci := range callsIn(fn) {
		h := ci.Common().StaticCallee()
		if h == nil || w.PkgName(h) != "explain" || len(h.Blocks) == 0 || h == fn {
			continue
		}
		idx, ok := guardOf(h.Blocks[0])
		if !ok {
			continue
		}
		pi := paramIndex(h, idx)
		if pi < 0 || pi >= len(ci.Common().Args) {
			continue
		}
		guards = append(guards, guard{ci.Block(), ci.Common().Args[pi]})
		sameBlock[ci.Block()] = true
	}
	for _, b := range fn.Blocks {
		iff, ok := b.Instrs[len(b.Instrs)-1].(*ssa.If)
		if !ok {
			continue
		}
		bo, ok := iff.Cond.(*ssa.BinOp)
		if !ok || bo.Op != token.LSS {
			continue
		}
		if _, ok := isFieldLoad(bo.Y, "explain.Problem", "NbClauses"); !ok {
			continue
		}
		tagged := false
		for _, ins := range b.Succs[0].Instrs {
			if st, ok := ins.(*ssa.Store); ok {
				if ia, ok := st.Addr.(*ssa.IndexAddr); ok && ia.Index == bo.X {
					if _, ok := isFieldLoad(ia.X, "explain.Problem", "tagged"); ok {
						if k, ok := st.Val.(*ssa.Const); ok && k.Value != nil && k.Value.String() == "true" {
							tagged = true
						}
					}
				}
			}
		}
		if tagged {
			guards = append(guards, guard{b, bo.X})
		}
	}
	// the index must be the index of the clause being examined: the range index over Clauses
	covered := func(u ssa.Instruction) bool {
		ub := u.Block()
		for _, g := range guards {
			if g.blk == ub && sameBlock[ub] {
				return true
			}
			if _, isRet := u.(*ssa.Return); g.blk == ub && !isRet {
				return true // the use sits in the block that ends with the guard
			}
			if g.blk.Dominates(ub) && g.blk != ub {
				// the guard must belong to the same iteration: no back edge between guard and use, i.e. use reachable
				// from guard without passing the loop header again is implied by dominance inside the loop body
				return true
			}
			if _, isRet := u.(*ssa.Return); g.blk != ub && !isRet {
				// every path from the use to the end of the iteration / a return passes through the guard
				iterEnd := map[*ssa.BasicBlock]bool{}
				for _, h := range loopHeaders(fn) {
					if loopBlocks(fn, h)[ub] {
						iterEnd[h] = true
					}
				}
				seen := map[*ssa.BasicBlock]bool{}
				leak := false
				var visit func(b *ssa.BasicBlock)
				visit = func(b *ssa.BasicBlock) {
					if seen[b] || b == g.blk || leak {
						return
					}
					seen[b] = true
					if iterEnd[b] {
						leak = true
						return
					}
					if _, ok := b.Instrs[len(b.Instrs)-1].(*ssa.Return); ok {
						leak = true
						return
					}
					for _, s := range b.Succs {
						visit(s)
					}
				}
				for _, s := range ub.Succs {
					visit(s)
				}
				if !leak {
					return true
				}
			}
		}
		return false
	}
	n := 0
	allInstrs(fn, func(ins ssa.Instruction) {
		switch x := ins.(type) {
		case *ssa.Call:
			// a helper that is handed the table of bindings and writes it (`bind(pb.units, unit)`)
			callee := x.Call.StaticCallee()
			if callee == nil {
				return
			}
			hit := false
			for i, a := range x.Call.Args {
				if _, ok := isFieldLoad(a, "explain.Problem", "units"); ok && eff.WritesParamElems(callee, i) {
					hit = true
				}
			}
			if !hit {
				return
			}
			n++
			key := fmt.Sprintf("%s unit binding #%d", w.FuncName(fn), n)
			r.Check(covered(x), "R8.4", key, w.InstrPos(x), "the clause that produced the binding is tagged in the same iteration",
				"a unit binding is derived from a clause that is not tagged on every path: the extracted subset can miss a clause it needs and be satisfiable")
		case *ssa.Store:
			ia, ok := x.Addr.(*ssa.IndexAddr)
			if !ok {
				return
			}
			if _, ok := isFieldLoad(ia.X, "explain.Problem", "units"); !ok {
				return
			}
			n++
			key := fmt.Sprintf("%s unit binding #%d", w.FuncName(fn), n)
			r.Check(covered(x), "R8.4", key, w.InstrPos(x), "the clause that produced the binding is tagged in the same iteration",
				"a unit binding is derived from a clause that is not tagged on every path: the extracted subset can miss a clause it needs and be satisfiable")
		case *ssa.Return:
			if len(x.Results) >= 1 && typeShort(x.Results[0].Type()) == "bool" {
				if k, ok := x.Results[0].(*ssa.Const); ok && k.Value != nil && k.Value.String() == "true" {
					n++
					key := fmt.Sprintf("%s conflict #%d", w.FuncName(fn), n)
					r.Check(covered(x), "R8.4", key, w.InstrPos(x), "the conflicting clause is tagged before returning",
						"a conflict is reported from a clause that is not tagged on every path: the extracted subset can miss the conflicting clause")
				}
			}
		}
	})
}

// R8.5: the two entry points perform the same per-line steps (same module calls with the same argument roles).
func ruleR8_5(w *World, r *Report) {
	r.Rule("R8.5", "all functions that check certificate lines make the same module-internal calls per line (tag initialisation, deferred restore, clause parsing, RUP test, acceptance)", 1)
	rup := rupTest(w)
	if rup == nil {
		r.Unk("R8.5", "RUP test", "-", "not found")
		return
	}
	ces := certEntries(w, rup)
	var cs []*ssa.Function
	coreOf := map[*ssa.Function]*ssa.Function{}
	for _, ce := range ces {
		cs = append(cs, ce.entry)
		if ce.entry != ce.core {
			coreOf[ce.entry] = ce.core
		}
	}
	if len(cs) < 2 {
		r.Unk("R8.5", "siblings", "-", fmt.Sprintf("%d certificate checker(s) found, expected the reader-based and the channel-based one", len(cs)))
		return
	}
	var sig func(fn *ssa.Function) map[string]bool
	sig = func(fn *ssa.Function) map[string]bool {
		m := map[string]bool{}
		if core := coreOf[fn]; core != nil {
			// the per-line steps are those of the shared helper
			m = sig(core)
		}
		for _, ci := range callsIn(fn) {
			for _, c := range w.Callees[ci] {
				kind := "call"
				if _, ok := ci.(*ssa.Defer); ok {
					kind = "defer"
				}
				loop := "once"
				if inLoop(fn, ci.Block()) {
					loop = "per-line"
				}
				name := w.FuncName(c)
				if isRestorer(c) {
					name = "(function cutting Clauses back to NbClauses)" // a method or an inlined closure
				} else if c.Parent() != nil {
					name = "(closure)"
				}
				m[kind+" "+name+" "+loop] = true
			}
		}
		for _, gs := range growthSites(fn) {
			loop := "once"
			if inLoop(fn, gs.Store.Block()) {
				loop = "per-line"
			}
			m["append "+gs.Field+" "+loop] = true
		}
		return m
	}
	base := sig(cs[0])
	for _, other := range cs[1:] {
		key := w.FuncName(cs[0]) + " ~ " + w.FuncName(other)
		o := sig(other)
		var diff []string
		for k := range base {
			if !o[k] {
				diff = append(diff, "only in "+w.FuncName(cs[0])+": "+k)
			}
		}
		for k := range o {
			if !base[k] {
				diff = append(diff, "only in "+w.FuncName(other)+": "+k)
			}
		}
		if len(diff) > 0 {
			r.Bad("R8.5", key, w.Pos(other.Pos()), "the two certificate readers do not perform the same steps: "+strings.Join(diff, "; "))
		} else {
			r.OK("R8.5", key, w.Pos(other.Pos()), joinSorted(base))
		}
	}
}

// R8.6: unit clauses are pre-tagged. The reader binds the literal of every unit clause into units while parsing,
// so the propagation loop sees unit clauses as already satisfied and never tags them; the tag initialiser must
// therefore tag them itself, or the extracted subset silently loses every unit clause it depends on.
func ruleR8_6(w *World, r *Report) {
	r.Rule("R8.6", "because the DIMACS reader of package explain pre-binds unit clauses, the tag initialiser marks every clause of length 1 as used, in a loop over all clauses", 1)
	// does the parser pre-bind? a function of package explain that appends to Clauses and stores into units[...]
	prebinds := false
	for _, fn := range w.Fns {
		if w.PkgName(fn) != "explain" {
			continue
		}
		grows, binds := false, false
		for _, gs := range growthSites(fn) {
			if gs.Field == "explain.Problem.Clauses" {
				grows = true
			}
		}
		allInstrs(fn, func(ins ssa.Instruction) {
			if st, ok := ins.(*ssa.Store); ok {
				if ia, ok := st.Addr.(*ssa.IndexAddr); ok {
					if _, ok := isFieldLoad(ia.X, "explain.Problem", "units"); ok {
						binds = true
					}
				}
			}
		})
		if grows && binds && rupTest(w) != nil && !w.Reachable(fn)[rupTest(w)] {
			prebinds = true
		}
	}
	var init *ssa.Function
	for _, fn := range w.Fns {
		if w.PkgName(fn) == "explain" && isTagInit(fn) {
			init = fn
		}
	}
	if init == nil {
		r.Unk("R8.6", "tag initialiser", "-", "no function of package explain allocates Problem.tagged")
		return
	}
	key := w.FuncName(init) + " pre-tags unit clauses"
	if !prebinds {
		r.OK("R8.6", key, w.Pos(init.Pos()), "the reader does not pre-bind unit clauses: nothing to pre-tag")
		return
	}
	ok := false
	allInstrs(init, func(ins ssa.Instruction) {
		st, isSt := ins.(*ssa.Store)
		if !isSt {
			return
		}
		ia, isIA := st.Addr.(*ssa.IndexAddr)
		if !isIA {
			return
		}
		if _, isF := isFieldLoad(ia.X, "explain.Problem", "tagged"); !isF {
			return
		}
		// value: len(Clauses[i]) == 1 with the same i, i over the full range of Clauses
		bo, isB := st.Val.(*ssa.BinOp)
		if !isB || bo.Op != token.EQL {
			return
		}
		if k, isK := constInt(bo.Y); !isK || k != 1 {
			return
		}
		lenCall, isC := bo.X.(*ssa.Call)
		if !isC {
			return
		}
		if b, isBu := lenCall.Call.Value.(*ssa.Builtin); !isBu || b.Name() != "len" {
			return
		}
		ld, isL := lenCall.Call.Args[0].(*ssa.UnOp)
		if !isL || ld.Op != token.MUL {
			return
		}
		ia2, isIA2 := ld.X.(*ssa.IndexAddr)
		if !isIA2 || ia2.Index != ia.Index {
			return
		}
		if _, isF := isFieldLoad(ia2.X, "explain.Problem", "Clauses"); !isF {
			return
		}
		if fullRangeIndex(ia.Index, func(b ssa.Value) bool {
			return isLenOf(b, func(x ssa.Value) bool { _, ok := isFieldLoad(x, "explain.Problem", "Clauses"); return ok })
		}) {
			ok = true
		}
	})
	r.Check(ok, "R8.6", key, w.Pos(init.Pos()), "tagged[i] = len(Clauses[i]) == 1 for every clause",
		"unit clauses are not marked as used although the reader pre-binds them (propagation never tags a clause it sees as satisfied): the unsatisfiable subset can lack a unit clause it needs and be satisfiable")
}
