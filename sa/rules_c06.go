package main

import (
	"fmt"
	"go/token"
	"go/types"
	"sort"
	"strings"

	"golang.org/x/tools/go/ssa"
)

func init() {
	register(&property{
		ID:          "C06",
		Explanation: "completeness and neutrality of certificate certEmission: (R6.1) every clause appended to the learned-clause database is written to the certificate by the same function when Certified is set; (R6.2) a literal produced by conflict analysis is bound at the top level only after it was written; (R6.3) on the way from Solve, Unsat is concluded only by the function that writes the empty clause first, and search functions return Unsat only as that function's result; (R6.4) code that runs only when Certified is set writes no solver state, so the flag cannot change the verdict; (R6.5) the stdout form and the channel form of each certEmission carry the same payload.",
		NotDecided:  "that each emitted clause is a reverse-unit-propagation consequence (soundness of first-UIP learning and minimisation): needs a replay of the certificate.",
		Rules:       []ruleFn{ruleR6_1, ruleR6_2, ruleR6_3, ruleR6_4, ruleR6_5, ruleR1_8, ruleR1_10, ruleR1_11, ruleR1_12, ruleR2_8, ruleR6_6, ruleR6_7},
	})
}

// certRegions returns, for fn, the If instructions testing the Certified flag and the blocks that run only when
// it is set (blocks dominated by the true successor).
type certRegion struct {
	If     *ssa.If
	Blocks map[*ssa.BasicBlock]bool
}

func certRegions(fn *ssa.Function) []certRegion {
	var out []certRegion
	allInstrs(fn, func(ins ssa.Instruction) {
		iff, ok := ins.(*ssa.If)
		if !ok {
			return
		}
		if _, ok := isFieldLoad(iff.Cond, "solver.Solver", "Certified"); !ok {
			return
		}
		t := iff.Block().Succs[0]
		reg := certRegion{If: iff, Blocks: map[*ssa.BasicBlock]bool{}}
		if len(t.Preds) == 1 {
			for _, b := range fn.Blocks {
				if t.Dominates(b) {
					reg.Blocks[b] = true
				}
			}
		}
		out = append(out, reg)
	})
	return out
}

// printfArgs recovers (format, args) of a fmt.Printf/Sprintf/Println style call with a constant format.
func printfArgs(call *ssa.CallCommon) (format string, args []ssa.Value, ok bool) {
	if len(call.Args) == 0 {
		return "", nil, false
	}
	format, ok = constString(call.Args[0])
	if !ok {
		return "", nil, false
	}
	if len(call.Args) < 2 {
		return format, nil, true
	}
	if isNilConst(call.Args[1]) {
		return format, nil, true
	}
	sl, isSl := call.Args[1].(*ssa.Slice)
	if !isSl {
		return format, nil, false
	}
	al, isAl := sl.X.(*ssa.Alloc)
	if !isAl {
		return format, nil, false
	}
	slots := map[int64]ssa.Value{}
	for _, r := range *al.Referrers() {
		ia, isIA := r.(*ssa.IndexAddr)
		if !isIA {
			continue
		}
		idx, isC := constInt(ia.Index)
		if !isC {
			return format, nil, false
		}
		for _, r2 := range *ia.Referrers() {
			if st, isSt := r2.(*ssa.Store); isSt && st.Addr == ia {
				v := st.Val
				if mi, isMI := v.(*ssa.MakeInterface); isMI {
					v = mi.X
				}
				slots[idx] = v
			}
		}
	}
	for i := int64(0); i < int64(len(slots)); i++ {
		v, present := slots[i]
		if !present {
			return format, nil, false
		}
		args = append(args, v)
	}
	return format, args, true
}

// valueDesc describes a value for payload comparison: method calls on the same receiver are equal.
func (w *World) valueDesc(v ssa.Value) string {
	switch x := v.(type) {
	case *ssa.Call:
		name := w.calleeName(&x.Call)
		var as []string
		for _, a := range x.Call.Args {
			as = append(as, w.valueDesc(a))
		}
		return name + "(" + strings.Join(as, ",") + ")"
	case *ssa.Const:
		return "const:" + x.Value.String()
	case *ssa.MakeInterface:
		return w.valueDesc(x.X)
	case *ssa.Convert:
		return w.valueDesc(x.X)
	}
	return v.Name()
}

// payload normalises what an certEmission writes: format without trailing newline + argument descriptions; a lone
// "%s" is its argument.
func (w *World) payload(format string, args []ssa.Value) string {
	format = strings.TrimSuffix(format, "\n")
	if format == "%s" && len(args) == 1 {
		return w.payloadOfValue(args[0])
	}
	var as []string
	for _, a := range args {
		as = append(as, w.valueDesc(a))
	}
	return fmt.Sprintf("%q%v", format, as)
}

func (w *World) payloadOfValue(v ssa.Value) string {
	if s, ok := constString(v); ok {
		return fmt.Sprintf("%q%v", s, []string(nil))
	}
	if c, ok := v.(*ssa.Call); ok && w.calleeName(&c.Call) == "fmt.Sprintf" {
		if f, as, ok := printfArgs(&c.Call); ok {
			return w.payload(f, as)
		}
	}
	return w.valueDesc(v)
}

// certEmission is one certificate write inside a Certified region.
type certEmission struct {
	Ins     ssa.Instruction
	ToChan  bool
	Payload string
	Values  []ssa.Value // values whose text is written (arguments / sent value)
}

func (w *World) emissions(fn *ssa.Function, reg certRegion) []certEmission {
	var out []certEmission
	for b := range reg.Blocks {
		for _, ins := range b.Instrs {
			switch x := ins.(type) {
			case *ssa.Call:
				n := w.calleeName(&x.Call)
				if n == "fmt.Printf" || n == "fmt.Print" || n == "fmt.Println" {
					if f, as, ok := printfArgs(&x.Call); ok && n == "fmt.Printf" {
						out = append(out, certEmission{x, false, w.payload(f, as), as})
					} else {
						out = append(out, certEmission{x, false, "?", nil})
					}
				} else if cs := w.Callees[x]; len(cs) == 1 {
					// an certEmission helper: a module function that prints / sends one of its string parameters
					out = append(out, w.helperEmissions(x, cs[0])...)
				}
			case *ssa.Send:
				if _, ok := isFieldLoad(x.Chan, "solver.Solver", "CertChan"); ok {
					vals := []ssa.Value{x.X}
					if c, ok := x.X.(*ssa.Call); ok && w.calleeName(&c.Call) == "fmt.Sprintf" {
						if _, as, ok := printfArgs(&c.Call); ok {
							vals = as
						}
					}
					out = append(out, certEmission{x, true, w.payloadOfValue(x.X), vals})
				}
			}
		}
	}
	sort.Slice(out, func(i, j int) bool { return out[i].Ins.Pos() < out[j].Ins.Pos() })
	return out
}

// helperEmissions maps the emissions of a helper `func (s *Solver) emit(line string)` back to its call site.
func (w *World) helperEmissions(call *ssa.Call, callee *ssa.Function) []certEmission {
	var out []certEmission
	args := call.Call.Args
	argOf := func(v ssa.Value) ssa.Value {
		if i := paramIndex(callee, v); i >= 0 && i < len(args) {
			return args[i]
		}
		return nil
	}
	allInstrs(callee, func(ins ssa.Instruction) {
		switch x := ins.(type) {
		case *ssa.Call:
			if w.calleeName(&x.Call) == "fmt.Printf" {
				if f, as, ok := printfArgs(&x.Call); ok && strings.TrimSuffix(f, "\n") == "%s" && len(as) == 1 {
					if a := argOf(as[0]); a != nil && typeShort(a.Type()) == "string" {
						out = append(out, certEmission{call, false, w.payloadOfValue(a), emissionValues(w, a)})
					}
				}
			}
			if n := w.calleeName(&x.Call); n == "fmt.Println" || n == "fmt.Print" {
				out = append(out, certEmission{call, false, "?", nil})
			}
		case *ssa.Send:
			if _, ok := isFieldLoad(x.Chan, "solver.Solver", "CertChan"); ok {
				if a := argOf(x.X); a != nil {
					out = append(out, certEmission{call, true, w.payloadOfValue(a), emissionValues(w, a)})
				}
			}
		}
	})
	return out
}

func emissionValues(w *World, v ssa.Value) []ssa.Value {
	if c, ok := v.(*ssa.Call); ok && w.calleeName(&c.Call) == "fmt.Sprintf" {
		if _, as, ok := printfArgs(&c.Call); ok {
			return as
		}
	}
	return []ssa.Value{v}
}

// mentions: does the certEmission write (the text of) value v, i.e. is v the receiver/argument of a written call?
func mentions(e certEmission, v ssa.Value) bool {
	var walk func(x ssa.Value, d int) bool
	walk = func(x ssa.Value, d int) bool {
		if x == v {
			return true
		}
		if d > 4 {
			return false
		}
		switch y := x.(type) {
		case *ssa.Call:
			for _, a := range y.Call.Args {
				if walk(a, d+1) {
					return true
				}
			}
		case *ssa.MakeInterface:
			return walk(y.X, d+1)
		case *ssa.Convert:
			return walk(y.X, d+1)
		}
		return false
	}
	for _, x := range e.Values {
		if walk(x, 0) {
			return true
		}
	}
	return false
}

// R6.1
func ruleR6_1(w *World, r *Report) {
	r.Rule("R6.1", "every function that appends a clause to watcherList.learned writes that clause to the certificate, on stdout and on the channel, when Certified is set", 1)
	for _, fn := range w.Fns {
		if w.PkgName(fn) != "solver" {
			continue
		}
		for _, gs := range growthSites(fn) {
			if gs.Field != "solver.watcherList.learned" {
				continue
			}
			call := gs.Store.Val.(*ssa.Call)
			// the appended clause: single element of the varargs array
			var clause ssa.Value
			if sl, ok := call.Call.Args[1].(*ssa.Slice); ok {
				if al, ok := sl.X.(*ssa.Alloc); ok {
					for _, rr := range *al.Referrers() {
						if ia, ok := rr.(*ssa.IndexAddr); ok {
							for _, r2 := range *ia.Referrers() {
								if st, ok := r2.(*ssa.Store); ok {
									clause = st.Val
								}
							}
						}
					}
				}
			}
			key := w.FuncName(fn) + " appends to learned"
			if clause == nil {
				r.Unk("R6.1", key, w.InstrPos(gs.Store), "cannot identify the appended clause")
				continue
			}
			var toOut, toChan bool
			for _, reg := range certRegions(fn) {
				if !alwaysExecutedWith(reg.If, gs.Store) {
					continue // the Certified test itself is conditional on something else
				}
				for _, e := range w.emissions(fn, reg) {
					if mentions(e, clause) {
						if e.ToChan {
							toChan = true
						} else {
							toOut = true
						}
					}
				}
			}
			if toOut && toChan {
				r.OK("R6.1", key, w.InstrPos(gs.Store), "the clause is written on stdout and on CertChan under Certified")
			} else {
				r.Bad("R6.1", key, w.InstrPos(gs.Store), fmt.Sprintf("a learned clause is stored without being written to the certificate (stdout form: %v, channel form: %v): later lines may depend on it, so a checker replaying the certificate fails", toOut, toChan))
			}
		}
	}
}

// conflictAnalysers: functions of the solver returning a learned *Clause together with literal(s).
func conflictAnalysers(w *World) []*ssa.Function {
	var out []*ssa.Function
	for _, fn := range w.Fns {
		if w.PkgName(fn) != "solver" || fn.Signature.Recv() == nil {
			continue
		}
		res := fn.Signature.Results()
		if res.Len() < 2 || typeShort(res.At(0).Type()) != "*solver.Clause" {
			continue
		}
		hasLit := false
		for i := 1; i < res.Len(); i++ {
			t := typeShort(res.At(i).Type())
			if t == "solver.Lit" || t == "[]solver.Lit" {
				hasLit = true
			}
		}
		if hasLit && typeShort(fn.Signature.Recv().Type()) == "*solver.Solver" {
			out = append(out, fn)
		}
	}
	return out
}

// unitEmitters: functions with a Lit parameter that write it to the certificate under Certified.
func unitEmitters(w *World) []*ssa.Function {
	var out []*ssa.Function
	for _, fn := range w.Fns {
		if w.PkgName(fn) != "solver" {
			continue
		}
		var lit *ssa.Parameter
		for _, p := range fn.Params {
			if typeShort(p.Type()) == "solver.Lit" {
				lit = p
			}
		}
		if lit == nil {
			continue
		}
		for _, reg := range certRegions(fn) {
			for _, e := range w.emissions(fn, reg) {
				if mentions(e, lit) {
					out = append(out, fn)
					goto next
				}
			}
		}
	next:
	}
	return out
}

func derivesFromAnalyser(w *World, v ssa.Value, analysers map[*ssa.Function]bool, depth int) bool {
	if depth > 4 || v == nil {
		return false
	}
	switch x := v.(type) {
	case *ssa.Extract:
		if c, ok := x.Tuple.(*ssa.Call); ok {
			for _, cal := range w.Callees[c] {
				if analysers[cal] {
					return true
				}
			}
		}
	case *ssa.UnOp:
		if x.Op == token.MUL {
			if ia, ok := x.X.(*ssa.IndexAddr); ok {
				return derivesFromAnalyser(w, ia.X, analysers, depth+1)
			}
		}
	case *ssa.Phi:
		for _, e := range x.Edges {
			if derivesFromAnalyser(w, e, analysers, depth+1) {
				return true
			}
		}
	}
	return false
}

// unitBinding: a call binding, at decision level 1, a literal that comes from a conflict analyser. The call sits in
// the search loop itself (holder == loopFn, site == call) or in a helper of the loop that is handed the literal
// (`if !s.learnUnit(unit) { return s.setUnsat() }`): then lit is the helper's parameter and site the helper's call.
type unitBinding struct {
	holder *ssa.Function
	call   *ssa.Call
	lit    ssa.Value
	loopFn *ssa.Function
	site   *ssa.Call
}

func learnedUnitBindings(w *World, an map[*ssa.Function]bool) []unitBinding {
	callsAn := func(fn *ssa.Function) bool {
		for _, ci := range callsIn(fn) {
			for _, c := range w.Callees[ci] {
				if an[c] {
					return true
				}
			}
		}
		return false
	}
	eff := w.effects()
	level1Bindings := func(fn *ssa.Function) (calls []*ssa.Call, lits []ssa.Value) {
		for _, ci := range callsIn(fn) {
			call, ok := ci.(*ssa.Call)
			if !ok || len(w.Callees[call]) == 0 {
				continue
			}
			var lit ssa.Value
			lvl1 := false
			for _, a := range call.Call.Args {
				if typeShort(a.Type()) == "solver.Lit" {
					lit = a
				}
				if typeShort(a.Type()) == "solver.decLevel" {
					if v, ok := constInt(a); ok && v == 1 {
						lvl1 = true
					}
				}
			}
			// the binding proper: the callee writes the model (a pure helper computing the signed level binds nothing)
			writes := false
			for _, c := range w.Callees[call] {
				if eff.WritesAny(c, "solver.Solver.model") {
					writes = true
				}
			}
			if lit != nil && lvl1 && writes {
				calls, lits = append(calls, call), append(lits, lit)
			}
		}
		return
	}
	var out []unitBinding
	for _, fn := range w.Fns {
		if w.PkgName(fn) != "solver" || !callsAn(fn) {
			continue
		}
		calls, lits := level1Bindings(fn)
		for i, call := range calls {
			if derivesFromAnalyser(w, lits[i], an, 0) {
				out = append(out, unitBinding{fn, call, lits[i], fn, call})
			}
		}
		// helpers handed a literal of the analyser
		for _, ci := range callsIn(fn) {
			site, ok := ci.(*ssa.Call)
			h := ci.Common().StaticCallee()
			if !ok || h == nil || w.PkgName(h) != "solver" || h == fn || an[h] || callsAn(h) || len(h.Blocks) == 0 {
				continue
			}
			isBinding := false
			for _, c := range calls {
				if c == site {
					isBinding = true // the binding function itself, not a helper around it
				}
			}
			if isBinding {
				continue
			}
			hcalls, hlits := level1Bindings(h)
			for i, hc := range hcalls {
				pi := paramIndex(h, hlits[i])
				if pi < 0 || pi >= len(site.Call.Args) || !derivesFromAnalyser(w, site.Call.Args[pi], an, 0) {
					continue
				}
				if typeShort(hc.Type()) != "*solver.Clause" {
					continue // a helper is recognised by the binding proper (the call that may answer a conflict)
				}
				out = append(out, unitBinding{h, hc, hlits[i], fn, site})
			}
		}
	}
	return out
}

// R6.2
func ruleR6_2(w *World, r *Report) {
	r.Rule("R6.2", "in the functions that call a conflict analyser, a literal taken from its result is bound at decision level 1 only after the call that writes it to the certificate", 2)
	an := map[*ssa.Function]bool{}
	for _, f := range conflictAnalysers(w) {
		an[f] = true
	}
	em := map[*ssa.Function]bool{}
	for _, f := range unitEmitters(w) {
		em[f] = true
	}
	if len(an) == 0 || len(em) == 0 {
		r.Unk("R6.2", "anchors", "-", fmt.Sprintf("conflict analysers found: %d, unit emitters found: %d", len(an), len(em)))
		return
	}
	perFn := map[*ssa.Function]int{}
	for _, ub := range learnedUnitBindings(w, an) {
		perFn[ub.loopFn]++
		key := fmt.Sprintf("%s top-level binding #%d of a learned literal", w.FuncName(ub.loopFn), perFn[ub.loopFn])
		emitted := false
		for _, cj := range callsIn(ub.holder) {
			c2, ok := cj.(*ssa.Call)
			if !ok {
				continue
			}
			for _, cal := range w.Callees[c2] {
				if em[cal] {
					for _, a := range c2.Call.Args {
						if a == ub.lit && instrDominates(c2, ub.call) {
							emitted = true
						}
					}
				}
			}
		}
		r.Check(emitted, "R6.2", key, w.InstrPos(ub.call), "the literal is written to the certificate before it is bound", "a literal learned by conflict analysis is bound at the top level without having been written to the certificate: the refutation has a gap")
	}
}

// R6.3
func ruleR6_3(w *World, r *Report) {
	r.Rule("R6.3", "among the functions reachable from Solver.Solve, the constant Unsat is stored into Solver.status only after the empty clause was written when Certified is set, and functions that can reach that store never return the constant Unsat themselves", 1)
	unsat, ok := w.statusConst("Unsat")
	solve := w.Func("solver", "Solver.Solve")
	if !ok || solve == nil {
		r.Unk("R6.3", "anchors", "-", "solver.Unsat or Solver.Solve not found")
		return
	}
	reach := w.Reachable(solve)
	var concluders []*ssa.Function
	for _, fn := range w.SortedFns(reach) {
		for i, st := range storesToField(fn, "solver.Solver", "status") {
			v, isC := constInt(st.Val)
			if !isC || v != unsat {
				continue
			}
			concluders = append(concluders, fn)
			key := fmt.Sprintf("%s concludes Unsat #%d", w.FuncName(fn), i+1)
			// every path from the Certified-true edge to the store passes an certEmission of the empty clause
			regs := certRegions(fn)
			var dom *certRegion
			for k := range regs {
				if regs[k].If.Block().Dominates(st.Block()) {
					dom = &regs[k]
				}
			}
			if dom == nil {
				r.Bad("R6.3", key, w.InstrPos(st), "Unsat is concluded without consulting the Certified flag: the certificate of an unsatisfiable problem would lack the empty clause")
				continue
			}
			emitBlocks := map[*ssa.BasicBlock]bool{}
			for _, e := range w.emissions(fn, *dom) {
				if e.Payload == fmt.Sprintf("%q%v", "0", []string(nil)) {
					emitBlocks[e.Ins.Block()] = true
				}
			}
			// DFS from the true successor, not entering certEmission blocks
			seen := map[*ssa.BasicBlock]bool{}
			var leak bool
			var visit func(b *ssa.BasicBlock)
			visit = func(b *ssa.BasicBlock) {
				if seen[b] || emitBlocks[b] {
					return
				}
				seen[b] = true
				if b == st.Block() {
					leak = true
					return
				}
				for _, s := range b.Succs {
					visit(s)
				}
			}
			visit(dom.If.Block().Succs[0])
			r.Check(!leak, "R6.3", key, w.InstrPos(st), "every Certified path to the store writes the empty clause \"0\" first", "there is a path on which Certified is set and Unsat is concluded without writing the empty clause \"0\"")
		}
	}
	if len(concluders) == 0 {
		r.Unk("R6.3", "concluder", "-", "no function reachable from Solve stores Unsat into the status")
		return
	}
	// functions that can reach a concluder and return Status must not return the constant Unsat
	isConcluder := map[*ssa.Function]bool{}
	for _, c := range concluders {
		isConcluder[c] = true
	}
	for _, fn := range w.SortedFns(reach) {
		if isConcluder[fn] || fn.Signature.Results().Len() != 1 || typeShort(fn.Signature.Results().At(0).Type()) != "solver.Status" {
			continue
		}
		reachesConcluder := false
		for g := range w.Reachable(fn) {
			if isConcluder[g] {
				reachesConcluder = true
			}
		}
		if !reachesConcluder {
			continue
		}
		key := w.FuncName(fn) + " returns Unsat only through the concluder"
		var bad []string
		allInstrs(fn, func(ins ssa.Instruction) {
			ret, ok := ins.(*ssa.Return)
			if !ok || len(ret.Results) != 1 {
				return
			}
			var check func(v ssa.Value, d int)
			check = func(v ssa.Value, d int) {
				if d > 5 {
					return
				}
				if k, ok := constInt(v); ok && k == unsat {
					bad = append(bad, "returns the constant Unsat at "+w.InstrPos(ret)+" without going through the function that writes the empty clause")
				}
				if p, ok := v.(*ssa.Phi); ok {
					for _, e := range p.Edges {
						check(e, d+1)
					}
				}
			}
			check(ret.Results[0], 0)
		})
		if len(bad) > 0 {
			r.Bad("R6.3", key, w.Pos(fn.Pos()), strings.Join(bad, "; "))
		} else {
			r.OK("R6.3", key, w.Pos(fn.Pos()), "no constant Unsat result")
		}
	}
}

// R6.4
func ruleR6_4(w *World, r *Report) {
	r.Rule("R6.4", "code that runs only when Certified is set writes no field of the solver state (directly or through calls)", 3)
	eff := w.effects()
	for _, fn := range w.Fns {
		if w.PkgName(fn) != "solver" {
			continue
		}
		for i, reg := range certRegions(fn) {
			key := fmt.Sprintf("%s Certified region #%d", w.FuncName(fn), i+1)
			var bad []string
			if len(reg.Blocks) == 0 || len(w.emissions(fn, reg)) == 0 {
				bad = append(bad, "this test of the Certified flag steers control flow that is not certificate certEmission (its true edge has no certEmission region of its own)")
			}
			for b := range reg.Blocks {
				for _, ins := range b.Instrs {
					switch x := ins.(type) {
					case *ssa.Store:
						if f, ok := rootField(x.Addr); ok && !localBase(x.Addr) {
							bad = append(bad, "writes "+f+" at "+w.InstrPos(ins))
						}
					case *ssa.MapUpdate:
						bad = append(bad, "updates a map at "+w.InstrPos(ins))
					case ssa.CallInstruction:
						for _, c := range w.Callees[x] {
							if l := eff.List(c); len(l) > 0 {
								if len(l) > 3 {
									l = append(l[:3], "...")
								}
								bad = append(bad, "calls "+w.FuncName(c)+", which writes "+strings.Join(l, ", ")+", at "+w.InstrPos(ins))
							}
						}
					case *ssa.Return, *ssa.Panic:
						// guard style (`if !s.Certified { return }` ... emit ... return): leaving is no difference when the
						// uncertified branch does nothing but return the same values
						if ret, isRet := ins.(*ssa.Return); isRet {
							other := reg.If.Block().Succs[1]
							if len(other.Instrs) == 1 {
								if r2, isR2 := other.Instrs[0].(*ssa.Return); isR2 && len(r2.Results) == len(ret.Results) {
									same := true
									for i := range ret.Results {
										if ret.Results[i] != r2.Results[i] {
											k1, c1 := ret.Results[i].(*ssa.Const)
											k2, c2 := r2.Results[i].(*ssa.Const)
											if !c1 || !c2 || k1.String() != k2.String() {
												same = false
											}
										}
									}
									if same {
										continue
									}
								}
							}
						}
						bad = append(bad, "leaves the function at "+w.InstrPos(ins)+" (the rest of the function is skipped only when certifying)")
					}
				}
			}
			sort.Strings(bad)
			if len(bad) > 0 {
				r.Bad("R6.4", key, w.InstrPos(reg.If), "turning certification on changes the solver's behaviour: "+strings.Join(bad, "; "))
			} else {
				r.OK("R6.4", key, w.InstrPos(reg.If), fmt.Sprintf("%d block(s), no state written", len(reg.Blocks)))
			}
		}
	}
	// the flag must not be read anywhere else than in those tests
	for _, fn := range w.Fns {
		allInstrs(fn, func(ins ssa.Instruction) {
			u, ok := ins.(*ssa.UnOp)
			if !ok || u.Op != token.MUL {
				return
			}
			if q := qualField(u.X); q != "solver.Solver.Certified" {
				return
			}
			for _, ref := range *u.Referrers() {
				if _, ok := ref.(*ssa.If); ok {
					continue
				}
				if _, ok := ref.(*ssa.DebugRef); ok {
					continue
				}
				r.Bad("R6.4", w.FuncName(fn)+" uses Certified as a value", w.InstrPos(ref), "the Certified flag flows into a computation instead of only guarding certEmission")
			}
		})
	}
	_ = types.Typ
}

// R6.5
func ruleR6_5(w *World, r *Report) {
	r.Rule("R6.5", "in every Certified region the text written on stdout and the text sent on CertChan are the same payload (up to the trailing newline)", 3)
	for _, fn := range w.Fns {
		if w.PkgName(fn) != "solver" {
			continue
		}
		for i, reg := range certRegions(fn) {
			key := fmt.Sprintf("%s Certified region #%d payloads", w.FuncName(fn), i+1)
			var outs, chans []string
			for _, e := range w.emissions(fn, reg) {
				if e.ToChan {
					chans = append(chans, e.Payload)
				} else {
					outs = append(outs, e.Payload)
				}
			}
			sort.Strings(outs)
			sort.Strings(chans)
			if len(outs) == 0 || len(chans) == 0 {
				r.Bad("R6.5", key, w.InstrPos(reg.If), fmt.Sprintf("one of the two forms is missing (stdout: %v, channel: %v)", outs, chans))
				continue
			}
			if strings.Join(outs, "|") != strings.Join(chans, "|") {
				r.Bad("R6.5", key, w.InstrPos(reg.If), fmt.Sprintf("stdout writes %v but the channel receives %v: the two certificates differ", outs, chans))
			} else {
				r.OK("R6.5", key, w.InstrPos(reg.If), "payload "+strings.Join(outs, "|"))
			}
		}
	}
}
