package main

import (
	"fmt"
	"go/token"
	"sort"
	"strings"

	"golang.org/x/tools/go/ssa"
)

// R1.7: watch / unwatch dispatch agreement. The watch function files a two-literal clause under wlistBin and a
// longer one under wlist. An unwatch function that searches only wlist (its search loop has no bound: it runs off
// the end when the clause is not there) may therefore only be called on clauses known to have more than two
// literals. Accepted evidence on the same clause value: a dominating test on its LBD (LBD <= length, so LBD > 2
// implies length > 2) or on its length.
func ruleR1_7(w *World, r *Report) {
	r.Rule("R1.7", "a function that removes a clause from the general watch lists only (not from the binary ones) is called only under a dominating test that excludes clauses of two literals (lbd > 2 or Len > 2 on the same clause)", 1)
	touches := func(fn *ssa.Function, field string) bool {
		hit := false
		allInstrs(fn, func(ins ssa.Instruction) {
			if u, ok := ins.(*ssa.UnOp); ok && u.Op == token.MUL && qualField(u.X) == "solver.watcherList."+field {
				hit = true
			}
		})
		return hit
	}
	// gt2: the edge tells that clause c has more than two literals (lbd > 2 or Len > 2)
	gt2 := func(ec edgeCond, c ssa.Value) bool {
		bo, isB := ec.Cond.(*ssa.BinOp)
		if !isB {
			return false
		}
		call, isCall := bo.X.(*ssa.Call)
		k, isK := constInt(bo.Y)
		if !isCall || !isK || len(call.Call.Args) != 1 || call.Call.Args[0] != c {
			return false
		}
		name := w.calleeName(&call.Call)
		if name != "(*solver.Clause).lbd" && name != "(*solver.Clause).Len" {
			return false
		}
		switch bo.Op {
		case token.LEQ: // m <= k false  => m > k
			return !ec.True && k >= 2
		case token.LSS: // m < k false => m >= k
			return !ec.True && k >= 3
		case token.GTR:
			return ec.True && k >= 2
		case token.GEQ:
			return ec.True && k >= 3
		}
		return false
	}
	excluded := func(b *ssa.BasicBlock, c ssa.Value) bool {
		for _, ec := range dominatingConds(b) {
			if gt2(ec, c) {
				return true
			}
		}
		return false
	}
	// falseImpliesGt2: predicate k (a function literal or a function) answers false only for clauses of more than two
	// literals: every returned value that may be false is produced under such a test of the predicate's own argument
	falseImpliesGt2 := func(k *ssa.Function) bool {
		if k == nil || len(k.Blocks) == 0 || len(k.Params) == 0 {
			return false
		}
		c := ssa.Value(k.Params[len(k.Params)-1])
		ok, rets := true, 0
		allInstrs(k, func(ins ssa.Instruction) {
			ret, isRet := ins.(*ssa.Return)
			if !isRet || len(ret.Results) != 1 {
				return
			}
			rets++
			mayFalse := func(v ssa.Value, from *ssa.BasicBlock) {
				if cst, isC := v.(*ssa.Const); isC && cst.Value != nil && cst.Value.String() == "true" {
					return
				}
				if !excluded(from, c) {
					ok = false
				}
			}
			if phi, isPhi := ret.Results[0].(*ssa.Phi); isPhi && phi.Block() == ret.Block() {
				for i, e := range phi.Edges {
					mayFalse(e, phi.Block().Preds[i])
				}
			} else {
				mayFalse(ret.Results[0], ret.Block())
			}
		})
		return ok && rets > 0
	}
	funcOfValue := func(v ssa.Value) *ssa.Function {
		switch x := v.(type) {
		case *ssa.MakeClosure:
			f, _ := x.Fn.(*ssa.Function)
			return f
		case *ssa.Function:
			return x
		}
		return nil
	}
	n := 0
	for u := range unwatchers(w) {
		if !touches(u, "wlist") || touches(u, "wlistBin") {
			continue
		}
		for _, fn := range w.Fns {
			for _, ci := range callsIn(fn) {
				if w.staticCalleeIs(ci, u) {
					n++
					key := fmt.Sprintf("%s call #%d of %s", w.FuncName(fn), n, w.FuncName(u))
					args := ci.Common().Args
					c := args[len(args)-1]
					r.Check(excluded(ci.Block(), c), "R1.7", key, w.InstrPos(ci), "dominated by a test that excludes two-literal clauses",
						"a clause that may have two literals (filed under the binary watch lists) is handed to a function that searches the general watch lists without a bound: index out of range, or a wrong entry removed")
					continue
				}
				// the remover handed as a function value to a helper (`s.removeLearned(n, keep, s.unwatchClause)`): the
				// helper calls it under a test of its own, or under a predicate it was handed at the same call site
				h := ci.Common().StaticCallee()
				if h == nil || !w.InModule(h) || len(h.Blocks) == 0 {
					continue
				}
				args := ci.Common().Args
				for ai, a := range args {
					fv := funcOfValue(a)
					if fv == nil || fv.Object() == nil || fv.Object() != u.Object() || ai >= len(h.Params) {
						continue
					}
					pu := h.Params[ai]
					for _, hi := range callsIn(h) {
						if hi.Common().Value != ssa.Value(pu) || len(hi.Common().Args) == 0 {
							continue
						}
						n++
						key := fmt.Sprintf("%s call #%d of %s through %s", w.FuncName(fn), n, w.FuncName(u), w.FuncName(h))
						c := hi.Common().Args[len(hi.Common().Args)-1]
						ok := excluded(hi.Block(), c)
						if !ok {
							for _, ec := range dominatingConds(hi.Block()) {
								kc, isCall := ec.Cond.(*ssa.Call)
								if !isCall || ec.True || len(kc.Call.Args) != 1 || kc.Call.Args[0] != c {
									continue
								}
								pk := paramIndex(h, kc.Call.Value)
								if pk < 0 || pk >= len(args) {
									continue
								}
								if falseImpliesGt2(funcOfValue(args[pk])) {
									ok = true
								}
							}
						}
						r.Check(ok, "R1.7", key, w.InstrPos(ci), "the helper calls the remover only where a test, or the predicate handed with it, excludes two-literal clauses",
							"a clause that may have two literals (filed under the binary watch lists) is handed to a function that searches the general watch lists without a bound: index out of range, or a wrong entry removed")
					}
				}
			}
		}
	}
}

// R1.8: the literal asserted by a learned clause gets that clause as its reason.
func ruleR1_8(w *World, r *Report) {
	r.Rule("R1.8", "in the search loops, after a learned clause was added to the database, its asserting literal(s) get the clause as reason on every path to the next iteration (conflict analysis treats a literal without reason as a decision)", 2)
	// adders: functions appending to watcherList.learned
	adders := map[*ssa.Function]bool{}
	for _, fn := range w.Fns {
		if w.PkgName(fn) != "solver" {
			continue
		}
		for _, gs := range growthSites(fn) {
			if gs.Field == "solver.watcherList.learned" {
				adders[fn] = true
			}
		}
	}
	an := map[*ssa.Function]bool{}
	for _, f := range conflictAnalysers(w) {
		an[f] = true
	}
	// wrappers: functions that are not adders, do not run the analysis themselves and hand one of their own
	// parameters to an adder
	type wrapInfo struct {
		param int
		call  *ssa.Call
		x     ssa.Value
	}
	wrappers := map[*ssa.Function]wrapInfo{}
	for _, fn := range w.Fns {
		if w.PkgName(fn) != "solver" || adders[fn] || an[fn] {
			continue
		}
		callsAn := false
		for _, ci := range callsIn(fn) {
			for _, c := range w.Callees[ci] {
				if an[c] {
					callsAn = true
				}
			}
		}
		if callsAn {
			continue
		}
		for _, ci := range callsIn(fn) {
			call, ok := ci.(*ssa.Call)
			if !ok || len(w.Callees[call]) != 1 || !adders[w.Callees[call][0]] {
				continue
			}
			x := call.Call.Args[len(call.Call.Args)-1]
			pi := paramIndex(fn, x)
			if pi < 0 {
				continue
			}
			if fn.Signature.Recv() != nil {
				pi--
			}
			if pi >= 0 {
				wrappers[fn] = wrapInfo{param: pi, call: call, x: x}
			}
		}
	}
	// reasonMissing explores fn from the addition `call` of clause X: the places from which the next iteration of the
	// loop headed by header (or, with a nil header, a return of fn) is reached without a store reason[...] = X
	reasonMissing := func(fn *ssa.Function, call *ssa.Call, X ssa.Value, header *ssa.BasicBlock) []string {
		isReasonStore := func(ins ssa.Instruction) bool {
			st, ok := ins.(*ssa.Store)
			if !ok || st.Val != X {
				return false
			}
			ia, ok := st.Addr.(*ssa.IndexAddr)
			if !ok {
				return false
			}
			_, ok = isFieldLoad(ia.X, "solver.Solver", "reason")
			return ok
		}
		inRegion := func(b *ssa.BasicBlock) bool { return header == nil || loopBlocks(fn, header)[b] }
		// inner loops whose body sets the reason: assumed to run at least once when they range over the literals
		// returned by the analyser together with the clause
		innerSets := map[*ssa.BasicBlock]bool{}
		for _, h := range loopHeaders(fn) {
			if h == header || !inRegion(h) {
				continue
			}
			for b := range loopBlocks(fn, h) {
				for _, ins := range b.Instrs {
					if isReasonStore(ins) {
						innerSets[h] = true
					}
				}
			}
		}
		missing := map[string]bool{}
		exploreEdges(call.Block(), &pstate{phi: map[*ssa.Phi]ssa.Value{}, facts: map[string]string{}},
			func(b *ssa.BasicBlock) bool { return header != nil && (b == header || !inRegion(b)) },
			func(ins ssa.Instruction, st *pstate) {
				if ins == ssa.Instruction(call) {
					st.facts["after"] = "yes"
					return
				}
				if st.facts["after"] != "yes" {
					return
				}
				if isReasonStore(ins) {
					st.facts["reason"] = "set"
				}
				if innerSets[ins.Block()] && ins == ins.Block().Instrs[0] {
					st.facts["reason"] = "set"
				}
				if _, isRet := ins.(*ssa.Return); isRet && header == nil && st.facts["reason"] != "set" {
					missing[w.InstrPos(ins)] = true
				}
			},
			func(from, to *ssa.BasicBlock, st *pstate) {
				if st.facts["after"] != "yes" || st.facts["reason"] == "set" {
					return
				}
				if header != nil && to == header {
					missing[w.InstrPos(from.Instrs[len(from.Instrs)-1])] = true
				}
			})
		var ps []string
		for p := range missing {
			ps = append(ps, p)
		}
		return sortedStrings(ps)
	}
	n := 0
	for _, fn := range w.Fns {
		if w.PkgName(fn) != "solver" || adders[fn] {
			continue
		}
		callsAn := false
		for _, ci := range callsIn(fn) {
			for _, c := range w.Callees[ci] {
				if an[c] {
					callsAn = true
				}
			}
		}
		if !callsAn {
			continue
		}
		for _, ci := range callsIn(fn) {
			call, ok := ci.(*ssa.Call)
			if !ok || len(w.Callees[call]) != 1 {
				continue
			}
			var X ssa.Value
			viaHelper := ""
			if adders[w.Callees[call][0]] {
				X = call.Call.Args[len(call.Call.Args)-1]
			} else if wr, ok := wrappers[w.Callees[call][0]]; ok {
				// a helper of the loop adds the clause it is handed (`s.backjump(learnt, lits, lvl)`): when it records
				// the reason itself on every path to its return the obligation is met there; otherwise its call stands
				// for the addition
				h := w.Callees[call][0]
				args := call.Call.Args
				if h.Signature.Recv() != nil {
					args = args[1:]
				}
				if wr.param >= len(args) {
					continue
				}
				X = args[wr.param]
				viaHelper = w.FuncName(h)
				if miss := reasonMissing(h, wr.call, wr.x, nil); len(miss) == 0 {
					n++
					r.OK("R1.8", fmt.Sprintf("%s learned clause #%d becomes the reason of its asserting literal", w.FuncName(fn), n), w.InstrPos(call),
						"reason stored on every path of the helper "+viaHelper+" that adds the clause")
					continue
				}
			} else {
				continue
			}
			n++
			key := fmt.Sprintf("%s learned clause #%d becomes the reason of its asserting literal", w.FuncName(fn), n)
			// innermost... the outermost loop containing the call is the search loop
			var header *ssa.BasicBlock
			for _, h := range loopHeaders(fn) {
				if loopBlocks(fn, h)[call.Block()] && (header == nil || loopBlocks(fn, h)[header]) {
					header = h
				}
			}
			if header == nil {
				r.Unk("R1.8", key, w.InstrPos(call), "the clause is not learned inside a search loop")
				continue
			}
			missing := reasonMissing(fn, call, X, header)
			if len(missing) > 0 {
				r.Bad("R1.8", key, w.InstrPos(call), "the next iteration can start (from "+strings.Join(missing, ", ")+") without the learned clause having been recorded as the reason of the literal it asserts: later conflict analysis resolves that literal away as if it were a decision and learns clauses that are not implied")
			} else {
				r.OK("R1.8", key, w.InstrPos(call), "reason stored on every path to the next iteration")
			}
		}
	}
}

// R1.9: the decision function says "every variable is bound" only after it found the decision queue empty.
//
// The search loops turn that answer into Sat. Every unbound variable is in the queue (R14.1 (iii) rebuilds it after
// retractions), so an empty queue is what proves that nothing is left to decide; any other shortcut (trail length,
// counters) is not: the trail can hold the same unit twice.
func ruleR1_9(w *World, r *Report) {
	r.Rule("R1.9", "the function that picks the next decision literal returns `no variable left` (-1) only on paths where its last test of the decision queue found it empty", 1)
	n := 0
	for _, fn := range w.Fns {
		if w.PkgName(fn) != "solver" || fn.Signature.Recv() == nil || fn.Signature.Params().Len() != 0 ||
			fn.Signature.Results().Len() != 1 || typeShort(fn.Signature.Results().At(0).Type()) != "solver.Lit" ||
			typeShort(fn.Signature.Recv().Type()) != "*solver.Solver" || len(fn.Blocks) == 0 {
			continue
		}
		// consumes the queue?
		var emptyCalls []*ssa.Call
		consumes := false
		for _, ci := range callsIn(fn) {
			c, ok := ci.(*ssa.Call)
			if !ok {
				continue
			}
			for _, callee := range w.Callees[c] {
				name := w.FuncName(callee)
				if strings.HasPrefix(name, "(*solver.queue).") {
					consumes = true
					if typeShort(c.Type()) == "bool" {
						emptyCalls = append(emptyCalls, c)
					}
				}
			}
		}
		if !consumes {
			continue
		}
		n++
		key := w.FuncName(fn) + " reports exhaustion only on an empty queue"
		var bad []string
		nRet := 0
		_, trunc := exploreEdges(fn.Blocks[0], &pstate{phi: map[*ssa.Phi]ssa.Value{}, facts: map[string]string{}}, nil,
			func(ins ssa.Instruction, st *pstate) {
				ret, ok := ins.(*ssa.Return)
				if !ok || len(ret.Results) != 1 {
					return
				}
				v := st.resolve(ret.Results[0])
				if cv, isConv := v.(*ssa.Convert); isConv {
					v = st.resolve(cv.X)
				}
				k, isK := constInt(v)
				if !isK || k != -1 {
					return
				}
				nRet++
				for _, ec := range emptyCalls {
					if st.facts["cond:"+st.vkey(ec)] == "=true" {
						return
					}
				}
				bad = append(bad, w.InstrPos(ret))
			}, nil)
		switch {
		case trunc:
			r.Unk("R1.9", key, w.Pos(fn.Pos()), "state space too large")
		case len(bad) > 0:
			r.Bad("R1.9", key, w.Pos(fn.Pos()), "`no variable left` can be returned at "+strings.Join(dedupe(bad), ", ")+" on a path where the decision queue was not found empty: the search then answers Sat although variables (and clauses over them) are still undecided")
		case nRet == 0:
			r.Unk("R1.9", key, w.Pos(fn.Pos()), "no path returns the `no variable left` value -1")
		default:
			r.OK("R1.9", key, w.Pos(fn.Pos()), fmt.Sprintf("%d exhaustion path(s), each after an empty-queue test", nRet))
		}
	}
	if n == 0 {
		r.Unk("R1.9", "decision function", "-", "no parameterless method of Solver returning a Lit and consuming the decision queue")
	}
}

// R1.10: conflict analysis reads conflict and reason constraints whole.
//
// The implied literal of a reason is not at a fixed position (cardinality constraints imply several literals; clause
// watches are swapped), so every loop of the clause analyser and of its helpers that walks a constraint with Get(i)
// starts at 0 and ends at Len(): skipping a position drops a literal the derivation depends on, and the learned
// clause is then neither implied nor RUP.
func ruleR1_10(w *World, r *Report) {
	r.Rule("R1.10", "in the clause-learning analyser and the functions it calls, every loop that reads a conflict or reason constraint through Get(i) visits all positions 0..Len()-1 of that constraint", 3)
	var roots []*ssa.Function
	for _, an := range conflictAnalysers(w) {
		reads := false
		allInstrs(an, func(ins ssa.Instruction) {
			if u, ok := ins.(*ssa.UnOp); ok && u.Op == token.MUL {
				if o, f, _, ok := fieldOf(u.X); ok && o == "solver.Solver" && f == "assumptions" {
					reads = true
				}
			}
		})
		if reads {
			roots = append(roots, an)
		}
	}
	if len(roots) == 0 {
		r.Unk("R1.10", "clause-learning analyser", "-", "no conflict analyser reads Solver.assumptions")
		return
	}
	lenFn := w.Func("solver", "Clause.Len")
	if lenFn == nil {
		r.Unk("R1.10", "(*solver.Clause).Get / Len", "-", "accessor not found")
		return
	}
	for _, root := range roots {
		// the analyser, the Solver methods it calls, and the plain helper functions those hand a constraint to
		// (`hasUnmetLit(reason, met)`): methods of the constraint type itself are its accessors, not analysis steps
		fns := []*ssa.Function{root}
		var add func(from *ssa.Function, depth int)
		add = func(from *ssa.Function, depth int) {
			for _, ci := range callsIn(from) {
				c := ci.Common().StaticCallee()
				if c == nil || w.PkgName(c) != "solver" || c == root || len(c.Blocks) == 0 {
					continue
				}
				isSolverMethod := c.Signature.Recv() != nil && typeShort(c.Signature.Recv().Type()) == "*solver.Solver"
				takesClause := false
				if c.Signature.Recv() == nil {
					for i := 0; i < c.Signature.Params().Len(); i++ {
						if typeShort(c.Signature.Params().At(i).Type()) == "*solver.Clause" {
							takesClause = true
						}
					}
				}
				if !isSolverMethod && !takesClause && depth > 1 {
					continue // (a function the analyser itself calls is part of the analysis whatever it is handed)
				}
				fns = append(fns, c)
				if depth < 2 {
					add(c, depth+1)
				}
			}
		}
		add(root, 1)
		seenFn := map[*ssa.Function]bool{}
		for _, fn := range fns {
			if seenFn[fn] {
				continue
			}
			seenFn[fn] = true
			k := 0
			seenRead := map[ssa.Value]bool{}
			allInstrs(fn, func(ins ssa.Instruction) {
				v, ok := ins.(ssa.Value)
				if !ok || !inLoop(fn, ins.Block()) {
					return
				}
				recv, idx, ok := clauseElem(w, v)
				if !ok || seenRead[v] {
					return
				}
				seenRead[v] = true
				k++
				key := fmt.Sprintf("%s constraint scan #%d", w.FuncName(fn), k)
				full := fullRangeIndex(idx, func(b ssa.Value) bool {
					lc, ok := b.(*ssa.Call)
					if !ok || len(lc.Call.Args) != 1 {
						return false
					}
					if w.staticCalleeIs(lc, lenFn) {
						return lc.Call.Args[0] == recv
					}
					if bi, isB := lc.Call.Value.(*ssa.Builtin); isB && bi.Name() == "len" {
						base, isF := isFieldLoad(lc.Call.Args[0], "solver.Clause", "lits")
						return isF && base == recv
					}
					return false
				})
				r.Check(full, "R1.10", key, w.InstrPos(ins), "index runs from 0 to the length of the constraint read",
					"the loop does not visit every position of the constraint it reads (start other than 0, step other than 1, or bound other than its length): a literal of the conflict / reason is left out of the analysis, so the learned clause is not implied by the constraints it was derived from")
			})
		}
	}
}

// R1.11: a search loop is left for a restart only after the pending literal was bound.
//
// The literal carried into an iteration may be the asserting literal of the clause learned in the previous one: its
// reason is already recorded (R1.8) and the clause is locked. Leaving the loop before that literal is bound (and so put
// on the trail, from where retraction clears the reason) leaves a reason on an unbound variable; when the variable is
// later decided, conflict analysis resolves through a clause that never implied it.
func ruleR1_11(w *World, r *Report) {
	r.Rule("R1.11", "in every search loop, a return of Indet (restart) is dominated, within the iteration, by the call that binds the literal carried into the iteration", 2)
	indet, ok := w.statusConst("Indet")
	if !ok {
		r.Unk("R1.11", "status constants", "-", "Indet not found")
		return
	}
	an := map[*ssa.Function]bool{}
	for _, f := range conflictAnalysers(w) {
		an[f] = true
	}
	n := 0
	for _, fn := range w.Fns {
		if w.PkgName(fn) != "solver" {
			continue
		}
		callsAn := false
		for _, ci := range callsIn(fn) {
			for _, c := range w.Callees[ci] {
				if an[c] {
					callsAn = true
				}
			}
		}
		if !callsAn {
			continue
		}
		for _, h := range loopHeaders(fn) {
			body := loopBlocks(fn, h)
			// the literal carried by the loop: a phi of type Lit in the header
			var litPhi *ssa.Phi
			for _, ins := range h.Instrs {
				if p, ok := ins.(*ssa.Phi); ok && typeShort(p.Type()) == "solver.Lit" {
					litPhi = p
				}
			}
			if litPhi == nil {
				continue
			}
			// binding calls: calls in the loop taking the carried literal and returning *Clause
			var binds []*ssa.Call
			for b := range body {
				for _, ins := range b.Instrs {
					if c, ok := ins.(*ssa.Call); ok && typeShort(c.Type()) == "*solver.Clause" {
						for _, a := range c.Call.Args {
							if a == ssa.Value(litPhi) {
								binds = append(binds, c)
							}
						}
					}
				}
			}
			if len(binds) == 0 {
				continue
			}
			n++
			key := fmt.Sprintf("%s restarts only after binding the pending literal", w.FuncName(fn))
			var bad []string
			nRet := 0
			for _, b := range fn.Blocks {
				// exits taken from inside the loop: blocks the header dominates that are not part of the cycle
				if !h.Dominates(b) || body[b] {
					continue
				}
				fromLoop := false
				for _, p := range b.Preds {
					if body[p] {
						fromLoop = true
					}
				}
				ret, ok := b.Instrs[len(b.Instrs)-1].(*ssa.Return)
				if !ok || len(ret.Results) != 1 || !fromLoop {
					continue
				}
				if k, isK := constInt(ret.Results[0]); !isK || k != indet {
					continue
				}
				nRet++
				dominated := false
				for _, c := range binds {
					if instrDominates(c, ret) {
						dominated = true
					}
				}
				if !dominated {
					bad = append(bad, w.InstrPos(ret))
				}
			}
			if len(bad) > 0 {
				sort.Strings(bad)
				r.Bad("R1.11", key, bad[0], "the loop can be left with Indet at "+strings.Join(bad, ", ")+" before the literal carried into the iteration is bound: when it is the asserting literal of the last learned clause, its recorded reason survives on an unbound variable and corrupts later conflict analysis")
			} else {
				r.OK("R1.11", key, w.InstrPos(binds[0]), fmt.Sprintf("%d restart exit(s), each after the binding", nRet))
			}
		}
	}
	if n < 2 {
		r.Unk("R1.11", "search loops", "-", fmt.Sprintf("%d search loop(s) carrying a literal found, expected one per strategy", n))
	}
}

// R1.12: a clause recorded as the reason of a binding is locked.
//
// Clause deletion skips locked clauses only. A learned clause that is the reason of a current binding and is deleted
// (or recycled) while the binding stands is later read by conflict analysis.
func ruleR1_12(w *World, r *Report) {
	r.Rule("R1.12", "every store of a clause into Solver.reason is accompanied, in the same block, by a call locking that clause - except for clauses taken from the two-literal watch lists, which are never candidates for deletion", 2)
	// the locking method: the method of *Clause without parameters or results that sets bits (x = x | mask) in a field
	// of the clause; the name is only the fallback
	lock := w.Func("solver", "Clause.lock")
	for _, f := range w.Fns {
		if w.PkgName(f) != "solver" || f.Signature.Recv() == nil || typeShort(f.Signature.Recv().Type()) != "*solver.Clause" ||
			f.Signature.Params().Len() != 0 || f.Signature.Results().Len() != 0 || len(f.Blocks) != 1 {
			continue
		}
		ors, others := 0, 0
		allInstrs(f, func(ins ssa.Instruction) {
			if st, ok := ins.(*ssa.Store); ok {
				if bo, isB := st.Val.(*ssa.BinOp); isB && bo.Op == token.OR {
					ors++
				} else {
					others++
				}
			}
		})
		if ors == 1 && others == 0 {
			lock = f
		}
	}
	if lock == nil {
		r.Unk("R1.12", "(*solver.Clause).lock", "-", "method not found")
		return
	}
	n := 0
	for _, fn := range w.Fns {
		if w.PkgName(fn) != "solver" {
			continue
		}
		k := 0
		allInstrs(fn, func(ins ssa.Instruction) {
			st, ok := ins.(*ssa.Store)
			if !ok {
				return
			}
			ia, ok := st.Addr.(*ssa.IndexAddr)
			if !ok {
				return
			}
			if _, isR := isFieldLoad(ia.X, "solver.Solver", "reason"); !isR || isNilConst(st.Val) {
				return
			}
			k++
			n++
			key := fmt.Sprintf("%s reason store #%d", w.FuncName(fn), k)
			for _, ci := range callsIn(fn) {
				if c, isC := ci.(*ssa.Call); isC && w.staticCalleeIs(c, lock) && len(c.Call.Args) == 1 && c.Call.Args[0] == st.Val &&
					(c.Block() == st.Block() || instrDominates(c, st)) {
					r.OK("R1.12", key, w.InstrPos(st), "locked in the same step")
					return
				}
			}
			// a clause built here by the constructor of original (not learned) clauses is never deleted
			if mk, isC := st.Val.(*ssa.Call); isC {
				if sc := mk.Call.StaticCallee(); sc != nil && sc.Name() == "NewClause" && w.PkgName(sc) == "solver" {
					r.OK("R1.12", key, w.InstrPos(st), "an original clause built here (not a learned one): never deleted")
					return
				}
			}
			if fromBinWatch(st.Val) {
				r.OK("R1.12", key, w.InstrPos(st), "two-literal clause from the binary watch lists: never deleted (R1.7)")
				return
			}
			// binary watcher: value loaded from a field of a watcher element of wlistBin
			if ld, isL := st.Val.(*ssa.UnOp); isL && ld.Op == token.MUL {
				if _, f, base, okF := fieldOf(ld.X); okF && f == "clause" {
					root := base
					for i := 0; i < 6; i++ {
						switch y := root.(type) {
						case *ssa.IndexAddr:
							root = y.X
							continue
						case *ssa.UnOp:
							if fa, isFA := y.X.(*ssa.IndexAddr); isFA && y.Op == token.MUL {
								root = fa
								continue
							}
						}
						break
					}
					if rf, okR := rootField(root); okR && strings.Contains(rf, "wlistBin") {
						r.OK("R1.12", key, w.InstrPos(st), "two-literal clause from the binary watch lists: never deleted (R1.7)")
						return
					}
					if ld2, isL2 := root.(*ssa.UnOp); isL2 {
						if rf, okR := rootField(ld2.X); okR && strings.Contains(rf, "wlistBin") {
							r.OK("R1.12", key, w.InstrPos(st), "two-literal clause from the binary watch lists: never deleted (R1.7)")
							return
						}
					}
				}
			}
			// a Field of a ranged watcher value
			if fv, isF := st.Val.(*ssa.Field); isF {
				if rangedOverBin(fv.X) {
					r.OK("R1.12", key, w.InstrPos(st), "two-literal clause from the binary watch lists: never deleted (R1.7)")
					return
				}
			}
			r.Bad("R1.12", key, w.InstrPos(st), "the clause stored as reason is not locked: the deletion of learned clauses may drop it while the binding it explains still stands, and conflict analysis then reads a clause that is no longer in the database")
		})
	}
	if n < 2 {
		r.Unk("R1.12", "reason stores", "-", fmt.Sprintf("%d store(s) of a non-nil reason found", n))
	}
}

// fromBinWatch: v is read out of the field wlistBin (through loads, indexing and field selections).
func fromBinWatch(v ssa.Value) bool {
	for i := 0; i < 10 && v != nil; i++ {
		switch x := v.(type) {
		case *ssa.Field:
			v = x.X
		case *ssa.UnOp:
			if x.Op != token.MUL {
				return false
			}
			v = x.X
		case *ssa.IndexAddr:
			v = x.X
		case *ssa.Alloc:
			// a local copy of a ranged element: every value stored into it must come from the binary lists
			n := 0
			for _, ref := range *x.Referrers() {
				if st, ok := ref.(*ssa.Store); ok && st.Addr == ssa.Value(x) {
					n++
					if !fromBinWatch(st.Val) {
						return false
					}
				}
			}
			return n > 0
		case *ssa.FieldAddr:
			if _, f, base, ok := fieldOf(x); ok {
				if f == "wlistBin" {
					return true
				}
				v = base
			} else {
				return false
			}
		default:
			return false
		}
	}
	return false
}

// rangedOverBin: v is an element loaded from a slice found in the field wlistBin.
func rangedOverBin(v ssa.Value) bool {
	ld, ok := v.(*ssa.UnOp)
	if !ok || ld.Op != token.MUL {
		return false
	}
	ia, ok := ld.X.(*ssa.IndexAddr)
	if !ok {
		return false
	}
	x := ia.X
	for i := 0; i < 4; i++ {
		if rf, okR := rootField(x); okR && strings.Contains(rf, "wlistBin") {
			return true
		}
		if l2, isL := x.(*ssa.UnOp); isL && l2.Op == token.MUL {
			x = l2.X
			continue
		}
		if i2, isI := x.(*ssa.IndexAddr); isI {
			x = i2.X
			continue
		}
		break
	}
	return false
}
