package main

import (
	"fmt"
	"go/token"
	"go/types"
	"os"
	"strings"

	"golang.org/x/tools/go/ssa"
)

func init() {
	register(&property{
		ID:          "C04",
		Explanation: "(R4.1) auxiliary relaxation variables never leak: on every path of every Interface.Optimal wrapper outside package solver, a result obtained from the inner solver leaves the method (return or send) only after its Model was cut at the first relaxation variable, unless its status was tested not to be Sat; (R4.2) in maxsat.New, on every path on which a constraint is soft, the blocking literal is appended and gets a coefficient equal to the constraint's degree (implicit unit coefficients are only kept when the degree is 1); (R4.3) Problem.Solve inserts a binding into the returned model only for named variables.",
		NotDecided:  "minimality of the reported cost, the WCNF top-weight semantics on concrete values, and variable renumbering.",
		Rules:       []ruleFn{ruleR4_1, ruleR4_2, ruleR4_3, ruleR4_4, ruleR4_5, ruleR4_6, ruleR4_7, ruleR13_8, ruleR13_6, ruleR3_5, ruleR9_4, ruleR9_5, ruleR9_6, ruleR2_9, ruleR9_7, ruleR20_1_2, ruleR4_8, ruleR4_9, ruleR2_2},
	})
}

func isResultType(t types.Type) bool { return typeShort(t) == "solver.Result" }

// R4.1
// trimAnalysis explores fn; results of the inner solver (calls returning a Result from package solver, channel
// receives, and - in helper mode - Result parameters) are "raw" until `x.Model = x.Model[:firstRelax]`.
// It returns the violations at sends/returns and, for helpers, whether a possibly-Sat raw value can be returned.
type trimAnalysis struct {
	w       *World
	sat     string
	helpers map[*ssa.Function]int // 0 unknown, 1 returns trimmed (or not Sat), 2 may return raw
}

func (ta *trimAnalysis) run(fn *ssa.Function, helper bool) (viol map[string]string, exits int, pairs int, trunc bool) {
	w := ta.w
	viol = map[string]string{}
	isRaw := func(st *pstate, v ssa.Value) bool {
		v = st.resolve(v)
		switch x := v.(type) {
		case *ssa.Parameter:
			return helper && isResultType(x.Type())
		case *ssa.Call:
			if !isResultType(x.Type()) {
				return false
			}
			// a helper outside package solver (one that receives a Result, or one that runs the inner solver itself,
			// `return s.forwardOptimal(results, stop)`): raw unless everything it returns and sends is trimmed
			for _, c := range w.Callees[x] {
				if w.PkgName(c) != "solver" && len(c.Blocks) > 0 && ta.summary(c) == 1 {
					return false
				}
			}
			return true
		case *ssa.UnOp:
			return x.Op == token.ARROW
		case *ssa.Extract:
			if u, ok := x.Tuple.(*ssa.UnOp); ok && u.Op == token.ARROW {
				return true
			}
		}
		return false
	}
	cellKey := func(al *ssa.Alloc) string { return "cell:" + chainOf(al) }
	checkExit := func(st *pstate, ins ssa.Instruction, v ssa.Value, what string) {
		if !isResultType(v.Type()) {
			return
		}
		exits++
		v = st.resolve(v)
		if isRaw(st, v) {
			viol[what+" at "+w.InstrPos(ins)] = "a result of the inner solver is " + what + " as is: a Sat model still contains the relaxation variables"
			return
		}
		if u, ok := v.(*ssa.UnOp); ok && u.Op == token.MUL {
			if al, ok := u.X.(*ssa.Alloc); ok {
				// the state of the cell when this value was loaded from it (the cell may have been overwritten since:
				// `last = res` ... `res, ok = <-ch` ... `return last`)
				state, known := st.facts["snap:"+u.Name()]
				if !known {
					state = st.facts[cellKey(al)]
					f := st.facts["load:"+chainOf(al)+".Status"]
					if strings.HasPrefix(f, "!="+ta.sat) || (strings.HasPrefix(f, "=") && f != "="+ta.sat) {
						state = "notsat"
					}
				}
				if state != "raw" {
					return
				}
				viol[what+" at "+w.InstrPos(ins)] = "the result is " + what + " on a path where it may be Sat and its model has not been cut at the first relaxation variable"
			}
		}
	}
	pairs, trunc = explore(fn.Blocks[0], &pstate{phi: map[*ssa.Phi]ssa.Value{}, facts: map[string]string{}}, nil, func(ins ssa.Instruction, st *pstate) {
		switch x := ins.(type) {
		case *ssa.UnOp:
			// a whole Result loaded from a cell: remember the state of the cell at this moment
			if al, ok := x.X.(*ssa.Alloc); ok && x.Op == token.MUL && isResultType(x.Type()) {
				state := st.facts[cellKey(al)]
				f := st.facts["load:"+chainOf(al)+".Status"]
				if strings.HasPrefix(f, "!="+ta.sat) || (strings.HasPrefix(f, "=") && f != "="+ta.sat) {
					state = "notsat"
				}
				st.facts["snap:"+x.Name()] = state
			}
		case *ssa.Store:
			switch a := x.Addr.(type) {
			case *ssa.Alloc:
				if !isResultType(x.Val.Type()) {
					return
				}
				// `*res = *res` (a named result returned by name): nothing changes
				if u, ok := st.resolve(x.Val).(*ssa.UnOp); ok && u.Op == token.MUL && u.X == ssa.Value(a) {
					return
				}
				st.forget(chainOf(a) + ".")
				val := st.resolve(x.Val)
				if isRaw(st, val) {
					st.facts[cellKey(a)] = "raw"
				} else if u, ok := val.(*ssa.UnOp); ok && u.Op == token.MUL {
					if src, ok := u.X.(*ssa.Alloc); ok {
						if snap, known := st.facts["snap:"+u.Name()]; known {
							// the value was loaded earlier: what counts is the state of the source cell at that moment
							switch snap {
							case "notsat":
								st.facts[cellKey(a)] = "trimmed"
							case "":
								delete(st.facts, cellKey(a))
							default:
								st.facts[cellKey(a)] = snap
							}
						} else {
							st.facts[cellKey(a)] = st.facts[cellKey(src)]
							if f, ok := st.facts["load:"+chainOf(src)+".Status"]; ok {
								st.facts["load:"+chainOf(a)+".Status"] = f
							}
						}
					}
				} else {
					delete(st.facts, cellKey(a))
				}
			case *ssa.FieldAddr:
				al, ok := a.X.(*ssa.Alloc)
				if !ok || !isResultType(al.Type().(*types.Pointer).Elem()) {
					return
				}
				_, fname, _, _ := fieldOf(a)
				if fname == "Status" {
					st.forget(chainOf(al) + ".Status")
				}
				if fname != "Model" {
					return
				}
				trimmed := false
				if sl, ok := x.Val.(*ssa.Slice); ok && sl.Low == nil && sl.High != nil {
					if base, ok := sl.X.(*ssa.UnOp); ok && base.Op == token.MUL {
						if fa, ok := base.X.(*ssa.FieldAddr); ok && fa.X == ssa.Value(al) && fa.Field == a.Field {
							if _, ok := isFieldLoad(sl.High, "", "firstRelax"); ok {
								trimmed = true
							}
						}
					}
				}
				if trimmed {
					if st.facts[cellKey(al)] == "raw" {
						st.facts[cellKey(al)] = "trimmed"
					}
				} else if st.facts[cellKey(al)] == "trimmed" {
					st.facts[cellKey(al)] = "raw"
				}
			}
		case *ssa.Return:
			if x.Block() == fn.Recover {
				return
			}
			for _, v := range x.Results {
				checkExit(st, x, v, "returned")
			}
		case *ssa.Send:
			checkExit(st, x, x.X, "sent")
		}
	})
	return
}

func (ta *trimAnalysis) summary(c *ssa.Function) int {
	if v, ok := ta.helpers[c]; ok {
		return v
	}
	ta.helpers[c] = 2 // recursion guard: pessimistic
	viol, _, _, trunc := ta.run(c, true)
	if os.Getenv("GSVERIF_DEBUG") != "" {
		fmt.Fprintln(os.Stderr, "trim summary", c, viol, trunc)
	}
	if len(viol) == 0 && !trunc {
		ta.helpers[c] = 1
	}
	return ta.helpers[c]
}

func ruleR4_1(w *World, r *Report) {
	r.Rule("R4.1", "in every implementation of solver.Interface.Optimal outside package solver, a Result coming from the inner solver is returned or sent only after `x.Model = x.Model[:firstRelax]` (directly or in a helper), or on a path where x.Status == Sat is known false", 1)
	impls, _ := w.implementations("solver", "Interface")
	sat, _ := w.statusConst("Sat")
	ta := &trimAnalysis{w: w, sat: fmt.Sprint(sat), helpers: map[*ssa.Function]int{}}
	n := 0
	for _, im := range impls {
		fn := im.Method
		if w.PkgName(fn) == "solver" || im.Name != "Optimal" {
			continue
		}
		n++
		key := w.FuncName(fn) + " trims every Sat result"
		viol, exits, pairs, trunc := ta.run(fn, false)
		if trunc {
			r.Unk("R4.1", key, w.Pos(fn.Pos()), "state space too large")
			continue
		}
		if len(viol) > 0 {
			var ms []string
			for k, v := range viol {
				ms = append(ms, k+": "+v)
			}
			r.Bad("R4.1", key, w.Pos(fn.Pos()), strings.Join(dedupe(sortedStrings(ms)), "; "))
		} else {
			r.OK("R4.1", key, w.Pos(fn.Pos()), fmt.Sprintf("%d (block,state) pairs, %d exit states checked", pairs, exits))
		}
	}
	if n == 0 {
		r.Unk("R4.1", "Interface.Optimal wrappers", "-", "no implementation of solver.Interface.Optimal outside package solver")
	}
}

func sortedStrings(in []string) []string {
	out := append([]string(nil), in...)
	for i := 1; i < len(out); i++ {
		for j := i; j > 0 && out[j] < out[j-1]; j-- {
			out[j], out[j-1] = out[j-1], out[j]
		}
	}
	return out
}

// R4.2
func ruleR4_2(w *World, r *Report) {
	r.Rule("R4.2", "in maxsat.New, at the call that builds the solver constraint, on every path where the constraint is soft (Weight != 0) a blocking literal was appended to the literals, and either a coefficient equal to the constraint's AtLeast was appended to explicit coefficients, or the coefficients are implicit (nil) and AtLeast == 1 is known", 1)
	fn := w.Func("maxsat", "New")
	if fn == nil {
		r.Unk("R4.2", "maxsat.New", "-", "function not found")
		return
	}
	var build *ssa.Call
	for _, ci := range callsIn(fn) {
		c, ok := ci.(*ssa.Call)
		if !ok {
			continue
		}
		if typeShort(c.Type()) == "solver.PBConstr" && len(c.Call.Args) == 3 {
			build = c
		}
	}
	key := "maxsat.New relaxes soft constraints"
	if build == nil {
		r.Unk("R4.2", key, w.Pos(fn.Pos()), "no call producing a solver.PBConstr from (lits, coeffs, degree) found")
		return
	}
	// start of one iteration: the body of the loop that contains the call
	var header *ssa.BasicBlock
	for _, h := range loopHeaders(fn) {
		if loopBlocks(fn, h)[build.Block()] {
			if header == nil || loopBlocks(fn, header)[h] {
				header = h
			}
		}
	}
	if header == nil {
		r.Unk("R4.2", key, w.InstrPos(build), "the constraint is not built inside a loop over the constraints")
		return
	}
	// outermost loop containing the call
	for _, h := range loopHeaders(fn) {
		if loopBlocks(fn, h)[build.Block()] && loopBlocks(fn, h)[header] && h != header {
			header = h
		}
	}
	viol := map[string]bool{}
	softPaths, hardPaths := 0, 0
	start := header
	pairs, trunc := explore(start, &pstate{phi: map[*ssa.Phi]ssa.Value{}, facts: map[string]string{}}, func(b *ssa.BasicBlock) bool { return false }, func(ins ssa.Instruction, st *pstate) {
		if ins == ssa.Instruction(header.Instrs[0]) {
			// a new iteration: forget what was known about the previous constraint
			for k := range st.facts {
				delete(st.facts, k)
			}
		}
		if ins != ssa.Instruction(build) {
			return
		}
		// is this path soft?
		soft := ""
		for k, v := range st.facts {
			if strings.HasPrefix(k, "load:") && strings.HasSuffix(k, ".Weight") {
				soft = v
			}
		}
		switch soft {
		case "=0":
			hardPaths++
			return
		case "!=0":
			softPaths++
		default:
			viol["the constraint is built on a path that never tested its Weight"] = true
			return
		}
		lits, coeffs, degree := build.Call.Args[0], build.Call.Args[1], build.Call.Args[2]
		if _, ok := isFieldLoad(degree, "maxsat.Constr", "AtLeast"); !ok {
			viol["the degree passed on is not the constraint's AtLeast"] = true
		}
		// the relaxation may live in a helper returning the new literals and coefficients: judge its return paths
		if lx, ok := st.resolve(lits).(*ssa.Extract); ok {
			if hc, ok := lx.Tuple.(*ssa.Call); ok {
				g := hc.Call.StaticCallee()
				cx, okc := st.resolve(coeffs).(*ssa.Extract)
				if g != nil && len(g.Blocks) > 0 && okc && cx.Tuple == lx.Tuple && w.PkgName(g) == "maxsat" {
					init := &pstate{phi: map[*ssa.Phi]ssa.Value{}, facts: map[string]string{}}
					for i, p := range g.Params {
						if i >= len(hc.Call.Args) {
							break
						}
						switch st.nilness(hc.Call.Args[i]) {
						case 1:
							init.facts[init.vkey(p)] = "=nil"
						case 2:
							init.facts[init.vkey(p)] = "!=nil"
						}
					}
					_, tr := explore(g.Blocks[0], init, nil, func(i2 ssa.Instruction, st2 *pstate) {
						ret, isRet := i2.(*ssa.Return)
						if !isRet || lx.Index >= len(ret.Results) || cx.Index >= len(ret.Results) {
							return
						}
						judgeRelaxed(st2, ret.Results[lx.Index], ret.Results[cx.Index], viol)
					})
					if tr {
						viol["state space of the relaxation helper too large"] = true
					}
					return
				}
			}
		}
		judgeRelaxed(st, lits, coeffs, viol)
	})
	if trunc {
		r.Unk("R4.2", key, w.InstrPos(build), "state space too large")
		return
	}
	if softPaths == 0 {
		viol["no path on which a constraint is soft reaches the construction"] = true
	}
	if len(viol) > 0 {
		var ms []string
		for k := range viol {
			ms = append(ms, k)
		}
		r.Bad("R4.2", key, w.InstrPos(build), strings.Join(sortedStrings(ms), "; "))
	} else {
		r.OK("R4.2", key, w.InstrPos(build), fmt.Sprintf("%d (block,state) pairs; %d soft and %d hard path states reach the construction", pairs, softPaths, hardPaths))
	}
}

// judgeRelaxed checks, in path state st, the literals and coefficients of a soft constraint after relaxation.
func judgeRelaxed(st *pstate, lits, coeffs ssa.Value, viol map[string]bool) {
	appendedInt := func(v ssa.Value) (elem ssa.Value, ok bool) {
		c, isCall := st.resolve(v).(*ssa.Call)
		if !isCall {
			return nil, false
		}
		if b, isB := c.Call.Value.(*ssa.Builtin); !isB || b.Name() != "append" {
			return nil, false
		}
		e := appendedElem(c)
		return e, e != nil
	}
	isAtLeast := func(e ssa.Value) bool {
		if _, ok := isFieldLoad(e, "maxsat.Constr", "AtLeast"); ok {
			return true
		}
		if f, ok := e.(*ssa.Field); ok {
			if o, name, _, okF := fieldOf(f); okF && o == "maxsat.Constr" && name == "AtLeast" {
				return true
			}
		}
		return false
	}
	if e, ok := appendedInt(lits); !ok {
		viol["soft path without a blocking literal appended to the literals"] = true
	} else {
		// the blocking literal is a fresh index: len of the variable table after it was extended
		if c, ok := e.(*ssa.Call); !ok || !isLenOf(c, func(x ssa.Value) bool { _, ok := isFieldLoad(x, "maxsat.Problem", "varInts"); return ok }) {
			viol["the literal appended on the soft path is not a fresh variable index (len of the variable table)"] = true
		}
	}
	switch st.nilness(coeffs) {
	case 1:
		ok1 := false
		for k, v := range st.facts {
			if strings.HasPrefix(k, "load:") && strings.HasSuffix(k, ".AtLeast") && v == "=1" {
				ok1 = true
			}
		}
		if !ok1 {
			viol["soft constraint with implicit unit coefficients and a degree that may differ from 1: the blocking literal gets coefficient 1 and cannot satisfy the relaxed constraint alone"] = true
		}
	case 2:
		e, ok := appendedInt(coeffs)
		if !ok {
			// the coefficients made one longer than the literals of the constraint, the extra slot written directly:
			// `coeffs = make([]int, len(constr.Lits)+1); ...; coeffs[len(constr.Lits)] = constr.AtLeast`
			if mk, isMk := st.resolve(coeffs).(*ssa.MakeSlice); isMk {
				if bo, isB := mk.Len.(*ssa.BinOp); isB && bo.Op == token.ADD {
					if k, isK := constInt(bo.Y); isK && k == 1 {
						sameLen := func(a, b ssa.Value) bool {
							if a == b {
								return true
							}
							ca, okA := a.(*ssa.Call)
							cb, okB := b.(*ssa.Call)
							if !okA || !okB || len(ca.Call.Args) != 1 || len(cb.Call.Args) != 1 {
								return false
							}
							ba, isBA := ca.Call.Value.(*ssa.Builtin)
							bb, isBB := cb.Call.Value.(*ssa.Builtin)
							return isBA && isBB && ba.Name() == "len" && bb.Name() == "len" && sameLoad(ca.Call.Args[0], cb.Call.Args[0])
						}
						for _, ref := range *mk.Referrers() {
							ia, isIA := ref.(*ssa.IndexAddr)
							if !isIA || !sameLen(ia.Index, bo.X) {
								continue
							}
							for _, r2 := range *ia.Referrers() {
								if stx, isSt := r2.(*ssa.Store); isSt && stx.Addr == ssa.Value(ia) {
									e, ok = stx.Val, true
								}
							}
						}
					}
				}
			}
		}
		if !ok {
			viol["soft path with explicit coefficients but none appended for the blocking literal"] = true
		} else if !isAtLeast(e) {
			viol["the coefficient appended for the blocking literal is not the constraint's AtLeast"] = true
		}
	default:
		viol["cannot decide whether the coefficients are nil on a soft path"] = true
	}
}

// R4.3
func ruleR4_3(w *World, r *Report) {
	r.Rule("R4.3", "in maxsat.(*Problem).Solve every insertion into the returned model is made under `name != \"\"` for the name of the same index, the value being the solver's binding at that index", 1)
	fn := w.Func("maxsat", "Problem.Solve")
	if fn == nil {
		r.Unk("R4.3", "maxsat.(*Problem).Solve", "-", "method not found")
		return
	}
	n := 0
	// the projection may live in a helper of Solve that is handed the names (`namedModel(pb.varInts, model)`)
	scan := []*ssa.Function{fn}
	namesParam := map[ssa.Value]bool{}
	for _, ci := range callsIn(fn) {
		h := ci.Common().StaticCallee()
		if h == nil || w.PkgName(h) != "maxsat" || len(h.Blocks) == 0 {
			continue
		}
		for ai, a := range ci.Common().Args {
			if _, ok := isFieldLoad(a, "maxsat.Problem", "varInts"); ok && ai < len(h.Params) {
				namesParam[h.Params[ai]] = true
				scan = append(scan, h)
			}
		}
	}
	for _, sf := range scan {
		allInstrs(sf, func(ins ssa.Instruction) {
			mu, ok := ins.(*ssa.MapUpdate)
			if !ok {
				return
			}
			n++
			key := fmt.Sprintf("(*maxsat.Problem).Solve model insertion #%d", n)
			var bad []string
			// key = load varInts[i]
			var idx ssa.Value
			if u, ok := mu.Key.(*ssa.UnOp); ok && u.Op == token.MUL {
				if ia, ok := u.X.(*ssa.IndexAddr); ok {
					if _, ok := isFieldLoad(ia.X, "maxsat.Problem", "varInts"); ok || namesParam[ia.X] {
						idx = ia.Index
					}
				}
			}
			if idx == nil {
				bad = append(bad, "the key is not the name stored for a variable index")
			}
			// value = load model[i] with the same index
			if u, ok := mu.Value.(*ssa.UnOp); ok && u.Op == token.MUL {
				if ia, ok := u.X.(*ssa.IndexAddr); !ok || (idx != nil && ia.Index != idx) {
					bad = append(bad, "the binding inserted is not the one at the same index as the name")
				}
			} else {
				bad = append(bad, "the value inserted is not an element of the solver's model")
			}
			guarded := false
			for _, ec := range dominatingConds(mu.Block()) {
				bo, ok := ec.Cond.(*ssa.BinOp)
				if !ok || (bo.Op != token.EQL && bo.Op != token.NEQ) {
					continue
				}
				x, y := bo.X, bo.Y
				if _, isC := x.(*ssa.Const); isC {
					x, y = y, x
				}
				if s, ok := constString(y); !ok || s != "" || x != mu.Key {
					continue
				}
				if (bo.Op == token.NEQ) == ec.True {
					guarded = true
				}
			}
			if !guarded {
				bad = append(bad, "the insertion is not guarded by name != \"\": blocking (relaxation) variables, which have the empty name, leak into the model under the key \"\"")
			}
			if len(bad) > 0 {
				r.Bad("R4.3", key, w.InstrPos(mu), strings.Join(bad, "; "))
			} else {
				r.OK("R4.3", key, w.InstrPos(mu), "guarded by the name of the same index being non-empty")
			}
		})
	}
	if n == 0 {
		r.Bad("R4.3", "(*maxsat.Problem).Solve model insertion", w.Pos(fn.Pos()), "Solve never fills the model it returns")
	}
}

// R4.4: the model of the inner solver has at least firstRelax entries.
func ruleR4_4(w *World, r *Report) {
	r.Rule("R4.4", "wherever a MaxSAT solver is built with firstRelax = n, its inner problem is declared with at least n variables (built by a constructor that receives the same n as variable count), so that cutting the model at firstRelax stays within its length", 1)
	n := 0
	for _, fn := range w.Fns {
		if w.PkgName(fn) != "maxsat" {
			continue
		}
		for _, st := range storesToField(fn, "maxsat.Solver", "firstRelax") {
			n++
			key := w.FuncName(fn) + " declares the user variables to the inner problem"
			X := st.Val
			_, _, base, _ := fieldOf(st.Addr)
			// the inner solver stored into the same value
			var inner ssa.Value
			for _, s2 := range storesToField(fn, "maxsat.Solver", "solver") {
				if _, _, b2, _ := fieldOf(s2.Addr); b2 == base {
					inner = s2.Val
				}
			}
			ok := false
			why := "the inner solver is not built from a problem declared with the same variable count"
			if c, isCall := inner.(*ssa.Call); isCall && len(c.Call.Args) == 1 {
				// solver.New(prob): prob = ParseSliceNb(clauses, X) or any constructor taking X as an int argument
				var seen func(v ssa.Value, d int) bool
				seen = func(v ssa.Value, d int) bool {
					if d > 4 {
						return false
					}
					switch p := v.(type) {
					case *ssa.Call:
						for _, a := range p.Call.Args {
							if a == X && typeShort(a.Type()) == "int" {
								// the callee must use it as the declared variable count: it stores it into Problem.NbVars
								for _, callee := range w.Callees[p] {
									for _, s3 := range storesToField(callee, "solver.Problem", "NbVars") {
										if pi := paramIndex(callee, s3.Val); pi >= 0 {
											return true
										}
									}
								}
							}
						}
					case *ssa.Phi:
						for _, e := range p.Edges {
							if !seen(e, d+1) {
								return false
							}
						}
						return len(p.Edges) > 0
					}
					return false
				}
				ok = seen(c.Call.Args[0], 0)
			}
			r.Check(ok, "R4.4", key, w.InstrPos(st), "the problem constructor receives the declared variable count",
				why+": when the declared count exceeds the variables actually used (and no soft clause adds relaxation variables) the model is shorter than firstRelax and cutting it panics")
		}
	}
	if n == 0 {
		r.Unk("R4.4", "maxsat.Solver construction", "-", "no function of package maxsat sets Solver.firstRelax")
	}
}
