package main

import (
	"fmt"
	"go/token"
	"sort"
	"strings"

	"golang.org/x/tools/go/ssa"
)

func init() {
	register(&property{
		ID: "C02",
		Explanation: "(a) on every path of the two constraint front-ends (ParseCardConstrs, ParsePBConstrs) the panicking constructors are reached only with their precondition established (1 <= card, card <= len(lits) for cardinality constraints), so trivially true / trivially false constraints are handled and not rejected; " +
			"(b) in every scan loop that may keep its cursor in place (parse-time simplifiers, AppendClause, GtEq) each trip round the loop advances the cursor or shrinks what is scanned, so every literal is accounted for exactly once.",
		NotDecided: "the normalisation arithmetic, slack-based propagation, watch maintenance and the search itself; nothing is executed.",
		Rules:      []ruleFn{ruleR2_1, ruleR2_2, ruleR2_3, ruleR2_4, ruleR2_5, ruleR2_6, ruleR2_7, ruleR2_8, ruleR2_9, ruleR9_7, ruleR2_10, ruleR2_11},
		Fixtures:   []func(*World) []string{fixtureE8, fixtureR2_2},
	})
}

// ---------- R2.1 / R13.1: preconditions of panicking functions ----------

// contractPanic is an entry of the frozen table of panics that only malformed input (or a documented contract that
// the callers keep by construction) can trigger.
type contractPanic struct {
	Fn, Msg, Reason string
}

type entryRef struct{ Pkg, Name string }

func (w *World) resolveEntries(r *Report, rule string, refs []entryRef) []*ssa.Function {
	var roots []*ssa.Function
	for _, e := range refs {
		f := w.Func(e.Pkg, e.Name)
		if f == nil {
			r.Unk(rule, "entry point "+e.Pkg+"."+e.Name, "-", "the entry point does not exist any more: the rule cannot see the code it is about")
			continue
		}
		roots = append(roots, f)
	}
	return roots
}

// explicitPanics lists the panic instructions of the functions of a set, in a stable order, with a stable label.
type panicSite struct {
	P     *ssa.Panic
	Fn    *ssa.Function
	Msg   string
	Label string
}

func (w *World) explicitPanics(set map[*ssa.Function]bool) []panicSite {
	var out []panicSite
	for _, f := range w.SortedFns(set) {
		count := map[string]int{}
		var mine []panicSite
		allInstrs(f, func(ins ssa.Instruction) {
			if p, ok := ins.(*ssa.Panic); ok {
				m := e8PanicMessage(p)
				count[m]++
				mine = append(mine, panicSite{P: p, Fn: f, Msg: m})
			}
		})
		sort.SliceStable(mine, func(i, j int) bool { return mine[i].P.Pos() < mine[j].P.Pos() })
		nth := map[string]int{}
		for i := range mine {
			m := mine[i].Msg
			nth[m]++
			mine[i].Label = fmt.Sprintf("panic(%q)", m)
			if count[m] > 1 {
				mine[i].Label += fmt.Sprintf("#%d", nth[m])
			}
		}
		out = append(out, mine...)
	}
	return out
}

func lookupContract(table []contractPanic, fn, msg string) (contractPanic, bool) {
	for _, c := range table {
		if c.Fn == fn && c.Msg == msg {
			return c, true
		}
	}
	// the same panic (same message text) moved to another function of the same package by an inlining or a merge
	pkgOf := func(name string) string {
		name = strings.TrimLeft(name, "(*")
		if i := strings.Index(name, "."); i > 0 {
			return name[:i]
		}
		return name
	}
	for _, c := range table {
		if c.Msg == msg && pkgOf(c.Fn) == pkgOf(fn) {
			return c, true
		}
	}
	return contractPanic{}, false
}

// runPreconditions is the one implementation behind R2.1, R13.1 and R15.3.
//
// Every explicit panic of a function reachable from the roots is examined. When its guard can be expressed over
// the parameters of its function (panicGuard) it is a precondition, and every call site of the function inside the
// reachable set must establish the negation of the guard, directly (dominating comparisons) or, for a call inside a
// function that merely forwards its own parameters, at the call sites of that function. With classifyAll, panics
// that are not preconditions must be listed in the table of malformed-input panics.
func runPreconditions(w *World, r *Report, rule string, roots []*ssa.Function, classifyAll bool, table []contractPanic) {
	if len(roots) == 0 {
		return
	}
	reach := w.Reachable(roots...)
	rootSet := map[*ssa.Function]bool{}
	for _, f := range roots {
		rootSet[f] = true
	}
	pr := &e8Prover{w: w, reach: reach, roots: rootSet}
	for _, ps := range w.explicitPanics(reach) {
		fname := w.FuncName(ps.Fn)
		contract, listed := lookupContract(table, fname, ps.Msg)
		reqs, total, why := panicGuard(ps.P)
		if !total || rootSet[ps.Fn] {
			if !classifyAll {
				continue // not a constructor precondition: outside this rule
			}
			key := fname + " " + ps.Label
			if listed {
				r.OK(rule, key, w.InstrPos(ps.P), "malformed-input / contract panic: "+contract.Reason)
			} else {
				if rootSet[ps.Fn] && total {
					why = "it is in an entry point, whose parameters come from outside"
				}
				r.Bad(rule, key, w.InstrPos(ps.P), "explicit panic reachable from the entry points that is neither a precondition established by the callers ("+why+") nor a listed malformed-input panic")
			}
			continue
		}
		sites := pr.sitesOf(ps.Fn)
		if len(sites) == 0 {
			key := fname + " " + ps.Label
			if listed {
				r.OK(rule, key, w.InstrPos(ps.P), "contract panic: "+contract.Reason)
			} else {
				r.Unk(rule, key, w.InstrPos(ps.P), "the function is reachable but no call site of it was found (called through a function value?)")
			}
			continue
		}
		// ordinal of a site among the calls of the same callee in the same caller
		perCaller := map[*ssa.Function]int{}
		for _, s := range sites {
			perCaller[s.Parent()]++
		}
		nth := map[*ssa.Function]int{}
		for _, s := range sites {
			caller := s.Parent()
			nth[caller]++
			key := w.FuncName(caller) + " calls " + fname
			if perCaller[caller] > 1 {
				key += fmt.Sprintf("#%d", nth[caller])
			}
			key += " " + ps.Label
			ok := true
			var details []string
			for _, q := range reqs {
				for _, lf := range pr.dischargeAt(s, q, 0, nil) {
					where := ""
					if len(lf.Chain) > 1 {
						where = " [required of the callers: " + pr.chainString(lf.Chain) + "]"
					}
					if !lf.OK {
						ok = false
						details = append(details, "guard ("+q.String()+") of the callee: "+lf.Detail+where+" at "+w.InstrPos(lf.Chain[len(lf.Chain)-1]))
					} else {
						details = append(details, lf.Detail+where)
					}
				}
			}
			switch {
			case ok:
				r.OK(rule, key, w.InstrPos(s), strings.Join(dedupe(details), "; "))
			case listed:
				r.OK(rule, key, w.InstrPos(s), "contract panic (not proved from the code): "+contract.Reason)
			default:
				var bad []string
				for _, d := range details {
					if strings.HasPrefix(d, "guard (") {
						bad = append(bad, d)
					}
				}
				r.Bad(rule, key, w.InstrPos(s), "the call can panic: "+strings.Join(dedupe(bad), "; "))
			}
		}
	}
}

var c02Entries = []entryRef{{"solver", "ParseCardConstrs"}, {"solver", "ParsePBConstrs"}}

func ruleR2_1(w *World, r *Report) {
	r.Rule("R2.1", "every call of a constructor with a panicking precondition (discovered from its entry guard) that is reachable from ParseCardConstrs / ParsePBConstrs establishes the precondition: 1 <= card (<= len(lits))", 2)
	roots := w.resolveEntries(r, "R2.1", c02Entries)
	runPreconditions(w, r, "R2.1", roots, false, nil)
}

// fixtureE8 exercises the precondition engine on the fixture module.
func fixtureE8(fw *World) []string {
	var fails []string
	if fw.SSA["preconds"] == nil {
		return []string{"E8 fixture: package preconds missing"}
	}
	run := func(entry string) *Report {
		r := newReport()
		r.Rule("RX", "fixture", 0)
		f := fw.Func("preconds", entry)
		if f == nil {
			fails = append(fails, "E8 fixture: function "+entry+" missing")
			return r
		}
		runPreconditions(fw, r, "RX", []*ssa.Function{f}, true, []contractPanic{{"fixmod/preconds.checkLits", "literal 0", "fixture"}})
		return r
	}
	count := func(r *Report) (ok, bad int) {
		for _, o := range r.Obs {
			if o.status == Discharged {
				ok++
			} else {
				bad++
			}
		}
		return
	}
	for _, n := range []string{"GoodGuard", "GoodGuardLt1", "GoodWrapper", "GoodLenMinusOne", "GoodEarlyReturn", "GoodContract"} {
		ok, bad := count(run(n))
		if bad != 0 || ok == 0 {
			fails = append(fails, fmt.Sprintf("E8 fixture %s: expected only discharged obligations, got ok=%d bad=%d", n, ok, bad))
		}
	}
	for _, n := range []string{"BadNoGuard", "BadWrongGuard", "BadWrapper", "BadStoreBetween", "BadUpperBound", "BadNewPanic", "BadGuardOtherVar"} {
		_, bad := count(run(n))
		if bad == 0 {
			fails = append(fails, "E8 fixture "+n+": expected a report")
		}
	}
	return fails
}

// ---------- R2.2: scan accounting ----------

// scanLoop is a loop `for cursor < bound` that reads the element at the cursor.
type scanLoop struct {
	Fn        *ssa.Function
	Head      *ssa.BasicBlock
	Body      map[*ssa.BasicBlock]bool
	Cursor    *ssa.Phi  // nil when the cursor is fixed before the loop (it can never advance)
	CursorVal ssa.Value // the value compared with the bound
	Bound     ssa.Value
	Read      ssa.Instruction
}

// findScanLoops recognises the loops structurally: the header ends in `if cursor < bound` (or `bound > cursor`)
// where cursor is a loop-carried variable (a phi of the header), the true edge stays in the loop and the false
// edge leaves it, and somewhere in the loop the cursor itself indexes a slice / is passed to an accessor that
// reads an element.
func findScanLoops(w *World, eff *Effects, fn *ssa.Function) []scanLoop {
	var out []scanLoop
	for _, h := range loopHeaders(fn) {
		iff, ok := h.Instrs[len(h.Instrs)-1].(*ssa.If)
		if !ok || len(h.Succs) != 2 {
			continue
		}
		cmp, ok := iff.Cond.(*ssa.BinOp)
		if !ok {
			continue
		}
		var cur, bound ssa.Value
		switch cmp.Op {
		case token.LSS:
			cur, bound = cmp.X, cmp.Y
		case token.GTR:
			cur, bound = cmp.Y, cmp.X
		default:
			continue
		}
		if !isIntType(cur.Type()) {
			continue
		}
		body := loopBlocks(fn, h)
		if !body[h.Succs[0]] || body[h.Succs[1]] {
			continue
		}
		// the cursor is a loop-carried variable, or (when nothing in the loop assigns it any more) a value fixed
		// before the loop
		phi, _ := cur.(*ssa.Phi)
		if phi != nil && phi.Block() != h {
			phi = nil
		}
		if phi == nil {
			if ins, isInstr := cur.(ssa.Instruction); isInstr && body[ins.Block()] {
				continue // computed inside the loop: not a cursor
			}
		}
		sameAsCursor := func(v ssa.Value) bool {
			if v == cur {
				return true
			}
			a, okA := constInt(v)
			b, okB := constInt(cur)
			return okA && okB && a == b
		}
		var read ssa.Instruction
		for _, b := range fn.Blocks {
			if !body[b] || read != nil {
				continue
			}
			for _, ins := range b.Instrs {
				switch y := ins.(type) {
				case *ssa.IndexAddr:
					if sameAsCursor(y.Index) {
						read = ins
					}
				case *ssa.Index:
					if sameAsCursor(y.Index) {
						read = ins
					}
				case *ssa.Call:
					callee := y.Call.StaticCallee()
					if callee == nil || !w.InModule(w.unwrap(callee)) {
						continue
					}
					passes := false
					for _, a := range y.Call.Args {
						if sameAsCursor(a) {
							passes = true
						}
					}
					if passes {
						for f := range eff.transR[w.unwrap(callee)] {
							if strings.HasSuffix(f, "[]") {
								read = ins
							}
						}
					}
				}
				if read != nil {
					break
				}
			}
		}
		if read == nil {
			continue
		}
		out = append(out, scanLoop{Fn: fn, Head: h, Body: body, Cursor: phi, CursorVal: cur, Bound: bound, Read: read})
	}
	return out
}

const infOff = int64(1) << 40

// offVal: a value known to lie in Base + [Lo, Hi] (Base nil: a constant interval).
type offVal struct {
	Base   ssa.Value
	Lo, Hi int64
}

func addOff(a, d int64) int64 {
	if a <= -infOff || a >= infOff {
		return a
	}
	return a + d
}

// loopPathEval evaluates values along one path head -> ... -> back to head.
type loopPathEval struct {
	w    *World
	fn   *ssa.Function
	head *ssa.BasicBlock
	path []*ssa.BasicBlock // path[0] == head
}

func predIndex(b, pred *ssa.BasicBlock) int {
	for i, p := range b.Preds {
		if p == pred {
			return i
		}
	}
	return -1
}

// through resolves phis of blocks on the path (other than the head) to the value that flows in along the path;
// the result is the value at the end of path[pos], expressed with values that are fixed during this trip.
func (e *loopPathEval) through(v ssa.Value, pos int) (ssa.Value, int) {
	for i := 0; i < 64; i++ {
		phi, ok := v.(*ssa.Phi)
		if !ok || phi.Block() == e.head {
			return v, pos
		}
		at := -1
		for k := pos; k >= 1; k-- {
			if e.path[k] == phi.Block() {
				at = k
				break
			}
		}
		if at < 0 {
			return v, pos // defined outside this trip (before the loop, or in an inner loop that the path left)
		}
		pi := predIndex(phi.Block(), e.path[at-1])
		if pi < 0 || pi >= len(phi.Edges) {
			return v, pos
		}
		if e.isInnerHeader(phi.Block()) {
			return v, pos // value after an unknown number of inner iterations: handled by eval
		}
		v, pos = phi.Edges[pi], at-1
	}
	return v, pos
}

func (e *loopPathEval) isInnerHeader(b *ssa.BasicBlock) bool {
	if b == e.head {
		return false
	}
	for _, p := range b.Preds {
		if b.Dominates(p) {
			return true
		}
	}
	return false
}

// eval gives the offset interval of an integer value at the end of path[pos] relative to a value fixed for the trip.
func (e *loopPathEval) eval(v ssa.Value, pos int, depth int) offVal {
	if depth > 32 {
		return offVal{Base: v}
	}
	switch y := v.(type) {
	case *ssa.Const:
		if c, ok := constInt(y); ok {
			return offVal{Lo: c, Hi: c}
		}
	case *ssa.BinOp:
		if y.Op == token.ADD || y.Op == token.SUB {
			if c, ok := constInt(y.Y); ok {
				r := e.eval(y.X, pos, depth+1)
				if y.Op == token.SUB {
					c = -c
				}
				return offVal{r.Base, addOff(r.Lo, c), addOff(r.Hi, c)}
			}
			if c, ok := constInt(y.X); ok && y.Op == token.ADD {
				r := e.eval(y.Y, pos, depth+1)
				return offVal{r.Base, addOff(r.Lo, c), addOff(r.Hi, c)}
			}
		}
	case *ssa.Phi:
		if y.Block() == e.head {
			return offVal{Base: y}
		}
		at := -1
		for k := pos; k >= 1; k-- {
			if e.path[k] == y.Block() {
				at = k
				break
			}
		}
		if at < 0 {
			return offVal{Base: v}
		}
		pi := predIndex(y.Block(), e.path[at-1])
		if pi < 0 || pi >= len(y.Edges) {
			return offVal{Base: v}
		}
		r := e.eval(y.Edges[pi], at-1, depth+1)
		if e.isInnerHeader(y.Block()) {
			// the inner loop may have run any number of times: widen by the sign of what its back edges add
			for i, p := range y.Block().Preds {
				if !y.Block().Dominates(p) {
					continue
				}
				lo, hi, ok := deltaRel(y.Edges[i], y)
				if !ok || lo < 0 {
					r.Lo = -infOff
				}
				if !ok || hi > 0 {
					r.Hi = infOff
				}
			}
		}
		return r
	}
	return offVal{Base: v}
}

// deltaRel: v = ref + [lo, hi] whatever path is taken inside the inner loop (ref is the header phi of that loop,
// v the value a back edge feeds into it). A cycle through another phi that adds a non-zero amount is unbounded in
// the direction of that amount.
func deltaRel(v ssa.Value, ref *ssa.Phi) (lo, hi int64, ok bool) {
	ok = true
	found := false
	entry := map[ssa.Value]int64{}
	var dfs func(v ssa.Value, acc int64, depth int)
	dfs = func(v ssa.Value, acc int64, depth int) {
		if !ok {
			return
		}
		if depth > 64 {
			ok = false
			return
		}
		if v == ssa.Value(ref) {
			if !found || acc < lo {
				lo = acc
			}
			if !found || acc > hi {
				hi = acc
			}
			found = true
			return
		}
		switch y := v.(type) {
		case *ssa.BinOp:
			if c, okc := constInt(y.Y); okc && (y.Op == token.ADD || y.Op == token.SUB) {
				if y.Op == token.SUB {
					c = -c
				}
				dfs(y.X, acc+c, depth+1)
				return
			}
		case *ssa.Phi:
			if a0, on := entry[v]; on {
				if acc < a0 {
					lo, found = -infOff, true
				} else if acc > a0 {
					hi, found = infOff, true
				}
				return
			}
			entry[v] = acc
			for _, ed := range y.Edges {
				dfs(ed, acc, depth+1)
			}
			delete(entry, v)
			return
		}
		ok = false
	}
	dfs(v, 0, 0)
	return lo, hi, ok && found
}

// boundDeps describes what a bound computed in the loop header depends on: header phis of slice type whose
// length is taken, plain fields read (with the objects they are read from).
type boundDeps struct {
	slicePhis []*ssa.Phi
	fields    map[string]bool
	objects   map[ssa.Value]bool
	intPhi    *ssa.Phi
}

func collectBoundDeps(w *World, eff *Effects, head *ssa.BasicBlock, bound ssa.Value) boundDeps {
	d := boundDeps{fields: map[string]bool{}, objects: map[ssa.Value]bool{}}
	seen := map[ssa.Value]bool{}
	var walk func(v ssa.Value, depth int)
	walk = func(v ssa.Value, depth int) {
		if v == nil || seen[v] || depth > 12 {
			return
		}
		seen[v] = true
		switch y := v.(type) {
		case *ssa.Phi:
			if y.Block() == head {
				if isIntType(y.Type()) {
					d.intPhi = y
				} else {
					d.slicePhis = append(d.slicePhis, y)
				}
			}
			return
		case *ssa.Call:
			if b, ok := y.Call.Value.(*ssa.Builtin); ok {
				if b.Name() == "len" {
					for _, a := range y.Call.Args {
						walk(a, depth+1)
					}
				}
				return
			}
			if callee := y.Call.StaticCallee(); callee != nil && w.InModule(w.unwrap(callee)) {
				for f := range eff.transR[w.unwrap(callee)] {
					if !strings.HasSuffix(f, "[]") {
						d.fields[f] = true
					}
				}
				for _, a := range y.Call.Args {
					d.objects[a] = true
				}
			}
			return
		case *ssa.UnOp:
			if y.Op == token.MUL {
				if f, ok := rootField(y.X); ok && !strings.HasSuffix(f, "[]") {
					d.fields[f] = true
					if _, _, base, ok2 := fieldOf(y.X); ok2 {
						d.objects[base] = true
					}
				}
			}
			return
		case *ssa.BinOp:
			walk(y.X, depth+1)
			walk(y.Y, depth+1)
		case *ssa.ChangeType:
			walk(y.X, depth+1)
		case *ssa.Convert:
			walk(y.X, depth+1)
		}
	}
	walk(bound, 0)
	return d
}

// enumerateLoopPaths lists the simple paths head -> ... -> head inside the loop.
func enumerateLoopPaths(l scanLoop, limit int) (paths [][]*ssa.BasicBlock, ok bool) {
	ok = true
	on := map[*ssa.BasicBlock]bool{}
	cur := []*ssa.BasicBlock{l.Head}
	on[l.Head] = true
	var dfs func(b *ssa.BasicBlock)
	dfs = func(b *ssa.BasicBlock) {
		for i, s := range b.Succs {
			if !ok {
				return
			}
			if i == 1 && s == b.Succs[0] {
				continue
			}
			if !l.Body[s] {
				continue
			}
			if s == l.Head {
				if len(paths) >= limit {
					ok = false
					return
				}
				paths = append(paths, append([]*ssa.BasicBlock(nil), cur...))
				continue
			}
			if on[s] {
				continue
			}
			on[s] = true
			cur = append(cur, s)
			dfs(s)
			cur = cur[:len(cur)-1]
			on[s] = false
		}
	}
	dfs(l.Head)
	return paths, ok
}

func pathString(path []*ssa.BasicBlock) string {
	var s []string
	for _, b := range path {
		s = append(s, fmt.Sprintf("%d", b.Index))
	}
	return strings.Join(s, ">")
}

// scanLoopVerdict analyses one loop. instance=false: the cursor advances on every trip (a counted loop), which
// is not what this rule is about.
func scanLoopVerdict(w *World, eff *Effects, l scanLoop) (instance bool, ok bool, unk string, detail string) {
	paths, complete := enumerateLoopPaths(l, 20000)
	if !complete {
		return true, false, "more than 20000 paths through the loop body", ""
	}
	deps := collectBoundDeps(w, eff, l.Head, l.Bound)
	var stuck, skipped, dropped []string
	nAdv, nShrink := 0, 0
	anyKept := false
	for _, path := range paths {
		ev := &loopPathEval{w: w, fn: l.Fn, head: l.Head, path: path}
		last := path[len(path)-1]
		pi := predIndex(l.Head, last)
		if pi < 0 {
			return true, false, "back edge not found among the predecessors of the header", ""
		}
		advanced := false
		if l.Cursor != nil {
			cur := ev.eval(l.Cursor.Edges[pi], len(path)-1, 0)
			advanced = cur.Base == ssa.Value(l.Cursor) && cur.Lo >= 1
		}
		if advanced {
			nAdv++
			// a trip that moves another, not yet examined element of the sequence into the cursor position must
			// look at it: advancing the cursor as well skips it
			for _, b := range path {
				for _, ins := range b.Instrs {
					if from, ok := movedIntoCursor(w, ins, l.CursorVal); ok {
						skipped = append(skipped, fmt.Sprintf("%s puts the element at %s into the cursor position and the cursor then advances", w.InstrPos(ins), from))
					}
				}
			}
			continue
		}
		anyKept = true
		// (b) the bound is lowered / the scanned sequence is shrunk
		shrunk := ""
		if deps.intPhi != nil {
			bv := ev.eval(deps.intPhi.Edges[pi], len(path)-1, 0)
			if bv.Base == ssa.Value(deps.intPhi) && bv.Hi <= -1 {
				shrunk = "bound lowered"
			}
		}
		for _, sp := range deps.slicePhis {
			nv, _ := ev.through(sp.Edges[pi], len(path)-1)
			if nv != ssa.Value(sp) {
				shrunk = "scanned slice reassigned"
			}
		}
		if shrunk == "" && len(deps.fields) > 0 {
			for _, b := range path {
				for _, ins := range b.Instrs {
					switch y := ins.(type) {
					case *ssa.Store:
						if f, ok := rootField(y.Addr); ok && deps.fields[f] {
							if _, _, base, ok2 := fieldOf(y.Addr); ok2 && deps.objects[base] {
								shrunk = "store to " + f
							}
						}
					case *ssa.Call:
						callee := y.Call.StaticCallee()
						if callee == nil {
							continue
						}
						callee = w.unwrap(callee)
						if !w.InModule(callee) {
							continue
						}
						same := false
						for _, a := range y.Call.Args {
							if deps.objects[a] {
								same = true
							}
						}
						if !same {
							continue
						}
						for f := range deps.fields {
							if eff.trans[callee][f] {
								shrunk = "call of " + w.FuncName(callee) + " rewrites " + f
							}
						}
					}
				}
			}
		}
		if shrunk == "bound lowered" && l.Cursor != nil {
			// swap-remove: the trip gives up the last position of the scanned range, so what was there must replace the
			// element under the cursor; otherwise the last element is lost and the examined one stays
			moved, wrong := false, ""
			nb := ev.eval(deps.intPhi.Edges[pi], len(path)-1, 0)
			for bi, b := range path {
				for _, ins := range b.Instrs {
					idx, ok := movedIntoCursorIdx(w, ins, l.CursorVal)
					if !ok {
						continue
					}
					iv := ev.eval(idx, bi, 0)
					// symbolic form: the new bound is Y - 1 and the element is fetched from Y (the old bound)
					nbv, _ := ev.through(deps.intPhi.Edges[pi], len(path)-1)
					isv, _ := ev.through(idx, bi)
					if sub, ok := nbv.(*ssa.BinOp); ok && sub.Op == token.SUB && isv != nbv {
						if one, ok := constInt(sub.Y); ok && one == 1 {
							if y, _ := ev.through(sub.X, len(path)-1); y == isv {
								wrong = fmt.Sprintf("%s fetches the element at the old bound (one past the range), not at the new one", w.InstrPos(ins))
								continue
							}
						}
					}
					if iv.Base != nil && iv.Base == nb.Base && iv.Lo == iv.Hi && nb.Lo == nb.Hi && iv.Lo != nb.Lo {
						wrong = fmt.Sprintf("%s moves the element at offset %d from the old bound, the bound goes to offset %d", w.InstrPos(ins), iv.Lo, nb.Lo)
						continue
					}
					moved = true
				}
			}
			if !moved && readsAtCursor(w, path, l.CursorVal) {
				if wrong != "" {
					dropped = append(dropped, wrong)
				} else {
					dropped = append(dropped, "trip "+pathString(path)+" lowers the bound and keeps the cursor without moving the element at the new bound into the cursor position")
				}
			}
		}
		if shrunk != "" {
			nShrink++
			continue
		}
		stuck = append(stuck, pathString(path))
	}
	if !anyKept {
		return false, true, "", ""
	}
	if len(skipped) > 0 {
		skipped = dedupe(skipped)
		sort.Strings(skipped)
		return true, false, "", "an element is skipped: " + strings.Join(skipped, "; ")
	}
	if len(dropped) > 0 {
		dropped = dedupe(dropped)
		sort.Strings(dropped)
		show := dropped
		if len(show) > 2 {
			show = show[:2]
		}
		return true, false, "", "the last element of the range is dropped instead of the examined one: " + strings.Join(show, "; ")
	}
	if len(stuck) > 0 {
		sort.Strings(stuck)
		show := stuck
		if len(show) > 3 {
			show = show[:3]
		}
		return true, false, "", fmt.Sprintf("%d of %d trips round the loop leave the cursor, the bound and the scanned sequence as they were (only accumulators change): the same element is examined again in the same state; block paths: %s", len(stuck), len(paths), strings.Join(show, " | "))
	}
	return true, true, "", fmt.Sprintf("%d trips: %d advance the cursor, %d lower the bound or shrink the scanned sequence", len(paths), nAdv, nShrink)
}

func ruleR2_2(w *World, r *Report) {
	r.Rule("R2.2", "in a `cursor < bound` loop that reads the element at the cursor and can keep the cursor in place, every trip round the loop advances the cursor, lowers the bound or shrinks the scanned sequence", 9)
	eff := w.effects()
	var all []scanLoop
	for _, fn := range w.LibFns() {
		ls := findScanLoops(w, eff, fn)
		sort.Slice(ls, func(i, j int) bool {
			return ls[i].Head.Instrs[len(ls[i].Head.Instrs)-1].Pos() < ls[j].Head.Instrs[len(ls[j].Head.Instrs)-1].Pos()
		})
		all = append(all, ls...)
	}
	nth := map[*ssa.Function]int{}
	for _, l := range all {
		instance, ok, unk, detail := scanLoopVerdict(w, eff, l)
		if !instance {
			continue
		}
		// instances of one function are numbered in source order
		nth[l.Fn]++
		key := fmt.Sprintf("%s scan loop #%d", w.FuncName(l.Fn), nth[l.Fn])
		pos := w.InstrPos(l.Head.Instrs[len(l.Head.Instrs)-1])
		if iff, ok := l.Head.Instrs[len(l.Head.Instrs)-1].(*ssa.If); ok {
			if cmp, ok := iff.Cond.(ssa.Instruction); ok && cmp.Pos().IsValid() {
				pos = w.Pos(cmp.Pos())
			}
		}
		switch {
		case unk != "":
			r.Unk("R2.2", key, pos, unk)
		case ok:
			r.OK("R2.2", key, pos, detail)
		default:
			r.Bad("R2.2", key, pos, detail)
		}
	}
}

func fixtureR2_2(fw *World) []string {
	var fails []string
	if fw.SSA["scans"] == nil {
		return []string{"R2.2 fixture: package scans missing"}
	}
	eff := fw.effects()
	verdict := func(name string) (found, ok bool) {
		f := fw.Func("scans", name)
		if f == nil {
			fails = append(fails, "R2.2 fixture: function "+name+" missing")
			return false, false
		}
		ok = true
		for _, l := range findScanLoops(fw, eff, f) {
			inst, good, unk, _ := scanLoopVerdict(fw, eff, l)
			if !inst {
				continue
			}
			found = true
			if !good || unk != "" {
				ok = false
			}
		}
		return found, ok
	}
	for _, n := range []string{"GoodSwapRemove", "GoodMethodRemove", "GoodAppendRemove", "GoodFieldShrink", "GoodInnerDedup"} {
		found, ok := verdict(n)
		if !found || !ok {
			fails = append(fails, fmt.Sprintf("R2.2 fixture %s: expected a discharged scan loop (found=%v ok=%v)", n, found, ok))
		}
	}
	for _, n := range []string{"BadCountAgain", "BadNoAdvance", "BadNoBoundDecrement", "BadOnlyElementWrite", "BadDropLast", "BadMoveWrongSlot"} {
		found, ok := verdict(n)
		if !found || ok {
			fails = append(fails, fmt.Sprintf("R2.2 fixture %s: expected a report (found=%v ok=%v)", n, found, ok))
		}
	}
	if found, _ := verdict("CountedLoop"); found {
		fails = append(fails, "R2.2 fixture CountedLoop: a counted loop must not be an instance")
	}
	return fails
}

// movedIntoCursorIdx is movedIntoCursor returning the index the element comes from.
func movedIntoCursorIdx(w *World, ins ssa.Instruction, cursor ssa.Value) (ssa.Value, bool) {
	elemFrom := func(v ssa.Value) (idx ssa.Value, ok bool) {
		switch x := v.(type) {
		case *ssa.UnOp:
			if x.Op == token.MUL {
				if ia, ok := x.X.(*ssa.IndexAddr); ok {
					return ia.Index, true
				}
			}
		case *ssa.Call:
			if c := x.Call.StaticCallee(); c != nil && w.InModule(w.unwrap(c)) && len(x.Call.Args) == 2 && typeShort(x.Call.Args[1].Type()) == "int" {
				return x.Call.Args[1], true
			}
		}
		return nil, false
	}
	switch y := ins.(type) {
	case *ssa.Store:
		ia, ok := y.Addr.(*ssa.IndexAddr)
		if !ok || ia.Index != cursor {
			return nil, false
		}
		if idx, ok := elemFrom(y.Val); ok && idx != cursor {
			return idx, true
		}
	case *ssa.Call:
		c := y.Call.StaticCallee()
		if c == nil || !w.InModule(w.unwrap(c)) || len(y.Call.Args) != 3 || y.Call.Args[1] != cursor {
			return nil, false
		}
		if idx, ok := elemFrom(y.Call.Args[2]); ok && idx != cursor {
			return idx, true
		}
	}
	return nil, false
}

// readsAtCursor: the trip reads the element under the cursor (directly or through a getter method).
func readsAtCursor(w *World, path []*ssa.BasicBlock, cursor ssa.Value) bool {
	for _, b := range path {
		for _, ins := range b.Instrs {
			switch x := ins.(type) {
			case *ssa.IndexAddr:
				if x.Index == cursor {
					return true
				}
			case *ssa.Call:
				if c := x.Call.StaticCallee(); c != nil && w.InModule(w.unwrap(c)) && len(x.Call.Args) == 2 && x.Call.Args[1] == cursor {
					return true
				}
			}
		}
	}
	return false
}

// movedIntoCursor recognises `seq[cursor] = seq[other]` (directly or through a setter/getter pair of accessor
// methods): an element from another position replaces the one under the cursor.
func movedIntoCursor(w *World, ins ssa.Instruction, cursor ssa.Value) (string, bool) {
	elemFrom := func(v ssa.Value) (idx ssa.Value, ok bool) {
		switch x := v.(type) {
		case *ssa.UnOp:
			if x.Op == token.MUL {
				if ia, ok := x.X.(*ssa.IndexAddr); ok {
					return ia.Index, true
				}
			}
		case *ssa.Call:
			// getter: a module method returning one element, index as last argument
			if c := x.Call.StaticCallee(); c != nil && w.InModule(w.unwrap(c)) && len(x.Call.Args) == 2 && typeShort(x.Call.Args[1].Type()) == "int" {
				return x.Call.Args[1], true
			}
		}
		return nil, false
	}
	switch y := ins.(type) {
	case *ssa.Store:
		ia, ok := y.Addr.(*ssa.IndexAddr)
		if !ok || ia.Index != cursor {
			return "", false
		}
		if idx, ok := elemFrom(y.Val); ok && idx != cursor {
			return "index " + idx.Name(), true
		}
	case *ssa.Call:
		c := y.Call.StaticCallee()
		// a removing method handed the cursor (`clause.removeLit(i)`): it moves another element into that position when
		// its body stores, at the index it is handed, an element read at another index
		if c != nil && w.InModule(w.unwrap(c)) && len(y.Call.Args) == 2 && y.Call.Args[1] == cursor {
			callee := w.unwrap(c)
			moved := ""
			allInstrs(callee, func(i2 ssa.Instruction) {
				st, ok := i2.(*ssa.Store)
				if !ok || len(callee.Params) != 2 {
					return
				}
				ia, ok := st.Addr.(*ssa.IndexAddr)
				if !ok || ia.Index != ssa.Value(callee.Params[1]) {
					return
				}
				if idx, ok := elemFrom(st.Val); ok && idx != ssa.Value(callee.Params[1]) {
					moved = "another position (inside " + w.FuncName(callee) + ")"
				}
			})
			if moved != "" {
				return moved, true
			}
		}
		if c == nil || !w.InModule(w.unwrap(c)) || len(y.Call.Args) != 3 || y.Call.Args[1] != cursor {
			return "", false
		}
		if idx, ok := elemFrom(y.Call.Args[2]); ok && idx != cursor {
			return "index " + idx.Name(), true
		}
	}
	return "", false
}
