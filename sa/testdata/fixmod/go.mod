module fixmod

go 1.19
