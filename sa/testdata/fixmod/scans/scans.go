// Package scans holds positive and negative examples for the scan-accounting rule R2.2.
package scans

type Clause struct{ lits []int }

func (c *Clause) Len() int      { return len(c.lits) }
func (c *Clause) Get(i int) int { return c.lits[i] }
func (c *Clause) Set(i, v int)  { c.lits[i] = v }
func (c *Clause) removeLit(i int) {
	c.lits[i] = c.lits[len(c.lits)-1]
	c.lits = c.lits[:len(c.lits)-1]
}
func (c *Clause) Shrink(n int) { c.lits = c.lits[:n] }

type Problem struct{ Clauses []*Clause }

func GoodSwapRemove(c *Clause, model []int) int {
	n := c.Len()
	j := 0
	sat := 0
	for j < n {
		l := c.Get(j)
		if model[l] == 0 {
			j++
		} else if model[l] > 0 {
			sat++
			n--
			c.Set(j, c.Get(n))
		} else {
			n--
			c.Set(j, c.Get(n))
		}
	}
	c.Shrink(n)
	return sat
}

func GoodMethodRemove(c *Clause, model []int) int {
	i := 0
	w := 0
	for i < c.Len() {
		l := c.Get(i)
		switch {
		case model[l] > 0:
			w++
			c.removeLit(i)
		case model[l] < 0:
			c.removeLit(i)
		default:
			i++
		}
	}
	return w
}

func GoodAppendRemove(ws []int, n int) ([]int, int) {
	for i := 0; i < len(ws); i++ {
		if ws[i] < 0 {
			ws[i] = -ws[i]
			n += ws[i]
		}
		if ws[i] == 0 {
			ws = append(ws[:i], ws[i+1:]...)
			i--
		}
	}
	return ws, n
}

func GoodFieldShrink(p *Problem) {
	i := 0
	for i < len(p.Clauses) {
		if p.Clauses[i].Len() == 0 {
			p.Clauses[i] = p.Clauses[len(p.Clauses)-1]
			p.Clauses = p.Clauses[:len(p.Clauses)-1]
		} else {
			i++
		}
	}
}

func GoodInnerDedup(c *Clause, model []int) bool {
	n := c.Len()
	j := 0
	sat := false
	for j < n {
		l := c.Get(j)
		k := j + 1
		for k < n {
			l2 := c.Get(k)
			if l2 == -l {
				sat = true
				break
			}
			if l2 == l {
				n--
				c.Set(k, c.Get(n))
			} else {
				k++
			}
		}
		if sat {
			break
		}
		if model[l] == 0 {
			j++
		} else {
			n--
			c.Set(j, c.Get(n))
		}
	}
	c.Shrink(n)
	return sat
}

func BadCountAgain(c *Clause, model []int, card int) bool {
	n := c.Len()
	j := 0
	sat := 0
	for j < n {
		l := c.Get(j)
		if model[l] == 0 {
			j++
		} else if model[l] > 0 {
			sat++
			if sat == card {
				return true
			}
		} else {
			n--
			c.Set(j, c.Get(n))
		}
	}
	return false
}

func BadNoAdvance(c *Clause, model []int) int {
	n := c.Len()
	j := 0
	free := 0
	for j < n {
		l := c.Get(j)
		if model[l] == 0 {
			free++
		} else {
			n--
			c.Set(j, c.Get(n))
		}
	}
	return free
}

func BadNoBoundDecrement(c *Clause, model []int) {
	n := c.Len()
	j := 0
	for j < n {
		l := c.Get(j)
		if model[l] == 0 {
			j++
		} else {
			c.Set(j, c.Get(n-1))
		}
	}
}

func BadOnlyElementWrite(c *Clause, model []int) {
	i := 0
	for i < c.Len() {
		l := c.Get(i)
		if model[l] != 0 {
			c.Set(i, 0)
		} else {
			i++
		}
	}
}

func CountedLoop(xs []int) int {
	s := 0
	for i := 0; i < len(xs); i++ {
		if xs[i] < 0 {
			continue
		}
		s += xs[i]
	}
	return s
}

// BadDropLast lowers the bound for the element under the cursor but never moves the last element into its place:
// the examined element stays and the last one is lost.
func BadDropLast(c *Clause, model []int) {
	n := c.Len()
	j := 0
	for j < n {
		l := c.Get(j)
		if model[l] == 0 {
			j++
		} else {
			n--
		}
	}
	c.Shrink(n)
}

// BadMoveWrongSlot moves the element one before the new bound.
func BadMoveWrongSlot(c *Clause, model []int) {
	n := c.Len()
	j := 0
	for j < n {
		l := c.Get(j)
		if model[l] == 0 {
			j++
		} else {
			n--
			c.Set(j, c.Get(n-1))
		}
	}
	c.Shrink(n)
}
