// Package amo holds positive and negative examples for the at-most-one rules R15.1, R15.2, R15.3.
package amo

import "sort"

type Clause struct {
	lits []int
	card int
}

func NewCard(lits []int, card int) *Clause {
	if card < 1 || card > len(lits) {
		panic("bad card")
	}
	return &Clause{lits, card}
}

type Problem struct{ Clauses []*Clause }

func (p *Problem) rebuildGood(rm []int) {
	if len(rm) == 0 {
		return
	}
	sort.Ints(rm)
	out := make([]*Clause, 0, len(p.Clauses))
	i := 0
	for j, c := range p.Clauses {
		if i < len(rm) && j == rm[i] {
			i++
		} else {
			out = append(out, c)
		}
	}
	p.Clauses = out
}

func (p *Problem) rebuildRemainder(rm []int) {
	if len(rm) == 0 {
		return
	}
	sort.Ints(rm)
	out := make([]*Clause, 0, len(p.Clauses))
	i := 0
	for j, c := range p.Clauses {
		if j == rm[i] {
			i++
			if i == len(rm) {
				out = append(out, p.Clauses[j+1:]...)
				break
			}
		} else {
			out = append(out, c)
		}
	}
	p.Clauses = out
}

func (p *Problem) rebuildBreak(rm []int) {
	if len(rm) == 0 {
		return
	}
	out := make([]*Clause, 0, len(p.Clauses))
	i := 0
	for j, c := range p.Clauses {
		if j == rm[i] {
			i++
			if i == len(rm) {
				break
			}
		} else {
			out = append(out, c)
		}
	}
	p.Clauses = out
}

func (p *Problem) GoodDetect(groups [][]int, idx [][]int) {
	var rm []int
	for g, group := range groups {
		constr := []int{}
		var bin []int
		for j, l := range group {
			if l != 0 {
				constr = append(constr, l)
				bin = append(bin, idx[g][j])
			}
		}
		if len(constr) > 2 {
			p.Clauses = append(p.Clauses, NewCard(constr, len(constr)-1))
			rm = append(rm, bin...)
		}
	}
	p.rebuildGood(rm)
}

func (p *Problem) GoodDetectRemainder(groups [][]int, idx [][]int) {
	var rm []int
	for g, group := range groups {
		constr := []int{}
		var bin []int
		for j, l := range group {
			if l != 0 {
				constr = append(constr, l)
				bin = append(bin, idx[g][j])
			}
		}
		if len(constr) > 2 {
			rm = append(rm, bin...)
			c := NewCard(constr, len(constr)-1)
			p.Clauses = append(p.Clauses, c)
		}
	}
	p.rebuildRemainder(rm)
}

func (p *Problem) BadQueueInLoop(groups [][]int, idx [][]int) {
	var rm []int
	for g, group := range groups {
		constr := []int{}
		for j, l := range group {
			if l != 0 {
				constr = append(constr, l)
				rm = append(rm, idx[g][j])
			}
		}
		if len(constr) > 2 {
			p.Clauses = append(p.Clauses, NewCard(constr, len(constr)-1))
		}
	}
	p.rebuildGood(rm)
}

func (p *Problem) BadQueueAfterIf(groups [][]int, idx [][]int) {
	var rm []int
	for g, group := range groups {
		constr := []int{}
		var bin []int
		for j, l := range group {
			if l != 0 {
				constr = append(constr, l)
				bin = append(bin, idx[g][j])
			}
		}
		if len(constr) > 2 {
			p.Clauses = append(p.Clauses, NewCard(constr, len(constr)-1))
		}
		rm = append(rm, bin...)
	}
	p.rebuildGood(rm)
}

func (p *Problem) BadBreak(groups [][]int, idx [][]int) {
	var rm []int
	for g, group := range groups {
		constr := []int{}
		var bin []int
		for j, l := range group {
			if l != 0 {
				constr = append(constr, l)
				bin = append(bin, idx[g][j])
			}
		}
		if len(constr) > 2 {
			p.Clauses = append(p.Clauses, NewCard(constr, len(constr)-1))
			rm = append(rm, bin...)
		}
	}
	p.rebuildBreak(rm)
}

func (p *Problem) BadDegree(groups [][]int, idx [][]int) {
	var rm []int
	for g, group := range groups {
		constr := []int{}
		var bin []int
		for j, l := range group {
			if l != 0 {
				constr = append(constr, l)
				bin = append(bin, idx[g][j])
			}
		}
		if len(constr) > 2 {
			p.Clauses = append(p.Clauses, NewCard(constr, len(constr)-2))
			rm = append(rm, bin...)
		}
	}
	p.rebuildGood(rm)
}
