// Package globals is the positive/negative example set of rule R16.1 (engine E4, package-level storage protected).
package globals

import "sort"

var buf = make([]int, 100)
var table = map[string]int{}
var counter int
var readOnly = []int{1, 2, 3}

const limit = 10

type marker struct{}

// Iface is an interface-typed global holding a reference-free value, like bf.True.
var Iface interface{} = marker{}

// BadAppend re-slices and appends to the shared buffer.
func BadAppend(x int) []int {
	b := buf[:1]
	b = append(b, x)
	out := make([]int, len(b))
	copy(out, b)
	return out
}

// BadElem writes an element of the shared buffer.
func BadElem(i, x int) { buf[i] = x }

func helper(p []int, x int) { p[0] = x }

// BadViaParam passes the shared buffer to a helper that writes it.
func BadViaParam(x int) { helper(buf[2:], x) }

type badSorter struct{ s []int }

func (b *badSorter) Len() int           { return len(b.s) }
func (b *badSorter) Less(i, j int) bool { return b.s[i] < b.s[j] }
func (b *badSorter) Swap(i, j int)      { b.s[i], b.s[j] = b.s[j], b.s[i] }

// BadSort sorts the shared buffer through a callback of the standard library.
func BadSort() { sort.Sort(&badSorter{buf[:10]}) }

// BadMap memoises in a package-level map.
func BadMap(k string) int {
	if v, ok := table[k]; ok {
		return v
	}
	table[k] = len(k)
	return len(k)
}

// BadAssign assigns a package-level scalar.
func BadAssign() { counter++ }

// BadLeak hands out the shared slice.
func BadLeak() []int { return readOnly }

// GoodLocal uses a local buffer.
func GoodLocal(x int) []int {
	b := make([]int, 1, 8)
	b = append(b, x)
	helper(b, x)
	return b
}

// GoodReadOnly only reads package-level data.
func GoodReadOnly(i int) int { return readOnly[i] + counter + len(table) }

// GoodConst uses a constant.
func GoodConst() int { return limit }

// GoodCopyOut returns a copy of shared data.
func GoodCopyOut() []int {
	out := make([]int, len(readOnly))
	copy(out, readOnly)
	return out
}

// GoodIface returns the reference-free interface value.
func GoodIface() interface{} { return Iface }
