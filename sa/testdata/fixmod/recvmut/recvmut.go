// Package recvmut holds positive and negative examples for the receiver-immutability rule R7.1
// (engine E4 with the receiver's reachable storage protected).
package recvmut

import "errors"

// Problem mimics explain.Problem.
type Problem struct {
	Clauses   [][]int
	NbVars    int
	NbClauses int
}

func (pb *Problem) clone() *Problem {
	pb2 := &Problem{Clauses: make([][]int, len(pb.Clauses)), NbVars: pb.NbVars, NbClauses: pb.NbClauses}
	for i, c := range pb.Clauses {
		pb2.Clauses[i] = make([]int, len(c))
		copy(pb2.Clauses[i], c)
	}
	return pb2
}

var errNo = errors.New("no")

// BadShallow relaxes the clauses of a shallow copy: the outer array is the caller's.
func (pb *Problem) BadShallow() (*Problem, error) {
	pb2 := *pb
	for i, c := range pb2.Clauses {
		nc := make([]int, len(c)+1)
		copy(nc, c)
		pb2.Clauses[i] = nc
	}
	return &pb2, nil
}

// BadDirect writes a literal of one of the caller's clauses.
func (pb *Problem) BadDirect() (*Problem, error) {
	if len(pb.Clauses) == 0 {
		return nil, errNo
	}
	pb.Clauses[0][0] = -pb.Clauses[0][0]
	return pb.clone(), nil
}

// BadCounter changes a counter of the receiver.
func (pb *Problem) BadCounter() (*Problem, error) {
	pb.NbVars += pb.NbClauses
	return pb.clone(), nil
}

func badHelper(cs [][]int) { cs[0] = nil }

// BadViaHelper hands the receiver's clause list to a helper that writes it.
func (pb *Problem) BadViaHelper() (*Problem, error) {
	badHelper(pb.Clauses)
	return pb.clone(), nil
}

// GoodClone works on a deep copy.
func (pb *Problem) GoodClone() (*Problem, error) {
	pb2 := pb.clone()
	pb2.NbVars += pb2.NbClauses
	for i, c := range pb2.Clauses {
		pb2.Clauses[i] = append(c, pb.NbVars+i+1)
	}
	return pb2, nil
}

// GoodSubset builds a new problem sharing (read-only) the caller's clauses, then relaxes copies of them.
func (pb *Problem) GoodSubset() (*Problem, error) {
	sub := &Problem{NbVars: pb.NbVars}
	for _, c := range pb.Clauses {
		sub.Clauses = append(sub.Clauses, c)
		sub.NbClauses++
	}
	for i, c := range sub.Clauses {
		nc := make([]int, len(c)+1)
		copy(nc, c)
		sub.Clauses[i] = nc
	}
	return sub, nil
}

// GoodRead only reads.
func (pb *Problem) GoodRead() (*Problem, error) {
	n := 0
	for _, c := range pb.Clauses {
		n += len(c)
	}
	return &Problem{NbVars: n}, nil
}
