// Package joins holds positive and negative examples for the goroutine hand-over rule R16.2.
package joins

type worker struct {
	out   chan string
	count int
}

func (w *worker) run() int {
	for i := 0; i < 3; i++ {
		w.out <- "x"
		w.count++
	}
	return w.count
}

func consumeSome(ch chan string) bool {
	for s := range ch {
		if s == "stop" {
			return false
		}
	}
	return true
}

// BadNoJoin reads the variable the goroutine writes after a consumer that may return early.
func BadNoJoin() int {
	w := &worker{out: make(chan string)}
	status := 0
	go func() {
		status = w.run()
		close(w.out)
	}()
	if !consumeSome(w.out) {
		return -1
	}
	return status
}

// BadEarlyReturnDrain drains inline but can leave the loop early.
func BadEarlyReturnDrain() int {
	w := &worker{out: make(chan string)}
	status := 0
	go func() {
		status = w.run()
		close(w.out)
	}()
	for s := range w.out {
		if s == "stop" {
			break
		}
	}
	return status
}

// BadFieldRead reads a field the goroutine writes while it runs.
func BadFieldRead() int {
	w := &worker{out: make(chan string)}
	go func() {
		w.run()
		close(w.out)
	}()
	n := 0
	for range w.out {
		n += w.count
	}
	return n
}

// GoodDrain drains completely before reading.
func GoodDrain() int {
	w := &worker{out: make(chan string)}
	status := 0
	go func() {
		status = w.run()
		close(w.out)
	}()
	for range w.out {
	}
	return status + w.count
}

// GoodRecv receives the result through a channel after draining.
func GoodRecv() int {
	w := &worker{out: make(chan string)}
	done := make(chan int, 1)
	go func() {
		st := w.run()
		close(w.out)
		done <- st
	}()
	consumeSome(w.out)
	for range w.out {
	}
	return <-done
}

type producer struct{ n int }

func (p *producer) produce(out chan int) {
	defer close(out)
	for i := 0; i < p.n; i++ {
		out <- i
	}
	p.n = 0
}

// GoodForwarder ranges over the producer's channel to exhaustion.
func GoodForwarder(p *producer, results chan int) int {
	local := make(chan int)
	go p.produce(local)
	last := 0
	for v := range local {
		last = v
		results <- v
	}
	return last + p.n
}
