// Package preconds holds positive and negative examples for the precondition engine (E8; rules R2.1, R13.1, R15.3).
package preconds

type Clause struct {
	lits []int
	card int
}

// NewCard requires 1 <= card <= len(lits).
func NewCard(lits []int, card int) *Clause {
	if card < 1 || card > len(lits) {
		panic("bad card")
	}
	return &Clause{lits, card}
}

// NewPB requires card >= 1.
func NewPB(lits []int, card int) *Clause {
	if card < 1 {
		panic("bad degree")
	}
	return &Clause{lits, card}
}

type Constr struct {
	Lits    []int
	AtLeast int
}

type Problem struct{ Clauses []*Clause }

func (pb *Problem) add(c Constr) {
	lits := make([]int, len(c.Lits))
	copy(lits, c.Lits)
	pb.Clauses = append(pb.Clauses, NewPB(lits, c.AtLeast))
}

func checkLits(lits []int) {
	for _, l := range lits {
		if l == 0 {
			panic("literal 0")
		}
	}
}

func GoodGuard(cs []Constr) *Problem {
	var pb Problem
	for _, c := range cs {
		card := c.AtLeast
		if card <= 0 {
			continue
		}
		if len(c.Lits) < card {
			return nil
		}
		if len(c.Lits) == card {
			continue
		}
		lits := make([]int, len(c.Lits))
		copy(lits, c.Lits)
		pb.Clauses = append(pb.Clauses, NewCard(lits, card))
	}
	return &pb
}

func GoodGuardLt1(cs []Constr) *Problem {
	var pb Problem
	for _, c := range cs {
		card := c.AtLeast
		if card < 1 {
			continue
		}
		pb.Clauses = append(pb.Clauses, NewPB(c.Lits, card))
	}
	return &pb
}

func GoodWrapper(cs []Constr) *Problem {
	var pb Problem
	for _, c := range cs {
		if c.AtLeast <= 0 {
			continue
		}
		pb.add(c)
	}
	return &pb
}

func GoodLenMinusOne(groups [][]int) *Problem {
	var pb Problem
	for _, g := range groups {
		if len(g) > 2 {
			pb.Clauses = append(pb.Clauses, NewCard(g, len(g)-1))
		}
	}
	return &pb
}

func GoodEarlyReturn(lits []int, card int) *Clause {
	if card < 1 {
		return nil
	}
	return NewPB(lits, card)
}

func GoodContract(cs []Constr) *Problem {
	var pb Problem
	for _, c := range cs {
		checkLits(c.Lits)
		if c.AtLeast >= 1 {
			pb.Clauses = append(pb.Clauses, NewPB(c.Lits, c.AtLeast))
		}
	}
	return &pb
}

func BadNoGuard(cs []Constr) *Problem {
	var pb Problem
	for _, c := range cs {
		if len(c.Lits) < c.AtLeast {
			return nil
		}
		pb.Clauses = append(pb.Clauses, NewPB(c.Lits, c.AtLeast))
	}
	return &pb
}

func BadWrongGuard(cs []Constr) *Problem {
	var pb Problem
	for _, c := range cs {
		card := c.AtLeast
		if card < 0 {
			continue
		}
		pb.Clauses = append(pb.Clauses, NewPB(c.Lits, card))
	}
	return &pb
}

func (pb *Problem) add2(c Constr) {
	pb.Clauses = append(pb.Clauses, NewPB(c.Lits, c.AtLeast))
}

func BadWrapper(cs []Constr) *Problem {
	var pb Problem
	for i, c := range cs {
		if i == 0 {
			pb.add2(c)
			continue
		}
		if c.AtLeast > 0 {
			pb.add2(c)
		}
	}
	return &pb
}

func BadStoreBetween(cs []Constr, d int) *Clause {
	var c Constr
	c = cs[0]
	if c.AtLeast <= 0 {
		return nil
	}
	c.AtLeast = c.AtLeast - d
	return NewPB(c.Lits, c.AtLeast)
}

func BadUpperBound(cs []Constr) *Problem {
	var pb Problem
	for _, c := range cs {
		card := c.AtLeast
		if card <= 0 {
			continue
		}
		pb.Clauses = append(pb.Clauses, NewCard(c.Lits, card))
	}
	return &pb
}

func BadNewPanic(cs []Constr) int {
	n := 0
	for _, c := range cs {
		if c.AtLeast > len(c.Lits) {
			panic("unexpected constraint")
		}
		n++
	}
	return n
}

func BadGuardOtherVar(cs []Constr, other int) *Problem {
	var pb Problem
	for _, c := range cs {
		if other <= 0 {
			continue
		}
		pb.Clauses = append(pb.Clauses, NewPB(c.Lits, c.AtLeast))
	}
	return &pb
}
