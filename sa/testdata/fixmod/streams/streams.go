// Package streams holds positive and negative examples for the result-stream typestate (rules R20.1, R20.2).
package streams

// Result mimics solver.Result.
type Result struct {
	Status int
	Model  []bool
	Weight int
}

// Interface mimics solver.Interface.
type Interface interface {
	Optimal(results chan Result, stop chan struct{}) Result
}

func next(i int) (Result, bool) { return Result{Status: 1, Weight: 10 - i}, i < 10 }

// Good follows the contract with if-wrapping.
type Good struct{}

func (Good) Optimal(results chan Result, stop chan struct{}) (res Result) {
	if results != nil {
		defer close(results)
	}
	for i := 0; ; i++ {
		r, more := next(i)
		if !more {
			break
		}
		res = r
		if results != nil {
			results <- res
		}
		if res.Weight == 0 {
			break
		}
	}
	return res
}

// GoodEarly uses an early return for the nil case and an explicit forward.
type GoodEarly struct{ inner Good }

func (g GoodEarly) Optimal(results chan Result, stop chan struct{}) Result {
	if results == nil {
		return g.inner.Optimal(nil, stop)
	}
	defer close(results)
	local := make(chan Result)
	go g.inner.Optimal(local, stop)
	var res Result
	for res = range local {
		res.Model = res.Model[:0]
		results <- res
	}
	return res
}

// GoodHelper sends through a helper and closes explicitly on each path.
type GoodHelper struct{}

func emit(ch chan Result, r Result) { ch <- r }

func (GoodHelper) Optimal(results chan Result, stop chan struct{}) Result {
	var res Result
	res.Status = 2
	if results != nil {
		emit(results, res)
		close(results)
	}
	return res
}

// NoClose forgets to close.
type NoClose struct{}

func (NoClose) Optimal(results chan Result, stop chan struct{}) (res Result) {
	res.Status = 2
	if results != nil {
		results <- res
	}
	return res
}

// DoubleClose closes by defer and explicitly.
type DoubleClose struct{}

func (DoubleClose) Optimal(results chan Result, stop chan struct{}) (res Result) {
	if results != nil {
		defer close(results)
	}
	res.Status = 2
	if results != nil {
		results <- res
		close(results)
	}
	return res
}

// UnguardedSend sends on a possibly nil channel.
type UnguardedSend struct{}

func (UnguardedSend) Optimal(results chan Result, stop chan struct{}) (res Result) {
	if results != nil {
		defer close(results)
	}
	res.Status = 2
	results <- res
	return res
}

// SendAfter sends after an explicit close.
type SendAfter struct{}

func (SendAfter) Optimal(results chan Result, stop chan struct{}) (res Result) {
	if results == nil {
		return res
	}
	res.Status = 1
	results <- res
	close(results)
	if res.Weight > 0 {
		results <- res
	}
	return res
}

// BreakBefore leaves the loop before sending the last result.
type BreakBefore struct{}

func (BreakBefore) Optimal(results chan Result, stop chan struct{}) (res Result) {
	if results != nil {
		defer close(results)
	}
	for i := 0; ; i++ {
		r, more := next(i)
		if !more {
			break
		}
		res = r
		if res.Weight == 0 {
			break
		}
		if results != nil {
			results <- res
		}
	}
	return res
}

// ModifyAfter changes the result after having sent it.
type ModifyAfter struct{}

func (ModifyAfter) Optimal(results chan Result, stop chan struct{}) (res Result) {
	if results != nil {
		defer close(results)
	}
	res.Status = 1
	if results != nil {
		results <- res
	}
	res.Weight = 3
	return res
}

// DeferNil defers the close without a nil test.
type DeferNil struct{}

func (DeferNil) Optimal(results chan Result, stop chan struct{}) (res Result) {
	defer close(results)
	res.Status = 2
	if results != nil {
		results <- res
	}
	return res
}

// Escapes sends from a goroutine.
type Escapes struct{}

func (Escapes) Optimal(results chan Result, stop chan struct{}) (res Result) {
	if results != nil {
		defer close(results)
	}
	res.Status = 2
	if results != nil {
		go func() { results <- res }()
	}
	return res
}
