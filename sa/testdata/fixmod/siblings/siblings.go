// Package siblings is the positive/negative example set of engine E7 (rules R3.1, R5.2) and of rule R5.4.
package siblings

// S is a toy solver state.
type S struct {
	model  []int
	cost   []int
	w      []int
	n      int
	status int
	trail  []int
	heap   []int
}

func (s *S) bound(k int) { s.n = k }

func (s *S) rebuild() { s.heap = s.heap[:0] }

// solve also rebuilds, like Solver.Solve: a call dropped by one sibling must not hide behind this one.
func (s *S) solve() int {
	s.rebuild()
	s.status++
	return s.status
}

// GoodA is the reference.
func (s *S) GoodA() int {
	total := 0
	for i := range s.cost {
		if s.model[i] > 0 {
			if s.w == nil {
				total++
			} else {
				total += s.w[i]
			}
		}
	}
	if total == 0 {
		return 0
	}
	s.bound(s.n - total + 1)
	s.rebuild()
	s.solve()
	return total
}

func (s *S) sum() int {
	t := 0
	for i := range s.cost {
		if s.model[i] > 0 {
			if s.w != nil {
				t += s.w[i]
			} else {
				t++
			}
		}
	}
	return t
}

// GoodB does the same with a helper, other names, swapped branches and a re-associated sum.
func (s *S) GoodB() int {
	t := s.sum()
	if t == 0 {
		return 0
	}
	s.bound(1 + s.n - t)
	s.rebuild()
	s.solve()
	return t
}

// BadConst bounds one too low.
func (s *S) BadConst() int {
	t := s.sum()
	if t == 0 {
		return 0
	}
	s.bound(s.n - t)
	s.rebuild()
	s.solve()
	return t
}

// BadDropped forgets the rebuild that solve also performs internally.
func (s *S) BadDropped() int {
	t := s.sum()
	if t == 0 {
		return 0
	}
	s.bound(s.n - t + 1)
	s.solve()
	return t
}

// BadGate adds the unit cost under the wrong outcome of the same test.
func (s *S) BadGate() int {
	total := 0
	for i := range s.cost {
		if s.model[i] > 0 {
			if s.w != nil {
				total++
			} else {
				total += s.w[i]
			}
		}
	}
	if total == 0 {
		return 0
	}
	s.bound(s.n - total + 1)
	s.rebuild()
	s.solve()
	return total
}

// BadExit stops on another condition.
func (s *S) BadExit() int {
	t := s.sum()
	if t < 0 {
		return 0
	}
	s.bound(s.n - t + 1)
	s.rebuild()
	s.solve()
	return t
}

// ---- R5.4 ----

// LastBad indexes the last element of a possibly empty field.
func (s *S) LastBad() int { return s.trail[len(s.trail)-1] }

// LastTested tests the length first.
func (s *S) LastTested() int {
	if len(s.trail) == 0 {
		return 0
	}
	return s.trail[len(s.trail)-1]
}

// LastSwitch is in the default arm of a switch on the length.
func LastSwitch(xs []int) int {
	switch len(xs) {
	case 0:
		return 0
	case 1:
		return xs[0]
	default:
		return xs[len(xs)-1]
	}
}

func (s *S) empty() bool { return len(s.heap) == 0 }

func (s *S) popGuarded() int {
	x := s.heap[len(s.heap)-1]
	s.heap = s.heap[:len(s.heap)-1]
	return x
}

// DrainGuarded guards every call of popGuarded.
func (s *S) DrainGuarded() int {
	t := 0
	for !s.empty() {
		t += s.popGuarded()
	}
	return t
}

func (s *S) popUnguarded() int {
	x := s.heap[len(s.heap)-1]
	s.heap = s.heap[:len(s.heap)-1]
	return x
}

// DrainUnguarded has one guarded and one unguarded call.
func (s *S) DrainUnguarded() int {
	t := 0
	if !s.empty() {
		t += s.popUnguarded()
	}
	return t + s.popUnguarded()
}

// LastAfterWrite tests the length, then replaces the slice.
func (s *S) LastAfterWrite(other []int) int {
	if len(s.trail) == 0 {
		return 0
	}
	s.trail = other
	return s.trail[len(s.trail)-1]
}
