// Package formats holds positive and negative examples for the operator table (R13.2) and the duplicated
// predicate (R13.6).
package formats

import "errors"

type PBConstr struct {
	Lits, Weights []int
	AtLeast       int
}

func GtEq(l, w []int, n int) PBConstr { return PBConstr{l, w, n} }
func LtEq(l, w []int, n int) PBConstr { return PBConstr{l, w, -n} }
func Eq(l, w []int, n int) []PBConstr { return []PBConstr{GtEq(l, w, n), LtEq(l, w, n)} }

var errOp = errors.New("invalid operator")

func GoodIfChain(op string, l, w []int, n int) ([]PBConstr, error) {
	if op != ">=" && op != "=" {
		return nil, errOp
	}
	var cs []PBConstr
	if op == ">=" {
		cs = []PBConstr{GtEq(l, w, n)}
	} else {
		cs = Eq(l, w, n)
	}
	return cs, nil
}

func GoodSwitch(op string, l, w []int, n int) ([]PBConstr, error) {
	switch op {
	case ">=", "=":
	default:
		return nil, errOp
	}
	if op == ">=" {
		return []PBConstr{GtEq(l, w, n)}, nil
	}
	return Eq(l, w, n), nil
}

func GoodSwitchDispatch(op string, l, w []int, n int) ([]PBConstr, error) {
	var cs []PBConstr
	switch op {
	case "=":
		cs = Eq(l, w, n)
	case ">=":
		cs = []PBConstr{GtEq(l, w, n)}
	default:
		return nil, errOp
	}
	return cs, nil
}

func BadSwapped(op string, l, w []int, n int) ([]PBConstr, error) {
	if op != ">=" && op != "=" {
		return nil, errOp
	}
	if op == "=" {
		return []PBConstr{GtEq(l, w, n)}, nil
	}
	return Eq(l, w, n), nil
}

func BadExtraOperator(op string, l, w []int, n int) ([]PBConstr, error) {
	switch op {
	case ">=":
		return []PBConstr{GtEq(l, w, n)}, nil
	case "=":
		return Eq(l, w, n), nil
	case "<=":
		return []PBConstr{LtEq(l, w, n)}, nil
	}
	return nil, errOp
}

func BadNoReject(op string, l, w []int, n int) ([]PBConstr, error) {
	if op == ">=" {
		return []PBConstr{GtEq(l, w, n)}, nil
	}
	return Eq(l, w, n), nil
}

func BadBothGtEq(op string, l, w []int, n int) ([]PBConstr, error) {
	if op != ">=" && op != "=" {
		return nil, errOp
	}
	if op == ">=" {
		return []PBConstr{GtEq(l, w, n)}, nil
	}
	return []PBConstr{GtEq(l, w, n)}, nil
}

// ---- R13.6 ----

func clause(fields []int, top, relax int) (lits []int, weight int, err error) {
	if len(fields) == 0 {
		return nil, 0, errOp
	}
	lits = make([]int, len(fields))
	for i, f := range fields {
		if i == 0 {
			weight = f
		} else {
			lits[i-1] = f
		}
	}
	if top == 0 || weight < top {
		lits[len(lits)-1] = relax
	} else {
		lits = lits[:len(lits)-1]
	}
	return lits, weight, nil
}

func CountGood(lines [][]int, top int) (int, error) {
	relax := 1
	for _, l := range lines {
		_, w, err := clause(l, top, relax)
		if err != nil {
			return 0, err
		}
		if top == 0 || w < top {
			relax++
		}
	}
	return relax, nil
}

func CountGoodRewritten(lines [][]int, top int) (int, error) {
	relax := 1
	sum := 0
	for _, l := range lines {
		_, w, err := clause(l, top, relax)
		if err != nil {
			return 0, err
		}
		if !(top != 0 && top <= w) {
			sum += w
			relax++
		}
	}
	return relax + sum, nil
}

func CountBadLeq(lines [][]int, top int) (int, error) {
	relax := 1
	for _, l := range lines {
		_, w, err := clause(l, top, relax)
		if err != nil {
			return 0, err
		}
		if top == 0 || w <= top {
			relax++
		}
	}
	return relax, nil
}

func CountBadMissingTopTest(lines [][]int, top int) (int, error) {
	relax := 1
	for _, l := range lines {
		_, w, err := clause(l, top, relax)
		if err != nil {
			return 0, err
		}
		if w < top {
			relax++
		}
	}
	return relax, nil
}
