package main

import (
	"fmt"
	"go/token"
	"strings"

	"golang.org/x/tools/go/ssa"
)

// Rules added after the second round of externally written mutants (see DESIGN.md section 9).

// R5.5: the blocking clause of a found model is stored (and watched) before the search is continued with the
// flipped decision. Until it is in the clause database it is only the reason of one literal: a conflict in the
// continued search backjumps past it and the same model is found again.
func ruleR5_5(w *World, r *Report) {
	r.Rule("R5.5", "wherever a blocking clause is built and the search is then continued with a flipped decision literal, the call that stores (and watches) the clause dominates the continuation", 1)
	// storers: functions appending to origClauses
	storers := map[*ssa.Function]bool{}
	for _, fn := range w.Fns {
		if w.PkgName(fn) != "solver" {
			continue
		}
		for _, gs := range growthSites(fn) {
			if gs.Field == "solver.watcherList.origClauses" {
				storers[fn] = true
			}
		}
	}
	// blockers: functions that make a clause with NewClause and hand it to a storer (the step may live in a helper)
	npc := w.Func("solver", "NewClause")
	isStoreEvent := func(fn *ssa.Function, ci ssa.CallInstruction) bool {
		for _, c := range w.Callees[ci] {
			if storers[c] {
				for _, a := range ci.Common().Args {
					if mk, ok := a.(*ssa.Call); ok && w.staticCalleeIs(mk, npc) {
						return true
					}
				}
			}
		}
		return false
	}
	blockers := map[*ssa.Function]bool{}
	for _, fn := range w.Fns {
		if w.PkgName(fn) != "solver" || storers[fn] {
			continue
		}
		for _, ci := range callsIn(fn) {
			if isStoreEvent(fn, ci) {
				blockers[fn] = true
			}
		}
	}
	n := 0
	for _, fn := range w.Fns {
		if w.PkgName(fn) != "solver" {
			continue
		}
		// store events in fn: the store itself (the storing step written out in place), a call of a storer, or a call
		// of a blocker helper
		var events []ssa.Instruction
		for _, gs := range growthSites(fn) {
			if gs.Field != "solver.watcherList.origClauses" {
				continue
			}
			if ac, isC := gs.Store.Val.(*ssa.Call); isC {
				if mk, ok := appendedElem(ac).(*ssa.Call); ok && w.staticCalleeIs(mk, npc) {
					events = append(events, gs.Store)
				}
			}
		}
		if storers[fn] && len(events) == 0 {
			continue
		}
		for _, ci := range callsIn(fn) {
			if isStoreEvent(fn, ci) {
				events = append(events, ci)
				continue
			}
			for _, c := range w.Callees[ci] {
				if blockers[c] && c != fn {
					events = append(events, ci)
				}
			}
		}
		if len(events) == 0 {
			continue
		}
		// continuations: calls returning Status that take a literal (the flipped decision), reachable from an event or
		// from which an event is reachable within fn
		for _, cj := range callsIn(fn) {
			c2, ok := cj.(*ssa.Call)
			if !ok || typeShort(c2.Type()) != "solver.Status" {
				continue
			}
			hasLit := false
			for _, a := range c2.Call.Args {
				if typeShort(a.Type()) == "solver.Lit" {
					hasLit = true
				}
			}
			if !hasLit {
				continue
			}
			// same arm: some event and the continuation are ordered by dominance one way or the other
			var related []ssa.Instruction
			for _, e := range events {
				if instrDominates(e, c2) || instrDominates(c2, e) {
					related = append(related, e)
				}
			}
			if len(related) == 0 {
				continue
			}
			n++
			key := fmt.Sprintf("%s continuation #%d after a blocking clause", w.FuncName(fn), n)
			ok2 := false
			for _, e := range related {
				if instrDominates(e, c2) {
					ok2 = true
				}
			}
			r.Check(ok2, "R5.5", key, w.InstrPos(c2), "the clause is stored and watched before the search continues",
				"the search is continued before the blocking clause is stored and watched: a conflict during that search backjumps past the unstored clause and the same model is reported again")
		}
	}
}

// R5.6: expansion of a partial model: the j-th unbound variable takes bit j of the counter.
func ruleR5_6(w *World, r *Report) {
	r.Rule("R5.6", "when a partial model is expanded over its unbound variables, the value stored for the variable at position j of the unbound list is bit j of the running counter (the shift amount is the position, not the variable)", 1)
	n := 0
	for _, fn := range w.LibFns() {
		allInstrs(fn, func(ins ssa.Instruction) {
			st, ok := ins.(*ssa.Store)
			if !ok {
				return
			}
			ia, ok := st.Addr.(*ssa.IndexAddr)
			if !ok {
				return
			}
			// value: (counter & (1 << K)) != 0
			ne, ok := st.Val.(*ssa.BinOp)
			if !ok || ne.Op != token.NEQ {
				return
			}
			if k, ok := constInt(ne.Y); !ok || k != 0 {
				return
			}
			and, ok := ne.X.(*ssa.BinOp)
			if !ok || and.Op != token.AND {
				return
			}
			var shl *ssa.BinOp
			for _, o := range []ssa.Value{and.X, and.Y} {
				if c, ok := o.(*ssa.Convert); ok {
					o = c.X
				}
				if b, ok := o.(*ssa.BinOp); ok && b.Op == token.SHL {
					if one, ok := constInt(b.X); ok && one == 1 {
						shl = b
					}
				}
			}
			if shl == nil {
				return
			}
			n++
			key := fmt.Sprintf("%s expansion store #%d", w.FuncName(fn), n)
			K := shl.Y
			if c, ok := K.(*ssa.Convert); ok {
				K = c.X
			}
			// index: U[J] with J == K
			idx := ia.Index
			if c, ok := idx.(*ssa.Convert); ok {
				idx = c.X
			}
			ld, ok := idx.(*ssa.UnOp)
			if ok && ld.Op == token.MUL {
				if ia2, ok := ld.X.(*ssa.IndexAddr); ok {
					J := ia2.Index
					if c, ok := J.(*ssa.Convert); ok {
						J = c.X
					}
					r.Check(J == K, "R5.6", key, w.InstrPos(st), "bit j of the counter goes to the variable at position j",
						"the bit tested is not the position of the variable in the unbound list: some combinations are produced twice and others never")
					return
				}
			}
			r.Bad("R5.6", key, w.InstrPos(st), "the bit tested is selected by something other than the position in the list of unbound variables (e.g. the variable index itself): some assignments are delivered twice and others never")
		})
	}
}

// R9.6: what AppendClause does to the constraint per literal class.
func ruleR9_6(w *World, r *Report) {
	r.Rule("R9.6", "in Solver.AppendClause a literal already true is removed and the degree lowered by its weight, a literal already false is removed only, an unbound literal is kept and the cursor advances", 3)
	fn, _ := appendClauseScanFn(w)
	if fn == nil {
		r.Unk("R9.6", "solver.(*Solver).AppendClause", "-", "method not found")
		return
	}
	sat, _ := w.statusConst("Sat")
	unsat, _ := w.statusConst("Unsat")
	var statusCall *ssa.Call
	var header *ssa.BasicBlock
	for _, ci := range callsIn(fn) {
		if c, ok := ci.(*ssa.Call); ok && typeShort(c.Type()) == "solver.Status" && inLoop(fn, c.Block()) {
			statusCall = c
		}
	}
	if statusCall != nil {
		for _, h := range loopHeaders(fn) {
			if loopBlocks(fn, h)[statusCall.Block()] {
				header = h
			}
		}
	}
	if statusCall == nil || header == nil {
		r.Unk("R9.6", "(*solver.Solver).AppendClause scan", w.Pos(fn.Pos()), "no literal-status call in a scan loop")
		return
	}
	eff := w.effects()
	// classify module calls on the clause by what they write
	type act struct{ removes, lowers bool }
	got := map[string]map[act]bool{"true": {}, "false": {}, "unbound": {}}
	exploreEdges(header.Succs[0], &pstate{phi: map[*ssa.Phi]ssa.Value{}, facts: map[string]string{}},
		func(b *ssa.BasicBlock) bool { return b == header || !loopBlocks(fn, header)[b] },
		func(ins ssa.Instruction, st *pstate) {
			c, ok := ins.(*ssa.Call)
			if !ok {
				return
			}
			for _, callee := range w.Callees[c] {
				if eff.Writes(callee, "solver.Clause.lits") {
					st.facts["removes"] = "yes"
				}
				if eff.Writes(callee, "solver.Clause.lbdValue") {
					// lowered by the weight: the argument is the negation of a Weight(...) call result
					neg := false
					for _, a := range c.Call.Args {
						if u, ok := a.(*ssa.UnOp); ok && u.Op == token.SUB {
							if wc, ok := u.X.(*ssa.Call); ok && strings.HasSuffix(w.calleeName(&wc.Call), ".Weight") {
								neg = true
							}
						}
					}
					if neg {
						st.facts["lowers"] = "yes"
					} else {
						st.facts["lowers"] = "other"
					}
				}
			}
		},
		func(from, to *ssa.BasicBlock, st *pstate) {
			if to != header {
				return
			}
			cls := "unbound"
			switch st.facts[st.vkey(statusCall)] {
			case fmt.Sprintf("=%d", sat):
				cls = "true"
			case fmt.Sprintf("=%d", unsat):
				cls = "false"
			}
			if c := w.statusClass(st.facts[st.vkey(statusCall)]); c != "" {
				cls = c
			}
			got[cls][act{st.facts["removes"] == "yes", st.facts["lowers"] == "yes"}] = true
			if st.facts["lowers"] == "other" {
				got[cls][act{st.facts["removes"] == "yes", false}] = true
			}
		})
	check := func(cls string, want act, what string) {
		key := "(*solver.Solver).AppendClause constraint update for a literal already " + cls
		if cls == "unbound" {
			key = "(*solver.Solver).AppendClause constraint update for an unbound literal"
		}
		if len(got[cls]) == 0 {
			r.Bad("R9.6", key, w.Pos(fn.Pos()), "no path of the scan handles this case")
			return
		}
		var bad []string
		for a := range got[cls] {
			if a != want {
				bad = append(bad, fmt.Sprintf("literal removed: %v, degree lowered by its weight: %v", a.removes, a.lowers))
			}
		}
		if len(bad) > 0 {
			r.Bad("R9.6", key, w.Pos(fn.Pos()), what+"; found: "+strings.Join(sortedStrings(bad), " / "))
		} else {
			r.OK("R9.6", key, w.Pos(fn.Pos()), what)
		}
	}
	check("true", act{true, true}, "a true literal is removed and the degree is lowered by its weight (otherwise the remaining literals must still provide weight already obtained: the constraint becomes too strong)")
	check("false", act{true, false}, "a false literal is removed and the degree is unchanged")
	check("unbound", act{false, false}, "an unbound literal stays in the constraint")
}

// R4.5: maxsat.New does not write through the slices of the constraints it is given.
func ruleR4_5(w *World, r *Report) {
	r.Rule("R4.5", "maxsat.New (and what it calls) never writes or appends through a slice that belongs to the caller's constraints: literals and coefficients are copied before the blocking literal is appended and before the normaliser changes signs in place", 1)
	fn := w.Func("maxsat", "New")
	if fn == nil || len(fn.Params) == 0 {
		r.Unk("R4.5", "maxsat.New", "-", "function not found")
		return
	}
	prot := map[*ssa.Parameter]bool{}
	for _, p := range fn.Params {
		prot[p] = true
	}
	a := &e4{w: w, protParam: prot, inertGlobal: map[*ssa.Global]string{}, appendIsSink: true}
	a.run(w.Fns)
	reach := w.Reachable(fn)
	var bad []string
	pos := w.Pos(fn.Pos())
	for _, k := range a.sortedSinks() {
		s := a.sinks[k]
		if !reach[s.Fn] {
			continue
		}
		bad = append(bad, k+" @"+w.InstrPos(s.Instr))
		pos = w.InstrPos(s.Instr)
	}
	if len(bad) > 0 {
		r.Bad("R4.5", "maxsat.New leaves the caller's constraints unchanged", pos, "storage of the caller's constraints is written: "+strings.Join(bad, " ;; ")+": with spare capacity shared between constraints (sub-slices of one table) another constraint's coefficients are overwritten")
	} else {
		r.OK("R4.5", "maxsat.New leaves the caller's constraints unchanged", pos, fmt.Sprintf("%d functions reachable, no store or append through the arguments", len(reach)))
	}
}
