package main

import (
	"fmt"
	"go/token"
	"go/types"
	"strings"

	"golang.org/x/tools/go/ssa"
)

// Rules added after the third round of externally written faults (C13, C14, C18, C19, C20).

// ---------- small recognisers ----------

// bodyOf: the function whose blocks describe fn (the generic origin of an instantiation wrapper).
func bodyOf(fn *ssa.Function) *ssa.Function {
	if fn == nil {
		return nil
	}
	if len(fn.Blocks) == 0 && fn.Origin() != nil {
		return fn.Origin()
	}
	if o := fn.Origin(); o != nil && len(o.Blocks) > 0 {
		return o
	}
	return fn
}

// isAbsFn: a one-parameter function every return of which yields its parameter or the parameter's negation, both
// occurring.
func isAbsFn(fn *ssa.Function) bool {
	g := bodyOf(fn)
	if g == nil || len(g.Blocks) == 0 || len(g.Params) != 1 {
		return false
	}
	p := ssa.Value(g.Params[0])
	plain, neg, other := 0, 0, 0
	allInstrs(g, func(ins ssa.Instruction) {
		ret, ok := ins.(*ssa.Return)
		if !ok || len(ret.Results) != 1 {
			return
		}
		var count func(v ssa.Value)
		count = func(v ssa.Value) {
			switch x := v.(type) {
			case *ssa.Phi:
				for _, e := range x.Edges {
					count(e)
				}
				return
			case *ssa.UnOp:
				if x.Op == token.SUB && x.X == p {
					neg++
					return
				}
			}
			if v == p {
				plain++
			} else {
				other++
			}
		}
		count(ret.Results[0])
	})
	return plain > 0 && neg > 0 && other == 0
}

// isMinFn: a two-parameter function that returns the smaller of its parameters.
func isMinFn(fn *ssa.Function) bool {
	g := bodyOf(fn)
	if g == nil || len(g.Blocks) == 0 || len(g.Params) != 2 {
		return false
	}
	a, b := ssa.Value(g.Params[0]), ssa.Value(g.Params[1])
	iff, ok := g.Blocks[0].Instrs[len(g.Blocks[0].Instrs)-1].(*ssa.If)
	if !ok {
		return false
	}
	bo, ok := iff.Cond.(*ssa.BinOp)
	if !ok {
		return false
	}
	var small, large ssa.Value // when the condition holds, `small` is the smaller one
	switch bo.Op {
	case token.LSS, token.LEQ:
		small, large = bo.X, bo.Y
	case token.GTR, token.GEQ:
		small, large = bo.Y, bo.X
	default:
		return false
	}
	if !((small == a && large == b) || (small == b && large == a)) {
		return false
	}
	retOf := func(blk *ssa.BasicBlock) ssa.Value {
		if ret, ok := blk.Instrs[len(blk.Instrs)-1].(*ssa.Return); ok && len(ret.Results) == 1 && len(blk.Instrs) == 1 {
			return ret.Results[0]
		}
		return nil
	}
	return retOf(g.Blocks[0].Succs[0]) == small && retOf(g.Blocks[0].Succs[1]) == large
}

func calleeIs(c *ssa.Call, pred func(*ssa.Function) bool, builtin string) bool {
	if b, ok := c.Call.Value.(*ssa.Builtin); ok {
		return builtin != "" && b.Name() == builtin
	}
	sc := c.Call.StaticCallee()
	return sc != nil && pred(sc)
}

// ---------- R14.5: the cancelling addition lowers the degree by what was cancelled ----------

func ruleR14_5(w *World, r *Report) {
	r.Rule("R14.5", "in the cancelling addition of two constraints (the method that adds the coefficients of another coefficient set into its own) the degrees are added and, for every variable whose two coefficients have opposite signs, lowered by the smaller of the two absolute values - the amount that cancels out", 1)
	n := 0
	for _, fn := range w.LibFns() {
		if w.PkgName(fn) != "solver" || fn.Signature.Recv() == nil || len(fn.Params) < 2 || len(fn.Blocks) == 0 {
			continue
		}
		recv := ssa.Value(fn.Params[0])
		// the other set: a parameter of the receiver's type
		var other ssa.Value
		for _, p := range fn.Params[1:] {
			if types.Identical(p.Type(), recv.Type()) {
				other = p
			}
		}
		if other == nil {
			continue
		}
		weightsOf := func(v, owner ssa.Value) (idx ssa.Value, ok bool) {
			ld, isLd := v.(*ssa.UnOp)
			if !isLd || ld.Op != token.MUL {
				return nil, false
			}
			ia, isIA := ld.X.(*ssa.IndexAddr)
			if !isIA {
				return nil, false
			}
			base, isF := isFieldLoad(ia.X, "", "weights")
			if !isF || base != owner {
				return nil, false
			}
			return ia.Index, true
		}
		// the summing store: recv.weights[i] = recv.weights[i] + other.weights[i]
		var sum *ssa.Store
		allInstrs(fn, func(ins ssa.Instruction) {
			st, ok := ins.(*ssa.Store)
			if !ok {
				return
			}
			ia, ok := st.Addr.(*ssa.IndexAddr)
			if !ok {
				return
			}
			if base, isF := isFieldLoad(ia.X, "", "weights"); !isF || base != recv {
				return
			}
			bo, ok := st.Val.(*ssa.BinOp)
			if !ok || bo.Op != token.ADD {
				return
			}
			_, okA := weightsOf(bo.X, recv)
			_, okB := weightsOf(bo.Y, other)
			_, okC := weightsOf(bo.Y, recv)
			_, okD := weightsOf(bo.X, other)
			if (okA && okB) || (okC && okD) {
				sum = st
			}
		})
		if sum == nil {
			continue
		}
		n++
		key := w.FuncName(fn) + " degree of the sum"
		isW := func(v, owner ssa.Value) bool {
			_, ok := weightsOf(v, owner)
			return ok
		}
		// stores to recv.card
		var bad []string
		added, lowered := false, false
		allInstrs(fn, func(ins ssa.Instruction) {
			st, ok := ins.(*ssa.Store)
			if !ok {
				return
			}
			base, isF := isFieldAddrOf(st.Addr, "card")
			if !isF || base != recv {
				return
			}
			bo, ok := st.Val.(*ssa.BinOp)
			if !ok {
				bad = append(bad, "the degree is overwritten at "+w.InstrPos(st))
				return
			}
			cur, isCur := isFieldLoad(bo.X, "", "card")
			if !isCur || cur != recv {
				bad = append(bad, "the degree is not updated from its own value at "+w.InstrPos(st))
				return
			}
			switch bo.Op {
			case token.ADD:
				if oc, ok := isFieldLoad(bo.Y, "", "card"); ok && oc == other && !inLoop(fn, st.Block()) {
					added = true
				} else {
					bad = append(bad, "something other than the degree of the other constraint is added at "+w.InstrPos(st))
				}
			case token.SUB:
				// the amount: min(abs(w1), abs(w2))
				okAmount := false
				absOf := func(v ssa.Value) ssa.Value {
					ac, isCall := v.(*ssa.Call)
					if !isCall || len(ac.Call.Args) != 1 || !calleeIs(ac, isAbsFn, "") {
						return nil
					}
					return ac.Call.Args[0]
				}
				pairOK := func(x, y ssa.Value) bool {
					return x != nil && y != nil && ((isW(x, recv) && isW(y, other)) || (isW(x, other) && isW(y, recv)))
				}
				if mc, isCall := bo.Y.(*ssa.Call); isCall && len(mc.Call.Args) == 2 && calleeIs(mc, isMinFn, "min") {
					if pairOK(absOf(mc.Call.Args[0]), absOf(mc.Call.Args[1])) {
						okAmount = true
					}
				} else if a := absOf(bo.Y); a != nil {
					// `if abs(w1) < abs(w2) { card -= abs(w1) } else { card -= abs(w2) }`: the absolute value subtracted is the
					// one a dominating comparison found not larger
					for _, ec := range dominatingConds(st.Block()) {
						c, isB := ec.Cond.(*ssa.BinOp)
						if !isB {
							continue
						}
						x, y := absOf(c.X), absOf(c.Y)
						if !pairOK(x, y) {
							continue
						}
						var small ssa.Value
						switch {
						case (c.Op == token.LSS || c.Op == token.LEQ) && ec.True, (c.Op == token.GTR || c.Op == token.GEQ) && !ec.True:
							small = x
						case (c.Op == token.GTR || c.Op == token.GEQ) && ec.True, (c.Op == token.LSS || c.Op == token.LEQ) && !ec.True:
							small = y
						}
						if small != nil && sameLoad(small, a) {
							okAmount = true
						}
					}
				}
				if !okAmount {
					bad = append(bad, "for coefficients of opposite signs the degree is lowered by something other than the smaller of their absolute values (at "+w.InstrPos(st)+"): the sum is then stronger (or weaker) than what the two constraints imply")
					return
				}
				// under the test `the two coefficients have opposite signs`
				// some dominating test looks at both coefficients (`w1*w2 < 0`, `(w1 < 0) != (w2 < 0)`): which test it is
				// is arithmetic the rule does not judge; that there is none is structural
				guarded := false
				for _, ec := range dominatingConds(st.Block()) {
					sawA, sawB := false, false
					var walk func(v ssa.Value, d int)
					walk = func(v ssa.Value, d int) {
						if v == nil || d > 5 {
							return
						}
						if isW(v, recv) {
							sawA = true
						}
						if isW(v, other) {
							sawB = true
						}
						switch x := v.(type) {
						case *ssa.BinOp:
							walk(x.X, d+1)
							walk(x.Y, d+1)
						case *ssa.UnOp:
							if x.Op != token.MUL {
								walk(x.X, d+1)
							}
						case *ssa.Call:
							for _, a := range x.Call.Args {
								walk(a, d+1)
							}
						}
					}
					walk(ec.Cond, 0)
					if sawA && sawB {
						guarded = true
					}
				}
				if !guarded {
					bad = append(bad, "the degree is lowered without the test that the two coefficients have opposite signs (at "+w.InstrPos(st)+")")
					return
				}
				lowered = true
			default:
				bad = append(bad, "unexpected update of the degree at "+w.InstrPos(st))
			}
		})
		if !added {
			bad = append(bad, "the degree of the other constraint is not added")
		}
		if !lowered && len(bad) == 0 {
			bad = append(bad, "the degree is never lowered for coefficients that cancel out")
		}
		if len(bad) > 0 {
			r.Bad("R14.5", key, w.InstrPos(sum), strings.Join(dedupe(bad), "; "))
		} else {
			r.OK("R14.5", key, w.InstrPos(sum), "degrees added; lowered by min(|w1|, |w2|) under w1*w2 < 0")
		}
	}
	if n == 0 {
		r.Unk("R14.5", "cancelling addition", "-", "no method of package solver adds the coefficients of another set into its own")
	}
}

// sameLoad: two loads of the same element (same address chain).
func sameLoad(a, b ssa.Value) bool {
	if a == b {
		return true
	}
	la, okA := a.(*ssa.UnOp)
	lb, okB := b.(*ssa.UnOp)
	return okA && okB && la.Op == token.MUL && lb.Op == token.MUL && chainOf(la.X) == chainOf(lb.X)
}

// isFieldAddrOf: addr is &base.<field>; returns base.
func isFieldAddrOf(addr ssa.Value, field string) (ssa.Value, bool) {
	fa, ok := addr.(*ssa.FieldAddr)
	if !ok {
		return nil, false
	}
	_, f, base, ok := fieldOf(fa)
	if !ok || f != field {
		return nil, false
	}
	return base, true
}

// ---------- R14.6: a bounded backward walk over the trail reaches position 0 ----------

func ruleR14_6(w *World, r *Report) {
	r.Rule("R14.6", "in the cutting-planes analyser and its helpers, a loop that walks the trail backwards under a test of its index against a lower bound visits position 0 (the test is `index >= 0`): the first literal of the trail may be the decision the analysis is looking for", 1)
	n := 0
	for _, fn := range w.LibFns() {
		if w.PkgName(fn) != "solver" || len(fn.Blocks) == 0 {
			continue
		}
		k := 0
		for _, h := range loopHeaders(fn) {
			body := loopBlocks(fn, h)
			for tb := range body {
				iff, ok := tb.Instrs[len(tb.Instrs)-1].(*ssa.If)
				if !ok || (body[tb.Succs[0]] && body[tb.Succs[1]]) {
					continue // not an exit test of this loop
				}
				bo, ok := iff.Cond.(*ssa.BinOp)
				if !ok {
					continue
				}
				bound, isK := constInt(bo.Y)
				if !isK {
					continue
				}
				// the index: a value decremented in the loop and used to index the trail
				idx := bo.X
				decremented, indexesTrail := false, false
				for b := range body {
					for _, ins := range b.Instrs {
						switch x := ins.(type) {
						case *ssa.BinOp:
							if x.Op == token.SUB && x.X == idx {
								if one, ok := constInt(x.Y); ok && one == 1 {
									decremented = true
								}
							}
						case *ssa.IndexAddr:
							if _, isT := isFieldLoad(x.X, "solver.Solver", "trail"); isT && x.Index == idx {
								indexesTrail = true
							}
						}
					}
				}
				if !decremented || !indexesTrail {
					continue
				}
				// the loop continues on the true edge when the body is Succs[0]
				cont := body[tb.Succs[0]]
				op := bo.Op
				if !cont { // the loop continues when the condition is false: negate
					switch op {
					case token.LSS:
						op = token.GEQ
					case token.LEQ:
						op = token.GTR
					case token.GTR:
						op = token.LEQ
					case token.GEQ:
						op = token.LSS
					}
				}
				n++
				k++
				key := fmt.Sprintf("%s bounded backward trail walk #%d", w.FuncName(fn), k)
				visits0 := (op == token.GEQ && bound <= 0) || (op == token.GTR && bound < 0) || (op == token.NEQ && bound < 0)
				r.Check(visits0, "R14.6", key, w.InstrPos(iff), "the walk continues while index >= 0",
					"the walk stops before position 0 of the trail: when the trail starts with the first decision (nothing is bound at the top level) that literal is never examined, the analysis sees one falsified literal too few and learns a constraint that is not implied")
			}
		}
	}
	if n == 0 {
		r.Unk("R14.6", "backward trail walks", "-", "no loop of package solver walks the trail backwards under a bound test")
	}
}

// ---------- R14.7: removing a pseudo-boolean constraint from the watch lists examines every position ----------

func ruleR14_7(w *World, r *Report) {
	r.Rule("R14.7", "the function that removes a pseudo-boolean constraint from the watch lists examines every position of the constraint: its loop over the positions runs from 0 to the length and is left only by its bound test (watched literals are not a prefix of the constraint)", 1)
	n := 0
	for u := range unwatchers(w) {
		touchesPb := false
		allInstrs(u, func(ins ssa.Instruction) {
			if l, ok := ins.(*ssa.UnOp); ok && l.Op == token.MUL && qualField(l.X) == "solver.watcherList.wlistPb" {
				touchesPb = true
			}
		})
		if !touchesPb {
			continue
		}
		c := ssa.Value(u.Params[len(u.Params)-1])
		lenFn := w.Func("solver", "Clause.Len")
		// the loop over positions: the outermost loop whose index reads the constraint (Get / lits / watched flags)
		var outer *ssa.BasicBlock
		for _, h := range loopHeaders(u) {
			if outer == nil || len(loopBlocks(u, h)) > len(loopBlocks(u, outer)) {
				outer = h
			}
		}
		n++
		key := w.FuncName(u) + " visits every position"
		if outer == nil {
			r.Unk("R14.7", key, w.Pos(u.Pos()), "no loop found")
			continue
		}
		body := loopBlocks(u, outer)
		// index: a phi of the header with full range over Len(c)
		full := false
		for _, ins := range outer.Instrs {
			phi, ok := ins.(*ssa.Phi)
			if !ok {
				break
			}
			cands := []ssa.Value{phi}
			for _, ref := range *phi.Referrers() {
				if add, isAdd := ref.(*ssa.BinOp); isAdd && add.Op == token.ADD && add.X == ssa.Value(phi) {
					cands = append(cands, add) // the shape of `for i := range s`
				}
			}
			for _, cand := range cands {
				if fullRangeIndex(cand, func(b ssa.Value) bool {
					lc, ok := b.(*ssa.Call)
					if !ok || len(lc.Call.Args) != 1 {
						return false
					}
					if lenFn != nil && w.staticCalleeIs(lc, lenFn) {
						return lc.Call.Args[0] == c
					}
					if bi, isB := lc.Call.Value.(*ssa.Builtin); isB && bi.Name() == "len" {
						// the literals, or one of the per-literal lists of the constraint (same length by construction)
						if base, isF := isFieldLoad(lc.Call.Args[0], "solver.Clause", "lits"); isF && base == c {
							return true
						}
						if ld, isLd := lc.Call.Args[0].(*ssa.UnOp); isLd && ld.Op == token.MUL {
							ch := chainOf(ld.X)
							return strings.Contains(ch, chainOf(c)+".") && (strings.HasSuffix(ch, ".watched") || strings.HasSuffix(ch, ".weights"))
						}
					}
					return false
				}) {
					full = true
				}
			}
		}
		// exits other than the header's own
		var early []string
		for b := range body {
			if b == outer {
				continue
			}
			for _, s := range b.Succs {
				if !body[s] {
					early = append(early, w.InstrPos(b.Instrs[len(b.Instrs)-1]))
				}
			}
			if _, isRet := b.Instrs[len(b.Instrs)-1].(*ssa.Return); isRet {
				early = append(early, w.InstrPos(b.Instrs[len(b.Instrs)-1]))
			}
		}
		switch {
		case !full:
			r.Bad("R14.7", key, w.InstrPos(outer.Instrs[len(outer.Instrs)-1]), "the loop over the positions of the constraint does not run from 0 to its length")
		case len(early) > 0:
			r.Bad("R14.7", key, w.InstrPos(outer.Instrs[len(outer.Instrs)-1]), "the loop over the positions is left early (at "+strings.Join(sortedStrings(dedupe(early)), ", ")+"): a watched literal behind that position keeps the deleted constraint in its watch list, and propagation later works on a constraint that is no longer part of the problem")
		default:
			r.OK("R14.7", key, w.InstrPos(outer.Instrs[len(outer.Instrs)-1]), "positions 0..Len()-1, single exit")
		}
	}
	if n == 0 {
		r.Unk("R14.7", "pseudo-boolean unwatcher", "-", "no function removes a constraint from the pseudo-boolean watch lists")
	}
}

// ---------- R13.11: the variable count follows the magnitude of the literal that was read ----------

// magSources: the values v is made of once negations are stripped (through phis); negated reports whether a negation
// was crossed.
func magSources(v ssa.Value) (src map[ssa.Value]bool, negated bool) {
	src = map[ssa.Value]bool{}
	seen := map[ssa.Value]bool{}
	var walk func(v ssa.Value)
	walk = func(v ssa.Value) {
		if seen[v] {
			return
		}
		seen[v] = true
		switch x := v.(type) {
		case *ssa.Phi:
			for _, e := range x.Edges {
				walk(e)
			}
		case *ssa.UnOp:
			if x.Op == token.SUB {
				negated = true
				walk(x.X)
				return
			}
			src[v] = true
		case *ssa.Convert:
			walk(x.X)
		default:
			src[v] = true
		}
	}
	walk(v)
	return
}

func ruleR13_11(w *World, r *Report) {
	r.Rule("R13.11", "where a text front-end of package solver raises the declared number of variables from a number it has just read, the value compared with and stored into Problem.NbVars is the variable number itself (never its opposite), and it is the magnitude of every literal the same iteration appends to the literal list", 1)
	n := 0
	kf := map[*ssa.Function]int{}
	for _, fn := range w.LibFns() {
		if w.PkgName(fn) != "solver" || len(fn.Blocks) == 0 {
			continue
		}
		for _, st := range storesToField(fn, "solver.Problem", "NbVars") {
			src, negated := magSources(st.Val)
			// only numbers read from text: results of strconv conversions
			fromText := false
			for s := range src {
				if ex, ok := s.(*ssa.Extract); ok {
					if c, ok := ex.Tuple.(*ssa.Call); ok {
						if pkg, _ := stdCallee(&c.Call); pkg == "strconv" {
							fromText = true
						}
					}
				}
			}
			if !fromText || !inLoop(fn, st.Block()) {
				continue
			}
			n++
			kf[fn]++
			key := fmt.Sprintf("%s variable count #%d follows the literal read", w.FuncName(fn), kf[fn])
			var bad []string
			if negated {
				bad = append(bad, "the value compared with and stored into the variable count went through a negation: for a negated literal it is negative, the count is not raised, and the literal designates a variable beyond the declared number (index out of range when the problem is solved)")
			}
			// literals appended in the same function from the same numbers
			allInstrs(fn, func(ins ssa.Instruction) {
				c, ok := ins.(*ssa.Call)
				if !ok {
					return
				}
				b, isB := c.Call.Value.(*ssa.Builtin)
				if !isB || b.Name() != "append" || len(c.Call.Args) != 2 || typeShort(c.Type()) != "[]int" {
					return
				}
				el := appendedElem(c)
				if el == nil {
					return
				}
				es, _ := magSources(el)
				common := false
				for s := range es {
					if src[s] {
						common = true
					}
				}
				if !common {
					return
				}
				for s := range es {
					if !src[s] {
						bad = append(bad, "a literal appended at "+w.InstrPos(c)+" is made of a number the variable count is not compared with")
					}
				}
			})
			if len(bad) > 0 {
				r.Bad("R13.11", key, w.InstrPos(st), strings.Join(dedupe(bad), "; "))
			} else {
				r.OK("R13.11", key, w.InstrPos(st), "the count is raised with the number read, which is the magnitude of the literal appended")
			}
		}
	}
	if n == 0 {
		r.Unk("R13.11", "variable count from text", "-", "no front-end of package solver raises Problem.NbVars from a number read from text inside a loop")
	}
}

// ---------- R4.7: the weights collected by a MAXSAT front-end are not replaced by nil ----------

func ruleR4_7(w *World, r *Report) {
	r.Rule("R4.7", "in package maxsat, the weight list handed to SetCostFunc is the list that was collected (allocated, then extended by append): nil (which the solver reads as `every weight is 1`) reaches the call only as the initial value of the collecting loop, or under a test that every weight equals 1", 2)
	n := 0
	kf := map[*ssa.Function]int{}
	for _, fn := range w.LibFns() {
		if w.PkgName(fn) != "maxsat" || len(fn.Blocks) == 0 {
			continue
		}
		for _, ci := range callsIn(fn) {
			call, ok := ci.(*ssa.Call)
			if !ok || !strings.HasSuffix(w.calleeName(&call.Call), ".SetCostFunc") || len(call.Call.Args) < 3 {
				continue
			}
			n++
			kf[fn]++
			key := fmt.Sprintf("%s weights of cost function #%d", w.FuncName(fn), kf[fn])
			weights := call.Call.Args[len(call.Call.Args)-1]
			if ls := w.resultLeaves(weights); len(ls) == 1 {
				weights = ls[0]
			}
			hf := fn
			if ins, ok := weights.(ssa.Instruction); ok && ins.Parent() != nil {
				hf = ins.Parent()
			}
			why := ""
			seen := map[ssa.Value]bool{}
			var walk func(v ssa.Value)
			walk = func(v ssa.Value) {
				if v == nil || seen[v] || why != "" {
					return
				}
				seen[v] = true
				switch x := v.(type) {
				case *ssa.Phi:
					for i, e := range x.Edges {
						if isNilConst(e) {
							pred := x.Block().Preds[i]
							isHeader := false
							for _, h := range loopHeaders(hf) {
								if h == x.Block() && !loopBlocks(hf, h)[pred] {
									isHeader = true
								}
							}
							if isHeader {
								continue // `var weights []int` before the collecting loop
							}
							if nilUnderAllOnes(pred, x.Block()) {
								continue
							}
							why = "nil replaces the collected weights on the path through " + w.InstrPos(pred.Instrs[len(pred.Instrs)-1]) + ": the solver then counts every soft constraint as 1, and the optimum and the costs reported are wrong for weights other than 1"
							return
						}
						walk(e)
					}
				case *ssa.Call:
					if b, isB := x.Call.Value.(*ssa.Builtin); isB && b.Name() == "append" {
						walk(x.Call.Args[0])
					}
				case *ssa.Slice:
					walk(x.X)
				case *ssa.Const:
					if x.IsNil() {
						why = "the weights given are the nil constant"
					}
				}
			}
			walk(weights)
			r.Check(why == "", "R4.7", key, w.InstrPos(call), "the collected list reaches the call", why)
		}
	}
	if n == 0 {
		r.Unk("R4.7", "cost functions of package maxsat", "-", "no call of SetCostFunc in package maxsat")
	}
}

// nilUnderAllOnes: the edge pred -> blk is taken only when a flag computed from comparisons of weights with the
// constant 1 (and nothing else) holds.
func nilUnderAllOnes(pred, blk *ssa.BasicBlock) bool {
	conds := dominatingConds(pred)
	if iff, ok := pred.Instrs[len(pred.Instrs)-1].(*ssa.If); ok {
		conds = append(conds, edgeCond{Cond: iff.Cond, True: pred.Succs[0] == blk, If: iff})
	}
	for _, ec := range conds {
		if !ec.True {
			continue
		}
		cmp, onlyOnes := 0, true
		seen := map[ssa.Value]bool{}
		var walk func(v ssa.Value)
		walk = func(v ssa.Value) {
			if v == nil || seen[v] {
				return
			}
			seen[v] = true
			switch x := v.(type) {
			case *ssa.Phi:
				for _, e := range x.Edges {
					walk(e)
				}
			case *ssa.BinOp:
				switch x.Op {
				case token.EQL:
					cmp++
					if k, ok := constInt(x.Y); !ok || k != 1 {
						onlyOnes = false
					}
				case token.LAND, token.AND:
					walk(x.X)
					walk(x.Y)
				default:
					onlyOnes = false
				}
			case *ssa.Const:
			default:
				onlyOnes = false
			}
		}
		walk(ec.Cond)
		if cmp > 0 && onlyOnes {
			return true
		}
	}
	return false
}

// ---------- R18.10 / R18.11: the objective line of the OPB printers ----------

// objectivePrinters: functions of package solver that emit the objective keyword `min:`; at: the block in which the
// keyword is put into the text.
func objectivePrinters(w *World) map[*ssa.Function][]*ssa.BasicBlock {
	out := map[*ssa.Function][]*ssa.BasicBlock{}
	printers := map[*ssa.Function]bool{}
	for _, fam := range printerFamilies {
		fns, _ := w.printerFns(fam)
		for _, f := range fns {
			printers[f] = true
		}
	}
	for _, fn := range w.LibFns() {
		if w.PkgName(fn) != "solver" || len(fn.Blocks) == 0 || !printers[fn] {
			continue
		}
		allInstrs(fn, func(ins ssa.Instruction) {
			phi, isPhi := ins.(*ssa.Phi)
			for i, op := range ins.Operands(nil) {
				if op == nil || *op == nil {
					continue
				}
				if s, ok := constString(*op); ok && strings.Contains(s, "min:") {
					b := ins.Block()
					if isPhi && i < len(phi.Block().Preds) {
						b = phi.Block().Preds[i]
					}
					out[fn] = append(out[fn], b)
				}
			}
		})
	}
	return out
}

func ruleR18_10(w *World, r *Report) {
	r.Rule("R18.10", "an OPB printer writes the objective line whenever there are cost literals: the place where the keyword `min:` enters the text is not behind a test of the weight list (a nil weight list means that every weight is 1, not that there is no objective)", 2)
	n := 0
	ops := objectivePrinters(w)
	var fns []*ssa.Function
	for fn := range ops {
		fns = append(fns, fn)
	}
	sortFns(fns)
	for _, fn := range fns {
		n++
		key := w.FuncName(fn) + " objective line does not depend on the weight list"
		why := ""
		for _, b := range ops[fn] {
			for _, ec := range dominatingConds(b) {
				refs := false
				var walk func(v ssa.Value, d int)
				walk = func(v ssa.Value, d int) {
					if v == nil || d > 4 {
						return
					}
					if _, f, _, ok := loadedFieldOf(v); ok && f == "minWeights" {
						refs = true
						return
					}
					switch x := v.(type) {
					case *ssa.BinOp:
						walk(x.X, d+1)
						walk(x.Y, d+1)
					case *ssa.UnOp:
						walk(x.X, d+1)
					case *ssa.Call:
						if _, isB := x.Call.Value.(*ssa.Builtin); isB {
							for _, a := range x.Call.Args {
								walk(a, d+1)
							}
						}
					}
				}
				walk(ec.Cond, 0)
				if refs {
					why = "the objective line is written only behind a test of the weight list (" + w.InstrPos(ec.If) + "): a cost function given without weights (every weight is 1) disappears from the text, and the problem read back is a decision problem"
				}
			}
		}
		r.Check(why == "", "R18.10", key, w.Pos(fn.Pos()), "no test of the weight list dominates the keyword", why)
	}
	if n == 0 {
		r.Unk("R18.10", "objective printers", "-", "no function of package solver emits `min:`")
	}
}

func sortFns(fns []*ssa.Function) {
	for i := 1; i < len(fns); i++ {
		for j := i; j > 0 && fns[j].String() < fns[j-1].String(); j-- {
			fns[j], fns[j-1] = fns[j-1], fns[j]
		}
	}
}

func ruleR18_11(w *World, r *Report) {
	r.Rule("R18.11", "in the objective line a term is `<weight> x<var>` or `<weight> ~x<var>`: both forms can be written, the text `~` is produced only under the test `the literal is negative`, and the coefficient is the weight itself (never its opposite on the plain variable: that shifts every cost by a constant)", 2)
	n := 0
	ops := objectivePrinters(w)
	var fns []*ssa.Function
	for fn := range ops {
		fns = append(fns, fn)
	}
	sortFns(fns)
	t := newTextCtx(w)
	num := string(rune(mNum))
	for _, printer := range fns {
		// the terms may be written by a helper handed the cost literals (`pbTerms(s.minLits, s.minWeights)`, shared
		// with the printer of a constraint): the term is looked for there
		fn := printer
		indexesCost := false
		allInstrs(printer, func(ins ssa.Instruction) {
			if ia, isIA := ins.(*ssa.IndexAddr); isIA {
				if _, isF := isFieldLoad(ia.X, "", "minLits"); isF {
					indexesCost = true
				}
			}
		})
		if !indexesCost {
			for _, ci := range callsIn(printer) {
				h := ci.Common().StaticCallee()
				if h == nil || w.PkgName(h) != "solver" || len(h.Blocks) == 0 {
					continue
				}
				for _, a := range ci.Common().Args {
					if _, isF := isFieldLoad(a, "", "minLits"); isF {
						fn = h
					}
				}
			}
		}
		// the term: a Sprintf / Fprintf inside the loop over the cost literals whose text has a variable `x<number>`
		var term *ssa.Call
		var args []ssa.Value
		var pieces []fmtPiece
		var alts []string
		for _, ci := range callsIn(fn) {
			c, ok := ci.(*ssa.Call)
			if !ok || !inLoop(fn, c.Block()) {
				continue
			}
			overCost := false
			for _, h := range loopHeaders(fn) {
				body := loopBlocks(fn, h)
				if !body[c.Block()] {
					continue
				}
				for b := range body {
					for _, ins := range b.Instrs {
						if ia, isIA := ins.(*ssa.IndexAddr); isIA {
							if _, isF := isFieldLoad(ia.X, "", "minLits"); isF {
								overCost = true
							}
							// the printer may be a function handed the cost literals (`costFuncString(lits, weights)`)
							if _, isP := ia.X.(*ssa.Parameter); isP && typeShort(ia.X.Type()) == "[]solver.Lit" {
								overCost = true
							}
						}
					}
				}
			}
			if !overCost {
				continue
			}
			pkg, name := stdCallee(&c.Call)
			if pkg != "fmt" || (name != "Sprintf" && name != "Fprintf") {
				continue
			}
			fa := c.Call.Args
			if name == "Fprintf" {
				fa = fa[1:]
			}
			if len(fa) != 2 {
				continue
			}
			f, ok := constString(fa[0])
			if !ok {
				continue
			}
			as, ok := fmtVarargs(fa[1])
			if !ok {
				continue
			}
			texts := t.sprintf(f, as, nil)
			hasVar := false
			for _, a := range texts {
				if strings.Contains(a, "x"+num) {
					hasVar = true
				}
			}
			if !hasVar {
				continue
			}
			term, args, pieces, alts = c, as, parseFormat(f), texts
		}
		n++
		key := w.FuncName(printer) + " objective term"
		if term == nil {
			// the term may be written piece by piece (`sb.WriteString(" ~x")` / `sb.WriteString(" x")`): both markers must
			// be among the constants written in the loop over the cost literals, `~` under the sign test
			marked, plain := false, false
			var bad []string
			for _, h := range loopHeaders(fn) {
				body := loopBlocks(fn, h)
				overCost := false
				for b := range body {
					for _, ins := range b.Instrs {
						if ia, isIA := ins.(*ssa.IndexAddr); isIA {
							if _, isF := isFieldLoad(ia.X, "", "minLits"); isF {
								overCost = true
							}
							if _, isP := ia.X.(*ssa.Parameter); isP && typeShort(ia.X.Type()) == "[]solver.Lit" {
								overCost = true
							}
						}
					}
				}
				if !overCost {
					continue
				}
				for b := range body {
					for _, ins := range b.Instrs {
						for _, op := range ins.Operands(nil) {
							if op == nil || *op == nil {
								continue
							}
							sv, ok := constString(*op)
							if !ok {
								continue
							}
							if strings.Contains(sv, "~") {
								marked = true
								okSign := false
								for _, ec := range dominatingConds(b) {
									if isNegativeLiteralTest(w, ec) {
										okSign = true
									}
								}
								if !okSign {
									bad = append(bad, "the text `~` is produced at "+w.InstrPos(ins)+" without the test `the literal is negative`")
								}
							} else if strings.HasSuffix(strings.TrimSpace(sv), "x") {
								plain = true
							}
						}
					}
				}
			}
			switch {
			case len(bad) > 0:
				r.Bad("R18.11", key, w.Pos(fn.Pos()), strings.Join(dedupe(bad), "; "))
			case marked && plain:
				r.OK("R18.11", key, w.Pos(fn.Pos()), "term written piece by piece; `~` under the sign test")
			default:
				r.Unk("R18.11", key, w.Pos(fn.Pos()), "no formatted term with a variable `x<number>` found in the loop over the cost literals")
			}
			continue
		}
		var bad []string
		// (a) both forms
		plain, marked := false, false
		for _, a := range alts {
			for i := 0; i+1 < len(a); i++ {
				if a[i] == 'x' && a[i+1] == mNum {
					if i > 0 && a[i-1] == '~' {
						marked = true
					} else {
						plain = true
					}
				}
			}
		}
		if !marked {
			bad = append(bad, "no form of the term writes `~x<var>`: a negated cost literal cannot be told from a plain one ("+showAlts(alts)+")")
		}
		if !plain {
			bad = append(bad, "no form of the term writes a plain `x<var>`")
		}
		// (b) every text containing `~` in the printer and the string helpers it calls in the loop is produced under
		// the test `the literal is negative`
		scope := []*ssa.Function{fn}
		for _, a := range args {
			if c, ok := a.(*ssa.Call); ok {
				if sc := c.Call.StaticCallee(); sc != nil && w.InModule(w.unwrap(sc)) {
					scope = append(scope, w.unwrap(sc))
				}
			}
		}
		for _, g := range scope {
			allInstrs(g, func(ins ssa.Instruction) {
				phi, isPhi := ins.(*ssa.Phi)
				for i, op := range ins.Operands(nil) {
					if op == nil || *op == nil {
						continue
					}
					sv, ok := constString(*op)
					if !ok || !strings.Contains(sv, "~") {
						continue
					}
					if g == fn && !inLoop(fn, ins.Block()) {
						continue
					}
					b := ins.Block()
					var conds []edgeCond
					if isPhi && i < len(phi.Block().Preds) {
						b = phi.Block().Preds[i]
						if iff, isIf := b.Instrs[len(b.Instrs)-1].(*ssa.If); isIf {
							conds = append(conds, edgeCond{Cond: iff.Cond, True: b.Succs[0] == phi.Block(), If: iff})
						}
					}
					conds = append(conds, dominatingConds(b)...)
					okSign := false
					for _, ec := range conds {
						if isNegativeLiteralTest(w, ec) {
							okSign = true
						}
					}
					if !okSign {
						bad = append(bad, "the text `~` is produced at "+w.InstrPos(ins)+" without the test `the literal is negative`")
					}
				}
			})
		}
		// (c) the coefficient: the first integer verb of the term
		var coef ssa.Value
		ai := 0
		for _, p := range pieces {
			if p.verb == 0 {
				continue
			}
			if p.verb == 'd' && coef == nil && ai < len(args) {
				coef = args[ai]
			}
			ai++
		}
		if coef == nil {
			// the coefficient is written by other means (a helper, strconv): not judged
		} else if _, negated := magSources(coef); negated {
			bad = append(bad, "the coefficient written can be the opposite of the weight: `-w x` has the same minimisers as `w ~x` but every cost read back is lower by w")
		}
		if len(bad) > 0 {
			r.Bad("R18.11", key, w.InstrPos(term), strings.Join(dedupe(bad), "; "))
		} else {
			r.OK("R18.11", key, w.InstrPos(term), "coefficient = weight; `~` exactly in front of the variable of a negative literal")
		}
	}
	if n == 0 {
		r.Unk("R18.11", "objective printers", "-", "no function of package solver emits `min:`")
	}
}

// isNegativeLiteralTest: the edge holds when a literal is negative: `lit.Int() < 0` true, `lit.Int() >= 0` false,
// `lit.IsPositive()` false.
func isNegativeLiteralTest(w *World, ec edgeCond) bool {
	c, pol := ec.Cond, ec.True
	for {
		if u, ok := c.(*ssa.UnOp); ok && u.Op == token.NOT {
			c, pol = u.X, !pol
			continue
		}
		break
	}
	switch x := c.(type) {
	case *ssa.BinOp:
		call, isCall := x.X.(*ssa.Call)
		if !isCall || w.calleeName(&call.Call) != "(solver.Lit).Int" {
			return false
		}
		if k, ok := constInt(x.Y); !ok || k != 0 {
			return false
		}
		return (x.Op == token.LSS && pol) || (x.Op == token.GEQ && !pol)
	case *ssa.Call:
		return w.calleeName(&x.Call) == "(solver.Lit).IsPositive" && !pol
	}
	return false
}

// ---------- R19.9: the file opened is the argument as given ----------

func ruleR19_9(w *World, r *Report) {
	r.Rule("R19.9", "every file the command opens is named by a command-line argument handed on unchanged (through parameters only) from flag.Args()/flag.Arg to os.Open: no string transformation (case folding, trimming, joining) lies on the way", 3)
	n := 0
	for _, fn := range w.mainFns() {
		k := 0
		for _, ci := range callsIn(fn) {
			c, ok := ci.(*ssa.Call)
			if !ok {
				continue
			}
			if pkg, name := stdCallee(&c.Call); pkg != "os" || (name != "Open" && name != "OpenFile" && name != "ReadFile") || len(c.Call.Args) == 0 {
				continue
			}
			n++
			k++
			key := fmt.Sprintf("%s file opened #%d is the argument as given", w.FuncName(fn), k)
			why := ""
			roots := 0
			type item struct {
				fn *ssa.Function
				v  ssa.Value
			}
			seen := map[ssa.Value]bool{}
			var walk func(f *ssa.Function, v ssa.Value, depth int)
			walk = func(f *ssa.Function, v ssa.Value, depth int) {
				if v == nil || seen[v] || why != "" {
					return
				}
				seen[v] = true
				if depth > 6 {
					why = "the origin of the file name is more than 6 calls away"
					return
				}
				switch x := v.(type) {
				case *ssa.Parameter:
					pi := paramIndex(f, x)
					callers := 0
					for _, cf := range w.mainFns() {
						for _, cj := range callsIn(cf) {
							if !w.staticCalleeIs(cj, f) || pi >= len(cj.Common().Args) {
								continue
							}
							callers++
							walk(cf, cj.Common().Args[pi], depth+1)
						}
					}
					if callers == 0 {
						why = "the file name is a parameter of " + w.FuncName(f) + ", which nothing in package main calls directly"
					}
				case *ssa.Phi:
					for _, e := range x.Edges {
						walk(f, e, depth)
					}
				case *ssa.UnOp:
					if x.Op == token.MUL {
						switch a := x.X.(type) {
						case *ssa.IndexAddr:
							if ac, isCall := a.X.(*ssa.Call); isCall {
								if pkg, name := stdCallee(&ac.Call); pkg == "flag" && name == "Args" {
									roots++
									return
								}
							}
						case *ssa.Alloc:
							// a local cell (captured or spilled variable): what is stored into it
							for _, ref := range *a.Referrers() {
								if st, isSt := ref.(*ssa.Store); isSt && st.Addr == ssa.Value(a) {
									walk(f, st.Val, depth)
								}
							}
							return
						case *ssa.FreeVar:
							// the variable of the enclosing function
							if par := f.Parent(); par != nil {
								for _, ins := range *closureBindings(par, f, a) {
									walk(par, ins, depth+1)
								}
								return
							}
						}
					}
					why = "the file name is computed at " + w.InstrPos(x)
				case *ssa.Call:
					if pkg, name := stdCallee(&x.Call); pkg == "flag" && name == "Arg" {
						roots++
						return
					}
					why = "the file name opened is the result of " + w.calleeName(&x.Call) + " (" + w.InstrPos(x) + "), not the argument as given: a well-formed file whose name the transformation changes cannot be opened, and the command reports an error instead of the answer"
				case *ssa.Const:
					// a fixed file name: nothing to hand on
				default:
					why = "the file name is computed at " + w.InstrPos(c)
				}
			}
			walk(fn, c.Call.Args[0], 0)
			if why == "" && roots == 0 {
				if _, isK := c.Call.Args[0].(*ssa.Const); !isK {
					why = "the file name does not come from the command line"
				}
			}
			r.Check(why == "", "R19.9", key, w.InstrPos(c), fmt.Sprintf("reaches flag.Args()/flag.Arg through parameters only (%d origin(s))", roots), why)
		}
	}
	if n == 0 {
		r.Unk("R19.9", "files opened", "-", "package main opens no file")
	}
}

// closureBindings: the values bound, where parent creates closure fn, to fn's free variable fv (the cells).
func closureBindings(parent, fn *ssa.Function, fv *ssa.FreeVar) *[]ssa.Value {
	var out []ssa.Value
	idx := -1
	for i, v := range fn.FreeVars {
		if v == fv {
			idx = i
		}
	}
	allInstrs(parent, func(ins ssa.Instruction) {
		mc, ok := ins.(*ssa.MakeClosure)
		if !ok || mc.Fn != ssa.Value(fn) || idx < 0 || idx >= len(mc.Bindings) {
			return
		}
		// the binding is the cell: hand back a load of it (what the closure will read)
		if al, isAl := mc.Bindings[idx].(*ssa.Alloc); isAl {
			for _, ref := range *al.Referrers() {
				if st, isSt := ref.(*ssa.Store); isSt && st.Addr == ssa.Value(al) {
					out = append(out, st.Val)
				}
			}
		}
	})
	return &out
}

// ---------- R19.10: every Sat result of an optimisation run gets its objective line ----------

func ruleR19_10(w *World, r *Report) {
	r.Rule("R19.10", "in the printers of optimisation results, the objective line `o <cost>` is written for every result whose status is Sat: the only condition on the way from the receipt of a result to the line is the test of its status (a cost of 0 is an objective value like any other)", 1)
	n := 0
	kf := map[*ssa.Function]int{}
	t := newTextCtx(w)
	for _, fn := range w.mainFns() {
		for _, em := range t.emissionsIn(fn) {
			isO := false
			for _, a := range em.Text {
				if strings.HasPrefix(a, "o ") {
					isO = true
				}
			}
			if !isO {
				continue
			}
			call, _ := em.Instr.(*ssa.Call)
			if call == nil {
				continue
			}
			n++
			kf[fn]++
			key := fmt.Sprintf("%s objective line #%d for every Sat result", w.FuncName(fn), kf[fn])
			// conditions between the loop that receives the results and the emission
			var header *ssa.BasicBlock
			for _, h := range loopHeaders(fn) {
				if loopBlocks(fn, h)[call.Block()] && (header == nil || loopBlocks(fn, header)[h]) {
					header = h
				}
			}
			var bad []string
			satSeen := false
			sat, _ := w.statusConst("Sat")
			for _, ec := range dominatingConds(call.Block()) {
				if header != nil && !loopBlocks(fn, header)[ec.If.Block()] {
					continue
				}
				if header != nil && ec.If.Block() == header {
					continue // the loop's own test (channel still open)
				}
				if bo, ok := ec.Cond.(*ssa.BinOp); ok && (bo.Op == token.EQL || bo.Op == token.NEQ) {
					if _, f, _, okF := loadedFieldOf(bo.X); okF && f == "Status" {
						if k, isK := constInt(bo.Y); isK && k == sat && (bo.Op == token.EQL) == ec.True {
							satSeen = true
							continue
						}
					}
				}
				bad = append(bad, "the line is written only behind the further condition at "+w.InstrPos(ec.If))
			}
			if !satSeen && header == nil {
				// the line is written by a helper (`printCost(res)`): the test may be at its call sites
				sites, okSites := 0, true
				for _, cf := range w.mainFns() {
					for _, cj := range callsIn(cf) {
						if !w.staticCalleeIs(cj, fn) {
							continue
						}
						sites++
						seen := false
						for _, ec := range dominatingConds(cj.Block()) {
							if bo, ok := ec.Cond.(*ssa.BinOp); ok && (bo.Op == token.EQL || bo.Op == token.NEQ) {
								if _, f, _, okF := loadedFieldOf(bo.X); okF && f == "Status" {
									if k, isK := constInt(bo.Y); isK && k == sat && (bo.Op == token.EQL) == ec.True {
										seen = true
									}
								}
							}
						}
						if !seen {
							okSites = false
						}
					}
				}
				if sites > 0 && okSites {
					satSeen = true
				}
			}
			if !satSeen {
				bad = append(bad, "the line is not behind the test `Status == Sat` of the result")
			}
			if len(bad) > 0 {
				r.Bad("R19.10", key, w.InstrPos(call), strings.Join(dedupe(bad), "; ")+": some satisfying results get no objective line, so the last `o` line is not the cost of the model printed (or there is none)")
			} else {
				r.OK("R19.10", key, w.InstrPos(call), "behind Status == Sat only")
			}
		}
	}
	if n == 0 {
		r.Unk("R19.10", "objective lines", "-", "package main writes no line starting with `o `")
	}
}

// ---------- R19.11: a streaming producer is started concurrently with its consumer ----------

func ruleR19_11(w *World, r *Report) {
	r.Rule("R19.11", "package main runs a streaming method of solver.Interface (Optimal, Enumerate) on a non-nil result channel only with `go`: called synchronously the producer blocks on a send (at once, or when the buffer is full) before the consumer that would receive has started", 2)
	impls, _ := w.implementations("solver", "Interface")
	streaming := map[*ssa.Function]bool{}
	names := map[string]bool{}
	for _, im := range impls {
		if resultChanParam(im.Method) != nil {
			streaming[im.Method] = true
			names[im.Name] = true
		}
	}
	n := 0
	for _, fn := range w.mainFns() {
		k := 0
		for _, ci := range callsIn(fn) {
			cc := ci.Common()
			isStream := false
			if cc.IsInvoke() {
				isStream = names[cc.Method.Name()] && typeShort(cc.Value.Type()) == "solver.Interface"
			} else if sc := cc.StaticCallee(); sc != nil {
				isStream = streaming[w.unwrap(sc)]
			} else if p, isP := cc.Value.(*ssa.Parameter); isP {
				// a method value handed to a starter (`startOptimal(s.Optimal)`)
				pi := paramIndex(fn, p)
				for _, cf := range w.mainFns() {
					for _, cj := range callsIn(cf) {
						if w.staticCalleeIs(cj, fn) && pi >= 0 && pi < len(cj.Common().Args) {
							if fv := funcValueOf(w, cj.Common().Args[pi]); fv != nil && streaming[fv] {
								isStream = true
							}
						}
					}
				}
			}
			if !isStream {
				continue
			}
			// the result channel argument
			var ch ssa.Value
			for _, a := range cc.Args {
				if ct, ok := a.Type().Underlying().(*types.Chan); ok {
					if st, isSt := ct.Elem().Underlying().(*types.Struct); isSt && st.NumFields() == 0 {
						continue
					}
					ch = a
				}
			}
			if ch == nil || isNilConst(ch) {
				continue
			}
			n++
			k++
			key := fmt.Sprintf("%s streaming call #%d runs concurrently", w.FuncName(fn), k)
			_, isGo := ci.(*ssa.Go)
			r.Check(isGo, "R19.11", key, w.InstrPos(ci), "started with go", "the producer is called synchronously on a result channel: nothing receives while it runs, so it blocks for ever on a send (with an unbuffered channel at the first result, with a buffered one when the buffer is full) and the command prints no answer")
		}
	}
	if n == 0 {
		r.Unk("R19.11", "streaming calls", "-", "package main starts no streaming method of solver.Interface on a channel")
	}
}

// ---------- R9.12: degree bookkeeping when repeated variables of a new constraint are merged ----------

func ruleR9_12(w *World, r *Report) {
	r.Rule("R9.12", "in the function that merges the repeated variables of a constraint handed to AppendClause, the degree is lowered (a) by the weight of an occurrence only where that occurrence is known to be the opposite of the literal kept (`Get(j) == lit.Negation()`), and (b) by the net weight where the net weight is negative (the opposite literal weighs more); both updates exist and there is no other", 1)
	fn := w.Func("solver", "Solver.AppendClause")
	if fn == nil || len(fn.Params) < 2 {
		r.Unk("R9.12", "solver.(*Solver).AppendClause", "-", "method not found")
		return
	}
	cardFn := w.Func("solver", "Clause.Cardinality")
	// the merging function: a callee of AppendClause that is handed the constraint, returns a constraint, and reads
	// Cardinality() of its parameter
	var g *ssa.Function
	var cardCall *ssa.Call
	for _, ci := range callsIn(fn) {
		c, ok := ci.(*ssa.Call)
		h := ci.Common().StaticCallee()
		if !ok || h == nil || w.PkgName(h) != "solver" || len(h.Blocks) == 0 || typeShort(c.Type()) != "*solver.Clause" {
			continue
		}
		passes := false
		for _, a := range c.Call.Args {
			if a == ssa.Value(fn.Params[1]) {
				passes = true
			}
		}
		if !passes {
			continue
		}
		for _, cj := range callsIn(h) {
			if cc, isC := cj.(*ssa.Call); isC && cardFn != nil && w.staticCalleeIs(cc, cardFn) && !inLoop(h, cc.Block()) {
				g, cardCall = h, cc
			}
		}
	}
	key := "degree of the merged constraint"
	if g == nil {
		// the merge may be written inside AppendClause: nothing to say structurally
		r.Unk("R9.12", key, w.Pos(fn.Pos()), "no callee of AppendClause takes the new constraint, returns a constraint and reads its degree")
		return
	}
	key = w.FuncName(g) + " " + key
	// the values the local degree goes through
	chain := map[ssa.Value]bool{cardCall: true}
	for changed := true; changed; {
		changed = false
		allInstrs(g, func(ins ssa.Instruction) {
			switch x := ins.(type) {
			case *ssa.Phi:
				if chain[x] {
					return
				}
				for _, e := range x.Edges {
					if chain[e] {
						chain[x] = true
						changed = true
					}
				}
			case *ssa.BinOp:
				if !chain[x] && x.Op == token.SUB && chain[x.X] {
					chain[x] = true
					changed = true
				}
			}
		})
	}
	var bad []string
	formA, formB := 0, 0
	allInstrs(g, func(ins ssa.Instruction) {
		sub, ok := ins.(*ssa.BinOp)
		if !ok || sub.Op != token.SUB || !chain[sub.X] {
			return
		}
		conds := dominatingConds(sub.Block())
		if wc, isCall := sub.Y.(*ssa.Call); isCall && strings.HasSuffix(w.calleeName(&wc.Call), ").Weight") && len(wc.Call.Args) == 2 {
			// (a) the weight of occurrence j: under Get(j) == <kept literal>.Negation()
			j := wc.Call.Args[1]
			okA := false
			for _, ec := range conds {
				bo, isB := ec.Cond.(*ssa.BinOp)
				if !isB || bo.Op != token.EQL || !ec.True {
					continue
				}
				for _, pair := range [][2]ssa.Value{{bo.X, bo.Y}, {bo.Y, bo.X}} {
					_, idx, isElem := clauseElem(w, pair[0])
					neg, isNeg := pair[1].(*ssa.Call)
					if isElem && idx == j && isNeg && w.calleeName(&neg.Call) == "(solver.Lit).Negation" {
						okA = true
					}
				}
			}
			if okA {
				formA++
			} else {
				bad = append(bad, "the degree is lowered by the weight of an occurrence (at "+w.InstrPos(sub)+") that is not known to be the opposite of the literal kept: a literal that is merely repeated lowers the degree too, and the merged constraint is weaker than the one handed in (a clause `x y x` is dropped as always true)")
			}
			return
		}
		// (a'), helper form: `card -= weightFrom(clause, lit.Negation(), i+1)`: a function that adds up the weights of
		// the occurrences equal to the literal it is handed, handed the opposite literal
		if hc, isCall := sub.Y.(*ssa.Call); isCall {
			if hf := hc.Call.StaticCallee(); hf != nil && w.PkgName(hf) == "solver" && len(hf.Blocks) > 0 {
				pi := -1
				for i, a := range hc.Call.Args {
					if nc, isN := a.(*ssa.Call); isN && w.calleeName(&nc.Call) == "(solver.Lit).Negation" {
						pi = i
					}
				}
				if pi >= 0 && pi < len(hf.Params) {
					adds, okAdds := 0, true
					allInstrs(hf, func(i2 ssa.Instruction) {
						add, isAdd := i2.(*ssa.BinOp)
						if !isAdd || add.Op != token.ADD {
							return
						}
						wc, isW := add.Y.(*ssa.Call)
						if !isW || !strings.HasSuffix(w.calleeName(&wc.Call), ").Weight") || len(wc.Call.Args) != 2 {
							return
						}
						adds++
						j := wc.Call.Args[1]
						okOne := false
						for _, ec := range dominatingConds(add.Block()) {
							bo, isB := ec.Cond.(*ssa.BinOp)
							if !isB || bo.Op != token.EQL || !ec.True {
								continue
							}
							for _, pair := range [][2]ssa.Value{{bo.X, bo.Y}, {bo.Y, bo.X}} {
								_, idx, isElem := clauseElem(w, pair[0])
								if isElem && idx == j && pair[1] == ssa.Value(hf.Params[pi]) {
									okOne = true
								}
							}
						}
						if !okOne {
							okAdds = false
						}
					})
					if adds > 0 && okAdds {
						formA++
						return
					}
				}
			}
		}
		// (b) the net weight, where it is negative
		okB := false
		for _, ec := range conds {
			bo, isB := ec.Cond.(*ssa.BinOp)
			if !isB || !ec.True {
				continue
			}
			if k, isK := constInt(bo.Y); isK && k == 0 && bo.Op == token.LSS && bo.X == sub.Y {
				okB = true
			}
		}
		if okB {
			formB++
		} else {
			bad = append(bad, "unexpected update of the degree at "+w.InstrPos(sub))
		}
	})
	if formA == 0 {
		bad = append(bad, "the degree is never lowered by the weight that a literal and its opposite have in common")
	}
	if formB == 0 {
		bad = append(bad, "where the opposite literal weighs more (negative net weight) the degree is not corrected by the net weight: the whole weight of the opposite literal has been taken off instead of the common part, and the merged constraint is weaker than the one handed in")
	}
	if len(bad) > 0 {
		r.Bad("R9.12", key, w.InstrPos(cardCall), strings.Join(dedupe(bad), "; "))
	} else {
		r.OK("R9.12", key, w.InstrPos(cardCall), fmt.Sprintf("%d update(s) by a common weight under the opposite-literal test, %d by a negative net weight", formA, formB))
	}
}

// ---------- R9.11 / R9.13 / R9.14: what AppendClause does with the constraint after the scan ----------

// appendDispatch finds, in AppendClause, the degree call, the lower and upper bounds compared with it, and the two
// calls that take the constraint in: the one that is handed its literals (all of them are forced) and the one that is
// handed the constraint itself (it is added to the database).
type appendDispatch struct {
	fn          *ssa.Function
	card        ssa.Value
	lower, uppr ssa.Value
	forceCall   *ssa.Call
	forceFn     *ssa.Function
	addCall     *ssa.Call
	addStore    *ssa.Store // the storing step written out in AppendClause itself
}

func findAppendDispatch(w *World) *appendDispatch {
	fn := w.Func("solver", "Solver.AppendClause")
	if fn == nil {
		return nil
	}
	d := &appendDispatch{fn: fn}
	allInstrs(fn, func(ins ssa.Instruction) {
		bo, ok := ins.(*ssa.BinOp)
		if !ok {
			return
		}
		used := false
		for _, rr := range *bo.Referrers() {
			if _, ok := rr.(*ssa.If); ok {
				used = true
			}
		}
		cc, isCall := bo.Y.(*ssa.Call)
		if !used || !isCall || !strings.HasSuffix(w.calleeName(&cc.Call), ").Cardinality") {
			return
		}
		switch bo.Op {
		case token.GEQ:
			d.lower, d.card = bo.X, bo.Y
		case token.LSS:
			d.uppr, d.card = bo.X, bo.Y
		}
	})
	for _, ci := range callsIn(fn) {
		c, ok := ci.(*ssa.Call)
		h := ci.Common().StaticCallee()
		if !ok || h == nil || w.PkgName(h) != "solver" || h.Signature.Recv() == nil || inLoop(fn, c.Block()) {
			continue
		}
		for _, a := range c.Call.Args[1:] {
			if _, isLits := isFieldLoad(a, "solver.Clause", "lits"); isLits && typeShort(a.Type()) == "[]solver.Lit" && h.Signature.Results().Len() == 0 {
				d.forceCall, d.forceFn = c, h
			}
			if typeShort(a.Type()) == "*solver.Clause" && h.Signature.Results().Len() == 0 && len(c.Call.Args) == 2 && w.effects().WritesAny(h, "solver.watcherList.origClauses") {
				d.addCall = c
			}
		}
	}
	for _, gs := range growthSites(fn) {
		if gs.Field == "solver.watcherList.origClauses" && !inLoop(fn, gs.Store.Block()) {
			d.addStore = gs.Store
		}
	}
	return d
}

func ruleR9_11(w *World, r *Report) {
	r.Rule("R9.11", "Solver.AppendClause forces all the remaining literals of the new constraint (hands its literal list to the unit binder) only under the outcome `upper bound == degree` of the scan: only then does the constraint need every one of them", 1)
	d := findAppendDispatch(w)
	key := "(*solver.Solver).AppendClause forces the literals only when all are needed"
	if d == nil || d.forceCall == nil || d.uppr == nil || d.card == nil {
		r.Unk("R9.11", key, "-", "the upper bound, the degree or the call that forces the literals was not found in AppendClause")
		return
	}
	want := lfAdd(lfOf(d.uppr, 0), lfOf(d.card, 0), -1)
	ok := false
	for _, ec := range dominatingConds(d.forceCall.Block()) {
		bo, isB := ec.Cond.(*ssa.BinOp)
		if !isB {
			continue
		}
		diff := lfAdd(lfOf(bo.X, 0), lfOf(bo.Y, 0), -1)
		neg := lfScale(diff, -1)
		switch {
		case diff.equal(want) && ((bo.Op == token.EQL && ec.True) || (bo.Op == token.NEQ && !ec.True) || (bo.Op == token.LEQ && ec.True) || (bo.Op == token.GTR && !ec.True)):
			ok = true
		case neg.equal(want) && ((bo.Op == token.EQL && ec.True) || (bo.Op == token.NEQ && !ec.True) || (bo.Op == token.GEQ && ec.True) || (bo.Op == token.LSS && !ec.True)):
			ok = true
		}
	}
	r.Check(ok, "R9.11", key, w.InstrPos(d.forceCall), "under upper bound == degree",
		"the literals of the new constraint are all forced true under a test other than `the weight that can still be obtained equals the degree`: a constraint that can spare a literal is treated as if it could not, literals are bound that the constraint does not imply, and a satisfiable problem (or a better optimum) is lost")
}

func ruleR9_13(w *World, r *Report) {
	r.Rule("R9.13", "the function that binds the literals of a forced constraint binds every one of them: its loop over the list is left early only on a path that has recorded Unsat", 1)
	d := findAppendDispatch(w)
	if d == nil || d.forceFn == nil {
		r.Unk("R9.13", "unit binder", "-", "the function AppendClause hands the literals of a forced constraint to was not found")
		return
	}
	g := d.forceFn
	key := w.FuncName(g) + " binds every literal of the list"
	unsat, _ := w.statusConst("Unsat")
	var outer *ssa.BasicBlock
	for _, h := range loopHeaders(g) {
		if outer == nil || len(loopBlocks(g, h)) > len(loopBlocks(g, outer)) {
			outer = h
		}
	}
	if outer == nil {
		r.Unk("R9.13", key, w.Pos(g.Pos()), "no loop found")
		return
	}
	body := loopBlocks(g, outer)
	storesUnsat := func(b *ssa.BasicBlock) bool {
		for _, ins := range b.Instrs {
			if st, ok := ins.(*ssa.Store); ok && qualField(st.Addr) == "solver.Solver.status" {
				if v, ok := constInt(st.Val); ok && v == unsat {
					return true
				}
			}
		}
		return false
	}
	var bad []string
	for b := range body {
		if b == outer {
			continue
		}
		for _, sc := range b.Succs {
			if body[sc] {
				continue
			}
			// the exit: justified when Unsat is stored in the leaving block, in the block left for, or in a block of
			// the body that dominates the leaving block
			ok := storesUnsat(b) || storesUnsat(sc)
			for bb := range body {
				if bb != outer && bb.Dominates(b) && storesUnsat(bb) {
					ok = true
				}
			}
			if !ok {
				bad = append(bad, w.InstrPos(b.Instrs[len(b.Instrs)-1]))
			}
		}
	}
	if len(bad) > 0 {
		r.Bad("R9.13", key, w.InstrPos(outer.Instrs[len(outer.Instrs)-1]), "the loop over the literals to bind is left at "+strings.Join(sortedStrings(dedupe(bad)), ", ")+" without Unsat having been recorded: the literals behind that position are never bound although the constraint forces them, and the constraint itself is not kept")
	} else {
		r.OK("R9.13", key, w.InstrPos(outer.Instrs[len(outer.Instrs)-1]), "early exits only after recording Unsat")
	}
}

func ruleR9_14(w *World, r *Report) {
	r.Rule("R9.14", "Solver.AppendClause returns without taking the constraint in (neither added, nor its literals forced, nor Unsat recorded) only where the constraint is known to hold already: the merge of repeated variables answered nil, or the weight already obtained reaches the degree", 1)
	d := findAppendDispatch(w)
	key := "(*solver.Solver).AppendClause drops a constraint only when it already holds"
	if d == nil || d.forceCall == nil || (d.addCall == nil && d.addStore == nil) || d.lower == nil {
		r.Unk("R9.14", key, "-", "the dispatch of AppendClause (lower bound test, add call, force call) was not found")
		return
	}
	fn := d.fn
	unsat, _ := w.statusConst("Unsat")
	var bad []string
	nret := 0
	// the two outcomes that justify dropping: `merge answered nil` and `lower bound >= degree`
	var lowerCmp *ssa.BinOp
	var merged ssa.Value
	allInstrs(fn, func(ins ssa.Instruction) {
		bo, ok := ins.(*ssa.BinOp)
		if !ok {
			return
		}
		if bo.X == d.lower && bo.Y == d.card && (bo.Op == token.GEQ || bo.Op == token.LSS) {
			lowerCmp = bo
		}
		if (bo.Op == token.EQL || bo.Op == token.NEQ) && isNilConst(bo.Y) && typeShort(bo.X.Type()) == "*solver.Clause" {
			merged = bo.X
		}
	})
	pairs, trunc := explore(fn.Blocks[0], &pstate{phi: map[*ssa.Phi]ssa.Value{}, facts: map[string]string{}}, nil, func(ins ssa.Instruction, st *pstate) {
		switch x := ins.(type) {
		case *ssa.Call:
			if x == d.forceCall || x == d.addCall {
				st.facts["taken"] = "yes"
			}
		case *ssa.Store:
			if x == d.addStore {
				st.facts["taken"] = "yes"
			}
			if qualField(x.Addr) == "solver.Solver.status" {
				if v, ok := constInt(x.Val); ok && v == unsat {
					st.facts["taken"] = "yes"
				}
			}
		case *ssa.Return:
			if x.Block() == fn.Recover {
				return
			}
			nret++
			if st.facts["taken"] == "yes" {
				return
			}
			// justified by an outcome on the path ...
			ok := false
			if merged != nil && st.nilness(merged) == 1 {
				ok = true
			}
			if lowerCmp != nil {
				f := st.facts["cond:"+st.vkey(lowerCmp)]
				if (lowerCmp.Op == token.GEQ && f == "=true") || (lowerCmp.Op == token.LSS && f == "=false") {
					ok = true
				}
			}
			// ... or by a dominating one
			for _, ec := range dominatingConds(x.Block()) {
				bo, isB := ec.Cond.(*ssa.BinOp)
				if !isB {
					continue
				}
				// merged == nil
				if bo.Op == token.EQL && ec.True && isNilConst(bo.Y) && typeShort(bo.X.Type()) == "*solver.Clause" {
					ok = true
				}
				if bo.Op == token.NEQ && !ec.True && isNilConst(bo.Y) && typeShort(bo.X.Type()) == "*solver.Clause" {
					ok = true
				}
				// lower bound >= degree
				if bo.X == d.lower && bo.Y == d.card && ((bo.Op == token.GEQ && ec.True) || (bo.Op == token.LSS && !ec.True)) {
					ok = true
				}
			}
			if !ok {
				bad = append(bad, w.InstrPos(x))
			}
		}
	})
	_ = pairs
	if trunc {
		r.Unk("R9.14", key, w.Pos(fn.Pos()), "state space too large")
		return
	}
	if len(bad) > 0 {
		r.Bad("R9.14", key, w.Pos(fn.Pos()), "a return (at "+strings.Join(sortedStrings(dedupe(bad)), ", ")+") drops the constraint on a path where it is not known to hold: a constraint that no assignment satisfies (no literal left, positive degree) is ignored instead of making the solver Unsat")
	} else {
		r.OK("R9.14", key, w.Pos(fn.Pos()), fmt.Sprintf("%d return state(s): each after the constraint was taken in, or under `merge answered nil` / `lower bound >= degree`", nret))
	}
}
