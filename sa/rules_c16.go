package main

import (
	"fmt"
	"go/types"
	"sort"
	"strings"

	"golang.org/x/tools/go/ssa"
)

func init() {
	register(&property{
		ID: "C16",
		Explanation: "(a) the library packages have no package-level mutable state: no function of solver/maxsat/explain/bf outside package initialisers stores to a package-level variable, mutates storage reachable from one, or hands such storage to a caller, and no library file imports unsafe or reflect - so two uses that share no data share no memory location, under every interleaving; " +
			"(b) every goroutine the library starts with verbose output off hands its results over through a join (complete drain of a channel it closes last, or a receive of its final send) before the spawner touches anything the goroutine may write.",
		NotDecided: "agreement of concurrent and sequential results (follows from (a) only under the assumption that the standard library is race free); nothing is executed.",
		Rules:      []ruleFn{ruleR16_1, ruleR16_2, ruleR16_3, ruleR20_1_2, ruleR20_3, ruleR19_7},
		Fixtures:   []func(*World) []string{fixtureR16_1, fixtureR16_2},
	})
}

var libPkgs = []string{"bf", "explain", "maxsat", "solver"}

// globalsOf lists the package-level variables of a package in name order.
func globalsOf(sp *ssa.Package) []*ssa.Global {
	var gs []*ssa.Global
	for _, m := range sp.Members {
		if g, ok := m.(*ssa.Global); ok && !strings.HasPrefix(g.Name(), "init$") {
			gs = append(gs, g)
		}
	}
	sort.Slice(gs, func(i, j int) bool { return gs[i].Name() < gs[j].Name() })
	return gs
}

// inertGlobals classifies interface-typed globals whose initialiser stores a value without references
// (an empty struct such as bf.True) and globals of type error (immutable by convention): loading them does
// not yield a reference into shared mutable storage.
func inertGlobals(sp *ssa.Package) map[*ssa.Global]string {
	out := map[*ssa.Global]string{}
	initFn := sp.Func("init")
	stores := map[*ssa.Global][]ssa.Value{}
	if initFn != nil {
		for _, b := range initFn.Blocks {
			for _, ins := range b.Instrs {
				if st, ok := ins.(*ssa.Store); ok {
					if g, ok := st.Addr.(*ssa.Global); ok {
						stores[g] = append(stores[g], st.Val)
					}
				}
			}
		}
	}
	errT := types.Universe.Lookup("error").Type()
	for _, g := range globalsOf(sp) {
		et := g.Type().(*types.Pointer).Elem()
		if !refBearing(et) {
			out[g] = "holds no reference"
			continue
		}
		if types.Identical(et, errT) {
			out[g] = "error value, immutable by convention"
			continue
		}
		if _, isIface := et.Underlying().(*types.Interface); isIface && len(stores[g]) > 0 {
			inert := true
			for _, v := range stores[g] {
				mi, ok := v.(*ssa.MakeInterface)
				if !ok || refBearing(mi.X.Type()) {
					inert = false
				}
			}
			if inert {
				out[g] = "interface holding a reference-free value"
			}
		}
	}
	return out
}

func runGlobalsE4(w *World, pkgs []string) *e4 {
	prot := map[*ssa.Global]bool{}
	inert := map[*ssa.Global]string{}
	for _, n := range pkgs {
		sp := w.SSA[n]
		if sp == nil {
			continue
		}
		for _, g := range globalsOf(sp) {
			prot[g] = true
		}
		for g, why := range inertGlobals(sp) {
			inert[g] = why
		}
	}
	a := &e4{w: w, protGlobal: func(g *ssa.Global) bool { return prot[g] }, inertGlobal: inert, appendIsSink: true, protParam: map[*ssa.Parameter]bool{}}
	a.run(w.Fns)
	return a
}

// R16.1: no package-level mutable state in the library.
func ruleR16_1(w *World, r *Report) {
	r.Rule("R16.1", "no library function outside package initialisers writes a package-level variable or storage reachable from one, or returns such storage from an exported function", 4)
	a := runGlobalsE4(w, libPkgs)
	sinksByGlobal := map[string][]string{}
	var orphan []string
	attribute := func(k string, chain string) {
		i := strings.Index(chain, "G:")
		if i < 0 {
			orphan = append(orphan, k)
			return
		}
		_ = orphan
		name := chain[i+2:]
		if j := strings.IndexAny(name, ".[)*#"); j >= 0 {
			name = name[:j]
		}
		sinksByGlobal[name] = append(sinksByGlobal[name], k)
	}
	for _, k := range a.sortedSinks() {
		s := a.sinks[k]
		if w.PkgName(s.Fn) == "main" || w.PkgName(s.Fn) == "" {
			continue
		}
		r.Bad("R16.1", "sink "+k, w.InstrPos(s.Instr), "writes storage shared by every user of the package ("+s.Kind+" through "+s.Chain+")")
		attribute(k, s.Chain)
	}
	for _, k := range a.sortedLeaks() {
		s := a.leaks[k]
		if w.PkgName(s.Fn) == "main" {
			continue
		}
		r.Bad("R16.1", "leak "+k, w.InstrPos(s.Instr), "exported function hands out a reference into package-level storage ("+s.Chain+")")
	}
	for _, n := range libPkgs {
		sp := w.SSA[n]
		nf := 0
		for _, f := range w.Fns {
			if w.PkgName(f) == n {
				nf++
			}
		}
		for _, g := range globalsOf(sp) {
			key := "global " + n + "." + g.Name()
			ss := sinksByGlobal[g.Name()]
			if a.inertGlobal[g] == "" {
				// a sink reached through parameters/locals cannot be attributed syntactically: it concerns every
				// mutable package-level variable
				ss = append(ss, orphan...)
			}
			if len(ss) > 0 {
				r.Bad("R16.1", key, w.Pos(g.Pos()), fmt.Sprintf("%d write(s) reach this variable: %s", len(ss), strings.Join(ss, " ;; ")))
			} else {
				why := a.inertGlobal[g]
				if why == "" {
					why = "mutable type, but nothing writes it or its content"
				}
				r.OK("R16.1", key, w.Pos(g.Pos()), why)
			}
		}
		r.OK("R16.1", "package "+n, "-", fmt.Sprintf("%d functions scanned (fixpoint after %d rounds)", nf, a.Iter))
	}
}

// R16.3: trusted-base check - no unsafe / reflect / cgo / linkname in the module.
func ruleR16_3(w *World, r *Report) {
	r.Rule("R16.3", "no file of the module imports unsafe, reflect, C or sync/atomic-free shared-memory escapes, and none uses go:linkname", 5)
	for _, p := range w.Pkgs {
		bad := ""
		for _, f := range p.Syntax {
			for _, imp := range f.Imports {
				path := strings.Trim(imp.Path.Value, `"`)
				if path == "unsafe" || path == "reflect" || path == "C" {
					bad += fmt.Sprintf(" %s imports %s;", w.Pos(imp.Pos()), path)
				}
			}
			for _, cg := range f.Comments {
				for _, c := range cg.List {
					if strings.HasPrefix(c.Text, "//go:linkname") {
						bad += fmt.Sprintf(" %s uses go:linkname;", w.Pos(c.Pos()))
					}
				}
			}
		}
		if bad != "" {
			r.Bad("R16.3", "package "+p.Name, "-", "outside the trusted base of the storage analysis:"+bad)
		} else {
			r.OK("R16.3", "package "+p.Name, "-", fmt.Sprintf("%d files", len(p.Syntax)))
		}
	}
}

func fixtureR16_1(fw *World) []string {
	var fails []string
	a := runGlobalsE4(fw, []string{"globals"})
	want := []string{"globals.BadAppend", "globals.BadElem", "globals.helper", "badSorter).Swap", "globals.BadMap", "globals.BadAssign"}
	silent := []string{"globals.GoodLocal", "globals.GoodReadOnly", "globals.GoodConst", "globals.GoodCopyOut", "globals.GoodIface"}
	hit := func(name string) bool {
		for k := range a.sinks {
			if strings.Contains(k, name) {
				return true
			}
		}
		for k := range a.leaks {
			if strings.Contains(k, name) {
				return true
			}
		}
		return false
	}
	for _, n := range want {
		if !hit(n) {
			fails = append(fails, "R16.1 fixture: expected a sink in "+n)
		}
	}
	if !hit("globals.BadLeak") {
		fails = append(fails, "R16.1 fixture: expected a leak in globals.BadLeak")
	}
	for _, n := range silent {
		if hit(n) {
			fails = append(fails, "R16.1 fixture: unexpected sink in "+n)
		}
	}
	return fails
}
