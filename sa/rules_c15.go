package main

import (
	"fmt"
	"go/token"
	"go/types"
	"sort"
	"strings"

	"golang.org/x/tools/go/ssa"
)

func init() {
	register(&property{
		ID: "C15",
		Explanation: "removal soundness of the at-most-one detection: (a) a binary clause is queued for removal only where the cardinality constraint that subsumes it is added (the two are control equivalent); " +
			"(b) the function that rebuilds Clauses copies every clause that is not removed (its copy loop is left by exhaustion only); (c) the added constraint has degree len-1 and satisfies the constructor's precondition.",
		NotDecided: "the clique search itself (which literals are grouped, in which polarity, that the queued indexes are those of the subsumed clauses); nothing is executed.",
		Rules:      []ruleFn{ruleR15, ruleR15_4, ruleR15_5, ruleR15_6, ruleR15_7, ruleR15_8},
		Fixtures:   []func(*World) []string{fixtureR15},
	})
}

// ---------- helpers ----------

// postDominators computes, for every block, the set of blocks that lie on every path from it to a function exit.
func postDominators(fn *ssa.Function) map[*ssa.BasicBlock]map[*ssa.BasicBlock]bool {
	all := map[*ssa.BasicBlock]bool{}
	for _, b := range fn.Blocks {
		all[b] = true
	}
	pd := map[*ssa.BasicBlock]map[*ssa.BasicBlock]bool{}
	for _, b := range fn.Blocks {
		if len(b.Succs) == 0 {
			pd[b] = map[*ssa.BasicBlock]bool{b: true}
		} else {
			m := map[*ssa.BasicBlock]bool{}
			for x := range all {
				m[x] = true
			}
			pd[b] = m
		}
	}
	for changed := true; changed; {
		changed = false
		for i := len(fn.Blocks) - 1; i >= 0; i-- {
			b := fn.Blocks[i]
			if len(b.Succs) == 0 {
				continue
			}
			n := map[*ssa.BasicBlock]bool{}
			first := true
			for _, s := range b.Succs {
				if first {
					for x := range pd[s] {
						n[x] = true
					}
					first = false
				} else {
					for x := range n {
						if !pd[s][x] {
							delete(n, x)
						}
					}
				}
			}
			n[b] = true
			if len(n) != len(pd[b]) {
				pd[b] = n
				changed = true
			}
		}
	}
	return pd
}

// enclosingLoops lists the headers of the loops that contain b.
func enclosingLoops(fn *ssa.Function, b *ssa.BasicBlock) map[*ssa.BasicBlock]bool {
	out := map[*ssa.BasicBlock]bool{}
	for _, h := range loopHeaders(fn) {
		if loopBlocks(fn, h)[b] {
			out[h] = true
		}
	}
	return out
}

func sameBlockSet(a, b map[*ssa.BasicBlock]bool) bool {
	if len(a) != len(b) {
		return false
	}
	for x := range a {
		if !b[x] {
			return false
		}
	}
	return true
}

// controlEquivalent: a executes exactly when b does (per trip of every enclosing loop).
func controlEquivalent(fn *ssa.Function, a, b *ssa.BasicBlock, pd map[*ssa.BasicBlock]map[*ssa.BasicBlock]bool) (bool, string) {
	if a == b {
		return true, "same block"
	}
	if !sameBlockSet(enclosingLoops(fn, a), enclosingLoops(fn, b)) {
		return false, "they are not in the same loops"
	}
	if a.Dominates(b) && pd[a][b] {
		return true, "the first dominates the second, which post-dominates it"
	}
	if b.Dominates(a) && pd[b][a] {
		return true, "the second dominates the first, which post-dominates it"
	}
	return false, "one can execute without the other"
}

func isAppend(ins ssa.Instruction) (*ssa.Call, bool) {
	c, ok := ins.(*ssa.Call)
	if !ok {
		return nil, false
	}
	b, ok := c.Call.Value.(*ssa.Builtin)
	if !ok || b.Name() != "append" || len(c.Call.Args) < 1 {
		return nil, false
	}
	return c, true
}

// sliceWeb walks back from a slice value through phis, appends (first argument) and re-slicings: the set of values
// that are versions of the same growing list, and the appends that grow it.
func sliceWeb(v ssa.Value) (web map[ssa.Value]bool, appends []*ssa.Call) {
	web = map[ssa.Value]bool{}
	var visit func(v ssa.Value)
	visit = func(v ssa.Value) {
		if v == nil || web[v] {
			return
		}
		web[v] = true
		switch y := v.(type) {
		case *ssa.Phi:
			for _, e := range y.Edges {
				visit(e)
			}
		case *ssa.Slice:
			visit(y.X)
		case *ssa.ChangeType:
			visit(y.X)
		case *ssa.Call:
			if c, ok := isAppend(y); ok {
				appends = append(appends, c)
				visit(c.Call.Args[0])
			}
		}
	}
	visit(v)
	sort.Slice(appends, func(i, j int) bool {
		if appends[i].Block().Index != appends[j].Block().Index {
			return appends[i].Block().Index < appends[j].Block().Index
		}
		return indexOfInstr(appends[i].Block(), appends[i]) < indexOfInstr(appends[j].Block(), appends[j])
	})
	return web, appends
}

// flowsToFieldStore: the value ends up (directly, or as a variadic element of an append) in a store to the field.
func flowsToFieldStore(v ssa.Value, field string, depth int) bool {
	if depth > 6 || v == nil {
		return false
	}
	refs := v.Referrers()
	if refs == nil {
		return false
	}
	for _, r := range *refs {
		switch y := r.(type) {
		case *ssa.Store:
			if y.Val == v {
				if _, f, _, ok := fieldOf(y.Addr); ok && f == field {
					return true
				}
				// element of a varargs array: follow the array
				if ia, ok := y.Addr.(*ssa.IndexAddr); ok {
					if flowsToFieldStore(ia.X, field, depth+1) {
						return true
					}
				}
			}
		case *ssa.Slice:
			if flowsToFieldStore(y, field, depth+1) {
				return true
			}
		case *ssa.Phi:
			if flowsToFieldStore(y, field, depth+1) {
				return true
			}
		case *ssa.Call:
			if c, ok := isAppend(y); ok && flowsToFieldStore(c, field, depth+1) {
				return true
			}
		}
	}
	return false
}

// isIntSlice: a slice of plain integers (indexes), not of a named integer type such as a literal.
func isIntSlice(t types.Type) bool {
	s, ok := t.Underlying().(*types.Slice)
	if !ok {
		return false
	}
	b, ok := s.Elem().(*types.Basic)
	return ok && b.Info()&types.IsInteger != 0
}

// amoAnchors resolves the detection function, the call that hands the removal list to the function rebuilding
// Clauses, and the constructor calls whose result is added to Clauses.
type amoAnchors struct {
	Detect   *ssa.Function
	Rebuild  *ssa.Function
	Call     *ssa.Call
	List     ssa.Value
	Adds     []*ssa.Call // constructor calls committed to Clauses
	AllCtors []*ssa.Call
}

func findAMOAnchors(w *World, eff *Effects, detect *ssa.Function, clausesField string, isCtor func(*ssa.Function) bool) (amoAnchors, string) {
	a := amoAnchors{Detect: detect}
	type cand struct {
		call *ssa.Call
		arg  ssa.Value
		fn   *ssa.Function
	}
	var cands []cand
	for _, ci := range callsIn(detect) {
		call, ok := ci.(*ssa.Call)
		if !ok {
			continue
		}
		callee := call.Call.StaticCallee()
		if callee == nil {
			continue
		}
		callee = w.unwrap(callee)
		if !w.InModule(callee) {
			continue
		}
		writes := false
		for f := range eff.trans[callee] {
			if strings.HasSuffix(f, "."+clausesField) {
				writes = true
			}
		}
		if !writes && typeShort(call.Type()) == "[]*solver.Clause" && flowsToFieldStore(call, clausesField, 0) {
			writes = true // `pb.Clauses = withoutBinaries(pb.Clauses, toRemove)`: the rebuilt list is stored by the caller
		}
		if !writes {
			continue
		}
		reachesCtor := false
		for g := range w.Reachable(callee) {
			for _, c2 := range callsIn(g) {
				if t := c2.Common().StaticCallee(); t != nil && isCtor(w.unwrap(t)) {
					reachesCtor = true
				}
			}
		}
		if reachesCtor {
			continue // it adds constraints: not the function that removes clauses
		}
		for _, arg := range call.Call.Args {
			if isIntSlice(arg.Type()) {
				cands = append(cands, cand{call, arg, callee})
			}
		}
	}
	if len(cands) != 1 {
		return a, fmt.Sprintf("%d calls hand a list of indexes to a function that rewrites %s (expected exactly one)", len(cands), clausesField)
	}
	a.Call, a.List, a.Rebuild = cands[0].call, cands[0].arg, cands[0].fn
	for _, ci := range callsIn(detect) {
		call, ok := ci.(*ssa.Call)
		if !ok {
			continue
		}
		callee := call.Call.StaticCallee()
		if callee == nil || !isCtor(w.unwrap(callee)) {
			continue
		}
		a.AllCtors = append(a.AllCtors, call)
		if flowsToFieldStore(call, clausesField, 0) {
			a.Adds = append(a.Adds, call)
		}
	}
	// the constraint may be added through a helper: a call (other than the rebuild) of a module function that
	// reaches the constructor and writes Clauses
	for _, ci := range callsIn(detect) {
		call, ok := ci.(*ssa.Call)
		if !ok || call == a.Call {
			continue
		}
		callee := call.Call.StaticCallee()
		if callee == nil {
			continue
		}
		callee = w.unwrap(callee)
		if !w.InModule(callee) || isCtor(callee) || callee == a.Rebuild {
			continue
		}
		writes := false
		for f := range eff.trans[callee] {
			if strings.HasSuffix(f, "."+clausesField) {
				writes = true
			}
		}
		if !writes {
			continue
		}
		for g := range w.Reachable(callee) {
			for _, c2 := range callsIn(g) {
				if t := c2.Common().StaticCallee(); t != nil && isCtor(w.unwrap(t)) {
					if cc, ok := c2.(*ssa.Call); ok {
						a.AllCtors = append(a.AllCtors, cc)
					}
					dup := false
					for _, x := range a.Adds {
						if x == call {
							dup = true
						}
					}
					if !dup {
						a.Adds = append(a.Adds, call)
					}
				}
			}
		}
	}
	return a, ""
}

// removalPairing (R15.1): every append to the removal list is control equivalent with a committed constructor call.
type amoCheck struct {
	Key    string
	OK     bool
	Unk    bool
	Pos    string
	Detail string
}

func removalPairing(w *World, a amoAnchors) []amoCheck {
	fn := a.Detect
	_, appends := sliceWeb(a.List)
	name := w.FuncName(fn)
	if len(appends) == 0 {
		return []amoCheck{{Key: name + " removal list", Unk: true, Pos: w.InstrPos(a.Call), Detail: "nothing is appended to the list handed to " + w.FuncName(a.Rebuild)}}
	}
	if len(a.Adds) == 0 {
		return []amoCheck{{Key: name + " removal list", Pos: w.InstrPos(a.Call), Detail: "clauses are queued for removal but no constructed constraint is added to Clauses"}}
	}
	pd := postDominators(fn)
	var out []amoCheck
	for i, ap := range appends {
		key := fmt.Sprintf("%s removal append #%d", name, i+1)
		ok := false
		why := ""
		for _, add := range a.Adds {
			eq, reason := controlEquivalent(fn, ap.Block(), add.Block(), pd)
			if eq {
				ok = true
				why = "control equivalent with the constraint added at " + w.InstrPos(add) + " (" + reason + ")"
				break
			}
			why = "the constraint is added at " + w.InstrPos(add) + " but " + reason
		}
		d := why
		if !ok {
			d = "clauses are queued for removal on paths that add no constraint: " + why
		}
		out = append(out, amoCheck{Key: key, OK: ok, Pos: w.InstrPos(ap), Detail: d})
	}
	return out
}

// retention (R15.2): the loop that copies the retained clauses is left by exhaustion only.
func retention(w *World, rebuild *ssa.Function, clausesField string) []amoCheck {
	name := w.FuncName(rebuild)
	key := name + " copy loop"
	var stores []*ssa.Store
	allInstrs(rebuild, func(ins ssa.Instruction) {
		if st, ok := ins.(*ssa.Store); ok {
			if _, f, _, ok := fieldOf(st.Addr); ok && f == clausesField {
				stores = append(stores, st)
			}
		}
	})
	// the rebuilt list: what is stored into the field, or what the function returns (the caller stores it)
	var vals []ssa.Value
	for _, st := range stores {
		vals = append(vals, st.Val)
	}
	if len(vals) == 0 {
		allInstrs(rebuild, func(ins ssa.Instruction) {
			if ret, ok := ins.(*ssa.Return); ok {
				for _, rv := range ret.Results {
					if typeShort(rv.Type()) == "[]*solver.Clause" {
						vals = append(vals, rv)
					}
				}
			}
		})
	}
	if len(vals) == 0 {
		return []amoCheck{{Key: key, Unk: true, Pos: w.Pos(rebuild.Pos()), Detail: "no store to " + clausesField + " in the function"}}
	}
	var out []amoCheck
	seenLoop := map[*ssa.BasicBlock]bool{}
	headers := loopHeaders(rebuild)
	for _, val := range vals {
		web, appends := sliceWeb(val)
		for _, ap := range appends {
			// innermost loop containing the append
			var head *ssa.BasicBlock
			var body map[*ssa.BasicBlock]bool
			for _, h := range headers {
				lb := loopBlocks(rebuild, h)
				if lb[ap.Block()] && (body == nil || len(lb) < len(body)) {
					head, body = h, lb
				}
			}
			if head == nil || seenLoop[head] {
				continue
			}
			seenLoop[head] = true
			k := key
			if len(seenLoop) > 1 {
				k = fmt.Sprintf("%s #%d", key, len(seenLoop))
			}
			var bad []string
			for _, b := range rebuild.Blocks {
				if !body[b] {
					continue
				}
				if len(b.Succs) == 0 {
					bad = append(bad, "the function is left in the middle of the copy at "+w.InstrPos(b.Instrs[len(b.Instrs)-1]))
					continue
				}
				for _, s := range b.Succs {
					if body[s] {
						continue
					}
					if b == head {
						if iff, ok := b.Instrs[len(b.Instrs)-1].(*ssa.If); ok {
							if c, ok := iff.Cond.(*ssa.BinOp); ok && (c.Op == token.LSS || c.Op == token.GTR || c.Op == token.LEQ || c.Op == token.GEQ || c.Op == token.NEQ) {
								continue // exhaustion of the range
							}
							if ex, ok := iff.Cond.(*ssa.Extract); ok {
								if _, isNext := ex.Tuple.(*ssa.Next); isNext {
									continue // range over a map or a string
								}
							}
						}
					}
					if appendsRemainder(s, body, web) {
						continue
					}
					pos := "-"
					for i := len(b.Instrs) - 1; i >= 0; i-- {
						if b.Instrs[i].Pos().IsValid() {
							pos = w.Pos(b.Instrs[i].Pos())
							break
						}
					}
					if pos == "-" {
						pos = w.InstrPos(b.Instrs[len(b.Instrs)-1])
					}
					bad = append(bad, fmt.Sprintf("exit from block %s (%s) other than exhaustion, and the remaining clauses are not appended afterwards", blockName(b), pos))
				}
			}
			if len(bad) > 0 {
				out = append(out, amoCheck{Key: k, Pos: w.InstrPos(ap), Detail: "clauses after the exit are dropped: " + strings.Join(bad, "; ")})
			} else {
				out = append(out, amoCheck{Key: k, OK: true, Pos: w.InstrPos(ap), Detail: "left by exhaustion of the range only"})
			}
		}
	}
	if len(out) == 0 {
		return []amoCheck{{Key: key, Unk: true, Pos: w.Pos(rebuild.Pos()), Detail: "the value stored to " + clausesField + " is not built by appends inside a loop"}}
	}
	return out
}

// appendsRemainder: after leaving the loop at s, the rest of the source (`src[j:]...`) is appended to the copy.
func appendsRemainder(s *ssa.BasicBlock, body map[*ssa.BasicBlock]bool, web map[ssa.Value]bool) bool {
	for b := range reachableBlocks(s, true) {
		if body[b] {
			continue
		}
		for _, ins := range b.Instrs {
			if c, ok := isAppend(ins); ok && len(c.Call.Args) == 2 && web[ssa.Value(c)] {
				if sl, ok := c.Call.Args[1].(*ssa.Slice); ok && sl.Low != nil {
					return true
				}
			}
		}
	}
	return false
}

// degreeCheck (R15.3, first half): the degree argument is len(lits) - 1.
func degreeCheck(w *World, call *ssa.Call) (bool, string) {
	if len(call.Call.Args) != 2 {
		return false, "constructor does not take (literals, degree)"
	}
	x := newE8(call)
	l := x.lenTerm(call.Call.Args[0])
	d, ok := x.term(call.Call.Args[1])
	if !ok {
		return false, "degree argument is not an integer term"
	}
	if d.Atom == l.Atom && d.C == l.C-1 {
		return true, "degree is " + d.String()
	}
	return false, fmt.Sprintf("degree is %s, expected %s: at most one literal of the group may be false", d.String(), e8Term{l.Atom, l.C - 1}.String())
}

func ruleR15(w *World, r *Report) {
	r.Rule("R15.1", "in DetectAtMostOne every append to the list of clauses to remove is control equivalent with adding the cardinality constraint that subsumes them", 1)
	r.Rule("R15.2", "the loop that rebuilds Clauses without the removed ones is left only by exhaustion of the range (or appends the remainder afterwards)", 1)
	r.Rule("R15.3", "the constraint added by DetectAtMostOne has degree len(lits)-1 and the precondition of its constructor is established there", 2)
	detect := w.Func("solver", "Problem.DetectAtMostOne")
	if detect == nil {
		for _, id := range []string{"R15.1", "R15.2", "R15.3"} {
			r.Unk(id, "solver.(*Problem).DetectAtMostOne", "-", "the detection function does not exist")
		}
		return
	}
	ctor := w.Func("solver", "NewCardClause")
	isCtor := func(f *ssa.Function) bool { return f != nil && f == ctor }
	a, why := findAMOAnchors(w, w.effects(), detect, "Clauses", isCtor)
	if why != "" {
		r.Unk("R15.1", w.FuncName(detect)+" removal list", w.Pos(detect.Pos()), why)
		r.Unk("R15.2", w.FuncName(detect)+" rebuild function", w.Pos(detect.Pos()), why)
	} else {
		for _, c := range removalPairing(w, a) {
			emitAMO(r, "R15.1", c)
		}
		for _, c := range retention(w, a.Rebuild, "Clauses") {
			emitAMO(r, "R15.2", c)
		}
	}
	// R15.3
	if ctor == nil {
		r.Unk("R15.3", "solver.NewCardClause", "-", "constructor not found")
		return
	}
	var ctorCalls []*ssa.Call
	for _, f := range w.SortedFns(w.Reachable(detect)) {
		for _, ci := range callsIn(f) {
			if call, ok := ci.(*ssa.Call); ok && w.staticCalleeIs(call, ctor) {
				ctorCalls = append(ctorCalls, call)
			}
		}
	}
	perFn := map[*ssa.Function]int{}
	for _, call := range ctorCalls {
		perFn[call.Parent()]++
		key := w.FuncName(call.Parent()) + " degree of the added constraint"
		if perFn[call.Parent()] > 1 {
			key += fmt.Sprintf(" #%d", perFn[call.Parent()])
		}
		ok2, detail := degreeCheck(w, call)
		r.Check(ok2, "R15.3", key, w.InstrPos(call), detail, detail)
	}
	if len(ctorCalls) == 0 {
		r.Unk("R15.3", w.FuncName(detect)+" degree of the added constraint", w.Pos(detect.Pos()), "no call of NewCardClause is reachable from the detection function")
	}
	runPreconditions(w, r, "R15.3", []*ssa.Function{detect}, false, nil)
}

func emitAMO(r *Report, rule string, c amoCheck) {
	switch {
	case c.Unk:
		r.Unk(rule, c.Key, c.Pos, c.Detail)
	case c.OK:
		r.OK(rule, c.Key, c.Pos, c.Detail)
	default:
		r.Bad(rule, c.Key, c.Pos, c.Detail)
	}
}

func fixtureR15(fw *World) []string {
	var fails []string
	if fw.SSA["amo"] == nil {
		return []string{"R15 fixture: package amo missing"}
	}
	eff := fw.effects()
	ctor := fw.Func("amo", "NewCard")
	isCtor := func(f *ssa.Function) bool { return f != nil && f == ctor }
	for _, tc := range []struct {
		fn              string
		pairing, retain bool
		degree          bool
	}{
		{"Problem.GoodDetect", true, true, true},
		{"Problem.GoodDetectRemainder", true, true, true},
		{"Problem.BadQueueInLoop", false, true, true},
		{"Problem.BadQueueAfterIf", false, true, true},
		{"Problem.BadBreak", true, false, true},
		{"Problem.BadDegree", true, true, false},
	} {
		f := fw.Func("amo", tc.fn)
		if f == nil || ctor == nil {
			fails = append(fails, "R15 fixture: function missing: "+tc.fn)
			continue
		}
		a, why := findAMOAnchors(fw, eff, f, "Clauses", isCtor)
		if why != "" {
			fails = append(fails, "R15 fixture "+tc.fn+": "+why)
			continue
		}
		all := func(cs []amoCheck) bool {
			for _, c := range cs {
				if !c.OK {
					return false
				}
			}
			return len(cs) > 0
		}
		if got := all(removalPairing(fw, a)); got != tc.pairing {
			fails = append(fails, fmt.Sprintf("R15.1 fixture %s: pairing=%v, expected %v", tc.fn, got, tc.pairing))
		}
		if got := all(retention(fw, a.Rebuild, "Clauses")); got != tc.retain {
			fails = append(fails, fmt.Sprintf("R15.2 fixture %s: retention=%v, expected %v", tc.fn, got, tc.retain))
		}
		deg := len(a.AllCtors) > 0
		for _, c := range a.AllCtors {
			if ok, _ := degreeCheck(fw, c); !ok {
				deg = false
			}
		}
		if deg != tc.degree {
			fails = append(fails, fmt.Sprintf("R15.3 fixture %s: degree=%v, expected %v", tc.fn, deg, tc.degree))
		}
	}
	return fails
}
