package main

import (
	"fmt"
	"go/token"
	"go/types"
	"sort"
	"strings"

	"golang.org/x/tools/go/ssa"
)

// Engine E5: path-sensitive typestate over the SSA control-flow graph for a channel parameter.
// State = nil-ness of the parameter x close deferred x closed explicitly x symbolic versions of result cells.
// State sets are explored without merging, so correlated branches (repeated `if results != nil`) are exact.

type chState struct {
	nilness  int // 0 unknown, 1 nil, 2 non-nil
	deferred bool
	closed   bool
	ids      map[ssa.Value]string
	lastSent string // "" nothing sent yet
	sent     bool
	pend     int // transient, between a call and the naming of its result: 1 the callee returns the last value it sent, 2 it returns the zero value having sent nothing
}

func (s chState) key() string {
	var ks []string
	for v, id := range s.ids {
		ks = append(ks, v.Name()+"="+id)
	}
	sort.Strings(ks)
	return fmt.Sprintf("%d|%v|%v|%v|%s|%s", s.nilness, s.deferred, s.closed, s.sent, s.lastSent, strings.Join(ks, ","))
}

func (s chState) clone() chState {
	n := s
	n.ids = make(map[ssa.Value]string, len(s.ids))
	for k, v := range s.ids {
		n.ids[k] = v
	}
	return n
}

type chViolation struct {
	Kind string // "close", "send", "lastsent", "escape"
	Msg  string
	Pos  string
}

type chOutcome struct {
	closed   bool   // channel closed when the function returns (explicitly or by its own defer)
	sent     bool   // something was sent
	lastSent string // "param:<i>" when the last value sent is the callee's i-th parameter, "" none, otherwise opaque
	retLast  bool   // the (single, struct) value the function returns is the last value it sent
	retZero  bool   // nothing was sent and the value returned is the zero value (nothing was ever assigned)
}

type chChecker struct {
	w     *World
	memo  map[string]*chSummary
	depth int
}

type chSummary struct {
	viol     []chViolation
	outcomes []chOutcome
	pairs    int
	returns  int
}

func trackable(t types.Type) bool {
	_, ok := t.Underlying().(*types.Struct)
	return ok
}

// chanAliases returns the predicate "v denotes the tracked channel in fn" and the cells that hold it.
// root is a channel-typed Parameter, or a FreeVar that is the cell of a captured channel variable.
// A parameter captured by a closure is spilled by go/ssa into a cell stored once at entry: loads of that
// cell are the parameter.
func chanAliases(fn *ssa.Function, root ssa.Value) (func(ssa.Value) bool, map[ssa.Value]bool) {
	cells := map[ssa.Value]bool{}
	if _, isPtr := root.Type().Underlying().(*types.Pointer); isPtr {
		cells[root] = true
	} else {
		for _, r := range *root.Referrers() {
			if st, ok := r.(*ssa.Store); ok && st.Val == root {
				if al, ok := st.Addr.(*ssa.Alloc); ok {
					// the cell must not be assigned anything else
					n := 0
					for _, r2 := range *al.Referrers() {
						if st2, ok := r2.(*ssa.Store); ok && st2.Addr == al {
							n++
						}
					}
					if n == 1 {
						cells[al] = true
					}
				}
			}
		}
	}
	isCh := func(v ssa.Value) bool {
		if v == root && !cells[root] {
			return true
		}
		if u, ok := v.(*ssa.UnOp); ok && u.Op == token.MUL && cells[u.X] {
			return true
		}
		return false
	}
	return isCh, cells
}

// analyse explores fn for the channel denoted by root. top: fn is the API method (returns are checked against
// the contract); otherwise only a summary of outcomes is produced.
func (c *chChecker) analyse(fn *ssa.Function, root ssa.Value, nilness int, top bool) *chSummary {
	key := fmt.Sprintf("%s#%s#%d#%v", fn.String(), root.Name(), nilness, top)
	if s, ok := c.memo[key]; ok {
		return s
	}
	sum := &chSummary{}
	c.memo[key] = sum // recursion guard: a recursive call sees an empty summary
	if c.depth > 6 || len(fn.Blocks) == 0 {
		sum.viol = append(sum.viol, chViolation{"escape", "call chain too deep or callee without body: " + fn.String(), "-"})
		return sum
	}
	c.depth++
	defer func() { c.depth-- }()
	w := c.w
	violSet := map[string]bool{}
	report := func(kind string, ins ssa.Instruction, msg string) {
		pos := w.InstrPos(ins)
		k := kind + "|" + msg + "|" + pos
		if !violSet[k] {
			violSet[k] = true
			sum.viol = append(sum.viol, chViolation{kind, msg, pos})
		}
	}
	outSet := map[chOutcome]bool{}
	isCh, cells := chanAliases(fn, root)
	chT := root.Type()
	if pt, ok := chT.Underlying().(*types.Pointer); ok {
		chT = pt.Elem()
	}
	sendsElem := chT.Underlying().(*types.Chan).Elem()
	trackRes := trackable(sendsElem)

	isClose := func(cc *ssa.CallCommon) bool {
		b, ok := cc.Value.(*ssa.Builtin)
		return ok && b.Name() == "close" && len(cc.Args) == 1 && isCh(cc.Args[0])
	}
	// how the channel reaches a call: as argument i, or through a closure binding of one of its cells
	type reach struct {
		callee *ssa.Function
		root   ssa.Value
	}
	reaches := func(cc *ssa.CallCommon, site ssa.CallInstruction) (rs []reach, uses bool, opaque string) {
		args := cc.Args
		if cc.IsInvoke() {
			args = append([]ssa.Value{cc.Value}, cc.Args...)
		}
		argIdx := -1
		for i, a := range args {
			if isCh(a) {
				argIdx = i
				uses = true
			}
			if cells[a] {
				uses = true
				opaque = "the variable holding the channel is passed by reference"
			}
		}
		if mc, ok := cc.Value.(*ssa.MakeClosure); ok {
			cf := mc.Fn.(*ssa.Function)
			for i, b := range mc.Bindings {
				if cells[b] {
					uses = true
					rs = append(rs, reach{cf, cf.FreeVars[i]})
				}
				if isCh(b) {
					uses = true
					opaque = "channel bound by value into a closure"
				}
			}
			return
		}
		if argIdx >= 0 {
			callees := w.Callees[site]
			if len(callees) == 0 {
				opaque = "passed to code that is not analysed: " + w.calleeName(cc)
			}
			for _, callee := range callees {
				if argIdx < len(callee.Params) {
					rs = append(rs, reach{callee, callee.Params[argIdx]})
				}
			}
		}
		return
	}

	idOf := func(s *chState, v ssa.Value) string {
		if id, ok := s.ids[v]; ok {
			return id
		}
		if k, ok := v.(*ssa.Const); ok {
			return "const:" + k.Name()
		}
		return "zero:" + v.Name()
	}
	// fresh gives v a new version named after its defining site. Re-executing a site makes the previous value of
	// that site "old"; what was old before becomes stale (equal to nothing), so two different generations are
	// never confused.
	fresh := func(s *chState, v ssa.Value, id string) {
		old := id + "'old"
		ren := func(x string) string {
			switch x {
			case old:
				return "stale"
			case id:
				return old
			}
			return x
		}
		for k, x := range s.ids {
			s.ids[k] = ren(x)
		}
		if s.lastSent != "" {
			s.lastSent = ren(s.lastSent)
		}
		s.ids[v] = id
	}

	type item struct {
		b    *ssa.BasicBlock
		s    chState
		prev *ssa.BasicBlock
	}
	seen := map[string]bool{}
	init := chState{nilness: nilness, ids: map[ssa.Value]string{}}
	if !top {
		for i, p := range fn.Params {
			if trackable(p.Type()) {
				init.ids[p] = fmt.Sprintf("param:%d", i)
			}
		}
	}
	work := []item{{fn.Blocks[0], init, nil}}
	for len(work) > 0 {
		it := work[len(work)-1]
		work = work[:len(work)-1]
		pv := -1
		if it.prev != nil {
			pv = it.prev.Index
		}
		k := fmt.Sprintf("%d<%d#%s", it.b.Index, pv, it.s.key())
		if seen[k] {
			continue
		}
		seen[k] = true
		if len(seen) > 20000 {
			report("escape", it.b.Instrs[0], "state space too large")
			break
		}
		states := []chState{it.s.clone()}
		if trackRes && it.prev != nil {
			// parallel assignment of the block's phis from the identities before the block
			pi := -1
			for k, p := range it.b.Preds {
				if p == it.prev {
					pi = k
				}
			}
			if pi >= 0 {
				newIDs := map[ssa.Value]string{}
				for _, ins := range it.b.Instrs {
					phi, ok := ins.(*ssa.Phi)
					if !ok {
						break
					}
					if trackable(phi.Type()) && pi < len(phi.Edges) {
						newIDs[phi] = idOf(&states[0], phi.Edges[pi])
					}
				}
				for v, id := range newIDs {
					states[0].ids[v] = id
				}
			}
		}
		for idx, ins := range it.b.Instrs {
			var next []chState
			for _, s := range states {
				outs := []chState{s}
				site := fmt.Sprintf("@%d.%d", it.b.Index, idx)
				switch x := ins.(type) {
				case *ssa.Defer:
					if isClose(&x.Call) {
						if s.deferred {
							report("close", ins, "second deferred close of the channel parameter")
						}
						if s.closed {
							report("close", ins, "close deferred after an explicit close")
						}
						if s.nilness != 2 {
							report("close", ins, "close deferred while the channel may be nil (close of a nil channel panics)")
						}
						s.deferred = true
						outs = []chState{s}
					} else if rs, uses, opaque := reaches(&x.Call, x); uses {
						if opaque != "" {
							report("escape", ins, "channel parameter in a deferred call: "+opaque)
						}
						if s.nilness == 0 && len(rs) > 0 {
							// `defer func() { if ch != nil { close(ch) } }()`: whether the deferred function closes depends on
							// the nil-ness of the channel, which is fixed for the whole call: follow both cases separately
							sNil, sNon := s.clone(), s.clone()
							sNil.nilness, sNon.nilness = 1, 2
							outs = nil
							for _, sc := range []chState{sNil, sNon} {
								for _, rc := range rs {
									sub := c.analyse(rc.callee, rc.root, sc.nilness, false)
									for _, v := range sub.viol {
										report(v.Kind, ins, "in deferred "+w.FuncName(rc.callee)+": "+v.Msg)
									}
									allClose := len(sub.outcomes) > 0
									for _, o := range sub.outcomes {
										if !o.closed {
											allClose = false
										}
										if o.sent {
											report("lastsent", ins, "deferred "+w.FuncName(rc.callee)+" sends on the channel after the result has been computed")
										}
									}
									if allClose {
										sc.deferred = true
									} else {
										for _, o := range sub.outcomes {
											if o.closed {
												report("close", ins, "deferred "+w.FuncName(rc.callee)+" closes the channel on some of its paths only")
											}
										}
									}
								}
								outs = append(outs, sc)
							}
							next = append(next, outs...)
							continue
						}
						for _, rc := range rs {
							// the deferred callee runs at exit: its sends happen after everything else; treat a close
							// there as the deferred close and any send there as a violation of the ordering we can check
							sub := c.analyse(rc.callee, rc.root, s.nilness, false)
							for _, v := range sub.viol {
								report(v.Kind, ins, "in deferred "+w.FuncName(rc.callee)+": "+v.Msg)
							}
							allClose := len(sub.outcomes) > 0
							for _, o := range sub.outcomes {
								if !o.closed {
									allClose = false
								}
								if o.sent {
									report("lastsent", ins, "deferred "+w.FuncName(rc.callee)+" sends on the channel after the result has been computed")
								}
							}
							if allClose {
								if s.deferred {
									report("close", ins, "second deferred close of the channel parameter")
								}
								s.deferred = true
							} else if len(sub.outcomes) > 0 {
								for _, o := range sub.outcomes {
									if o.closed {
										report("close", ins, "deferred "+w.FuncName(rc.callee)+" closes the channel on some of its paths only")
									}
								}
							}
						}
						outs = []chState{s}
					}
				case *ssa.Go:
					if _, uses, _ := reaches(&x.Call, x); uses {
						report("escape", ins, "channel parameter handed to a goroutine: its sends are not ordered before the close")
					}
				case *ssa.Send:
					if isCh(x.Chan) {
						if s.nilness != 2 {
							report("send", ins, "send on the channel parameter on a path where it may be nil (blocks for ever)")
						}
						if s.closed {
							report("send", ins, "send after the channel was closed (panics)")
						}
						s.sent = true
						if trackRes {
							s.lastSent = idOf(&s, x.X)
						}
						outs = []chState{s}
					}
				case *ssa.Select:
					for _, st := range x.States {
						if isCh(st.Chan) && st.Dir == types.SendOnly {
							// the send must not have a way round it: the only other case allowed is a receive from a
							// stop channel (chan struct{}) handed in by the caller
							if !x.Blocking {
								report("send", ins, "the send on the result channel is in a select with a default case: the result is dropped when the receiver is not ready at that instant")
							}
							for _, o := range x.States {
								if o == st {
									continue
								}
								okStop := false
								if o.Dir == types.RecvOnly {
									if ct, isC := o.Chan.Type().Underlying().(*types.Chan); isC {
										if stt, isS := ct.Elem().Underlying().(*types.Struct); isS && stt.NumFields() == 0 {
											if _, isP := o.Chan.(*ssa.Parameter); isP {
												okStop = true
											}
										}
									}
								}
								if !okStop {
									report("send", ins, "the send on the result channel is in a select with another case that is not the caller's stop channel (a timer, another channel): a result that was computed can be dropped when the receiver is slow, so what is returned need not have been delivered")
								}
							}
							if s.closed {
								report("send", ins, "send after close")
							}
							s.sent = true
							if trackRes {
								s.lastSent = idOf(&s, st.Send)
							}
							outs = []chState{s}
						}
					}
				case *ssa.Call:
					if isClose(&x.Call) {
						if s.closed || s.deferred {
							report("close", ins, "channel parameter closed twice on this path (explicit close with another close pending or done)")
						}
						if s.nilness != 2 {
							report("close", ins, "close while the channel may be nil")
						}
						s.closed = true
						outs = []chState{s}
					} else if rs, uses, opaque := reaches(&x.Call, x); uses {
						if opaque != "" {
							report("escape", ins, "channel parameter: "+opaque)
						}
						if len(rs) > 0 {
							outs = nil
						}
						for _, rc := range rs {
							sub := c.analyse(rc.callee, rc.root, s.nilness, false)
							for _, v := range sub.viol {
								report(v.Kind, ins, "in "+w.FuncName(rc.callee)+": "+v.Msg)
							}
							for _, o := range sub.outcomes {
								s2 := s.clone()
								if o.closed {
									if s2.closed || s2.deferred {
										report("close", ins, "channel closed by "+w.FuncName(rc.callee)+" and again by the caller")
									}
									s2.closed = true
								}
								if o.sent {
									if s2.closed && !o.closed {
										report("send", ins, "send in "+w.FuncName(rc.callee)+" after the channel was closed")
									}
									s2.sent = true
									if trackRes {
										s2.lastSent = "callee" + site
										if o.retLast {
											// `return s.forward(results, stop)`: the callee hands back the last value it sent
											s2.pend = 1
										}
										var pi int
										if n, _ := fmt.Sscanf(o.lastSent, "param:%d", &pi); n == 1 {
											args := x.Call.Args
											if x.Call.IsInvoke() {
												args = append([]ssa.Value{x.Call.Value}, args...)
											}
											if pi < len(args) {
												s2.lastSent = idOf(&s2, args[pi])
											}
										}
									}
								}
								if !o.sent && o.retZero {
									s2.pend = 2
								}
								outs = append(outs, s2)
							}
						}
					}
					if trackRes && trackable(x.Type()) {
						for i := range outs {
							fresh(&outs[i], x, "C"+site)
							switch outs[i].pend {
							case 1:
								outs[i].lastSent = "C" + site
							case 2:
								outs[i].ids[x] = "zero:" + x.Name()
							}
						}
					}
					for i := range outs {
						outs[i].pend = 0
					}
				case *ssa.UnOp:
					if trackRes && x.Op == token.MUL && trackable(x.Type()) {
						s.ids[x] = idOf(&s, x.X)
						outs = []chState{s}
					}
					if trackRes && x.Op == token.ARROW && trackable(x.Type()) {
						fresh(&s, x, "R"+site)
						outs = []chState{s}
					}
				case *ssa.Extract:
					if trackRes && trackable(x.Type()) {
						fresh(&s, x, "X"+site)
						outs = []chState{s}
					}
				case *ssa.Phi:
					if trackRes && trackable(x.Type()) {
						// a phi is the value that flows in along the edge taken
						pi := -1
						for k, p := range it.b.Preds {
							if p == it.prev {
								pi = k
							}
						}
						if pi < 0 || pi >= len(x.Edges) {
							fresh(&s, x, "P"+site)
						} // otherwise set below, for all phis of the block at once
						outs = []chState{s}
					}
				case *ssa.Store:
					if trackRes {
						switch a := x.Addr.(type) {
						case *ssa.Alloc:
							if trackable(x.Val.Type()) {
								if _, isConst := x.Val.(*ssa.Const); isConst {
									fresh(&s, a, "K"+site)
								} else {
									s.ids[a] = idOf(&s, x.Val)
								}
								outs = []chState{s}
							}
						case *ssa.FieldAddr:
							if al, ok := a.X.(*ssa.Alloc); ok && trackable(al.Type().Underlying().(*types.Pointer).Elem()) {
								fresh(&s, al, "S"+site)
								outs = []chState{s}
							}
						}
					}
				case *ssa.Return:
					if it.b == fn.Recover {
						continue
					}
					sum.returns++
					closed := s.closed || s.deferred
					o := chOutcome{closed: closed, sent: s.sent}
					if s.sent && strings.HasPrefix(s.lastSent, "param:") {
						o.lastSent = s.lastSent
					} else if s.sent {
						o.lastSent = "opaque"
					}
					if trackRes && len(x.Results) == 1 && trackable(x.Results[0].Type()) {
						rid := idOf(&s, x.Results[0])
						if s.sent && rid == s.lastSent && rid != "stale" {
							o.retLast = true
						}
						if !s.sent && (strings.HasPrefix(rid, "zero:") || strings.HasPrefix(rid, "const:")) {
							o.retZero = true
						}
					}
					outSet[o] = true
					if top && s.nilness != 1 {
						if !closed {
							report("close", ins, "return on a path where the channel may be non-nil without having closed it")
						}
						if trackRes && len(x.Results) == 1 && trackable(x.Results[0].Type()) {
							rid := idOf(&s, x.Results[0])
							if s.lastSent == "" && (strings.HasPrefix(rid, "zero:") || strings.HasPrefix(rid, "const:")) {
								// nothing assigned, nothing sent
							} else if rid != s.lastSent || rid == "stale" {
								report("lastsent", ins, fmt.Sprintf("the value returned (version %s) is not the last value sent (version %q) on a path where the channel is non-nil", rid, s.lastSent))
							}
						}
					}
				}
				next = append(next, outs...)
			}
			states = next
			if len(states) == 0 {
				break
			}
		}
		if len(states) == 0 {
			continue
		}
		last := it.b.Instrs[len(it.b.Instrs)-1]
		for _, s := range states {
			if iff, ok := last.(*ssa.If); ok {
				tS, fS := s.clone(), s.clone()
				if bo, ok := iff.Cond.(*ssa.BinOp); ok && (bo.Op == token.EQL || bo.Op == token.NEQ) {
					var other ssa.Value
					if isCh(bo.X) {
						other = bo.Y
					} else if isCh(bo.Y) {
						other = bo.X
					}
					if other != nil && isNilConst(other) {
						eq := bo.Op == token.EQL
						set := func(st *chState, isNil bool) bool {
							want := 2
							if isNil {
								want = 1
							}
							if st.nilness != 0 && st.nilness != want {
								return false
							}
							st.nilness = want
							return true
						}
						if set(&tS, eq) {
							work = append(work, item{it.b.Succs[0], tS, it.b})
						}
						if set(&fS, !eq) {
							work = append(work, item{it.b.Succs[1], fS, it.b})
						}
						continue
					}
				}
				work = append(work, item{it.b.Succs[0], tS, it.b}, item{it.b.Succs[1], fS, it.b})
			} else {
				for _, sc := range it.b.Succs {
					work = append(work, item{sc, s.clone(), it.b})
				}
			}
		}
	}
	for o := range outSet {
		sum.outcomes = append(sum.outcomes, o)
	}
	sort.Slice(sum.outcomes, func(i, j int) bool {
		return fmt.Sprint(sum.outcomes[i]) < fmt.Sprint(sum.outcomes[j])
	})
	sum.pairs = len(seen)
	return sum
}

// isCloseOf recognises close(ch) calls (builtin) on exactly the given value.
func isCloseOf(c *ssa.CallCommon, ch ssa.Value) bool {
	b, ok := c.Value.(*ssa.Builtin)
	return ok && b.Name() == "close" && len(c.Args) == 1 && c.Args[0] == ch
}

// argParam maps the argument equal to v onto the callee's parameter (nil if v is not passed as a plain argument).
func argParam(callee *ssa.Function, c *ssa.CallCommon, v ssa.Value) *ssa.Parameter {
	args := c.Args
	if c.IsInvoke() {
		args = append([]ssa.Value{c.Value}, c.Args...)
	}
	for i, a := range args {
		if a == v && i < len(callee.Params) {
			return callee.Params[i]
		}
	}
	return nil
}

// ---------- drain / join helpers (shared by R16.2, R19.5, R20.4) ----------

// drainSite is a `v, ok := <-ch` receive whose ok flag guards a branch: the shape of `for range ch`.
type drainSite struct {
	Recv *ssa.UnOp
	Done *ssa.BasicBlock // successor taken when ok is false: the channel is closed and empty
	Body *ssa.BasicBlock
}

func drainSites(fn *ssa.Function, isChan func(v ssa.Value) bool) []drainSite {
	var out []drainSite
	allInstrs(fn, func(ins ssa.Instruction) {
		u, ok := ins.(*ssa.UnOp)
		if !ok || u.Op != token.ARROW || !u.CommaOk || !isChan(u.X) {
			return
		}
		for _, r := range *u.Referrers() {
			ex, ok := r.(*ssa.Extract)
			if !ok || ex.Index != 1 {
				continue
			}
			for _, r2 := range *ex.Referrers() {
				if iff, ok := r2.(*ssa.If); ok && iff.Cond == ex {
					out = append(out, drainSite{Recv: u, Body: iff.Block().Succs[0], Done: iff.Block().Succs[1]})
				}
			}
		}
	})
	return out
}

// drainedAt reports whether every path to block b has passed the exhaustion edge of one of the sites.
func drainedAt(b *ssa.BasicBlock, sites []drainSite) bool {
	for _, s := range sites {
		if len(s.Done.Preds) == 1 && s.Done.Dominates(b) {
			return true
		}
	}
	return false
}
