package main

import (
	"fmt"
	"go/token"
	"sort"
	"strings"

	"golang.org/x/tools/go/ssa"
)

func init() {
	register(&property{
		ID:          "C10",
		Explanation: "the round protocol of Solver.Assume: (R10.1) the assumption flags are re-created and the trail is reset before any new literal is installed, (R10.2) the status is reset to Indet before propagation and the only other status stored is Unsat under a conflict, (R10.3) every installed literal is first tested not already false, then gets binding + flag + trail entry, and propagation from trail position 0 at level 1 lies on every path to return, (R10.4) where level 1 - which also holds the problem's unit clauses - is retracted wholesale, every recorded unit clause is bound again and pushed on the trail before propagation, (R10.5) every function binding unit clauses from outside (New, AppendClause's unit path) records them for that re-installation.",
		NotDecided:  "that each round answers Sat exactly when problem and assumptions are jointly satisfiable (depends on the search and on conflict analysis under assumptions).",
		Rules:       []ruleFn{ruleR10_1_3, ruleR10_4, ruleR10_5, ruleR10_6, ruleR9_7, ruleR1_14, ruleR1_15},
	})
}

// levelCleaner: the method of Solver with a single decLevel parameter that zeroes model entries.
func levelCleaner(w *World) *ssa.Function {
	var out *ssa.Function
	for _, fn := range w.Fns {
		if w.PkgName(fn) != "solver" || fn.Signature.Recv() == nil || fn.Signature.Params().Len() != 1 ||
			typeShort(fn.Signature.Params().At(0).Type()) != "solver.decLevel" {
			continue
		}
		zeroes := false
		allInstrs(fn, func(ins ssa.Instruction) {
			st, ok := ins.(*ssa.Store)
			if !ok {
				return
			}
			ia, ok := st.Addr.(*ssa.IndexAddr)
			if !ok {
				return
			}
			if _, ok := isFieldLoad(ia.X, "solver.Solver", "model"); ok {
				if v, ok := constInt(st.Val); ok && v == 0 {
					zeroes = true
				}
			}
		})
		if zeroes {
			if out != nil {
				return nil
			}
			out = fn
		}
	}
	return out
}

// level1Binding: st stores a level-1 binding (+-1, or lvlToSignedLvl(lit, 1)) into model[lit.Var()]; returns lit.
func level1Binding(st *ssa.Store) (ssa.Value, bool) {
	ia, ok := st.Addr.(*ssa.IndexAddr)
	if !ok {
		return nil, false
	}
	if _, ok := isFieldLoad(ia.X, "solver.Solver", "model"); !ok {
		return nil, false
	}
	idx := ia.Index
	if c, ok := idx.(*ssa.Convert); ok {
		idx = c.X
	}
	vc, ok := idx.(*ssa.Call)
	if !ok || len(vc.Call.Args) != 1 || typeShort(vc.Call.Args[0].Type()) != "solver.Lit" {
		return nil, false
	}
	lit := vc.Call.Args[0]
	if k, ok := constInt(st.Val); ok {
		return lit, k == 1 || k == -1
	}
	if c, ok := st.Val.(*ssa.Call); ok && typeShort(c.Type()) == "solver.decLevel" {
		hasLit, lvl1 := false, false
		for _, a := range c.Call.Args {
			if a == lit {
				hasLit = true
			}
			if typeShort(a.Type()) == "solver.decLevel" {
				if k, ok := constInt(a); ok && k == 1 {
					lvl1 = true
				}
			}
		}
		return lit, hasLit && lvl1
	}
	return nil, false
}

// elemOfSlice: v is an element loaded from a slice (range variable); returns the slice and the index.
func elemOfSlice(v ssa.Value) (slice, idx ssa.Value, ok bool) {
	u, ok := v.(*ssa.UnOp)
	if !ok || u.Op != token.MUL {
		return nil, nil, false
	}
	ia, ok := u.X.(*ssa.IndexAddr)
	if !ok {
		return nil, nil, false
	}
	return ia.X, ia.Index, true
}

// factsAppends: stores `s.facts = append(s.facts, ...)` of fn; elem is the single appended element (nil for a
// spread append), spread the appended slice (nil otherwise).
type factsAppend struct {
	st     *ssa.Store
	elem   ssa.Value
	spread ssa.Value
}

func factsAppends(fn *ssa.Function) []factsAppend {
	var out []factsAppend
	for _, st := range storesToField(fn, "solver.Solver", "facts") {
		c, ok := st.Val.(*ssa.Call)
		if !ok {
			continue
		}
		b, ok := c.Call.Value.(*ssa.Builtin)
		if !ok || b.Name() != "append" || len(c.Call.Args) != 2 {
			continue
		}
		if _, ok := isFieldLoad(c.Call.Args[0], "solver.Solver", "facts"); !ok {
			continue
		}
		if e := appendedElem(c); e != nil {
			out = append(out, factsAppend{st: st, elem: e})
		} else {
			out = append(out, factsAppend{st: st, spread: c.Call.Args[1]})
		}
	}
	return out
}

func sameFieldLoad(a, b ssa.Value) bool {
	if a == b {
		return true
	}
	oa, fa, ba, ok1 := loadedFieldOf(a)
	ob, fb, bb, ok2 := loadedFieldOf(b)
	return ok1 && ok2 && oa == ob && fa == fb && ba == bb
}

func loadedFieldOf(v ssa.Value) (owner, field string, base ssa.Value, ok bool) {
	u, isU := v.(*ssa.UnOp)
	if !isU || u.Op != token.MUL {
		return "", "", nil, false
	}
	return fieldOf(u.X)
}

// R10.4: a wholesale retraction of level 1 is followed by the re-installation of the recorded unit clauses.
func ruleR10_4(w *World, r *Report) {
	r.Rule("R10.4", "wherever the function that retracts bindings above a decision level is called with a constant level below 1 (which unbinds the unit clauses of the problem, kept only as level-1 bindings), the caller then re-installs every recorded unit clause - a loop over the whole facts list that binds each element at level 1 and pushes it on the trail - before it propagates", 5)
	cl := levelCleaner(w)
	if cl == nil {
		r.Unk("R10.4", "level cleaner", "-", "no unique method of Solver with a decLevel parameter that zeroes model entries")
		return
	}
	counts := map[string]int{}
	for _, fn := range w.LibFns() {
		for _, ci := range callsIn(fn) {
			if !w.staticCalleeIs(ci, cl) {
				continue
			}
			args := ci.Common().Args
			lvl := args[len(args)-1]
			counts[w.FuncName(fn)]++
			key := fmt.Sprintf("%s call #%d of %s", w.FuncName(fn), counts[w.FuncName(fn)], w.FuncName(cl))
			v, ok := constInt(lvl)
			if !ok {
				r.OK("R10.4", key, w.InstrPos(ci), "backjump level computed at run time (not bounded by this rule)")
				continue
			}
			if v >= 1 {
				r.OK("R10.4", key, w.InstrPos(ci), fmt.Sprintf("constant level %d", v))
				continue
			}
			// re-installation loop after the retraction
			why := reinstallsFacts(w, fn, ci)
			r.Check(why == "", "R10.4", key, w.InstrPos(ci), "level 1 is retracted and every recorded unit clause is bound again and pushed on the trail before propagation",
				fmt.Sprintf("bindings above level %d are retracted, which unbinds the level-1 facts (unit clauses removed from the clause set by the parser, unit clauses appended later), and %s: a later answer can contradict a unit clause of the problem", v, why))
		}
	}
}

// assumeHelpers: the methods of Solver that fn calls directly and that bind literals at level 1 or flag assumptions
// (the binding loops of Assume moved into helpers), with their call sites in fn.
func assumeHelpers(w *World, fn *ssa.Function) map[*ssa.Function]*ssa.Call {
	out := map[*ssa.Function]*ssa.Call{}
	count := map[*ssa.Function]int{}
	for _, ci := range callsIn(fn) {
		c, ok := ci.(*ssa.Call)
		if !ok {
			continue
		}
		g := c.Call.StaticCallee()
		if g == nil || len(g.Blocks) == 0 || w.PkgName(g) != "solver" || g.Signature.Recv() == nil || typeShort(g.Signature.Recv().Type()) != "*solver.Solver" {
			continue
		}
		binds := false
		allInstrs(g, func(ins ssa.Instruction) {
			st, isS := ins.(*ssa.Store)
			if !isS || !inLoop(g, st.Block()) {
				return
			}
			if _, isB := level1Binding(st); isB {
				binds = true
			}
			if ia, isIA := st.Addr.(*ssa.IndexAddr); isIA {
				if _, isF := isFieldLoad(ia.X, "solver.Solver", "assumptions"); isF {
					binds = true
				}
			}
		})
		if binds {
			out[g] = c
			count[g]++
		}
	}
	for g, k := range count {
		if k != 1 {
			delete(out, g) // called several times: no single position in fn
		}
	}
	return out
}

// reinstallsFacts returns "" when, after the instruction `after`, fn runs a loop over all of Solver.facts binding each
// element at level 1 and appending it to the trail, with no trail reset and no retraction after it; otherwise the reason.
func reinstallsFacts(w *World, fn *ssa.Function, after ssa.Instruction) string {
	var reasons []string
	found := false
	helperSite := assumeHelpers(w, fn)
	scope := []*ssa.Function{fn}
	for g := range helperSite {
		scope = append(scope, g)
	}
	// where an instruction of a helper takes place in fn
	proxy := func(ins ssa.Instruction) ssa.Instruction {
		if c, ok := helperSite[ins.Parent()]; ok && ins.Parent() != fn {
			return c
		}
		return ins
	}
	for _, g := range scope {
		allInstrs(g, func(ins ssa.Instruction) {
			st, ok := ins.(*ssa.Store)
			if !ok || found {
				return
			}
			lit, ok := level1Binding(st)
			if !ok {
				return
			}
			sl, idx, ok := elemOfSlice(lit)
			if !ok {
				return
			}
			if _, isFacts := isFieldLoad(sl, "solver.Solver", "facts"); !isFacts {
				return
			}
			if !fullRangeIndex(idx, func(b ssa.Value) bool {
				return isLenOf(b, func(x ssa.Value) bool { return sameFieldLoad(x, sl) })
			}) {
				reasons = append(reasons, "the loop over the recorded unit clauses at "+w.InstrPos(st)+" does not visit all of them")
				return
			}
			if !instrDominates(after, proxy(st)) {
				reasons = append(reasons, "the recorded unit clauses are bound at "+w.InstrPos(st)+" before the retraction, which unbinds them again")
				return
			}
			// trail append of the same literal in the same iteration
			trailed := false
			for _, ts := range storesToField(g, "solver.Solver", "trail") {
				if c, ok := ts.Val.(*ssa.Call); ok && appendedElem(c) == lit && (ts.Block() == st.Block() || sameIteration(g, ts, st)) {
					trailed = true
				}
			}
			if !trailed {
				reasons = append(reasons, "the unit clauses bound again at "+w.InstrPos(st)+" are not pushed on the trail, so they are never propagated")
				return
			}
			// nothing after the loop empties the trail or retracts again
			for _, g2 := range scope {
				for _, ts := range storesToField(g2, "solver.Solver", "trail") {
					if slc, ok := ts.Val.(*ssa.Slice); ok && slc.High != nil && proxy(ts) != proxy(st) && instrReachableFrom(proxy(st), proxy(ts)) {
						reasons = append(reasons, "the trail is cut at "+w.InstrPos(ts)+" after the unit clauses were pushed on it")
						return
					}
				}
			}
			for _, cj := range callsIn(fn) {
				if callee := cj.Common().StaticCallee(); callee != nil && cj != after {
					if cl := levelCleaner(w); cl == callee && instrReachableFrom(proxy(st), cj) {
						reasons = append(reasons, "bindings are retracted again at "+w.InstrPos(cj)+" after the unit clauses were bound")
						return
					}
				}
			}
			found = true
		})
	}
	if found {
		return ""
	}
	if len(reasons) == 0 {
		return "the caller does not bind the recorded unit clauses (Solver.facts) again"
	}
	return strings.Join(dedupe(reasons), "; ")
}

// sameIteration: within the innermost loop around `at`, instruction c runs in every iteration in which `at` runs
// and which reaches the next iteration or leaves the loop normally.
func sameIteration(fn *ssa.Function, c, at ssa.Instruction) bool {
	if c.Block() == at.Block() {
		return true
	}
	var h *ssa.BasicBlock
	var body map[*ssa.BasicBlock]bool
	for _, x := range loopHeaders(fn) {
		lb := loopBlocks(fn, x)
		if lb[at.Block()] && (h == nil || len(lb) < len(body)) {
			h, body = x, lb
		}
	}
	if h == nil || !body[c.Block()] {
		return false
	}
	if instrDominates(c, at) && h.Dominates(c.Block()) {
		return true
	}
	ok := true
	seen := map[*ssa.BasicBlock]bool{}
	var dfs func(b *ssa.BasicBlock)
	dfs = func(b *ssa.BasicBlock) {
		if seen[b] || !ok {
			return
		}
		seen[b] = true
		for _, nx := range b.Succs {
			if nx == c.Block() {
				continue
			}
			if nx == h || !body[nx] {
				// leaving the iteration without c; a return under an Unsat conclusion would be acceptable, but is not assumed
				ok = false
				return
			}
			dfs(nx)
		}
	}
	dfs(at.Block())
	return ok
}

// R10.5: every unit clause bound at level 1 from an outside list is recorded for re-installation.
func ruleR10_5(w *World, r *Report) {
	r.Rule("R10.5", "every function that binds, at level 1, the literals of a list of unit clauses coming from outside (the problem's Units, the literals of an appended clause) also records them in the list that Assume re-installs; literals bound at level 1 that are assumptions (flagged so) or results of conflict analysis need no record", 2)
	an := map[*ssa.Function]bool{}
	for _, f := range conflictAnalysers(w) {
		an[f] = true
	}
	flagged := func(fn *ssa.Function, lit ssa.Value) bool {
		ok := false
		allInstrs(fn, func(ins ssa.Instruction) {
			st, isSt := ins.(*ssa.Store)
			if !isSt {
				return
			}
			ia, isIA := st.Addr.(*ssa.IndexAddr)
			if !isIA {
				return
			}
			if _, isF := isFieldLoad(ia.X, "solver.Solver", "assumptions"); !isF {
				return
			}
			idx := ia.Index
			if c, isC := idx.(*ssa.Convert); isC {
				idx = c.X
			}
			if vc, isC := idx.(*ssa.Call); isC && len(vc.Call.Args) == 1 && vc.Call.Args[0] == lit {
				ok = true
			}
		})
		return ok
	}
	n := 0
	var judge func(fn *ssa.Function, lit ssa.Value, at ssa.Instruction, depth int) (verdict string, why string)
	judge = func(fn *ssa.Function, lit ssa.Value, at ssa.Instruction, depth int) (string, string) {
		if depth > 3 {
			return "unk", "wrapper chain too deep"
		}
		if derivesFromAnalyser(w, lit, an, 0) {
			return "ok", "result of conflict analysis (implied by the clause set)"
		}
		if flagged(fn, lit) {
			return "ok", "flagged as an assumption"
		}
		if sl, _, ok := elemOfSlice(lit); ok {
			if _, isFacts := isFieldLoad(sl, "solver.Solver", "facts"); isFacts {
				return "ok", "re-installation of recorded unit clauses"
			}
			for _, fa := range factsAppends(fn) {
				if fa.elem == lit && fa.st.Block() == at.Block() {
					return "ok", "recorded literal by literal"
				}
				if fa.elem == lit && sameIteration(fn, fa.st, at) {
					return "ok", "recorded literal by literal"
				}
				if fa.spread != nil && sameFieldLoad(fa.spread, sl) {
					// the spread append runs whenever the loop does and the function returns
					okAll := true
					allInstrs(fn, func(ins ssa.Instruction) {
						if ret, isRet := ins.(*ssa.Return); isRet && instrReachableFrom(at, ret) && !instrDominates(fa.st, ret) {
							okAll = false
						}
					})
					if okAll || instrDominates(fa.st, at) {
						return "ok", "the whole list is recorded"
					}
				}
			}
			return "bad", "the literals of the list bound at level 1 at " + w.InstrPos(at) + " are not recorded in Solver.facts: the next Assume unbinds them for good and later answers can contradict these unit clauses"
		}
		if p, ok := lit.(*ssa.Parameter); ok {
			// the function records its own parameter before binding it (`propagateFact(unit)`)
			for _, fs := range storesToField(fn, "solver.Solver", "facts") {
				if c, isC := fs.Val.(*ssa.Call); isC && appendedElem(c) == ssa.Value(p) && instrDominates(fs, at) {
					return "ok", "the function records the literal it is handed before binding it"
				}
			}
			pi := paramIndex(fn, p)
			callers := w.Callers[fn]
			if len(callers) == 0 {
				return "ok", "no caller"
			}
			var bads []string
			for _, site := range callers {
				cargs := site.Common().Args
				if pi < 0 || pi >= len(cargs) {
					return "unk", "cannot map the literal to the argument at " + w.InstrPos(site)
				}
				v, why := judge(site.Parent(), cargs[pi], site, depth+1)
				switch v {
				case "bad":
					bads = append(bads, why)
				case "unk":
					return "unk", why
				}
			}
			if len(bads) > 0 {
				return "bad", strings.Join(dedupe(bads), "; ")
			}
			return "ok", fmt.Sprintf("%d caller(s): assumptions or learned literals", len(callers))
		}
		return "unk", "origin of the literal bound at level 1 at " + w.InstrPos(at) + " not recognised"
	}
	for _, fn := range w.LibFns() {
		if w.PkgName(fn) != "solver" {
			continue
		}
		k := 0
		seenLit := map[ssa.Value]bool{}
		allInstrs(fn, func(ins ssa.Instruction) {
			st, ok := ins.(*ssa.Store)
			if !ok {
				return
			}
			lit, ok := level1Binding(st)
			if !ok || seenLit[lit] {
				return
			}
			seenLit[lit] = true
			k++
			n++
			key := fmt.Sprintf("%s level-1 binding #%d", w.FuncName(fn), k)
			v, why := judge(fn, lit, st, 0)
			switch v {
			case "ok":
				r.OK("R10.5", key, w.InstrPos(st), why)
			case "bad":
				r.Bad("R10.5", key, w.InstrPos(st), why)
			default:
				r.Unk("R10.5", key, w.InstrPos(st), why)
			}
		})
	}
	if n == 0 {
		r.Unk("R10.5", "level-1 bindings", "-", "no store of a level-1 binding found in package solver")
	}
}

func ruleR10_1_3(w *World, r *Report) {
	r.Rule("R10.1", "in Solver.Assume a freshly allocated flag table is stored into assumptions and the trail is emptied before the loop that installs the new literals", 1)
	r.Rule("R10.2", "in Solver.Assume the status is set to Indet before propagation; any other status stored is Unsat and only under a propagation conflict", 1)
	r.Rule("R10.3", "in Solver.Assume each installed literal gets a binding, an assumption flag and a trail entry, and propagate(0, 1) is called after the install loop on every path to return", 1)
	fn := w.Func("solver", "Solver.Assume")
	if fn == nil {
		for _, id := range []string{"R10.1", "R10.2", "R10.3"} {
			r.Unk(id, "solver.(*Solver).Assume", "-", "method not found")
		}
		return
	}
	name := w.FuncName(fn)
	lits := fn.Params[1]
	// the binding loops may live in helper methods called by Assume (`s.bindFacts()`, `s.bindAssumptions(lits)`):
	// what happens in a helper is ordered, inside Assume, at the helper's call site
	helperSite := assumeHelpers(w, fn)
	proxy := func(ins ssa.Instruction) ssa.Instruction {
		if ins.Parent() == fn {
			return ins
		}
		if c, ok := helperSite[ins.Parent()]; ok {
			return c
		}
		return ins
	}
	// the list a literal is taken from, seen from Assume: a helper's parameter stands for the argument at its call site
	listInAssume := func(g *ssa.Function, sl ssa.Value) ssa.Value {
		if g == fn {
			return sl
		}
		if p, ok := sl.(*ssa.Parameter); ok {
			if c, okc := helperSite[g]; okc {
				if pi := paramIndex(g, p); pi >= 0 && pi < len(c.Call.Args) {
					return c.Call.Args[pi]
				}
			}
		}
		return sl
	}
	scope := []*ssa.Function{fn}
	for g := range helperSite {
		scope = append(scope, g)
	}
	sort.Slice(scope, func(i, j int) bool { return w.FuncName(scope[i]) < w.FuncName(scope[j]) })
	// install sites: stores of true into assumptions[...]
	var flagStores []*ssa.Store
	for _, g := range scope {
		allInstrs(g, func(ins ssa.Instruction) {
			st, ok := ins.(*ssa.Store)
			if !ok {
				return
			}
			ia, ok := st.Addr.(*ssa.IndexAddr)
			if !ok {
				return
			}
			if _, ok := isFieldLoad(ia.X, "solver.Solver", "assumptions"); ok {
				flagStores = append(flagStores, st)
			}
		})
	}
	// R10.1
	{
		var bad []string
		var fresh, reset *ssa.Store
		for _, st := range storesToField(fn, "solver.Solver", "assumptions") {
			if mk, ok := st.Val.(*ssa.MakeSlice); ok && countMultiple(mk.Len) == 1 {
				fresh = st
			}
		}
		for _, st := range storesToField(fn, "solver.Solver", "trail") {
			if sl, ok := st.Val.(*ssa.Slice); ok && sl.High != nil {
				if hi, ok := constInt(sl.High); ok && hi == 0 {
					reset = st
				}
			}
		}
		if fresh == nil {
			bad = append(bad, "assumptions is not re-created with one fresh flag per variable: flags of the previous round survive and conflict analysis treats stale variables as assumed")
		}
		if reset == nil {
			bad = append(bad, "the trail is not emptied: literals of the previous round stay on the trail")
		}
		if len(flagStores) == 0 {
			bad = append(bad, "no literal is flagged as assumed")
		}
		for _, fs := range flagStores {
			if fresh != nil && !instrDominates(fresh, proxy(fs)) {
				bad = append(bad, "a flag is set at "+w.InstrPos(fs)+" before the table is re-created")
			}
			if reset != nil && !instrDominates(reset, proxy(fs)) {
				bad = append(bad, "a literal is installed at "+w.InstrPos(fs)+" before the trail is emptied")
			}
		}
		if len(bad) > 0 {
			r.Bad("R10.1", name+" retracts the previous round", w.Pos(fn.Pos()), strings.Join(dedupe(bad), "; "))
		} else {
			r.OK("R10.1", name+" retracts the previous round", w.InstrPos(fresh), "fresh flags and trail reset dominate the install loop")
		}
	}
	// propagate call: callee returning *Clause with (int, decLevel) params, args const 0 and const 1
	var prop *ssa.Call
	var propAny *ssa.Call
	for _, ci := range callsIn(fn) {
		c, ok := ci.(*ssa.Call)
		if !ok || len(w.Callees[c]) != 1 {
			continue
		}
		callee := w.Callees[c][0]
		ps := callee.Signature.Params()
		if callee.Signature.Results().Len() == 1 && typeShort(callee.Signature.Results().At(0).Type()) == "*solver.Clause" &&
			ps.Len() == 2 && typeShort(ps.At(0).Type()) == "int" && typeShort(ps.At(1).Type()) == "solver.decLevel" {
			propAny = c
			a := c.Call.Args
			p0, ok0 := constInt(a[len(a)-2])
			p1, ok1 := constInt(a[len(a)-1])
			if ok0 && ok1 && p0 == 0 && p1 == 1 {
				prop = c
			}
		}
	}
	// refuted: Unsat stores made because a literal of the parameter is already false when it is to be installed (it
	// contradicts a unit clause of the problem or an earlier literal of the same list): the round is over.
	var refuted []ssa.Instruction
	unsatK, _ := w.statusConst("Unsat")
	// helperRefutes: every `return false` of the helper is under an already-false test of an element of a literal list
	helperRefutes := func(g *ssa.Function) bool {
		if g.Signature.Results().Len() != 1 || typeShort(g.Signature.Results().At(0).Type()) != "bool" {
			return false
		}
		ok, any := true, false
		allInstrs(g, func(ins ssa.Instruction) {
			ret, isRet := ins.(*ssa.Return)
			if !isRet || len(ret.Results) != 1 {
				return
			}
			k, isK := ret.Results[0].(*ssa.Const)
			if !isK || k.Value == nil {
				ok = false
				return
			}
			if k.Value.String() != "false" {
				return
			}
			any = true
			just := false
			for _, ec := range dominatingConds(ret.Block()) {
				bo, isB := ec.Cond.(*ssa.BinOp)
				if !isB || bo.Op != token.EQL || !ec.True {
					continue
				}
				if kk, isKK := constInt(bo.Y); !isKK || kk != unsatK {
					continue
				}
				if c, isC := bo.X.(*ssa.Call); isC && typeShort(c.Type()) == "solver.Status" {
					for _, a := range c.Call.Args {
						if _, _, isE := elemOfSlice(a); isE {
							just = true
						}
					}
				}
			}
			if !just {
				ok = false
			}
		})
		return ok && any
	}
	alreadyFalse := func(b *ssa.BasicBlock) bool {
		// every edge into the block reports that a binding helper failed on an already false literal
		if len(b.Preds) > 0 {
			all := true
			for _, p := range b.Preds {
				iff, isIf := p.Instrs[len(p.Instrs)-1].(*ssa.If)
				if !isIf {
					all = false
					break
				}
				cond, pol := iff.Cond, p.Succs[0] == b
				for {
					u, isU := cond.(*ssa.UnOp)
					if !isU || u.Op != token.NOT {
						break
					}
					cond, pol = u.X, !pol
				}
				c, isC := cond.(*ssa.Call)
				if !isC || pol {
					all = false
					break
				}
				g := c.Call.StaticCallee()
				if g == nil || helperSite[g] == nil || !helperRefutes(g) {
					all = false
					break
				}
			}
			if all {
				return true
			}
		}
		for _, ec := range dominatingConds(b) {
			bo, ok := ec.Cond.(*ssa.BinOp)
			if !ok || bo.Op != token.EQL || !ec.True {
				continue
			}
			if k, ok := constInt(bo.Y); !ok || k != unsatK {
				continue
			}
			c, ok := bo.X.(*ssa.Call)
			if !ok || typeShort(c.Type()) != "solver.Status" {
				continue
			}
			for _, a := range c.Call.Args {
				if sl, _, ok := elemOfSlice(a); ok {
					if sl == ssa.Value(lits) {
						return true
					}
					// a recorded unit clause found false while being re-installed: two unit clauses contradict each other
					if _, isFacts := isFieldLoad(sl, "solver.Solver", "facts"); isFacts {
						return true
					}
				}
			}
		}
		return false
	}
	// R10.2
	{
		var bad []string
		indet, _ := w.statusConst("Indet")
		unsat, _ := w.statusConst("Unsat")
		var reset ssa.Instruction
		// the places where the status is set: stores in the function, and calls of a local function literal that
		// stores a constant into it (`fail := func() Status { s.status = Unsat; return s.status }`)
		type statusSet struct {
			at  ssa.Instruction
			val ssa.Value
		}
		var sets []statusSet
		for _, st := range storesToField(fn, "solver.Solver", "status") {
			sets = append(sets, statusSet{st, st.Val})
		}
		for _, ci := range callsIn(fn) {
			cl := closureOfCall(fn, ci)
			if cl == nil {
				continue
			}
			for _, st := range storesToField(cl, "solver.Solver", "status") {
				sets = append(sets, statusSet{ci, st.Val})
			}
		}
		for _, ss := range sets {
			st := ss.at
			v, ok := constInt(ss.val)
			switch {
			case ok && v == indet:
				reset = st
			case ok && v == unsat:
				// must be under conflict: dominated by `propagate(...) != nil` true edge
				okc := false
				for _, ec := range dominatingConds(st.Block()) {
					if bo, ok := ec.Cond.(*ssa.BinOp); ok && bo.Op == token.NEQ && ec.True {
						if (bo.X == ssa.Value(propAny) && isNilConst(bo.Y)) || (bo.Y == ssa.Value(propAny) && isNilConst(bo.X)) {
							okc = true
						}
					}
				}
				if !okc && alreadyFalse(st.Block()) {
					okc = true
					refuted = append(refuted, st)
				}
				if !okc {
					bad = append(bad, "Unsat is stored at "+w.InstrPos(st)+" without a propagation conflict and without the literal being installed having been found false")
				}
			default:
				bad = append(bad, "a status other than Indet/Unsat is stored at "+w.InstrPos(st))
			}
		}
		if reset == nil {
			bad = append(bad, "the status is not reset to Indet: an Unsat answer of the previous round sticks (Solve returns at once on Unsat)")
		} else {
			if propAny != nil && !instrDominates(reset, propAny) {
				bad = append(bad, "the status is reset after propagation, overwriting a conflict")
			}
			allInstrs(fn, func(ins ssa.Instruction) {
				if ret, ok := ins.(*ssa.Return); ok && !instrDominates(reset, ret) {
					bad = append(bad, "return at "+w.InstrPos(ret)+" without status reset")
				}
			})
		}
		// returns must return the status field (or the constants just stored)
		if len(bad) > 0 {
			r.Bad("R10.2", name+" resets the status", w.Pos(fn.Pos()), strings.Join(dedupe(bad), "; "))
		} else {
			r.OK("R10.2", name+" resets the status", w.InstrPos(reset), "Indet stored before propagation; Unsat only under a conflict")
		}
	}
	// R10.3
	{
		var bad []string
		if prop == nil {
			if propAny != nil {
				bad = append(bad, "propagation does not start at trail position 0 with level 1: assumptions earlier on the trail are never propagated")
			} else {
				bad = append(bad, "the installed assumptions are never propagated")
			}
		} else {
			allInstrs(fn, func(ins ssa.Instruction) {
				if ret, ok := ins.(*ssa.Return); ok && !instrDominates(prop, ret) {
					for _, rs := range refuted {
						if instrDominates(rs, ret) {
							return // Unsat because an assumption is already false: nothing to propagate
						}
					}
					bad = append(bad, "return at "+w.InstrPos(ret)+" can be reached without propagating")
				}
			})
			for _, fs := range flagStores {
				if !instrReachableFrom(proxy(fs), prop) || instrReachableFrom(prop, proxy(fs)) {
					bad = append(bad, "propagation does not come after the install loop")
				}
			}
		}
		// triple per literal: in the block of each flag store: a binding (call with the literal that writes model, or
		// a model store) and a trail append of the same literal
		eff := w.effects()
		for _, fs := range flagStores {
			b := fs.Block()
			ia := fs.Addr.(*ssa.IndexAddr)
			// literal: index = convert(Var(lit)) ; find the Lit value
			var lit ssa.Value
			idx := ia.Index
			if c, ok := idx.(*ssa.Convert); ok {
				idx = c.X
			}
			if c, ok := idx.(*ssa.Call); ok && len(c.Call.Args) == 1 && typeShort(c.Call.Args[0].Type()) == "solver.Lit" {
				lit = c.Call.Args[0]
			}
			if lit == nil {
				bad = append(bad, "cannot identify the literal flagged at "+w.InstrPos(fs))
				continue
			}
			if k, ok := fs.Val.(*ssa.Const); !ok || k.Value == nil || k.Value.String() != "true" {
				bad = append(bad, "the flag stored at "+w.InstrPos(fs)+" is not true")
			}
			bound, trailed := false, false
			for _, ins := range b.Instrs {
				switch x := ins.(type) {
				case *ssa.Call:
					for _, c := range w.Callees[x] {
						for _, a := range x.Call.Args {
							if a == lit && eff.WritesAny(c, "solver.Solver.model") {
								bound = true
							}
						}
					}
				case *ssa.Store:
					if l, ok := level1Binding(x); ok && l == lit {
						bound = true
					}
					if qualField(x.Addr) == "solver.Solver.trail" {
						if c, ok := x.Val.(*ssa.Call); ok {
							if e := appendedElem(c); e == lit {
								trailed = true
							}
						}
					}
				}
			}
			if !bound {
				bad = append(bad, "the literal flagged at "+w.InstrPos(fs)+" is not bound in the model")
			}
			// the binding overwrites whatever the variable held: the literal must have been found not false first, in
			// the same iteration (a test made in an earlier loop sees only the facts, not the assumptions bound since)
			// the binding call may sit in an earlier block than the flag store: the test must dominate it too
			testAt := b
			for _, ci := range callsIn(fs.Parent()) {
				c, isC := ci.(*ssa.Call)
				if !isC {
					continue
				}
				for _, callee := range w.Callees[c] {
					for _, a := range c.Call.Args {
						if a == lit && eff.WritesAny(callee, "solver.Solver.model") && c.Block().Dominates(testAt) {
							testAt = c.Block()
						}
					}
				}
			}
			tested := false
			for _, ec := range dominatingConds(testAt) {
				bo, ok := ec.Cond.(*ssa.BinOp)
				if !ok || (bo.Op != token.EQL && bo.Op != token.NEQ) {
					continue
				}
				if k, ok := constInt(bo.Y); !ok || k != unsatK {
					continue
				}
				c, ok := bo.X.(*ssa.Call)
				if !ok || typeShort(c.Type()) != "solver.Status" {
					continue
				}
				same := false
				for _, a := range c.Call.Args {
					if a == lit {
						same = true
					}
				}
				if same && ec.True == (bo.Op == token.NEQ) {
					tested = true
				}
			}
			if !tested {
				bad = append(bad, "the literal flagged at "+w.InstrPos(fs)+" is bound without having been found not false in the same iteration: an assumption opposite to a unit clause or to an earlier assumption of the list overwrites that binding instead of making the round Unsat")
			}
			if !trailed {
				bad = append(bad, "the literal flagged at "+w.InstrPos(fs)+" is not pushed on the trail, so it is never propagated")
			}
			// it must be an element of the lits parameter
			if u, ok := lit.(*ssa.UnOp); !ok || u.Op != token.MUL {
				bad = append(bad, "the installed literal is not an element of the parameter")
			} else if ia2, ok := u.X.(*ssa.IndexAddr); !ok || listInAssume(fs.Parent(), ia2.X) != ssa.Value(lits) {
				bad = append(bad, "the installed literal is not an element of the parameter")
			}
		}
		if len(bad) > 0 {
			r.Bad("R10.3", name+" installs and propagates", w.Pos(fn.Pos()), strings.Join(dedupe(bad), "; "))
		} else {
			r.OK("R10.3", name+" installs and propagates", w.InstrPos(prop), fmt.Sprintf("%d install site(s), each with binding, flag and trail entry; propagate(0, 1) dominates every return", len(flagStores)))
		}
	}
}

// R10.6: clause learning under assumptions never decides by "bound at level 1".
//
// Level 1 holds unit clauses of the problem, assumptions and everything propagated from them. A literal false at level 1
// is therefore not false in every round; a learned clause from which it was dropped is valid only under the current
// assumptions, and survives them. The analyser that consults the assumption flags (and what it calls) may compare a
// binding's level with the conflict level it was given, never with the constant level 1.
func ruleR10_6(w *World, r *Report) {
	r.Rule("R10.6", "in the conflict analyser that consults the assumption flags, and in the functions it calls, no test compares the level of a binding with the constant top level: literals bound at level 1 stay in learned clauses (they may depend on assumptions)", 1)
	var roots []*ssa.Function
	for _, an := range conflictAnalysers(w) {
		reads := false
		allInstrs(an, func(ins ssa.Instruction) {
			if u, ok := ins.(*ssa.UnOp); ok && u.Op == token.MUL {
				if o, f, _, ok := fieldOf(u.X); ok && o == "solver.Solver" && f == "assumptions" {
					reads = true
				}
			}
		})
		if reads {
			roots = append(roots, an)
		}
	}
	if len(roots) == 0 {
		r.Unk("R10.6", "assumption-aware analyser", "-", "no conflict analyser reads Solver.assumptions")
		return
	}
	isLevel := func(v ssa.Value) bool {
		for i := 0; i < 4; i++ {
			switch x := v.(type) {
			case *ssa.Convert:
				v = x.X
				continue
			case *ssa.Call:
				if len(x.Call.Args) == 1 && typeShort(x.Type()) == "solver.decLevel" {
					v = x.Call.Args[0]
					continue
				}
			case *ssa.UnOp:
				if x.Op == token.MUL {
					if ia, ok := x.X.(*ssa.IndexAddr); ok {
						if _, ok := isFieldLoad(ia.X, "solver.Solver", "model"); ok {
							return true
						}
					}
				}
				if x.Op == token.SUB {
					v = x.X
					continue
				}
			}
			break
		}
		return false
	}
	for _, root := range roots {
		reach := w.Reachable(root)
		var fns []*ssa.Function
		for fn := range reach {
			if w.PkgName(fn) == "solver" {
				fns = append(fns, fn)
			}
		}
		var bad []string
		nTests := 0
		for _, fn := range fns {
			allInstrs(fn, func(ins ssa.Instruction) {
				bo, ok := ins.(*ssa.BinOp)
				if !ok {
					return
				}
				switch bo.Op {
				case token.EQL, token.NEQ, token.LSS, token.LEQ, token.GTR, token.GEQ:
				default:
					return
				}
				for _, pair := range [][2]ssa.Value{{bo.X, bo.Y}, {bo.Y, bo.X}} {
					if !isLevel(pair[0]) {
						continue
					}
					nTests++
					if k, ok := constInt(pair[1]); ok && (k == 1 || k == 2 || k == -1 || k == -2) {
						bad = append(bad, w.InstrPos(bo))
					}
				}
			})
		}
		key := w.FuncName(root) + " never tests for the top level"
		if len(bad) > 0 {
			r.Bad("R10.6", key, bad[0], "a binding's level is compared with the constant top level at "+strings.Join(sortedStrings(bad), ", ")+": literals bound at level 1 include assumptions and their consequences; a learned clause that leaves them out is kept in later rounds where they no longer hold")
		} else {
			r.OK("R10.6", key, w.Pos(root.Pos()), fmt.Sprintf("%d function(s), %d level test(s), none against a constant level", len(fns), nTests))
		}
	}
}

// closureOfCall: the function literal of fn that call ci calls (the literal is bound to a local variable of fn).
func closureOfCall(fn *ssa.Function, ci ssa.CallInstruction) *ssa.Function {
	v := ci.Common().Value
	if ld, ok := v.(*ssa.UnOp); ok && ld.Op == token.MUL {
		// a captured / spilled local holding the literal
		if al, ok := ld.X.(*ssa.Alloc); ok {
			for _, ref := range *al.Referrers() {
				if st, ok := ref.(*ssa.Store); ok && st.Addr == ssa.Value(al) {
					v = st.Val
				}
			}
		}
	}
	mc, ok := v.(*ssa.MakeClosure)
	if !ok {
		return nil
	}
	f, _ := mc.Fn.(*ssa.Function)
	if f == nil || f.Parent() != fn {
		return nil
	}
	return f
}
