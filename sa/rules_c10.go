package main

import (
	"fmt"
	"go/token"
	"strings"

	"golang.org/x/tools/go/ssa"
)

func init() {
	register(&property{
		ID:          "C10",
		Explanation: "the round protocol of Solver.Assume: (R10.1) the assumption flags are re-created and the trail is reset before any new literal is installed, (R10.2) the status is reset to Indet before propagation and the only other status stored is Unsat under a conflict, (R10.3) every installed literal gets binding + flag + trail entry, and propagation from trail position 0 at level 1 lies on every path to return, (R10.4) top-level (level 1) bindings - where the parser put the problem's unit clauses - are never retracted wholesale.",
		NotDecided:  "that each round answers Sat exactly when problem and assumptions are jointly satisfiable (depends on the search and on conflict analysis under assumptions).",
		Rules:       []ruleFn{ruleR10_1_3, ruleR10_4},
	})
}

// levelCleaner: the method of Solver with a single decLevel parameter that zeroes model entries.
func levelCleaner(w *World) *ssa.Function {
	var out *ssa.Function
	for _, fn := range w.Fns {
		if w.PkgName(fn) != "solver" || fn.Signature.Recv() == nil || fn.Signature.Params().Len() != 1 ||
			typeShort(fn.Signature.Params().At(0).Type()) != "solver.decLevel" {
			continue
		}
		zeroes := false
		allInstrs(fn, func(ins ssa.Instruction) {
			st, ok := ins.(*ssa.Store)
			if !ok {
				return
			}
			ia, ok := st.Addr.(*ssa.IndexAddr)
			if !ok {
				return
			}
			if _, ok := isFieldLoad(ia.X, "solver.Solver", "model"); ok {
				if v, ok := constInt(st.Val); ok && v == 0 {
					zeroes = true
				}
			}
		})
		if zeroes {
			if out != nil {
				return nil
			}
			out = fn
		}
	}
	return out
}

func ruleR10_4(w *World, r *Report) {
	r.Rule("R10.4", "the function that retracts bindings above a decision level is never called with a constant level below 1: level 1 holds the problem's unit clauses, which exist nowhere else", 5)
	cl := levelCleaner(w)
	if cl == nil {
		r.Unk("R10.4", "level cleaner", "-", "no unique method of Solver with a decLevel parameter that zeroes model entries")
		return
	}
	counts := map[string]int{}
	for _, fn := range w.LibFns() {
		for _, ci := range callsIn(fn) {
			if !w.staticCalleeIs(ci, cl) {
				continue
			}
			args := ci.Common().Args
			lvl := args[len(args)-1]
			counts[w.FuncName(fn)]++
			key := fmt.Sprintf("%s call #%d of %s", w.FuncName(fn), counts[w.FuncName(fn)], w.FuncName(cl))
			if v, ok := constInt(lvl); ok {
				r.Check(v >= 1, "R10.4", key, w.InstrPos(ci), fmt.Sprintf("constant level %d", v),
					fmt.Sprintf("bindings above level %d are retracted: this unbinds the level-1 facts (unit clauses removed from the clause set by the parser, learned units), so a later answer can contradict a unit clause of the problem", v))
			} else {
				r.OK("R10.4", key, w.InstrPos(ci), "backjump level computed at run time (not bounded by this rule)")
			}
		}
	}
}

func ruleR10_1_3(w *World, r *Report) {
	r.Rule("R10.1", "in Solver.Assume a freshly allocated flag table is stored into assumptions and the trail is emptied before the loop that installs the new literals", 1)
	r.Rule("R10.2", "in Solver.Assume the status is set to Indet before propagation; any other status stored is Unsat and only under a propagation conflict", 1)
	r.Rule("R10.3", "in Solver.Assume each installed literal gets a binding, an assumption flag and a trail entry, and propagate(0, 1) is called after the install loop on every path to return", 1)
	fn := w.Func("solver", "Solver.Assume")
	if fn == nil {
		for _, id := range []string{"R10.1", "R10.2", "R10.3"} {
			r.Unk(id, "solver.(*Solver).Assume", "-", "method not found")
		}
		return
	}
	name := w.FuncName(fn)
	lits := fn.Params[1]
	// install sites: stores of true into assumptions[...]
	var flagStores []*ssa.Store
	allInstrs(fn, func(ins ssa.Instruction) {
		st, ok := ins.(*ssa.Store)
		if !ok {
			return
		}
		ia, ok := st.Addr.(*ssa.IndexAddr)
		if !ok {
			return
		}
		if _, ok := isFieldLoad(ia.X, "solver.Solver", "assumptions"); ok {
			flagStores = append(flagStores, st)
		}
	})
	// R10.1
	{
		var bad []string
		var fresh, reset *ssa.Store
		for _, st := range storesToField(fn, "solver.Solver", "assumptions") {
			if mk, ok := st.Val.(*ssa.MakeSlice); ok && countMultiple(mk.Len) == 1 {
				fresh = st
			}
		}
		for _, st := range storesToField(fn, "solver.Solver", "trail") {
			if sl, ok := st.Val.(*ssa.Slice); ok && sl.High != nil {
				if hi, ok := constInt(sl.High); ok && hi == 0 {
					reset = st
				}
			}
		}
		if fresh == nil {
			bad = append(bad, "assumptions is not re-created with one fresh flag per variable: flags of the previous round survive and conflict analysis treats stale variables as assumed")
		}
		if reset == nil {
			bad = append(bad, "the trail is not emptied: literals of the previous round stay on the trail")
		}
		if len(flagStores) == 0 {
			bad = append(bad, "no literal is flagged as assumed")
		}
		for _, fs := range flagStores {
			if fresh != nil && !instrDominates(fresh, fs) {
				bad = append(bad, "a flag is set at "+w.InstrPos(fs)+" before the table is re-created")
			}
			if reset != nil && !instrDominates(reset, fs) {
				bad = append(bad, "a literal is installed at "+w.InstrPos(fs)+" before the trail is emptied")
			}
		}
		if len(bad) > 0 {
			r.Bad("R10.1", name+" retracts the previous round", w.Pos(fn.Pos()), strings.Join(dedupe(bad), "; "))
		} else {
			r.OK("R10.1", name+" retracts the previous round", w.InstrPos(fresh), "fresh flags and trail reset dominate the install loop")
		}
	}
	// propagate call: callee returning *Clause with (int, decLevel) params, args const 0 and const 1
	var prop *ssa.Call
	var propAny *ssa.Call
	for _, ci := range callsIn(fn) {
		c, ok := ci.(*ssa.Call)
		if !ok || len(w.Callees[c]) != 1 {
			continue
		}
		callee := w.Callees[c][0]
		ps := callee.Signature.Params()
		if callee.Signature.Results().Len() == 1 && typeShort(callee.Signature.Results().At(0).Type()) == "*solver.Clause" &&
			ps.Len() == 2 && typeShort(ps.At(0).Type()) == "int" && typeShort(ps.At(1).Type()) == "solver.decLevel" {
			propAny = c
			a := c.Call.Args
			p0, ok0 := constInt(a[len(a)-2])
			p1, ok1 := constInt(a[len(a)-1])
			if ok0 && ok1 && p0 == 0 && p1 == 1 {
				prop = c
			}
		}
	}
	// R10.2
	{
		var bad []string
		indet, _ := w.statusConst("Indet")
		unsat, _ := w.statusConst("Unsat")
		var reset *ssa.Store
		for _, st := range storesToField(fn, "solver.Solver", "status") {
			v, ok := constInt(st.Val)
			switch {
			case ok && v == indet:
				reset = st
			case ok && v == unsat:
				// must be under conflict: dominated by `propagate(...) != nil` true edge
				okc := false
				for _, ec := range dominatingConds(st.Block()) {
					if bo, ok := ec.Cond.(*ssa.BinOp); ok && bo.Op == token.NEQ && ec.True {
						if (bo.X == ssa.Value(propAny) && isNilConst(bo.Y)) || (bo.Y == ssa.Value(propAny) && isNilConst(bo.X)) {
							okc = true
						}
					}
				}
				if !okc {
					bad = append(bad, "Unsat is stored at "+w.InstrPos(st)+" without a propagation conflict")
				}
			default:
				bad = append(bad, "a status other than Indet/Unsat is stored at "+w.InstrPos(st))
			}
		}
		if reset == nil {
			bad = append(bad, "the status is not reset to Indet: an Unsat answer of the previous round sticks (Solve returns at once on Unsat)")
		} else {
			if propAny != nil && !instrDominates(reset, propAny) {
				bad = append(bad, "the status is reset after propagation, overwriting a conflict")
			}
			allInstrs(fn, func(ins ssa.Instruction) {
				if ret, ok := ins.(*ssa.Return); ok && !instrDominates(reset, ret) {
					bad = append(bad, "return at "+w.InstrPos(ret)+" without status reset")
				}
			})
		}
		// returns must return the status field (or the constants just stored)
		if len(bad) > 0 {
			r.Bad("R10.2", name+" resets the status", w.Pos(fn.Pos()), strings.Join(dedupe(bad), "; "))
		} else {
			r.OK("R10.2", name+" resets the status", w.InstrPos(reset), "Indet stored before propagation; Unsat only under a conflict")
		}
	}
	// R10.3
	{
		var bad []string
		if prop == nil {
			if propAny != nil {
				bad = append(bad, "propagation does not start at trail position 0 with level 1: assumptions earlier on the trail are never propagated")
			} else {
				bad = append(bad, "the installed assumptions are never propagated")
			}
		} else {
			allInstrs(fn, func(ins ssa.Instruction) {
				if ret, ok := ins.(*ssa.Return); ok && !instrDominates(prop, ret) {
					bad = append(bad, "return at "+w.InstrPos(ret)+" can be reached without propagating")
				}
			})
			for _, fs := range flagStores {
				if !instrReachableFrom(fs, prop) || instrReachableFrom(prop, fs) {
					bad = append(bad, "propagation does not come after the install loop")
				}
			}
		}
		// triple per literal: in the block of each flag store: a binding (call with the literal that writes model, or
		// a model store) and a trail append of the same literal
		eff := w.effects()
		for _, fs := range flagStores {
			b := fs.Block()
			ia := fs.Addr.(*ssa.IndexAddr)
			// literal: index = convert(Var(lit)) ; find the Lit value
			var lit ssa.Value
			idx := ia.Index
			if c, ok := idx.(*ssa.Convert); ok {
				idx = c.X
			}
			if c, ok := idx.(*ssa.Call); ok && len(c.Call.Args) == 1 && typeShort(c.Call.Args[0].Type()) == "solver.Lit" {
				lit = c.Call.Args[0]
			}
			if lit == nil {
				bad = append(bad, "cannot identify the literal flagged at "+w.InstrPos(fs))
				continue
			}
			if k, ok := fs.Val.(*ssa.Const); !ok || k.Value == nil || k.Value.String() != "true" {
				bad = append(bad, "the flag stored at "+w.InstrPos(fs)+" is not true")
			}
			bound, trailed := false, false
			for _, ins := range b.Instrs {
				switch x := ins.(type) {
				case *ssa.Call:
					for _, c := range w.Callees[x] {
						for _, a := range x.Call.Args {
							if a == lit && eff.WritesAny(c, "solver.Solver.model") {
								bound = true
							}
						}
					}
				case *ssa.Store:
					if qualField(x.Addr) == "solver.Solver.trail" {
						if c, ok := x.Val.(*ssa.Call); ok {
							if e := appendedElem(c); e == lit {
								trailed = true
							}
						}
					}
				}
			}
			if !bound {
				bad = append(bad, "the literal flagged at "+w.InstrPos(fs)+" is not bound in the model")
			}
			if !trailed {
				bad = append(bad, "the literal flagged at "+w.InstrPos(fs)+" is not pushed on the trail, so it is never propagated")
			}
			// it must be an element of the lits parameter
			if u, ok := lit.(*ssa.UnOp); !ok || u.Op != token.MUL {
				bad = append(bad, "the installed literal is not an element of the parameter")
			} else if ia2, ok := u.X.(*ssa.IndexAddr); !ok || ia2.X != ssa.Value(lits) {
				bad = append(bad, "the installed literal is not an element of the parameter")
			}
		}
		if len(bad) > 0 {
			r.Bad("R10.3", name+" installs and propagates", w.Pos(fn.Pos()), strings.Join(dedupe(bad), "; "))
		} else {
			r.OK("R10.3", name+" installs and propagates", w.InstrPos(prop), fmt.Sprintf("%d install site(s), each with binding, flag and trail entry; propagate(0, 1) dominates every return", len(flagStores)))
		}
	}
}
