package main

// Seeds written after the round-2 external mutants of C01 (see DESIGN.md section 9).
func init() {
	addSeeds(
		seed{Prop: "C01", Name: "chooselit-trail-length-shortcut", File: "solver/solver.go",
			Old: "func (s *Solver) chooseLit() Lit {\n\tv := Var(-1)\n", New: "func (s *Solver) chooseLit() Lit {\n\tif len(s.trail) >= s.nbVars {\n\t\treturn Lit(-1)\n\t}\n\tv := Var(-1)\n", Expect: "R1.9", Note: "external mutant C01-r2-m1"},
		seed{Prop: "C01", Name: "chooselit-gives-up-after-one-bound-var", File: "solver/solver.go",
			Old: "\tfor v == -1 && !s.varQueue.empty() {\n\t\tif v2 := Var(s.varQueue.removeMin()); s.model[v2] == 0 { // Ignore already bound vars\n\t\t\tv = v2\n\t\t}\n\t}\n",
			New: "\tif !s.varQueue.empty() {\n\t\tif v2 := Var(s.varQueue.removeMin()); s.model[v2] == 0 { // Ignore already bound vars\n\t\t\tv = v2\n\t\t}\n\t}\n", Expect: "R1.9"},
		seed{Prop: "C01", Name: "benign-chooselit-early-return-loop", File: "solver/solver.go",
			Old: "\tv := Var(-1)\n\tfor v == -1 && !s.varQueue.empty() {\n\t\tif v2 := Var(s.varQueue.removeMin()); s.model[v2] == 0 { // Ignore already bound vars\n\t\t\tv = v2\n\t\t}\n\t}\n\tif v == -1 {\n\t\treturn Lit(-1)\n\t}\n\ts.Stats.NbDecisions++\n\treturn v.SignedLit(!s.polarity[v])\n",
			New: "\tfor !s.varQueue.empty() {\n\t\tv := Var(s.varQueue.removeMin())\n\t\tif s.model[v] != 0 {\n\t\t\tcontinue\n\t\t}\n\t\ts.Stats.NbDecisions++\n\t\treturn v.SignedLit(!s.polarity[v])\n\t}\n\treturn Lit(-1)\n", Expect: ""},
		seed{Prop: "C01", Name: "dedup-drops-last-literal", File: "solver/problem.go",
			Old: "\t\t\t\t\tif lit2 == lit { // duplicate lit\n\t\t\t\t\t\tnbLits--\n\t\t\t\t\t\tc.Set(k, c.Get(nbLits))\n", New: "\t\t\t\t\tif lit2 == lit { // duplicate lit\n\t\t\t\t\t\tnbLits--\n", Expect: "R2.2", Note: "external mutant C01-r2-m3"},
		seed{Prop: "C02", Name: "false-literal-removal-drops-last", File: "solver/problem.go",
			Old: "\t\t\t\t\tclauseSat = true\n\t\t\t\t\tbreak\n\t\t\t\t} else {\n\t\t\t\t\tnbLits--\n\t\t\t\t\tc.Set(j, c.Get(nbLits))\n\t\t\t\t}\n\t\t\t}\n\t\t\tif clauseSat {\n\t\t\t\tnbClauses--",
			New: "\t\t\t\t\tclauseSat = true\n\t\t\t\t\tbreak\n\t\t\t\t} else {\n\t\t\t\t\tnbLits--\n\t\t\t\t}\n\t\t\t}\n\t\t\tif clauseSat {\n\t\t\t\tnbClauses--", Expect: "R2.2"},
		seed{Prop: "C02", Name: "false-literal-removal-moves-wrong-slot", File: "solver/problem.go",
			Old: "\t\t\t\t\tclauseSat = true\n\t\t\t\t\tbreak\n\t\t\t\t} else {\n\t\t\t\t\tnbLits--\n\t\t\t\t\tc.Set(j, c.Get(nbLits))\n\t\t\t\t}\n\t\t\t}\n\t\t\tif clauseSat {\n\t\t\t\tnbClauses--",
			New: "\t\t\t\t\tclauseSat = true\n\t\t\t\t\tbreak\n\t\t\t\t} else {\n\t\t\t\t\tc.Set(j, c.Get(nbLits))\n\t\t\t\t\tnbLits--\n\t\t\t\t}\n\t\t\t}\n\t\t\tif clauseSat {\n\t\t\t\tnbClauses--", Expect: "R2.2", Note: "reads one past the range (index out of range on a full clause) or moves a stale literal"},
		seed{Prop: "C01", Name: "empty-clause-in-dimacs-dropped", File: "solver/parser.go",
			Old: "\t\t\t\tif val == 0 {\n\t\t\t\t\tpb.Clauses = append(pb.Clauses, NewClause(lits))\n\t\t\t\t\tbreak\n",
			New: "\t\t\t\tif val == 0 {\n\t\t\t\t\tif len(lits) != 0 {\n\t\t\t\t\t\tpb.Clauses = append(pb.Clauses, NewClause(lits))\n\t\t\t\t\t}\n\t\t\t\t\tbreak\n", Expect: "R13.7", Note: "external mutant C01-r2-m2"},
		seed{Prop: "C06", Name: "minimize-skips-first-reason-literal", File: "solver/learn.go",
			Old: "\t\t\tfor k := 0; k < reason.Len(); k++ {\n\t\t\t\tlit := reason.Get(k)", New: "\t\t\tk := 0\n\t\t\tif reason.Learned() {\n\t\t\t\tk = 1\n\t\t\t}\n\t\t\tfor ; k < reason.Len(); k++ {\n\t\t\t\tlit := reason.Get(k)", Expect: "R1.10", Note: "external mutant C06-m1"},
		seed{Prop: "C01", Name: "conflict-scan-stops-one-short", File: "solver/learn.go",
			Old: "\tfor i := 0; i < confl.Len(); i++ {\n\t\tl := confl.Get(i)", New: "\tfor i := 0; i < confl.Len()-1; i++ {\n\t\tl := confl.Get(i)", Expect: "R1.10"},
		seed{Prop: "C06", Name: "restart-before-pending-literal-bound", File: "solver/solver.go",
			Old: "\t\tif conflict := s.unifyLiteral(lit, lvl); conflict == nil { // Pick new branch or restart\n\t\t\tif s.lbdStats.mustRestart() {\n\t\t\t\ts.lbdStats.clear()\n\t\t\t\ts.cleanupBindings(1)\n\t\t\t\treturn Indet\n\t\t\t}\n\t\t\tif s.Stats.NbConflicts >= s.wl.idxReduce*s.wl.nbMax {\n\t\t\t\ts.wl.idxReduce = s.Stats.NbConflicts/s.wl.nbMax + 1\n\t\t\t\ts.reduceLearned()",
			New: "\t\tif s.lbdStats.mustRestart() {\n\t\t\ts.lbdStats.clear()\n\t\t\ts.cleanupBindings(1)\n\t\t\treturn Indet\n\t\t}\n\t\tif conflict := s.unifyLiteral(lit, lvl); conflict == nil { // Pick new branch or restart\n\t\t\tif s.Stats.NbConflicts >= s.wl.idxReduce*s.wl.nbMax {\n\t\t\t\ts.wl.idxReduce = s.Stats.NbConflicts/s.wl.nbMax + 1\n\t\t\t\ts.reduceLearned()", Expect: "R1.11", Note: "external mutant C06-m2"},
		seed{Prop: "C14", Name: "pb-restart-before-pending-literal-bound", File: "solver/solver.go",
			Old: "\t\tif conflict := s.unifyLiteral(lit, lvl); conflict == nil { // Pick new branch or restart\n\t\t\tif s.Stats.NbConflicts >= s.lubyNextRestart {\n\t\t\t\ts.lubyNextRestart += int(lubyConstant * luby(uint(s.Stats.NbRestarts)+2))\n\t\t\t\ts.cleanupBindings(1)\n\t\t\t\treturn Indet\n\t\t\t}\n",
			New: "\t\tif s.Stats.NbConflicts >= s.lubyNextRestart {\n\t\t\ts.lubyNextRestart += int(lubyConstant * luby(uint(s.Stats.NbRestarts)+2))\n\t\t\ts.cleanupBindings(1)\n\t\t\treturn Indet\n\t\t}\n\t\tif conflict := s.unifyLiteral(lit, lvl); conflict == nil { // Pick new branch or restart\n", Expect: "R1.11"},
	)
}
