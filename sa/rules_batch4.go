package main

import (
	"fmt"
	"go/token"
	"go/types"
	"strings"

	"golang.org/x/tools/go/ssa"
)

// Rules added after the fourth round of externally written mutants (see DESIGN.md section 9).

// ---------- R2.6: fixpoint loops set their flag whenever they change what earlier steps looked at ----------

// A loop `for flag { flag = false; ... }` re-runs its body until nothing changes. Every trip of the body that calls
// something writing the facts earlier iterations consulted (the problem's Model / Units, a clause's literals or
// degree) must reach the next evaluation of the loop condition with the flag true.
func ruleR2_6(w *World, r *Report) {
	r.Rule("R2.6", "in the parse-time simplifiers' fixpoint loops (`for changed { changed = false; ... }`), every trip that binds a unit or rewrites a constraint comes back to the loop condition with the flag set", 3)
	eff := w.effects()
	changing := func(c *ssa.Function) bool {
		// binding a new top-level fact is what makes constraints examined earlier worth re-examining
		return eff.WritesAny(c, "solver.Problem.Model") || eff.WritesAny(c, "solver.Problem.Units")
	}
	n := 0
	for _, fn := range w.Fns {
		if w.PkgName(fn) != "solver" {
			continue
		}
		for _, h := range loopHeaders(fn) {
			iff, ok := h.Instrs[len(h.Instrs)-1].(*ssa.If)
			if !ok {
				continue
			}
			flag, ok := iff.Cond.(*ssa.Phi)
			if !ok || flag.Block() != h || typeShort(flag.Type()) != "bool" {
				continue
			}
			body := loopBlocks(fn, h)
			// a fixpoint flag: entry edge true
			entryTrue := false
			for i, e := range flag.Edges {
				if !body[h.Preds[i]] {
					if k, ok := e.(*ssa.Const); ok && k.Value != nil && k.Value.String() == "true" {
						entryTrue = true
					}
				}
			}
			if !entryTrue {
				continue
			}
			n++
			key := fmt.Sprintf("%s fixpoint loop #%d", w.FuncName(fn), n)
			missing := map[string]bool{}
			_, trunc := exploreEdges(h.Succs[0], &pstate{phi: map[*ssa.Phi]ssa.Value{}, facts: map[string]string{}, coarse: true},
				func(b *ssa.BasicBlock) bool { return b == h || !body[b] },
				func(ins ssa.Instruction, st *pstate) {
					if c, ok := ins.(*ssa.Call); ok {
						for _, callee := range w.Callees[c] {
							if changing(callee) {
								st.facts["changed"] = w.InstrPos(c)
							}
						}
					}
				},
				func(from, to *ssa.BasicBlock, st *pstate) {
					if to != h || st.facts["changed"] == "" {
						return
					}
					in := phiIncoming(flag, from, st)
					if k, ok := in.(*ssa.Const); ok && k.Value != nil && k.Value.String() == "true" {
						return
					}
					missing[st.facts["changed"]] = true
				})
			if trunc {
				r.Unk("R2.6", key, w.InstrPos(iff), "state space too large")
				continue
			}
			if len(missing) > 0 {
				var ps []string
				for p := range missing {
					ps = append(ps, p)
				}
				r.Bad("R2.6", key, w.InstrPos(iff), "a trip that binds a new unit (call at "+strings.Join(sortedStrings(ps), ", ")+") can return to the loop condition with the flag false: constraints examined before are not re-examined against the new fact, and the solver never propagates top-level facts into them")
			} else {
				r.OK("R2.6", key, w.InstrPos(iff), "every unit-binding trip sets the flag")
			}
		}
	}
	if n == 0 {
		r.Unk("R2.6", "fixpoint loops", "-", "no `for flag` loop found in package solver")
	}
}

// ---------- R19.6: the literal printed for model entry p is +-(p+1) ----------

// absolutePosition: linear form of the position, in the whole slice, of the element addressed by ia.
func absolutePosition(ia *ssa.IndexAddr) (linForm, ssa.Value) {
	pos := lfOf(ia.Index, 0)
	base := ia.X
	for i := 0; i < 6; i++ {
		sl, ok := base.(*ssa.Slice)
		if !ok {
			break
		}
		if sl.Low != nil {
			pos = lfAdd(pos, lfOf(sl.Low, 0), 1)
		}
		base = sl.X
	}
	return pos, base
}

func ruleR19_6(w *World, r *Report) {
	r.Rule("R19.6", "in the result printers of the command, the number printed for the model entry at position p (counted in the whole model) is p+1, negated (or prefixed with '-') exactly when the entry is false", 2)
	one := linForm{c: 1, terms: map[string]int64{}}
	n := 0
	for _, fn := range w.Fns {
		if w.PkgName(fn) != "main" {
			continue
		}
		// tests of a model entry: If on (not) load(IndexAddr(X, idx)) where the root of X is the Model field of a Result
		allInstrs(fn, func(ins ssa.Instruction) {
			iff, ok := ins.(*ssa.If)
			if !ok {
				return
			}
			c := iff.Cond
			if u, ok := c.(*ssa.UnOp); ok && u.Op == token.NOT {
				c = u.X
			}
			ld, ok := c.(*ssa.UnOp)
			if !ok || ld.Op != token.MUL {
				return
			}
			ia, ok := ld.X.(*ssa.IndexAddr)
			if !ok {
				return
			}
			pos, base := absolutePosition(ia)
			if _, isModel := isFieldLoad(base, "solver.Result", "Model"); !isModel {
				// a local alias of the (re-sliced) model
				if _, isSlice := base.Type().Underlying().(*types.Slice); !isSlice || typeShort(base.Type()) != "[]bool" {
					return
				}
			}
			want := lfAdd(pos, one, 1)
			// numbers printed in the region controlled by this test: integer arguments of Printf/Sprintf with %d
			region := map[*ssa.BasicBlock]bool{}
			for _, b := range fn.Blocks {
				if iff.Block().Dominates(b) && b != iff.Block() {
					region[b] = true
				}
			}
			for b := range region {
				for _, i2 := range b.Instrs {
					call, ok := i2.(*ssa.Call)
					if !ok {
						continue
					}
					name := w.calleeName(&call.Call)
					if name != "fmt.Printf" && name != "fmt.Sprintf" {
						continue
					}
					format, args, ok := printfArgs(&call.Call)
					if !ok || !strings.Contains(format, "%d") {
						continue
					}
					// only prints inside the same loop iteration
					sameLoop := false
					for _, h := range loopHeaders(fn) {
						lb := loopBlocks(fn, h)
						if lb[iff.Block()] && lb[call.Block()] {
							sameLoop = true
						}
					}
					if !sameLoop {
						continue
					}
					for _, a := range args {
						if typeShort(a.Type()) != "int" {
							continue
						}
						n++
						key := fmt.Sprintf("%s model entry number #%d", w.FuncName(fn), n)
						var forms []linForm
						if phi, ok := a.(*ssa.Phi); ok {
							for _, e := range phi.Edges {
								forms = append(forms, lfOf(e, 0))
							}
						} else {
							forms = append(forms, lfOf(a, 0))
						}
						okAll := true
						for _, f := range forms {
							if !f.equal(want) && !f.equal(lfScale(want, -1)) {
								okAll = false
							}
						}
						r.Check(okAll, "R19.6", key, w.InstrPos(call), "printed as position+1 (or its negation)",
							fmt.Sprintf("the number printed (%s) is not the position of the tested entry in the whole model plus one (%s): values are attributed to the wrong variables", forms[0].String(), want.String()))
					}
				}
			}
		})
	}
	if n == 0 {
		r.Unk("R19.6", "model printers", "-", "no print of a model entry number found in package main")
	}
}

// ---------- R19.7: every option reaches the solver that is actually started ----------

func ruleR19_7(w *World, r *Report) {
	r.Rule("R19.7", "in the command's solve pipeline, every option stored into a solver (Certified, CuttingPlanes, Verbose) is stored into each solver value that can be the one whose Optimal is started", 1)
	n := 0
	for _, fn := range w.Fns {
		if w.PkgName(fn) != "main" {
			continue
		}
		for _, ci := range callsIn(fn) {
			var g ssa.Instruction
			var recv ssa.Value
			if gg, ok := ci.(*ssa.Go); ok && len(gg.Call.Args) > 0 && typeShort(gg.Call.Args[0].Type()) == "*solver.Solver" {
				g, recv = gg, gg.Call.Args[0]
			} else if c, ok := ci.(*ssa.Call); ok {
				// the method value of a solver handed to a starter of package main (`startOptimal(s.Optimal)`) that runs
				// it with `go`
				h := c.Call.StaticCallee()
				if h == nil || w.PkgName(h) != "main" {
					continue
				}
				for ai, a := range c.Call.Args {
					mc, isMC := a.(*ssa.MakeClosure)
					if !isMC || len(mc.Bindings) != 1 || typeShort(mc.Bindings[0].Type()) != "*solver.Solver" || ai >= len(h.Params) {
						continue
					}
					started := false
					for _, hi := range callsIn(h) {
						if hg, isGo := hi.(*ssa.Go); isGo && hg.Call.Value == ssa.Value(h.Params[ai]) {
							started = true
						}
					}
					if started {
						g, recv = c, mc.Bindings[0]
					}
				}
			}
			if g == nil {
				continue
			}
			// origins of the receiver: look through phis and single-assignment cells
			var origins []ssa.Value
			seen := map[ssa.Value]bool{}
			var walk func(v ssa.Value)
			walk = func(v ssa.Value) {
				if seen[v] {
					return
				}
				seen[v] = true
				switch x := v.(type) {
				case *ssa.Phi:
					for _, e := range x.Edges {
						walk(e)
					}
				case *ssa.UnOp:
					if al, ok := x.X.(*ssa.Alloc); ok && x.Op == token.MUL {
						for _, ref := range *al.Referrers() {
							if st, ok := ref.(*ssa.Store); ok && st.Addr == ssa.Value(al) {
								walk(st.Val)
							}
						}
						return
					}
					origins = append(origins, v)
				default:
					origins = append(origins, v)
				}
			}
			walk(recv)
			// option stores: field of a *solver.Solver value -> which values they are made on
			type optStore struct {
				field string
				on    ssa.Value
				st    *ssa.Store
			}
			var stores []optStore
			allInstrs(fn, func(ins ssa.Instruction) {
				st, ok := ins.(*ssa.Store)
				if !ok {
					return
				}
				o, f, base, ok := fieldOf(st.Addr)
				if !ok || o != "solver.Solver" {
					return
				}
				if _, isConst := st.Val.(*ssa.Const); isConst {
					return // `if verbose { s.Verbose = true }`: a constant set on one path says nothing about the others
				}
				stores = append(stores, optStore{f, base, st})
			})
			fields := map[string]bool{}
			for _, s := range stores {
				fields[s.field] = true
			}
			// a store on value V covers origin O when V is O, or V is a phi / cell load through which O flows and the
			// store happens after O was assigned (dominates the go statement and is reachable from O's definition)
			covers := func(s optStore, o ssa.Value) bool {
				if s.on == o {
					return true
				}
				flows := false
				seen2 := map[ssa.Value]bool{}
				var w2 func(v ssa.Value)
				w2 = func(v ssa.Value) {
					if seen2[v] {
						return
					}
					seen2[v] = true
					if v == o {
						flows = true
						return
					}
					switch x := v.(type) {
					case *ssa.Phi:
						for _, e := range x.Edges {
							w2(e)
						}
					case *ssa.UnOp:
						if al, ok := x.X.(*ssa.Alloc); ok && x.Op == token.MUL {
							// the cell must hold o at the time of the store: the store of o into the cell reaches this load
							rs, _ := reachingStores(x, al, -1)
							for _, st := range rs {
								w2(st.Val)
							}
						}
					}
				}
				w2(s.on)
				return flows
			}
			for f := range fields {
				n++
				key := fmt.Sprintf("%s option %s reaches the started solver", w.FuncName(fn), f)
				var bad, late []string
				for _, o := range origins {
					oi, _ := o.(ssa.Instruction)
					okO := false
					for _, s := range stores {
						if s.field != f || !covers(s, o) {
							continue
						}
						if oi != nil && oi.Block() != nil && !instrReachableFrom(oi, s.st) && oi != ssa.Instruction(s.st) {
							continue
						}
						// the option must be in place when the solver starts: a store after the `go` races with the search
						if !instrDominates(s.st, g) && instrReachableFrom(g, s.st) {
							late = append(late, "the option "+f+" is stored at "+w.InstrPos(s.st)+", after the solver was started: the search may or may not see it")
							continue
						}
						// the store may be conditional (if verbose { s.Verbose = true }); what matters is that it exists for this origin
						okO = true
					}
					if !okO {
						pos := "-"
						if oi != nil {
							pos = w.InstrPos(oi)
						}
						bad = append(bad, "the solver created at "+pos+" can be the one that runs but never receives "+f)
					}
				}
				bad = append(bad, late...)
				if len(bad) > 0 {
					r.Bad("R19.7", key, w.InstrPos(g), strings.Join(dedupe(bad), "; ")+": the corresponding command-line flag is silently ignored on that path (e.g. no certificate although -certified was given)")
				} else {
					r.OK("R19.7", key, w.InstrPos(g), fmt.Sprintf("%d possible solver value(s), all configured", len(origins)))
				}
			}
		}
	}
	if n == 0 {
		r.Unk("R19.7", "solve pipeline", "-", "no `go <*solver.Solver>.Optimal(...)` with option stores found in package main")
	}
}
