package main

import (
	"fmt"
	"go/token"
	"go/types"
	"sort"
	"strconv"
	"strings"

	"golang.org/x/tools/go/ssa"
)

func init() {
	register(&property{
		ID: "C05",
		Explanation: "(a) solver.(*Solver).CountModels and solver.(*Solver).Enumerate perform the same blocking step: decisionLits, the split on len(lits) (0: status Unsat, 1: propagateUnits, otherwise NewClause + appendClause + backjump to abs(model[v])-1 + cleanupBindings + reason[v] = c + propagateAndSearch), the restart loop and the status stores agree fact by fact, with the same control contexts, outside the documented snapshot/delivery asymmetries, and both expand a partial model into the same 2^k count; " +
			"(b) every last-element access x[len(x)-1] reachable from the two entry points has evidence that x is not empty (so trivial problems do not panic there).",
		NotDecided: "exactness of the count (each model once and only once depends on the search history); store-and-watch of the blocking clause is R1.2, close-on-every-return and fresh-on-send are R20.1/R20.3; nothing is executed.",
		Rules:      []ruleFn{ruleR5_2, ruleR5_4, ruleR5_5, ruleR5_6, ruleR5_7, ruleR5_8, ruleR14_3, ruleR1_2, ruleR9_5, ruleR9_7, ruleR20_1_2, ruleR20_3, ruleR5_9, ruleR5_10},
		Fixtures:   []func(*World) []string{fixtureE7, fixtureR5_4},
	})
}

// The two helpers that turn one solver model into 2^k models: found by what they are (see countHelpers), the names
// are only the fallback.
var (
	fnAddCurrent   = "(*solver.Solver).addCurrentModels"
	fnCountCurrent = "(*solver.Solver).countCurrentModels"
)

// countHelpers finds, among the Solver methods Enumerate and CountModels call directly, the one that receives the
// models channel and returns a count, and the one without parameters that returns a count.
func countHelpers(w *World, enumerate, count *ssa.Function) (add, cnt *ssa.Function) {
	isSolverMethod := func(f *ssa.Function) bool {
		return f != nil && w.PkgName(f) == "solver" && f.Signature.Recv() != nil && typeShort(f.Signature.Recv().Type()) == "*solver.Solver" &&
			f.Signature.Results().Len() == 1 && typeShort(f.Signature.Results().At(0).Type()) == "int"
	}
	// (the call may sit in a function literal of Enumerate: `func() int { return s.addCurrentModels(models) }`)
	sites := callsIn(enumerate)
	for _, lit := range enumerate.AnonFuncs {
		sites = append(sites, callsIn(lit)...)
	}
	for _, ci := range sites {
		f := ci.Common().StaticCallee()
		if !isSolverMethod(f) || f.Signature.Params().Len() != 1 {
			continue
		}
		if _, isChan := f.Signature.Params().At(0).Type().Underlying().(*types.Chan); isChan {
			add = f
		}
	}
	for _, ci := range callsIn(count) {
		f := ci.Common().StaticCallee()
		if isSolverMethod(f) && f.Signature.Params().Len() == 0 && f != count && f != enumerate {
			cnt = f
		}
	}
	// one helper for both (it counts, and delivers unless handed a nil channel)
	if cnt == nil && add != nil {
		for _, ci := range callsIn(count) {
			if ci.Common().StaticCallee() == add && len(ci.Common().Args) == 2 && isNilConst(ci.Common().Args[1]) {
				cnt = add
			}
		}
	}
	return
}

// asymmetries of Enumerate ~ CountModels.
func asymEnumerateCount() []e7asym {
	return []e7asym{
		{Name: "model snapshot", Reason: "Enumerate copies Solver.model into a lastModel buffer of its own, CountModels lets lastModel alias Solver.model (it is read before the next search step writes model)",
			Match: func(f *e7fact) bool {
				if f.Kind == "store" && f.Name == "solver.Solver.lastModel" {
					return true
				}
				return f.Kind == "call" && f.Name == "builtin:copy" && len(f.Nodes) == 2 && e7isFieldLoad(f.Nodes[0], "solver.Solver.lastModel")
			}},
		{Name: "delivery of the models", Reason: "only Enumerate materialises and sends the models (addCurrentModels); its count is compared with countCurrentModels' separately and through the returned total",
			// (the counting helper reached through the delivering one is not delivery: it is compared like a direct call)
			Match: func(f *e7fact) bool {
				return f.viaHas(fnAddCurrent) && (fnCountCurrent == fnAddCurrent || !f.viaHas(fnCountCurrent))
			}},
	}
}

// R5.2: sibling agreement of Enumerate and CountModels.
func ruleR5_2(w *World, r *Report) {
	r.Rule("R5.2", "solver.(*Solver).Enumerate and solver.(*Solver).CountModels reduce to the same set of facts (blocking step, restart loop, status stores, returned total) outside the documented snapshot and delivery asymmetries; addCurrentModels and countCurrentModels compute the same 2^k", 15)
	a, b := w.Func("solver", "Solver.Enumerate"), w.Func("solver", "Solver.CountModels")
	if a == nil || b == nil {
		r.Unk("R5.2", "Enumerate~CountModels anchors", "-", "solver.(*Solver).Enumerate or solver.(*Solver).CountModels not found")
		return
	}
	asym := asymEnumerateCount()
	opts := e7opts{}
	add, cnt := countHelpers(w, a, b)
	if add != nil {
		fnAddCurrent = w.FuncName(add)
	}
	if cnt != nil {
		fnCountCurrent = w.FuncName(cnt)
	}
	if add != nil && cnt != nil {
		// both count helpers are expanded in both siblings, so that the returned totals compare by what is computed
		opts.ForceInline = []string{fnAddCurrent, fnCountCurrent}
	}
	// a helper private to the pair (an unexported method only the two call: the step they share, extracted) is
	// expanded in both, so that the comparison keeps speaking about what that step does
	for _, ci := range callsIn(a) {
		h := ci.Common().StaticCallee()
		if h == nil || !w.InModule(h) || h.Object() == nil || h.Object().Exported() || h.Parent() != nil || len(h.Blocks) == 0 {
			continue
		}
		private, calledByB := true, false
		for _, site := range w.Callers[h] {
			switch site.Parent() {
			case a:
			case b:
				calledByB = true
			default:
				private = false
			}
		}
		if private && calledByB {
			opts.ForceInline = append(opts.ForceInline, w.FuncName(h))
		}
	}
	res := e7Compare(w, a, b, opts, asym)
	e7Report(w, r, "R5.2", "Enumerate~CountModels", res, asym, w.Pos(a.Pos()))
	shared := 0
	for _, cd := range res.Cats {
		if cd.NA > 0 && cd.NB > 0 {
			shared++
		}
	}
	r.Check(shared >= 10, "R5.2", "Enumerate~CountModels shared core", w.Pos(a.Pos()),
		fmt.Sprintf("%d categories of facts occur in both functions", shared),
		fmt.Sprintf("only %d categories of facts occur in both functions: the two no longer share a computation the comparison could speak about", shared))

	// the 2^k expansion
	key := "addCurrentModels~countCurrentModels returned count"
	if add == nil || cnt == nil {
		// a refactoring may have merged them; then there is nothing to compare and the totals above speak for it
		r.OK("R5.2", key, w.Pos(a.Pos()), "the two count helpers no longer both exist; the returned totals are compared by the sibling facts")
		return
	}
	if add == cnt {
		r.OK("R5.2", key, w.Pos(add.Pos()), "one helper serves both functions; the returned totals are compared by the sibling facts")
		return
	}
	cres := e7Compare(w, add, cnt, e7opts{}, nil)
	var ra, rb []*e7fact
	for _, f := range cres.Facts[0] {
		if f.Kind == "return" {
			ra = append(ra, f)
		}
	}
	for _, f := range cres.Facts[1] {
		if f.Kind == "return" {
			rb = append(rb, f)
		}
	}
	switch {
	case len(cres.U.notes) > 0 || !cres.Converged:
		r.Unk("R5.2", key, w.Pos(add.Pos()), "engine: "+strings.Join(cres.U.notes, "; "))
	case len(ra) == 0 || len(rb) == 0:
		r.Unk("R5.2", key, w.Pos(add.Pos()), "one of the helpers has no scalar return")
	default:
		ca, cb := map[int]bool{}, map[int]bool{}
		for _, f := range ra {
			ca[f.Nodes[0].cls] = true
		}
		for _, f := range rb {
			cb[f.Nodes[0].cls] = true
		}
		same := len(ca) == len(cb)
		for c := range ca {
			if !cb[c] {
				same = false
			}
		}
		if same {
			r.OK("R5.2", key, w.Pos(add.Pos()), "both return "+cres.U.pretty(ra[0].Nodes[0], 6)+" where the count is one value class: "+e7describeValue(cres.U, ra[0].Nodes[0]))
		} else {
			r.Bad("R5.2", key, w.Pos(add.Pos()), "addCurrentModels returns "+e7describeValue(cres.U, ra[0].Nodes[0])+" but countCurrentModels returns "+e7describeValue(cres.U, rb[0].Nodes[0])+
				"; first difference: "+cres.U.explain(ra[0].Nodes[0], rb[0].Nodes[0], 0, map[[2]int]bool{}))
		}
	}
}

// e7describeValue unfolds one level of phi so that a loop-carried count is readable.
func e7describeValue(u *e7universe, n *e7node) string {
	s := u.pretty(n, 6)
	var phis []*e7node
	seen := map[*e7node]bool{}
	var walk func(x *e7node, d int)
	walk = func(x *e7node, d int) {
		if x == nil || seen[x] || d > 4 {
			return
		}
		seen[x] = true
		if x.kind == "phi" {
			phis = append(phis, x)
			return
		}
		for _, e := range x.edges {
			walk(e.to, d+1)
		}
	}
	walk(n, 0)
	for _, p := range phis {
		var cs []string
		for _, e := range p.edges {
			cs = append(cs, u.pretty(e.to, 5))
		}
		sort.Strings(cs)
		s += " with " + u.pretty(p, 2) + " = {" + strings.Join(cs, " | ") + "}"
	}
	return s
}

// ---------- R5.4 non-emptiness of last-element accesses ----------

// apath names the variable an SSA value reads: P<i>.field.field for parameter-rooted chains (loads implicit),
// V:<name> for any other SSA value (which is immutable).
func apath(v ssa.Value, depth int) string {
	if depth > 12 || v == nil {
		return "?"
	}
	switch x := v.(type) {
	case *ssa.Parameter:
		return "P" + strconv.Itoa(paramIndex(x.Parent(), x))
	case *ssa.FreeVar:
		for i, fv := range x.Parent().FreeVars {
			if fv == x {
				return "F" + strconv.Itoa(i)
			}
		}
	case *ssa.Global:
		return "G:" + x.Name()
	case *ssa.UnOp:
		if x.Op == token.MUL {
			if al, ok := x.X.(*ssa.Alloc); ok {
				if sv := e7singleStore(al); sv != nil {
					return apath(sv, depth+1)
				}
				return "V:" + x.Name()
			}
			return apath(x.X, depth+1)
		}
	case *ssa.FieldAddr:
		_, f := e7fieldName(x.X.Type(), x.Field)
		return apath(x.X, depth+1) + "." + f
	case *ssa.Field:
		_, f := e7fieldName(x.X.Type(), x.Field)
		return apath(x.X, depth+1) + "." + f
	}
	return "V:" + v.Name()
}

// lastField returns Type.field of the innermost field of an access chain (what a writer would have to store to).
func lastField(v ssa.Value) string {
	for i := 0; i < 12 && v != nil; i++ {
		switch x := v.(type) {
		case *ssa.UnOp:
			if x.Op != token.MUL {
				return ""
			}
			v = x.X
		case *ssa.FieldAddr:
			o, f := e7fieldName(x.X.Type(), x.Field)
			return o + "." + f
		case *ssa.Field:
			o, f := e7fieldName(x.X.Type(), x.Field)
			return o + "." + f
		default:
			return ""
		}
	}
	return ""
}

func lenArg(v ssa.Value) ssa.Value {
	call, ok := v.(*ssa.Call)
	if !ok {
		return nil
	}
	if b, ok := call.Call.Value.(*ssa.Builtin); ok && b.Name() == "len" && len(call.Call.Args) == 1 {
		return call.Call.Args[0]
	}
	return nil
}

// lastIndexOf: idx is len(Y) - 1; returns Y.
func lastIndexOf(idx ssa.Value) ssa.Value {
	b, ok := idx.(*ssa.BinOp)
	if !ok {
		return nil
	}
	switch b.Op {
	case token.SUB:
		if k, ok := constInt(b.Y); ok && k == 1 {
			return lenArg(b.X)
		}
	case token.ADD:
		if k, ok := constInt(b.Y); ok && k == -1 {
			return lenArg(b.X)
		}
		if k, ok := constInt(b.X); ok && k == -1 {
			return lenArg(b.Y)
		}
	}
	return nil
}

// lenCmp decomposes `len(Z) op k` (either operand order) into (Z, op with len on the left, k).
func lenCmp(v ssa.Value) (z ssa.Value, op token.Token, k int64, ok bool) {
	b, isB := v.(*ssa.BinOp)
	if !isB {
		return
	}
	mirror := map[token.Token]token.Token{token.LSS: token.GTR, token.GTR: token.LSS, token.LEQ: token.GEQ, token.GEQ: token.LEQ, token.EQL: token.EQL, token.NEQ: token.NEQ}
	if _, known := mirror[b.Op]; !known {
		return
	}
	if z = lenArg(b.X); z != nil {
		if k, ok = constInt(b.Y); ok {
			return z, b.Op, k, true
		}
	}
	if z = lenArg(b.Y); z != nil {
		if k, ok = constInt(b.X); ok {
			return z, mirror[b.Op], k, true
		}
	}
	return nil, 0, 0, false
}

// lowerBound: what `len op k` being true (or false) says about a lower bound of len; -1 when nothing.
func lowerBound(op token.Token, k int64, truth bool) int64 {
	if !truth {
		switch op {
		case token.LSS:
			op = token.GEQ
		case token.LEQ:
			op = token.GTR
		case token.GTR:
			op = token.LEQ
		case token.GEQ:
			op = token.LSS
		case token.EQL:
			op = token.NEQ
		case token.NEQ:
			op = token.EQL
		}
	}
	switch op {
	case token.GTR:
		return k + 1
	case token.GEQ, token.EQL:
		return k
	case token.NEQ:
		if k == 0 {
			return 1
		}
	}
	return -1
}

// lenPredicate summarises a module function whose single result is `len(path from a parameter) op k`.
func lenPredicate(f *ssa.Function) (param int, suffix string, op token.Token, k int64, ok bool) {
	if f == nil || f.Blocks == nil || f.Signature.Results().Len() != 1 {
		return
	}
	var ret *ssa.Return
	for _, b := range f.Blocks {
		if b == f.Recover || len(b.Instrs) == 0 {
			continue
		}
		if r, isRet := b.Instrs[len(b.Instrs)-1].(*ssa.Return); isRet {
			if ret != nil {
				return 0, "", 0, 0, false
			}
			ret = r
		}
	}
	if ret == nil || len(ret.Results) != 1 {
		return
	}
	z, op, k, ok := lenCmp(ret.Results[0])
	if !ok {
		return 0, "", 0, 0, false
	}
	p := apath(z, 0)
	if !strings.HasPrefix(p, "P") {
		return 0, "", 0, 0, false
	}
	head := p
	if i := strings.Index(p, "."); i >= 0 {
		head, suffix = p[:i], p[i:]
	}
	n, err := strconv.Atoi(head[1:])
	if err != nil {
		return 0, "", 0, 0, false
	}
	return n, suffix, op, k, true
}

// condLenFact: the condition, taken with the given truth value, bounds len(path) from below.
func condLenFact(w *World, cond ssa.Value, truth bool) (path string, lb int64, text string) {
	for {
		if u, ok := cond.(*ssa.UnOp); ok && u.Op == token.NOT {
			cond, truth = u.X, !truth
			continue
		}
		break
	}
	if z, op, k, ok := lenCmp(cond); ok {
		return apath(z, 0), lowerBound(op, k, truth), fmt.Sprintf("len %s %d is %v", op, k, truth)
	}
	if call, ok := cond.(*ssa.Call); ok {
		f := call.Call.StaticCallee()
		if f != nil && w.InModule(f) && !call.Call.IsInvoke() {
			if pi, suffix, op, k, ok := lenPredicate(f); ok && pi < len(call.Call.Args) {
				return apath(call.Call.Args[pi], 0) + suffix, lowerBound(op, k, truth), fmt.Sprintf("%s() is %v, i.e. len %s %d is %v", f.Name(), truth, op, k, truth)
			}
		}
	}
	return "", -1, ""
}

// writesBetween: may the variable named by path / field be assigned on a way from block `from` to instruction `to`?
func writesBetween(w *World, eff *Effects, fn *ssa.Function, from *ssa.BasicBlock, to ssa.Instruction, path, field string) string {
	if strings.HasPrefix(path, "V:") || !strings.Contains(path, ".") {
		return "" // an SSA value or a parameter itself: immutable
	}
	fwd := reachableBlocks(from, true)
	// blocks that can reach to.Block()
	back := map[*ssa.BasicBlock]bool{}
	var visit func(b *ssa.BasicBlock)
	visit = func(b *ssa.BasicBlock) {
		if back[b] {
			return
		}
		back[b] = true
		for _, p := range b.Preds {
			visit(p)
		}
	}
	visit(to.Block())
	for _, b := range fn.Blocks {
		if !fwd[b] || !back[b] {
			continue
		}
		for _, ins := range b.Instrs {
			if ins == to {
				break
			}
			switch x := ins.(type) {
			case *ssa.Store:
				if apath(x.Addr, 0) == path {
					return "assignment at " + w.InstrPos(ins)
				}
			case ssa.CallInstruction:
				if field == "" {
					continue
				}
				for _, callee := range w.Callees[x] {
					if eff.Writes(callee, field) {
						return "call of " + w.FuncName(callee) + " at " + w.InstrPos(ins) + " (may assign " + field + ")"
					}
				}
			}
		}
	}
	return ""
}

// localEvidence looks for a dominating condition that bounds len(path) >= 1 at ins.
func localEvidence(w *World, eff *Effects, fn *ssa.Function, ins ssa.Instruction, path, field string) (string, bool) {
	u := &e7universe{w: w, leaves: map[string]*e7node{}, loops: map[*ssa.Function]map[*ssa.BasicBlock]map[*ssa.BasicBlock]bool{}}
	c := u.rootCtx(fn)
	var why []string
	for _, g := range c.rawGuards(ins.Block()) {
		p, lb, text := condLenFact(w, g.ifi.Cond, g.edge)
		if p != path || lb < 1 {
			continue
		}
		d := g.ifi.Block()
		t := d.Succs[1]
		if g.edge {
			t = d.Succs[0]
		}
		if wr := writesBetween(w, eff, fn, t, ins, path, field); wr != "" {
			why = append(why, "the test at "+w.InstrPos(g.ifi)+" is followed by an "+wr)
			continue
		}
		return "dominating test at " + w.InstrPos(g.ifi) + ": " + text, true
	}
	return strings.Join(why, "; "), false
}

// priorIndexEvidence: an earlier access x[j] of the same variable dominates this one: had x been empty, that access
// would have panicked, so this one is not where emptiness shows.
func priorIndexEvidence(w *World, eff *Effects, fn *ssa.Function, ins ssa.Instruction, path, field string) (string, bool) {
	var why []string
	for d := ins.Block(); d != nil; d = d.Idom() {
		for _, other := range d.Instrs {
			if other == ins {
				break
			}
			var x ssa.Value
			switch y := other.(type) {
			case *ssa.IndexAddr:
				x = y.X
			case *ssa.Index:
				x = y.X
			default:
				continue
			}
			if _, isSlice := x.Type().Underlying().(*types.Slice); !isSlice || apath(x, 0) != path {
				continue
			}
			if wr := writesBetween(w, eff, fn, d, ins, path, field); wr != "" {
				why = append(why, "the access at "+w.InstrPos(other)+" is followed by an "+wr)
				continue
			}
			var idx ssa.Value
			switch y := other.(type) {
			case *ssa.IndexAddr:
				idx = y.Index
			case *ssa.Index:
				idx = y.Index
			}
			if _, isConst := idx.(*ssa.Const); isConst || lastIndexOf(idx) != nil {
				// x[0] (or another last-element access) is itself the access an empty slice breaks first: it only counts
				// when it has evidence of its own
				if _, ok := localEvidence(w, eff, fn, other, path, field); !ok {
					if _, ok := callerEvidence(w, eff, lastSite{fn, other, x, path, field}); !ok {
						why = append(why, "the earlier access with a constant index at "+w.InstrPos(other)+" has no emptiness evidence either")
						continue
					}
				}
				return "the same slice is already indexed at " + w.InstrPos(other) + " (an access that has emptiness evidence of its own), which dominates this access", true
			}
			return "the same slice is already indexed with a computed index at " + w.InstrPos(other) + ", which dominates this access: an empty slice fails there, under that loop's own contract, not here", true
		}
	}
	return strings.Join(why, "; "), false
}

type lastSite struct {
	fn    *ssa.Function
	ins   ssa.Instruction
	x     ssa.Value
	path  string
	field string
}

func ruleR5_4(w *World, r *Report) {
	r.Rule("R5.4", "every last-element access x[len(x)-1] in a function reachable from CountModels / Enumerate has evidence that len(x) >= 1: a dominating length test, the default arm of a switch on len(x), or a guard at every call site", 3)
	var roots []*ssa.Function
	for _, n := range []string{"Solver.CountModels", "Solver.Enumerate"} {
		if f := w.Func("solver", n); f != nil {
			roots = append(roots, f)
		} else {
			r.Unk("R5.4", "anchor solver."+n, "-", "entry point not found")
		}
	}
	if len(roots) == 0 {
		return
	}
	eff := w.effects()
	lastSites(w, r, eff, w.SortedFns(w.Reachable(roots...)), "R5.4")
}

// lastSites finds the idiom in the given functions and emits one obligation per (function, indexed variable).
func lastSites(w *World, r *Report, eff *Effects, fns []*ssa.Function, rule string) {
	for _, fn := range fns {
		var sites []lastSite
		allInstrs(fn, func(ins ssa.Instruction) {
			var x, idx ssa.Value
			switch y := ins.(type) {
			case *ssa.IndexAddr:
				x, idx = y.X, y.Index
			case *ssa.Index:
				x, idx = y.X, y.Index
			default:
				return
			}
			yv := lastIndexOf(idx)
			if yv == nil {
				return
			}
			px, py := apath(x, 0), apath(yv, 0)
			if px != py {
				return
			}
			sites = append(sites, lastSite{fn, ins, x, px, lastField(x)})
		})
		for _, s := range sites {
			what := s.field
			if what == "" {
				what = "a local " + typeShort(s.x.Type())
			}
			key := w.FuncName(fn) + " last element of " + what
			pos := w.InstrPos(s.ins)
			if ev, ok := localEvidence(w, eff, fn, s.ins, s.path, s.field); ok {
				r.OK(rule, key, pos, ev)
				continue
			}
			// caller-side evidence
			ev, ok := callerEvidence(w, eff, s)
			if ok {
				r.OK(rule, key, pos, ev)
			} else if ev2, ok2 := priorIndexEvidence(w, eff, fn, s.ins, s.path, s.field); ok2 {
				r.OK(rule, key, pos, ev2)
			} else {
				if ev2 != "" {
					ev += "; " + ev2
				}
				r.Bad(rule, key, pos, "x[len(x)-1] with no evidence that x is non-empty: no dominating test of len(x) in "+w.FuncName(fn)+"; "+ev)
			}
		}
	}
}

func callerEvidence(w *World, eff *Effects, s lastSite) (string, bool) {
	if !strings.HasPrefix(s.path, "P") {
		return "the value is not rooted in a parameter, so callers cannot vouch for it", false
	}
	head, suffix := s.path, ""
	if i := strings.Index(s.path, "."); i >= 0 {
		head, suffix = s.path[:i], s.path[i:]
	}
	pi, err := strconv.Atoi(head[1:])
	if err != nil {
		return "unreadable access path " + s.path, false
	}
	// nothing may assign the variable between the entry of the function and the access
	if wr := writesBetween(w, eff, s.fn, s.fn.Blocks[0], s.ins, s.path, s.field); wr != "" {
		return "callers cannot vouch for it: " + wr + " precedes the access", false
	}
	sites := w.Callers[s.fn]
	if len(sites) == 0 {
		return "the function has no caller inside the module that could guard it", false
	}
	var good, bad []string
	for _, cs := range sites {
		common := cs.Common()
		var arg ssa.Value
		switch {
		case common.IsInvoke() && pi == 0:
			arg = common.Value
		case common.IsInvoke() && pi-1 < len(common.Args):
			arg = common.Args[pi-1]
		case !common.IsInvoke() && pi < len(common.Args):
			arg = common.Args[pi]
		}
		caller := cs.Parent()
		if arg == nil {
			bad = append(bad, w.FuncName(caller)+" at "+w.InstrPos(cs)+" (argument not identifiable)")
			continue
		}
		path := apath(arg, 0) + suffix
		if ev, ok := localEvidence(w, eff, caller, cs, path, s.field); ok {
			good = append(good, w.FuncName(caller)+": "+ev)
		} else {
			more := ""
			if ev != "" {
				more = " (" + ev + ")"
			}
			bad = append(bad, w.FuncName(caller)+" at "+w.InstrPos(cs)+more)
		}
	}
	sort.Strings(good)
	sort.Strings(bad)
	if len(bad) == 0 {
		return fmt.Sprintf("guarded at all %d call site(s): %s", len(sites), strings.Join(good, "; ")), true
	}
	return "unguarded call site(s): " + strings.Join(bad, "; "), false
}

// fixtureR5_4: the unguarded last-element accesses must be reported, the guarded ones not.
func fixtureR5_4(fw *World) []string {
	var fns []*ssa.Function
	for _, f := range fw.Fns {
		if fw.PkgName(f) == "siblings" {
			fns = append(fns, f)
		}
	}
	r := newReport()
	r.Rule("R5.4", "fixture", 0)
	lastSites(fw, r, fw.effects(), fns, "R5.4")
	want := map[string]Status{
		"LastBad": Violated, "LastTested": Discharged, "LastSwitch": Discharged, "popGuarded": Discharged,
		"popUnguarded": Violated, "LastAfterWrite": Violated,
	}
	got := map[string]Status{}
	for _, ob := range r.Obs {
		for name := range want {
			if strings.Contains(ob.Construct, "."+name+" ") || strings.Contains(ob.Construct, ")."+name+" ") {
				got[name] = ob.status
			}
		}
	}
	var fails []string
	for name, st := range want {
		g, ok := got[name]
		if !ok {
			fails = append(fails, "R5.4 fixture: no obligation for "+name)
		} else if g != st {
			fails = append(fails, fmt.Sprintf("R5.4 fixture: %s is %s, expected %s", name, g, st))
		}
	}
	sort.Strings(fails)
	return fails
}
