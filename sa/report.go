package main

import (
	"bufio"
	"encoding/json"
	"fmt"
	"os"
	"path/filepath"
	"sort"
	"strings"
)

type Status int

const (
	Discharged Status = iota
	Violated
	Undecided
)

func (s Status) String() string {
	switch s {
	case Discharged:
		return "discharged"
	case Violated:
		return "VIOLATED"
	default:
		return "UNDECIDED"
	}
}

// Obligation is one instance of a rule (engine E9). Key never contains a line number.
type Obligation struct {
	Rule      string `json:"rule"`
	Construct string `json:"construct"`
	Pos       string `json:"pos"`
	Status    string `json:"status"`
	Detail    string `json:"detail,omitempty"`
	status    Status
}

func (o *Obligation) Key() string { return o.Rule + "|" + o.Construct }

// RuleInfo describes a rule in the evidence.
type RuleInfo struct {
	ID        string `json:"id"`
	Statement string `json:"statement"`
	Floor     int    `json:"floor"`
	Instances int    `json:"instances"`
}

// Report collects the obligations of one configuration.
type Report struct {
	Obs    []*Obligation
	Rules  map[string]*RuleInfo
	order  []string
	Errors []string // checker errors (unresolved anchors reported through Undecided as well)
}

func newReport() *Report { return &Report{Rules: map[string]*RuleInfo{}} }

// Rule declares a rule with its instance floor; must be called before obligations of that rule are added.
func (r *Report) Rule(id, statement string, floor int) {
	if _, ok := r.Rules[id]; !ok {
		r.Rules[id] = &RuleInfo{ID: id, Statement: statement, Floor: floor}
		r.order = append(r.order, id)
	}
}

func (r *Report) add(rule, construct, pos string, st Status, detail string) {
	ri := r.Rules[rule]
	if ri == nil {
		panic("obligation for undeclared rule " + rule)
	}
	// one obligation per (rule, construct): if the same construct is reported twice keep the worst.
	for _, o := range r.Obs {
		if o.Rule == rule && o.Construct == construct {
			if st > o.status {
				o.status, o.Status, o.Detail, o.Pos = st, st.String(), detail, pos
			}
			return
		}
	}
	ri.Instances++
	r.Obs = append(r.Obs, &Obligation{Rule: rule, Construct: construct, Pos: pos, Status: st.String(), Detail: detail, status: st})
}

func (r *Report) OK(rule, construct, pos, detail string) {
	r.add(rule, construct, pos, Discharged, detail)
}
func (r *Report) Bad(rule, construct, pos, detail string) {
	r.add(rule, construct, pos, Violated, detail)
}
func (r *Report) Unk(rule, construct, pos, detail string) {
	r.add(rule, construct, pos, Undecided, detail)
}
func (r *Report) Check(ok bool, rule, construct, pos, good, bad string) {
	if ok {
		r.OK(rule, construct, pos, good)
	} else {
		r.Bad(rule, construct, pos, bad)
	}
}

// finish adds floor obligations.
func (r *Report) finish() {
	for _, id := range r.order {
		ri := r.Rules[id]
		if ri.Instances < ri.Floor {
			r.add(id, "instance-floor", "-", Undecided, fmt.Sprintf("rule matched %d instance(s), fewer than the %d confirmed by hand: anchors moved or the rule no longer sees the code", ri.Instances, ri.Floor))
		}
	}
	sort.SliceStable(r.Obs, func(i, j int) bool {
		if r.Obs[i].Rule != r.Obs[j].Rule {
			return ruleLess(r.Obs[i].Rule, r.Obs[j].Rule)
		}
		return r.Obs[i].Construct < r.Obs[j].Construct
	})
}

func ruleLess(a, b string) bool {
	var a1, a2, b1, b2 int
	fmt.Sscanf(a, "R%d.%d", &a1, &a2)
	fmt.Sscanf(b, "R%d.%d", &b1, &b2)
	if a1 != b1 {
		return a1 < b1
	}
	if a2 != b2 {
		return a2 < b2
	}
	return a < b
}

// ---- known findings ----

type knownFinding struct {
	Kind     string // "open" or "fixed"
	Property string
	Key      string
	Text     string
}

func readKnown(path string) ([]knownFinding, error) {
	f, err := os.Open(path)
	if err != nil {
		if os.IsNotExist(err) {
			return nil, nil
		}
		return nil, err
	}
	defer f.Close()
	var out []knownFinding
	sc := bufio.NewScanner(f)
	for sc.Scan() {
		line := strings.TrimSpace(sc.Text())
		if line == "" || strings.HasPrefix(line, "#") {
			continue
		}
		var k knownFinding
		switch {
		case strings.HasPrefix(line, "open:"):
			k.Kind = "open"
			line = strings.TrimSpace(strings.TrimPrefix(line, "open:"))
		case strings.HasPrefix(line, "fixed:"):
			k.Kind = "fixed"
			line = strings.TrimSpace(strings.TrimPrefix(line, "fixed:"))
		default:
			return nil, fmt.Errorf("known_findings: unparsable line %q", line)
		}
		// property=<id> [commit] key=<rule|construct> :: text
		parts := strings.SplitN(line, "::", 2)
		if len(parts) == 2 {
			k.Text = strings.TrimSpace(parts[1])
		}
		for _, f := range strings.Fields(parts[0]) {
			if strings.HasPrefix(f, "property=") {
				k.Property = strings.TrimPrefix(f, "property=")
			}
		}
		if i := strings.Index(parts[0], "key="); i >= 0 {
			k.Key = strings.TrimSpace(parts[0][i+4:])
		}
		out = append(out, k)
	}
	return out, sc.Err()
}

// ---- evidence ----

type Evidence struct {
	PropertyID  string                 `json:"property_id"`
	Tier        string                 `json:"tier"`
	Seed        int                    `json:"seed"`
	Level       string                 `json:"level"`
	Coverage    map[string]interface{} `json:"coverage"`
	Assumptions []string               `json:"assumptions"`
	WallS       float64                `json:"wall_s"`
	Violations  int                    `json:"violations"`
}

func writeJSON(path string, v interface{}) error {
	if err := os.MkdirAll(filepath.Dir(path), 0o755); err != nil {
		return err
	}
	b, err := json.MarshalIndent(v, "", " ")
	if err != nil {
		return err
	}
	tmp := path + ".tmp"
	if err := os.WriteFile(tmp, append(b, '\n'), 0o644); err != nil {
		return err
	}
	return os.Rename(tmp, path)
}
