package main

import (
	"fmt"
	"go/ast"
	"go/token"
	"go/types"
	"os"
	"sort"
	"strings"

	"golang.org/x/tools/go/callgraph"
	"golang.org/x/tools/go/callgraph/cha"
	"golang.org/x/tools/go/callgraph/vta"
	"golang.org/x/tools/go/packages"
	"golang.org/x/tools/go/ssa"
	"golang.org/x/tools/go/ssa/ssautil"
)

const modPath = "github.com/crillab/gophersat"

// LoadOpts selects the build configuration analysed.
type LoadOpts struct {
	Dir     string
	Tags    string
	GOARCH  string
	Tests   bool
	Overlay map[string][]byte
	VTA     bool
	// Fixture: the directory is a stand-alone fixture module, not the repository;
	// the package-set assertions of E1 are skipped.
	Fixture bool
}

func (o LoadOpts) String() string {
	s := "GOARCH=" + o.GOARCH
	if o.GOARCH == "" {
		s = "GOARCH=default"
	}
	if o.Tags != "" {
		s += " tags=" + o.Tags
	}
	if o.Tests {
		s += " +tests"
	}
	if o.VTA {
		s += " callgraph=vta"
	} else {
		s += " callgraph=cha"
	}
	return s
}

// World is the resolved program (engine E1 + E2 lookups).
type World struct {
	Opts    LoadOpts
	Fset    *token.FileSet
	Pkgs    []*packages.Package
	ByName  map[string]*packages.Package
	Prog    *ssa.Program
	SSA     map[string]*ssa.Package
	Fns     []*ssa.Function // every function with a body that belongs to the module, sorted by name
	fnSet   map[*ssa.Function]bool
	Callees map[ssa.CallInstruction][]*ssa.Function
	Callers map[*ssa.Function][]ssa.CallInstruction
	Edges   int
	pkgOf   map[*ssa.Function]string
	// byName maps the full name of a module function to the kept variant. With Tests, a package that has tests
	// exists twice in the program (p and "p [p.test]"); other packages call the plain variant while the test
	// variant is the one kept in Fns, so callees are canonicalised by name (see unwrap).
	byName map[string]*ssa.Function
}

func loadWorld(o LoadOpts) (*World, error) {
	env := append(os.Environ(), "GOWORK=off", "GOFLAGS=-mod=mod", "GOPROXY=off", "GOSUMDB=off", "GOTOOLCHAIN=local")
	if o.GOARCH != "" {
		env = append(env, "GOARCH="+o.GOARCH)
	}
	cfg := &packages.Config{
		Mode:    packages.LoadAllSyntax,
		Dir:     o.Dir,
		Env:     env,
		Tests:   o.Tests,
		Overlay: o.Overlay,
	}
	if o.Tags != "" {
		cfg.BuildFlags = []string{"-tags=" + o.Tags}
	}
	pkgs, err := packages.Load(cfg, "./...")
	if err != nil {
		return nil, fmt.Errorf("packages.Load: %v", err)
	}
	if len(pkgs) == 0 {
		return nil, fmt.Errorf("no packages loaded from %s", o.Dir)
	}
	var errs []string
	packages.Visit(pkgs, nil, func(p *packages.Package) {
		for _, e := range p.Errors {
			errs = append(errs, e.Error())
		}
	})
	if len(errs) > 0 {
		return nil, fmt.Errorf("load/type errors: %s", strings.Join(errs, "; "))
	}
	w := &World{Opts: o, ByName: map[string]*packages.Package{}, SSA: map[string]*ssa.Package{},
		fnSet: map[*ssa.Function]bool{}, Callees: map[ssa.CallInstruction][]*ssa.Function{},
		Callers: map[*ssa.Function][]ssa.CallInstruction{}, pkgOf: map[*ssa.Function]string{}}
	w.Fset = pkgs[0].Fset
	// with Tests, keep the test variant of a package when present ("p [p.test]")
	for _, p := range pkgs {
		if strings.HasSuffix(p.ID, ".test") {
			continue
		}
		name := p.Name
		if strings.HasSuffix(name, "_test") {
			continue
		}
		if old, ok := w.ByName[name]; ok && len(old.Syntax) >= len(p.Syntax) {
			continue
		}
		w.ByName[name] = p
	}
	for _, p := range w.ByName {
		w.Pkgs = append(w.Pkgs, p)
	}
	sort.Slice(w.Pkgs, func(i, j int) bool { return w.Pkgs[i].PkgPath < w.Pkgs[j].PkgPath })
	if !o.Fixture {
		want := []string{"main", "bf", "explain", "maxsat", "solver"}
		for _, n := range want {
			p := w.ByName[n]
			if p == nil {
				return nil, fmt.Errorf("E1: package %q of the module was not loaded", n)
			}
			if n != "main" && p.PkgPath != modPath+"/"+n {
				return nil, fmt.Errorf("E1: package %q has unexpected path %s", n, p.PkgPath)
			}
		}
		for _, p := range w.Pkgs {
			if len(p.OtherFiles) > 0 {
				return nil, fmt.Errorf("E1: package %s has non-Go files %v (assembly/cgo are outside the trusted base)", p.PkgPath, p.OtherFiles)
			}
		}
	}
	prog, spkgs := ssautil.Packages(w.Pkgs, ssa.InstantiateGenerics)
	prog.Build()
	w.Prog = prog
	for i, sp := range spkgs {
		if sp == nil {
			return nil, fmt.Errorf("E1: no SSA for %s", w.Pkgs[i].PkgPath)
		}
		w.SSA[w.Pkgs[i].Name] = sp
	}
	mod := map[*ssa.Package]string{}
	for n, sp := range w.SSA {
		mod[sp] = n
	}
	for fn := range ssautil.AllFunctions(prog) {
		if fn.Blocks == nil {
			continue
		}
		p := fn.Pkg
		if p == nil && fn.Origin() != nil {
			p = fn.Origin().Pkg
		}
		if p == nil {
			// wrappers/bound thunks of module methods have no package; attribute through the object
			continue
		}
		if n, ok := mod[p]; ok {
			if fn.Synthetic != "" && !strings.Contains(fn.Synthetic, "instance") {
				continue // wrappers, thunks, package initialisers are handled separately
			}
			if w.inTestFile(fn) {
				continue // with Tests: functions of _test.go files are not part of the library under analysis
			}
			w.Fns = append(w.Fns, fn)
			w.fnSet[fn] = true
			w.pkgOf[fn] = n
		}
	}
	sort.Slice(w.Fns, func(i, j int) bool { return w.Fns[i].String() < w.Fns[j].String() })
	w.byName = map[string]*ssa.Function{}
	for _, fn := range w.Fns {
		if fn.Parent() == nil {
			w.byName[fn.String()] = fn
		}
	}
	// package initialisers are kept (R16.1 needs to know them)
	var g *callgraph.Graph
	chag := cha.CallGraph(prog)
	if o.VTA {
		g = vta.CallGraph(ssautil.AllFunctions(prog), chag)
	} else {
		g = chag
	}
	for _, n := range g.Nodes {
		if n.Func == nil {
			continue
		}
		for _, e := range n.Out {
			if e.Site == nil || e.Callee == nil || e.Callee.Func == nil {
				continue
			}
			callee := e.Callee.Func
			// see through synthetic wrappers ($bound, $thunk, pointer-receiver wrappers)
			callee = w.unwrap(callee)
			if !w.fnSet[callee] && !w.isInit(callee) {
				continue
			}
			dup := false
			for _, c := range w.Callees[e.Site] {
				if c == callee {
					dup = true
				}
			}
			if !dup {
				w.Callees[e.Site] = append(w.Callees[e.Site], callee)
				w.Callers[callee] = append(w.Callers[callee], e.Site)
				w.Edges++
			}
		}
	}
	w.refineParamCalls()
	w.resolveFieldAliases()
	debugAliases()
	for _, cs := range w.Callees {
		sort.Slice(cs, func(i, j int) bool { return cs[i].String() < cs[j].String() })
	}
	if !o.Fixture && len(w.Fns) < 150 {
		return nil, fmt.Errorf("E1: only %d source functions found, expected at least 150", len(w.Fns))
	}
	return w, nil
}

func (w *World) isInit(fn *ssa.Function) bool {
	return fn != nil && fn.Name() == "init" && fn.Synthetic != "" && fn.Pkg != nil && w.SSA[fn.Pkg.Pkg.Name()] == fn.Pkg
}

// unwrap maps a synthetic wrapper to the declared function it forwards to.
func (w *World) unwrap(fn *ssa.Function) *ssa.Function {
	for i := 0; i < 3 && fn != nil && fn.Synthetic != "" && fn.Blocks != nil && !strings.Contains(fn.Synthetic, "instance") && fn.Name() != "init"; i++ {
		var target *ssa.Function
		for _, b := range fn.Blocks {
			for _, ins := range b.Instrs {
				if c, ok := ins.(ssa.CallInstruction); ok {
					if t := c.Common().StaticCallee(); t != nil {
						target = t
					}
				}
			}
		}
		if target == nil {
			break
		}
		fn = target
	}
	// the same source function in the variant of its package that was not kept (Tests only)
	if fn != nil && !w.fnSet[fn] && fn.Parent() == nil && fn.Pkg != nil && strings.HasPrefix(fn.Pkg.Pkg.Path(), modPath) {
		if c := w.byName[fn.String()]; c != nil {
			return c
		}
	}
	return fn
}

// InModule reports whether fn is a source function of the module.
func (w *World) InModule(fn *ssa.Function) bool { return w.fnSet[fn] }

// PkgName returns the package name of a module function ("" otherwise); closures belong to their parent's package.
func (w *World) PkgName(fn *ssa.Function) string { return w.pkgOf[fn] }

// Func looks a function or method up by package name and "Type.Method" / "Func" spelling. Pointer and value
// receivers are both tried. Returns nil when absent.
func (w *World) Func(pkg, name string) *ssa.Function {
	sp := w.SSA[pkg]
	if sp == nil {
		return nil
	}
	if i := strings.Index(name, "."); i >= 0 {
		tn, mn := name[:i], name[i+1:]
		t := sp.Type(tn)
		if t == nil {
			return nil
		}
		T := t.Type()
		for _, recv := range []types.Type{T, types.NewPointer(T)} {
			ms := w.Prog.MethodSets.MethodSet(recv)
			for j := 0; j < ms.Len(); j++ {
				if ms.At(j).Obj().Name() == mn {
					if f := w.Prog.MethodValue(ms.At(j)); f != nil {
						f = w.unwrap(f)
						if w.fnSet[f] {
							return f
						}
					}
				}
			}
		}
		return nil
	}
	return sp.Func(name)
}

// NamedType returns the named type pkg.name or nil.
func (w *World) NamedType(pkg, name string) *types.Named {
	p := w.ByName[pkg]
	if p == nil {
		return nil
	}
	obj := p.Types.Scope().Lookup(name)
	if obj == nil {
		return nil
	}
	n, _ := obj.Type().(*types.Named)
	return n
}

// FuncName is the stable, position-free name used in obligation keys.
func (w *World) FuncName(fn *ssa.Function) string {
	if fn == nil {
		return "<nil>"
	}
	s := fn.String()
	s = strings.ReplaceAll(s, modPath+"/", "")
	s = strings.ReplaceAll(s, modPath, "main")
	return s
}

func (w *World) Pos(p token.Pos) string {
	if !p.IsValid() {
		return "-"
	}
	pos := w.Fset.Position(p)
	f := pos.Filename
	if i := strings.Index(f, "/repo/"); i >= 0 {
		f = f[i+6:]
	}
	return fmt.Sprintf("%s:%d", f, pos.Line)
}

// InstrPos gives the best position available for an instruction (some SSA instructions have NoPos).
func (w *World) InstrPos(ins ssa.Instruction) string {
	if ins == nil {
		return "-"
	}
	if ins.Pos().IsValid() {
		return w.Pos(ins.Pos())
	}
	if v, ok := ins.(ssa.Value); ok {
		for _, r := range *v.Referrers() {
			if r.Pos().IsValid() {
				return w.Pos(r.Pos())
			}
		}
	}
	// fall back to any positioned instruction of the block, then the function
	if b := ins.Block(); b != nil {
		for _, i2 := range b.Instrs {
			if i2.Pos().IsValid() {
				return w.Pos(i2.Pos()) + "(block)"
			}
		}
		return w.Pos(b.Parent().Pos()) + "(func)"
	}
	return "-"
}

// TypesInfo returns the types.Info of the package that declares fn.
func (w *World) TypesInfo(fn *ssa.Function) *types.Info {
	if p := w.ByName[w.pkgOf[fn]]; p != nil {
		return p.TypesInfo
	}
	return nil
}

// Decl returns the *ast.FuncDecl of a declared function (nil for closures).
func (w *World) Decl(fn *ssa.Function) *ast.FuncDecl {
	if fn == nil {
		return nil
	}
	d, _ := fn.Syntax().(*ast.FuncDecl)
	return d
}

// Reachable returns the set of module functions reachable from the roots through the call graph (roots included).
// Functions referenced as values (closures made, method values taken, go/defer targets) count as called.
func (w *World) Reachable(roots ...*ssa.Function) map[*ssa.Function]bool {
	seen := map[*ssa.Function]bool{}
	var visit func(f *ssa.Function)
	visit = func(f *ssa.Function) {
		if f == nil || seen[f] || !(w.fnSet[f]) {
			return
		}
		seen[f] = true
		for _, b := range f.Blocks {
			for _, ins := range b.Instrs {
				if ci, ok := ins.(ssa.CallInstruction); ok {
					for _, c := range w.Callees[ci] {
						visit(c)
					}
				}
				if mc, ok := ins.(*ssa.MakeClosure); ok {
					if cf, ok := mc.Fn.(*ssa.Function); ok {
						visit(cf)
					}
				}
				// function values used as operands
				for _, op := range ins.Operands(nil) {
					if op == nil || *op == nil {
						continue
					}
					if cf, ok := (*op).(*ssa.Function); ok {
						visit(w.unwrap(cf))
					}
				}
			}
		}
	}
	for _, r := range roots {
		visit(r)
	}
	return seen
}

// SortedFns returns the functions of a set in name order.
func (w *World) SortedFns(set map[*ssa.Function]bool) []*ssa.Function {
	var out []*ssa.Function
	for f := range set {
		out = append(out, f)
	}
	sort.Slice(out, func(i, j int) bool { return out[i].String() < out[j].String() })
	return out
}

// LibFns are the functions of the four library packages (everything but main).
func (w *World) LibFns() []*ssa.Function {
	var out []*ssa.Function
	for _, f := range w.Fns {
		if w.pkgOf[f] != "main" {
			out = append(out, f)
		}
	}
	return out
}

// FileOf returns the syntax file containing pos.
func (w *World) FileOf(pos token.Pos) *ast.File {
	for _, p := range w.Pkgs {
		for _, f := range p.Syntax {
			if f.Pos() <= pos && pos <= f.End() {
				return f
			}
		}
	}
	return nil
}

// inTestFile reports whether fn (or the function it is nested in) is declared in a _test.go file.
func (w *World) inTestFile(fn *ssa.Function) bool {
	for f := fn; f != nil; f = f.Parent() {
		if f.Pos().IsValid() {
			return strings.HasSuffix(w.Fset.Position(f.Pos()).Filename, "_test.go")
		}
	}
	return false
}

// refineParamCalls replaces, for a call through a function-typed parameter (`reduce()` in
// `func (s *Solver) reduceIfNeeded(reduce func())`), the class-hierarchy answer (every function of that signature)
// by the functions actually handed in, when the enclosing function is unexported, every call of it is a static call
// seen in the module, and each of them passes a function value (a function, a method value, a literal) or forwards
// its own parameter of the same kind. Sound for that case: an unexported function has no other callers.
func (w *World) refineParamCalls() {
	var resolve func(fn *ssa.Function, pi int, depth int) ([]*ssa.Function, bool)
	resolve = func(fn *ssa.Function, pi int, depth int) ([]*ssa.Function, bool) {
		if depth > 3 || fn.Object() == nil || fn.Object().Exported() || fn.Parent() != nil {
			return nil, false
		}
		// used as a value anywhere? then callers are unknown
		for _, g := range w.Fns {
			escaped := false
			allInstrs(g, func(ins ssa.Instruction) {
				for _, op := range ins.Operands(nil) {
					if op == nil || *op == nil {
						continue
					}
					if f, ok := (*op).(*ssa.Function); ok && f == fn {
						if ci, isCall := ins.(ssa.CallInstruction); !isCall || ci.Common().Value != *op {
							escaped = true
						}
					}
					if mc, ok := (*op).(*ssa.MakeClosure); ok {
						if bf, ok := mc.Fn.(*ssa.Function); ok && w.unwrap(bf) == fn && bf != fn {
							escaped = true
						}
					}
				}
			})
			if escaped {
				return nil, false
			}
		}
		var out []*ssa.Function
		sites := 0
		for _, g := range w.Fns {
			for _, ci := range callsIn(g) {
				if ci.Common().StaticCallee() != fn {
					continue
				}
				sites++
				args := ci.Common().Args
				if pi >= len(args) {
					return nil, false
				}
				switch a := args[pi].(type) {
				case *ssa.Function:
					out = append(out, w.unwrap(a))
				case *ssa.MakeClosure:
					f, _ := a.Fn.(*ssa.Function)
					if f == nil {
						return nil, false
					}
					out = append(out, w.unwrap(f))
				case *ssa.Parameter:
					pj := paramIndex(g, a)
					sub, ok := resolve(g, pj, depth+1)
					if pj < 0 || !ok {
						return nil, false
					}
					out = append(out, sub...)
				default:
					return nil, false
				}
			}
		}
		return out, sites > 0
	}
	for _, fn := range w.Fns {
		for _, ci := range callsIn(fn) {
			p, ok := ci.Common().Value.(*ssa.Parameter)
			if !ok || ci.Common().IsInvoke() {
				continue
			}
			if _, isSig := p.Type().Underlying().(*types.Signature); !isSig {
				continue
			}
			fs, ok := resolve(fn, paramIndex(fn, p), 0)
			if !ok {
				continue
			}
			// drop the old edges of this site
			for _, old := range w.Callees[ci] {
				var keep []ssa.CallInstruction
				for _, s := range w.Callers[old] {
					if s != ci {
						keep = append(keep, s)
					}
				}
				w.Callers[old] = keep
			}
			w.Callees[ci] = nil
			seen := map[*ssa.Function]bool{}
			for _, f := range fs {
				if seen[f] || (!w.fnSet[f] && !w.isInit(f)) {
					continue
				}
				seen[f] = true
				w.Callees[ci] = append(w.Callees[ci], f)
				w.Callers[f] = append(w.Callers[f], ci)
			}
		}
	}
}
