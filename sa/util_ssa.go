package main

import (
	"fmt"
	"go/constant"
	"go/token"
	"go/types"
	"os"
	"sort"
	"strings"

	"golang.org/x/tools/go/ssa"
)

// ---------- small SSA helpers ----------

func indexOfInstr(b *ssa.BasicBlock, ins ssa.Instruction) int {
	for i, x := range b.Instrs {
		if x == ins {
			return i
		}
	}
	return -1
}

func isNilConst(v ssa.Value) bool {
	k, ok := v.(*ssa.Const)
	return ok && k.IsNil()
}

func constInt(v ssa.Value) (int64, bool) {
	k, ok := v.(*ssa.Const)
	if !ok || k.Value == nil || k.Value.Kind() != constant.Int {
		return 0, false
	}
	i, ok := constant.Int64Val(k.Value)
	return i, ok
}

func constString(v ssa.Value) (string, bool) {
	k, ok := v.(*ssa.Const)
	if !ok || k.Value == nil || k.Value.Kind() != constant.String {
		return "", false
	}
	return constant.StringVal(k.Value), true
}

// derefNamed returns the named struct type behind t (through one pointer) or nil.
func derefNamed(t types.Type) *types.Named {
	if p, ok := t.Underlying().(*types.Pointer); ok {
		t = p.Elem()
	}
	n, _ := t.(*types.Named)
	return n
}

// fieldOf describes a FieldAddr/Field: owning named type (may be nil for anonymous structs) and field name.
func fieldOf(v ssa.Value) (owner string, field string, base ssa.Value, ok bool) {
	switch x := v.(type) {
	case *ssa.FieldAddr:
		pt, _ := x.X.Type().Underlying().(*types.Pointer)
		if pt == nil {
			return
		}
		st, _ := pt.Elem().Underlying().(*types.Struct)
		if st == nil {
			return
		}
		owner = typeShort(pt.Elem())
		return owner, canonField(st.Field(x.Field)), x.X, true
	case *ssa.Field:
		st, _ := x.X.Type().Underlying().(*types.Struct)
		if st == nil {
			return
		}
		return typeShort(x.X.Type()), canonField(st.Field(x.Field)), x.X, true
	}
	return
}

func typeShort(t types.Type) string {
	s := types.TypeString(t, func(p *types.Package) string { return p.Name() })
	return s
}

// isFieldLoad reports whether v is a load `*(&x.f)` of the named field (any owner if owner == "").
func isFieldLoad(v ssa.Value, owner, field string) (base ssa.Value, ok bool) {
	u, isU := v.(*ssa.UnOp)
	if !isU || u.Op != token.MUL {
		// value-struct field
		if f, isF := v.(*ssa.Field); isF {
			o, fn, b, ok2 := fieldOf(f)
			if ok2 && fn == field && (owner == "" || o == owner) {
				return b, true
			}
		}
		return nil, false
	}
	o, fn, b, ok2 := fieldOf(u.X)
	if ok2 && fn == field && (owner == "" || o == owner) {
		return b, true
	}
	return nil, false
}

// storesToField returns every Store in fn whose address is &x.field of the owner type.
func storesToField(fn *ssa.Function, owner, field string) []*ssa.Store {
	var out []*ssa.Store
	for _, b := range fn.Blocks {
		for _, ins := range b.Instrs {
			if st, ok := ins.(*ssa.Store); ok {
				if o, f, _, ok2 := fieldOf(st.Addr); ok2 && f == field && (owner == "" || o == owner) {
					out = append(out, st)
				}
			}
		}
	}
	return out
}

// calleeName gives "pkg.Func" / "(*pkg.T).M" / "builtin:append" for a call, "" when dynamic.
func (w *World) calleeName(c *ssa.CallCommon) string {
	if b, ok := c.Value.(*ssa.Builtin); ok {
		return "builtin:" + b.Name()
	}
	if c.IsInvoke() {
		return "invoke:" + c.Method.Name()
	}
	if f := c.StaticCallee(); f != nil {
		f = w.unwrap(f)
		if w.InModule(f) {
			return w.FuncName(f)
		}
		if f.Object() != nil && f.Object().Pkg() != nil {
			if sig, ok := f.Object().Type().(*types.Signature); ok && sig.Recv() != nil {
				return "(" + typeShort(sig.Recv().Type()) + ")." + f.Name()
			}
			return f.Object().Pkg().Name() + "." + f.Name()
		}
		return f.String()
	}
	return ""
}

// allInstrs iterates over every instruction of fn.
func allInstrs(fn *ssa.Function, f func(ins ssa.Instruction)) {
	for _, b := range fn.Blocks {
		for _, ins := range b.Instrs {
			f(ins)
		}
	}
}

// callsIn returns the call instructions (call, go, defer) of fn.
func callsIn(fn *ssa.Function) []ssa.CallInstruction {
	var out []ssa.CallInstruction
	allInstrs(fn, func(ins ssa.Instruction) {
		if c, ok := ins.(ssa.CallInstruction); ok {
			out = append(out, c)
		}
	})
	return out
}

// staticCalleeIs reports whether the call statically targets fn (through wrappers).
func (w *World) staticCalleeIs(c ssa.CallInstruction, fn *ssa.Function) bool {
	if fn == nil {
		return false
	}
	t := c.Common().StaticCallee()
	return t != nil && w.unwrap(t) == fn
}

// ---------- dominance / control dependence ----------

// instrDominates: does a dominate b (same block: earlier position)?
func instrDominates(a, b ssa.Instruction) bool {
	if a.Block() == b.Block() {
		return indexOfInstr(a.Block(), a) < indexOfInstr(b.Block(), b)
	}
	return a.Block().Dominates(b.Block())
}

// edgeCond is a branch condition known to hold in a block.
type edgeCond struct {
	Cond ssa.Value
	True bool
	If   *ssa.If
}

// dominatingConds returns the conditions that hold on entry to block b because b is dominated by one
// successor edge of a dominating If (the edge target must have that If's block as only predecessor, or
// b must be dominated by the target while the other successor cannot reach... we keep the simple sound form).
func dominatingConds(b *ssa.BasicBlock) []edgeCond {
	var out []edgeCond
	for d := b; d != nil; d = d.Idom() {
		id := d.Idom()
		if id == nil {
			break
		}
		// find which edge of the chain leads here: walk from d up to each dominator with an If
		_ = id
	}
	// straightforward formulation: for every dominator D ending in If, test whether b is dominated by
	// Succs[0] (single-pred) or by Succs[1] (single-pred).
	for d := b.Idom(); d != nil; d = d.Idom() {
		iff, ok := d.Instrs[len(d.Instrs)-1].(*ssa.If)
		if !ok {
			continue
		}
		t, f := d.Succs[0], d.Succs[1]
		if t != f {
			if len(t.Preds) == 1 && t.Dominates(b) {
				out = append(out, edgeCond{iff.Cond, true, iff})
			} else if len(f.Preds) == 1 && f.Dominates(b) {
				out = append(out, edgeCond{iff.Cond, false, iff})
			}
		}
	}
	// the block itself may be the single-pred successor of its idom (covered above since idom chain starts at b.Idom()).
	// a condition that is the value of a short-circuit expression (`case !valid || status == Sat:` builds the phi
	// [true, status == Sat]): found false, an `||` came through its only non-constant edge, whose value is false and
	// whose block's own conditions hold as well; found true, likewise for `&&`
	for i := 0; i < len(out) && len(out) < 64; i++ {
		phi, ok := out[i].Cond.(*ssa.Phi)
		if !ok {
			continue
		}
		var val ssa.Value
		var from *ssa.BasicBlock
		n, consts := 0, true
		for k, e := range phi.Edges {
			if c, isK := e.(*ssa.Const); isK && c.Value != nil {
				if (c.Value.String() == "true") == out[i].True {
					consts = false // a constant edge that agrees with the outcome: nothing follows
				}
				continue
			}
			val, from = e, phi.Block().Preds[k]
			n++
		}
		if n != 1 || !consts {
			continue
		}
		out = append(out, edgeCond{val, out[i].True, out[i].If})
		if from != b {
			out = append(out, dominatingConds(from)...)
		}
	}
	return out
}

// underCond reports whether block b executes only when pred(cond) holds with the given polarity for some
// dominating branch; pred identifies the condition of interest.
func underCond(b *ssa.BasicBlock, pred func(cond ssa.Value) (match bool, positive bool)) (found bool, holds bool) {
	for _, ec := range dominatingConds(b) {
		c := ec.Cond
		neg := false
		for {
			if u, ok := c.(*ssa.UnOp); ok && u.Op == token.NOT {
				c = u.X
				neg = !neg
				continue
			}
			break
		}
		if m, positive := pred(c); m {
			val := ec.True
			if neg {
				val = !val
			}
			if !positive {
				val = !val
			}
			return true, val
		}
	}
	return false, false
}

// reachableBlocks returns blocks reachable from b (b included only if on a cycle or include is set).
func reachableBlocks(from *ssa.BasicBlock, include bool) map[*ssa.BasicBlock]bool {
	seen := map[*ssa.BasicBlock]bool{}
	var visit func(b *ssa.BasicBlock)
	visit = func(b *ssa.BasicBlock) {
		if seen[b] {
			return
		}
		seen[b] = true
		for _, s := range b.Succs {
			visit(s)
		}
	}
	if include {
		visit(from)
	} else {
		for _, s := range from.Succs {
			visit(s)
		}
	}
	return seen
}

// instrReachableFrom: can control flow from instruction a reach instruction b (a != b)?
func instrReachableFrom(a, b ssa.Instruction) bool {
	if a.Block() == b.Block() && indexOfInstr(a.Block(), a) < indexOfInstr(b.Block(), b) {
		return true
	}
	return reachableBlocks(a.Block(), false)[b.Block()]
}

// natural loops: for a header h, the set of blocks of loops with back edges to h.
func loopBlocks(fn *ssa.Function, h *ssa.BasicBlock) map[*ssa.BasicBlock]bool {
	body := map[*ssa.BasicBlock]bool{}
	for _, p := range h.Preds {
		if h.Dominates(p) { // back edge p->h
			// collect nodes that can reach p without going through h
			stack := []*ssa.BasicBlock{p}
			body[h] = true
			for len(stack) > 0 {
				n := stack[len(stack)-1]
				stack = stack[:len(stack)-1]
				if body[n] {
					continue
				}
				body[n] = true
				for _, q := range n.Preds {
					stack = append(stack, q)
				}
			}
		}
	}
	return body
}

// loopHeaders returns the headers of the natural loops of fn.
func loopHeaders(fn *ssa.Function) []*ssa.BasicBlock {
	var hs []*ssa.BasicBlock
	for _, b := range fn.Blocks {
		for _, p := range b.Preds {
			if b.Dominates(p) {
				hs = append(hs, b)
				break
			}
		}
	}
	return hs
}

// ---------- E3: effect summaries ----------

// Effects is the transitive set of "Type.field" names a function may write (field stores, and element stores /
// appends rooted at a load of that field are recorded as "Type.field[]").
type Effects struct {
	w       *World
	direct  map[*ssa.Function]map[string]bool
	trans   map[*ssa.Function]map[string]bool
	directR map[*ssa.Function]map[string]bool
	transR  map[*ssa.Function]map[string]bool
	pw      map[*ssa.Function]map[int]bool // parameters whose elements the function may write
}

// WritesParamElems: callee may write the elements of its i-th parameter (receiver included).
func (e *Effects) WritesParamElems(callee *ssa.Function, i int) bool { return e.pw[callee][i] }

// DirectWritesAny: fn itself (not its callees, except through a slice it hands to a helper) writes the field or its content.
func (e *Effects) DirectWritesAny(fn *ssa.Function, typeField string) bool {
	return e.direct[fn][typeField] || e.direct[fn][typeField+"[]"]
}

// localBase reports whether an address is rooted in a local variable of the function (an Alloc that is not
// captured by a closure): accesses to it cannot conflict with another goroutine.
func localBase(v ssa.Value) bool {
	for i := 0; i < 20 && v != nil; i++ {
		switch x := v.(type) {
		case *ssa.FieldAddr:
			v = x.X
		case *ssa.IndexAddr:
			v = x.X
		case *ssa.Alloc:
			for _, r := range *x.Referrers() {
				if _, ok := r.(*ssa.MakeClosure); ok {
					return false
				}
			}
			return true
		default:
			return false
		}
	}
	return false
}

func rootField(v ssa.Value) (string, bool) {
	seen := 0
	for v != nil && seen < 20 {
		seen++
		switch x := v.(type) {
		case *ssa.FieldAddr:
			o, f, _, ok := fieldOf(x)
			if ok {
				return o + "." + f, true
			}
			return "", false
		case *ssa.IndexAddr:
			v = x.X
		case *ssa.Slice:
			v = x.X
		case *ssa.UnOp:
			if x.Op == token.MUL {
				// load of a field holding a slice/pointer: element write goes to the field's content
				if fa, ok := x.X.(*ssa.FieldAddr); ok {
					o, f, _, ok2 := fieldOf(fa)
					if ok2 {
						return o + "." + f + "[]", true
					}
				}
				return "", false
			}
			return "", false
		case *ssa.Field:
			o, f, _, ok := fieldOf(x)
			if ok {
				return o + "." + f + "[]", true
			}
			return "", false
		default:
			return "", false
		}
	}
	return "", false
}

func (w *World) effects() *Effects {
	e := &Effects{w: w, direct: map[*ssa.Function]map[string]bool{}, trans: map[*ssa.Function]map[string]bool{},
		directR: map[*ssa.Function]map[string]bool{}, transR: map[*ssa.Function]map[string]bool{}}
	for _, fn := range w.Fns {
		d := map[string]bool{}
		rd := map[string]bool{}
		allInstrs(fn, func(ins ssa.Instruction) {
			switch x := ins.(type) {
			case *ssa.Store:
				if f, ok := rootField(x.Addr); ok && !localBase(x.Addr) {
					d[f] = true
				}
			case *ssa.MapUpdate:
				if f, ok := rootField(x.Map); ok {
					d[f] = true
				}
			case *ssa.UnOp:
				if x.Op == token.MUL {
					if f, ok := rootField(x.X); ok && !localBase(x.X) {
						rd[f] = true
					}
				}
			case *ssa.Call:
				if b, ok := x.Call.Value.(*ssa.Builtin); ok && (b.Name() == "append" || b.Name() == "copy") {
					if f, ok := rootField(x.Call.Args[0]); ok {
						d[f] = true
					}
				}
			}
		})
		e.direct[fn] = d
		e.directR[fn] = rd
	}
	// writes through a slice / pointer parameter (`bind(pb.units, lit)` writes the content of Problem.units): a
	// fixpoint of "fn writes the elements of its parameter i", then charged to the field the caller hands in
	pw := w.paramElemWrites()
	e.pw = pw
	for _, fn := range w.Fns {
		for _, ci := range callsIn(fn) {
			callee := ci.Common().StaticCallee()
			if callee == nil || pw[callee] == nil {
				continue
			}
			for i, a := range ci.Common().Args {
				if !pw[callee][i] {
					continue
				}
				if f, ok := rootField(a); ok {
					if !strings.HasSuffix(f, "[]") {
						f += "[]"
					}
					e.direct[fn][f] = true
				}
			}
		}
	}
	// transitive closure over the call graph (incl. closures made and go/defer targets)
	for _, fn := range w.Fns {
		t := map[string]bool{}
		tr := map[string]bool{}
		for g := range w.Reachable(fn) {
			for f := range e.direct[g] {
				t[f] = true
			}
			for f := range e.directR[g] {
				tr[f] = true
			}
		}
		e.trans[fn] = t
		e.transR[fn] = tr
	}
	return e
}

// Writes reports whether fn (transitively) may write Type.field (plain store to the field).
func (e *Effects) Writes(fn *ssa.Function, typeField string) bool { return e.trans[fn][typeField] }

// WritesAny: field itself or its content.
func (e *Effects) WritesAny(fn *ssa.Function, typeField string) bool {
	return e.trans[fn][typeField] || e.trans[fn][typeField+"[]"]
}

func (e *Effects) List(fn *ssa.Function) []string {
	var out []string
	for f := range e.trans[fn] {
		out = append(out, f)
	}
	sort.Strings(out)
	return out
}

// ---------- misc ----------

func joinSorted(m map[string]bool) string {
	var ks []string
	for k := range m {
		ks = append(ks, k)
	}
	sort.Strings(ks)
	return strings.Join(ks, ", ")
}

func blockName(b *ssa.BasicBlock) string {
	return fmt.Sprintf("b%d(%s)", b.Index, b.Comment)
}

// paramIndex returns the index of p among fn.Params, or -1.
func paramIndex(fn *ssa.Function, p ssa.Value) int {
	for i, q := range fn.Params {
		if q == p {
			return i
		}
	}
	return -1
}

// chanParams returns parameters of channel type.
func chanParams(fn *ssa.Function) []*ssa.Parameter {
	var out []*ssa.Parameter
	for _, p := range fn.Params {
		if _, ok := p.Type().Underlying().(*types.Chan); ok {
			out = append(out, p)
		}
	}
	return out
}

// ---------- reaching stores for local cells ----------

// reachingStores returns the stores into the local cell al (whole-cell stores, and stores to field #field when
// field >= 0) that may reach the instruction `at`, and whether the zero value of the cell may reach it.
// A store is killed by a later whole-cell store or a store to the same field. When the address of the cell
// escapes (passed to a call, captured by a closure) every store is returned (flow-insensitive fallback).
func reachingStores(at ssa.Instruction, al *ssa.Alloc, field int) (stores []*ssa.Store, zero bool) {
	kills := map[ssa.Instruction]*ssa.Store{}
	escapes := false
	for _, r := range *al.Referrers() {
		switch y := r.(type) {
		case *ssa.Store:
			if y.Addr == al {
				kills[y] = y
			} else if y.Val == al {
				escapes = true
			}
		case *ssa.FieldAddr:
			for _, r2 := range *y.Referrers() {
				switch z := r2.(type) {
				case *ssa.Store:
					if z.Addr == y && (field < 0 || y.Field == field) {
						if field >= 0 {
							kills[z] = z
						}
					}
				case *ssa.UnOp, *ssa.FieldAddr, *ssa.IndexAddr:
				default:
					if _, isCall := r2.(ssa.CallInstruction); isCall {
						escapes = true
					}
				}
			}
		case *ssa.UnOp:
		case *ssa.MakeClosure:
			escapes = true
		case *ssa.DebugRef:
		default:
			if _, isCall := r.(ssa.CallInstruction); isCall {
				escapes = true
			}
		}
	}
	if escapes {
		for _, st := range kills {
			stores = append(stores, st)
		}
		sort.Slice(stores, func(i, j int) bool { return stores[i].Pos() < stores[j].Pos() })
		return stores, true
	}
	// forward walk from a start point to `at`, stopping at kills
	reaches := func(startBlock *ssa.BasicBlock, startIdx int) bool {
		type pt struct {
			b *ssa.BasicBlock
			i int
		}
		seenB := map[*ssa.BasicBlock]bool{}
		var walk func(b *ssa.BasicBlock, i int) bool
		walk = func(b *ssa.BasicBlock, i int) bool {
			for ; i < len(b.Instrs); i++ {
				ins := b.Instrs[i]
				if ins == at {
					return true
				}
				if _, k := kills[ins]; k {
					return false
				}
			}
			for _, s := range b.Succs {
				if seenB[s] {
					continue
				}
				seenB[s] = true
				if walk(s, 0) {
					return true
				}
			}
			return false
		}
		return walk(startBlock, startIdx)
	}
	for ins, st := range kills {
		b := ins.Block()
		if reaches(b, indexOfInstr(b, ins)+1) {
			stores = append(stores, st)
		}
	}
	sort.Slice(stores, func(i, j int) bool { return stores[i].Pos() < stores[j].Pos() })
	// zero value: from the allocation point (entry for non-heap locals, the Alloc instruction itself otherwise)
	ab := al.Block()
	if ab == nil {
		return stores, true
	}
	zero = reaches(ab, indexOfInstr(ab, al)+1)
	return stores, zero
}

// ---------- full-range loops ----------

// fullRangeIndex reports whether idx enumerates every index 0..len(slice)-1 of the loop it is used in:
// either the go/ssa shape of `for i := range s` (idx = phi(-1, idx) + 1 tested `idx < len(s)`) or the classic
// `for i := 0; i < len(s); i++` (idx = phi(0, idx+1) tested `idx < len(s)`). lenOK decides whether the bound
// is the length of the wanted slice.
func fullRangeIndex(idx ssa.Value, lenOK func(bound ssa.Value) bool) bool {
	isLenBound := func(v ssa.Value) bool { return lenOK(v) }
	testedAgainstLen := func(v ssa.Value) bool {
		for _, r := range *v.Referrers() {
			bo, ok := r.(*ssa.BinOp)
			if !ok || bo.Op != token.LSS || bo.X != v || !isLenBound(bo.Y) {
				continue
			}
			for _, r2 := range *bo.Referrers() {
				if _, ok := r2.(*ssa.If); ok {
					return true
				}
			}
		}
		return false
	}
	// a loop counter: phi with one constant initial edge, every other edge being the same step value
	counter := func(phi *ssa.Phi, init int64, step func(e ssa.Value) bool) bool {
		if len(phi.Edges) < 2 {
			return false
		}
		inits, steps := 0, 0
		for _, e := range phi.Edges {
			if k, ok := constInt(e); ok && k == init {
				inits++
			} else if step(e) {
				steps++
			} else {
				return false
			}
		}
		return inits == 1 && steps >= 1
	}
	// range shape
	if add, ok := idx.(*ssa.BinOp); ok && add.Op == token.ADD {
		if one, ok := constInt(add.Y); ok && one == 1 {
			if phi, ok := add.X.(*ssa.Phi); ok {
				if counter(phi, -1, func(e ssa.Value) bool { return e == ssa.Value(add) }) && testedAgainstLen(add) {
					return true
				}
			}
		}
	}
	// classic shape
	if phi, ok := idx.(*ssa.Phi); ok {
		isStep := func(e ssa.Value) bool {
			add, ok := e.(*ssa.BinOp)
			if !ok || add.Op != token.ADD || add.X != ssa.Value(phi) {
				return false
			}
			one, ok := constInt(add.Y)
			return ok && one == 1
		}
		if counter(phi, 0, isStep) && testedAgainstLen(phi) {
			return true
		}
	}
	return false
}

// isLenOf: v is len(x) for an x accepted by pred (len is computed once before a range loop, or per test).
func isLenOf(v ssa.Value, pred func(x ssa.Value) bool) bool {
	c, ok := v.(*ssa.Call)
	if !ok {
		return false
	}
	b, ok := c.Call.Value.(*ssa.Builtin)
	return ok && b.Name() == "len" && len(c.Call.Args) == 1 && pred(c.Call.Args[0])
}

// alwaysExecutedWith: call c runs whenever instruction s runs and the function then returns normally:
// c dominates s, or s dominates c and every return reachable from s is dominated by c.
func alwaysExecutedWith(c, s ssa.Instruction) bool {
	if instrDominates(c, s) {
		return true
	}
	if !instrDominates(s, c) {
		return false
	}
	// s comes first: no return may be reached from s on a path that avoids c (a return at the join below an
	// if/else one arm of which holds both s and c is reached only through c)
	if c.Block() == s.Block() {
		return true
	}
	seen := map[*ssa.BasicBlock]bool{}
	leak := false
	var visit func(b *ssa.BasicBlock)
	visit = func(b *ssa.BasicBlock) {
		if seen[b] || b == c.Block() || leak {
			return
		}
		seen[b] = true
		if len(b.Instrs) > 0 {
			if _, isRet := b.Instrs[len(b.Instrs)-1].(*ssa.Return); isRet {
				leak = true
				return
			}
		}
		for _, nx := range b.Succs {
			visit(nx)
		}
	}
	for _, nx := range s.Block().Succs {
		visit(nx)
	}
	return !leak
}

// isUnitCounter: phi is a loop counter that starts from 0 and is incremented by exactly 1 on some paths and left
// unchanged on the others (possibly through merge phis).
func isUnitCounter(phi *ssa.Phi) bool {
	zero, inc, ok := false, false, true
	seen := map[ssa.Value]bool{}
	var leaf func(v ssa.Value, d int)
	leaf = func(v ssa.Value, d int) {
		if seen[v] || d > 6 {
			return
		}
		seen[v] = true
		if v == ssa.Value(phi) {
			return
		}
		if k, isK := constInt(v); isK {
			if k == 0 {
				zero = true
			} else {
				ok = false
			}
			return
		}
		if bo, isB := v.(*ssa.BinOp); isB && bo.Op == token.ADD && bo.X == ssa.Value(phi) {
			if one, isK := constInt(bo.Y); isK && one == 1 {
				inc = true
				return
			}
		}
		if p2, isP := v.(*ssa.Phi); isP {
			for _, e := range p2.Edges {
				leaf(e, d+1)
			}
			return
		}
		ok = false
	}
	for _, e := range phi.Edges {
		leaf(e, 0)
	}
	return zero && inc && ok
}

// resultLeaves follows v through calls of module functions to the values those functions return: for a call of a
// function with a body every value returned at the result position (0 for a single result, the index of an Extract
// otherwise), recursively; any other value (phis included) is its own leaf. Depth bounded.
func (w *World) resultLeaves(v ssa.Value) []ssa.Value {
	var out []ssa.Value
	seen := map[ssa.Value]bool{}
	var rec func(v ssa.Value, depth int)
	rec = func(v ssa.Value, depth int) {
		if seen[v] || depth > 4 {
			out = append(out, v)
			return
		}
		seen[v] = true
		idx := 0
		var call *ssa.Call
		switch x := v.(type) {
		case *ssa.Call:
			call = x
		case *ssa.Extract:
			if c, ok := x.Tuple.(*ssa.Call); ok {
				call, idx = c, x.Index
			}
		}
		if call == nil {
			out = append(out, v)
			return
		}
		callee := call.Call.StaticCallee()
		if callee == nil || len(callee.Blocks) == 0 || !w.InModule(callee) {
			out = append(out, v)
			return
		}
		n := 0
		allInstrs(callee, func(ins ssa.Instruction) {
			if ret, ok := ins.(*ssa.Return); ok && idx < len(ret.Results) {
				n++
				rec(ret.Results[idx], depth+1)
			}
		})
		if n == 0 {
			out = append(out, v)
		}
	}
	rec(v, 0)
	return out
}

// paramElemWrites: for every module function, the parameters (by index, receiver included) whose elements it may
// write: a store through an index / field address derived from the parameter, copy into it, or handing it on to a
// function that does.
func (w *World) paramElemWrites() map[*ssa.Function]map[int]bool {
	out := map[*ssa.Function]map[int]bool{}
	derivedFrom := func(fn *ssa.Function, v ssa.Value) int {
		for i := 0; i < 10 && v != nil; i++ {
			switch x := v.(type) {
			case *ssa.Parameter:
				return paramIndex(fn, x)
			case *ssa.Slice:
				v = x.X
			case *ssa.IndexAddr:
				v = x.X
			default:
				return -1
			}
		}
		return -1
	}
	for changed, round := true, 0; changed && round < 6; round++ {
		changed = false
		for _, fn := range w.Fns {
			mark := func(i int) {
				if i < 0 {
					return
				}
				if _, isSlice := fn.Params[i].Type().Underlying().(*types.Slice); !isSlice {
					return
				}
				if out[fn] == nil {
					out[fn] = map[int]bool{}
				}
				if !out[fn][i] {
					out[fn][i] = true
					changed = true
				}
			}
			allInstrs(fn, func(ins ssa.Instruction) {
				switch x := ins.(type) {
				case *ssa.Store:
					if ia, ok := x.Addr.(*ssa.IndexAddr); ok {
						mark(derivedFrom(fn, ia.X))
					}
				case *ssa.Call:
					if b, ok := x.Call.Value.(*ssa.Builtin); ok {
						if b.Name() == "copy" && len(x.Call.Args) == 2 {
							mark(derivedFrom(fn, x.Call.Args[0]))
						}
						return
					}
					callee := x.Call.StaticCallee()
					if callee == nil || out[callee] == nil {
						return
					}
					for i, a := range x.Call.Args {
						if out[callee][i] {
							mark(derivedFrom(fn, a))
						}
					}
				}
			})
		}
	}
	return out
}

// statusClass classifies a path fact about a three-valued solver.Status (Indet / Sat / Unsat): "true", "false",
// "unbound" when the fact pins it (`=k`, or `!=a,b` leaving one value), "" when it does not.
func (w *World) statusClass(f string) string {
	indet, _ := w.statusConst("Indet")
	sat, _ := w.statusConst("Sat")
	unsat, _ := w.statusConst("Unsat")
	name := map[string]string{fmt.Sprint(indet): "unbound", fmt.Sprint(sat): "true", fmt.Sprint(unsat): "false"}
	if strings.HasPrefix(f, "=") {
		return name[f[1:]]
	}
	if strings.HasPrefix(f, "!=") {
		left := map[string]bool{"unbound": true, "true": true, "false": true}
		for _, e := range strings.Split(f[2:], ",") {
			delete(left, name[e])
		}
		if len(left) == 1 {
			for k := range left {
				return k
			}
		}
	}
	return ""
}

func debugAliases() {
	if os.Getenv("GSVERIF_DEBUG") != "" {
		for f, a := range fieldAlias {
			fmt.Fprintln(os.Stderr, "alias", f.Name(), "->", a)
		}
	}
}

// fieldAlias maps a struct field that was recognised by what it is (its type, who writes it) to the name the rules
// know it by: renaming an unexported field (`minLits` to `costLits`) must not make every rule lose its anchor.
var fieldAlias = map[*types.Var]string{}

func canonField(f *types.Var) string {
	if a, ok := fieldAlias[f]; ok {
		return a
	}
	return f.Name()
}

// resolveFieldAliases recognises the fields the rules name, structurally, and records an alias where the tree calls
// one of them differently. Only unambiguous recognitions are recorded.
func (w *World) resolveFieldAliases() {
	fieldAlias = map[*types.Var]string{}
	structOf := func(pkg, name string) *types.Struct {
		n := w.NamedType(pkg, name)
		if n == nil {
			return nil
		}
		st, _ := n.Underlying().(*types.Struct)
		return st
	}
	// the only field of a given type
	unique := func(st *types.Struct, typ string, unexportedOnly bool) *types.Var {
		var hit *types.Var
		n := 0
		for i := 0; st != nil && i < st.NumFields(); i++ {
			f := st.Field(i)
			if typeShort(f.Type()) == typ && (!unexportedOnly || !f.Exported()) {
				hit = f
				n++
			}
		}
		if n == 1 {
			return hit
		}
		return nil
	}
	alias := func(f *types.Var, canon string, st *types.Struct) {
		if f == nil || f.Name() == canon {
			return
		}
		// never shadow a field that really has the canonical name
		for i := 0; st != nil && i < st.NumFields(); i++ {
			if st.Field(i).Name() == canon {
				return
			}
		}
		fieldAlias[f] = canon
	}
	solverT, problemT, clauseT, wlT := structOf("solver", "Solver"), structOf("solver", "Problem"), structOf("solver", "Clause"), structOf("solver", "watcherList")
	xpT := structOf("explain", "Problem")
	alias(unique(solverT, "solver.Status", false), "status", solverT)
	alias(unique(solverT, "[]*solver.Clause", false), "reason", solverT)
	alias(unique(solverT, "[]int", false), "minWeights", solverT)
	alias(unique(problemT, "[]int", true), "minWeights", problemT)
	alias(unique(problemT, "[]solver.Lit", true), "minLits", problemT)
	alias(unique(clauseT, "[]solver.Lit", false), "lits", clauseT)
	alias(unique(wlT, "[][]*solver.Clause", false), "wlistPb", wlT)
	alias(unique(xpT, "[]int", true), "units", xpT)
	alias(unique(xpT, "[]bool", true), "tagged", xpT)
	// Solver.lastModel: the field of type Model that the exported accessor Model() reads; Solver.model: the other one
	if solverT != nil {
		var models []*types.Var
		for i := 0; i < solverT.NumFields(); i++ {
			if typeShort(solverT.Field(i).Type()) == "solver.Model" {
				models = append(models, solverT.Field(i))
			}
		}
		if acc := w.Func("solver", "Solver.Model"); acc != nil && len(models) == 2 {
			read := map[*types.Var]bool{}
			allInstrs(acc, func(ins ssa.Instruction) {
				if fa, ok := ins.(*ssa.FieldAddr); ok {
					if pt, ok := fa.X.Type().Underlying().(*types.Pointer); ok {
						if st, ok := pt.Elem().Underlying().(*types.Struct); ok && st == solverT {
							read[st.Field(fa.Field)] = true
						}
					}
				}
			})
			for i, m := range models {
				if read[m] && !read[models[1-i]] {
					alias(m, "lastModel", solverT)
					alias(models[1-i], "model", solverT)
				}
			}
		}
		// Solver.facts: the []Lit field whose elements Assume reads without ever storing the field itself;
		// Solver.hypothesis: the []Lit field the optimisation loops store a fresh slice into
		solverField := func(v ssa.Value) *types.Var {
			fa, ok := v.(*ssa.FieldAddr)
			if !ok {
				return nil
			}
			pt, ok := fa.X.Type().Underlying().(*types.Pointer)
			if !ok {
				return nil
			}
			if st, ok := pt.Elem().Underlying().(*types.Struct); ok && st == solverT && typeShort(st.Field(fa.Field).Type()) == "[]solver.Lit" {
				return st.Field(fa.Field)
			}
			return nil
		}
		if as := w.Func("solver", "Solver.Assume"); as != nil {
			readElems, stored := map[*types.Var]bool{}, map[*types.Var]bool{}
			allInstrs(as, func(ins ssa.Instruction) {
				switch x := ins.(type) {
				case *ssa.IndexAddr:
					if ld, ok := x.X.(*ssa.UnOp); ok {
						if f := solverField(ld.X); f != nil {
							readElems[f] = true
						}
					}
				case *ssa.Store:
					if f := solverField(x.Addr); f != nil {
						stored[f] = true
					}
				}
			})
			var cands []*types.Var
			for f := range readElems {
				if !stored[f] {
					cands = append(cands, f)
				}
			}
			if len(cands) == 1 {
				alias(cands[0], "facts", solverT)
			}
		}
		if opt := w.Func("solver", "Solver.Optimal"); opt != nil {
			var cands []*types.Var
			allInstrs(opt, func(ins ssa.Instruction) {
				if st, ok := ins.(*ssa.Store); ok {
					if _, isMk := st.Val.(*ssa.MakeSlice); isMk {
						if f := solverField(st.Addr); f != nil {
							cands = append(cands, f)
						}
					}
				}
			})
			if len(cands) == 1 {
				alias(cands[0], "hypothesis", solverT)
			}
		}
		// Solver.minLits: the []Lit field the constructor fills from the problem's cost literals
		if ctor := w.Func("solver", "New"); ctor != nil && problemT != nil {
			allInstrs(ctor, func(ins ssa.Instruction) {
				st, ok := ins.(*ssa.Store)
				if !ok {
					return
				}
				fa, ok := st.Addr.(*ssa.FieldAddr)
				if !ok {
					return
				}
				pt, ok := fa.X.Type().Underlying().(*types.Pointer)
				if !ok {
					return
				}
				sst, ok := pt.Elem().Underlying().(*types.Struct)
				if !ok || sst != solverT {
					return
				}
				if ld, ok := st.Val.(*ssa.UnOp); ok {
					if fa2, ok := ld.X.(*ssa.FieldAddr); ok {
						if pt2, ok := fa2.X.Type().Underlying().(*types.Pointer); ok {
							if pst, ok := pt2.Elem().Underlying().(*types.Struct); ok && pst == problemT {
								switch canonField(pst.Field(fa2.Field)) {
								case "minLits":
									alias(sst.Field(fa.Field), "minLits", solverT)
								case "minWeights":
									alias(sst.Field(fa.Field), "minWeights", solverT)
								}
							}
						}
					}
				}
			})
		}
	}
}
