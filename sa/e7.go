package main

// Engine E7: sibling comparison.
//
// Two functions that are meant to do the same thing (Optimal/Minimize, Enumerate/CountModels) are each reduced to a
// SET OF FACTS and the sets are compared outside a per-pair list of documented asymmetries.
//
//   fact        = call / go / defer (callee name + classes of the arguments), store that is not absorbed by a local
//                 cell (class of the address <- class of the value), branch (class of the condition, polarity
//                 removed), scalar return of the root, panic, map update, send;
//                 every occurrence of a fact carries its control context: the set of (condition class, polarity)
//                 that dominate it (loop-header exit edges and presentation conditions removed).
//   class       = equivalence class of a value in a joint partition refinement of the def-use graphs of BOTH
//                 functions, run to its fixpoint (so "equal class" is a bisimulation: same operator, operands in
//                 equal classes, phi cycles included). Commutative operands are compared as multisets, integer
//                 +/- chains are flattened to linear forms, comparisons are brought to eq / lt with a sign, phi
//                 operands carry the branch conditions that select them (gated phi), a phi whose operands all fall
//                 in one class is that class.
//   inlining    = adaptive: a module function that BOTH siblings (after expansion) call is shared vocabulary: it
//                 stays an opaque, uniquely named operation compared by name and arguments. A module function only ONE
//                 of them calls is expanded in place (so "A calls a helper / calls B" compares equal to "B does it
//                 inline"), to depth 3; beyond it the callee is opaque again. Uniform inlining would be weaker: facts
//                 are sets, so a call dropped in one sibling would be hidden by the same call made deeper inside a
//                 commonly inlined callee (rebuildOrderHeap inside Solve).
//   canonical   = a local cell with a single whole store IS the stored value (parameter spilled for a closure,
//                 result spilled for a defer); a local struct cell is its set of (path, stored value); values coming
//                 from channel receives and bufio/io calls are IN:<type>.
//   presentation= dropped before comparison: channel operations and nil tests on channel parameters, fmt printing,
//                 tests of a field named Verbose and everything that executes only when Verbose is true (statistics
//                 goroutine).
//
// Nothing here executes gophersat; everything is resolved through go/ssa and go/types.

import (
	"fmt"
	"go/constant"
	"go/token"
	"go/types"
	"os"
	"sort"
	"strconv"
	"strings"

	"golang.org/x/tools/go/ssa"
)

const (
	e7Ordered = iota // operands positional
	e7Multi          // commutative: multiset of operands
	e7Set            // set of (tag, operand): phi, gate, cell contents, linear form
)

type e7edge struct {
	tag string
	to  *e7node
}

type e7node struct {
	id      int
	kind    string // rendering kind
	label   string // refinement label: operator + static attributes
	text    string // rendering text
	mode    int
	edges   []e7edge
	phiLike bool
	cls     int
	mention string // named entity this node stands for (field, callee, type), used by asymmetry predicates
}

type e7opts struct {
	MaxDepth    int
	ForceInline []string // FuncName of module functions expanded in both siblings
}

type e7universe struct {
	w        *World
	opts     e7opts
	nodes    []*e7node
	leaves   map[string]*e7node
	inl      map[*ssa.Function]bool
	notes    []string // unexpected shapes: reported as undecided by the rules
	loops    map[*ssa.Function]map[*ssa.BasicBlock]map[*ssa.BasicBlock]bool
	constNam map[string]string
}

// e7raw is a dominating branch edge before conversion to nodes.
type e7raw struct {
	ifi  *ssa.If
	edge bool // true edge taken
}

type e7guard struct {
	cond *e7node // unsigned condition
	pos  bool
}

type e7ctx struct {
	u      *e7universe
	fn     *ssa.Function
	parent *e7ctx
	site   ssa.CallInstruction
	depth  int
	via    []string
	bind   map[ssa.Value]*e7node
	nodes  map[ssa.Value]*e7node
	kids   map[ssa.CallInstruction]*e7ctx
	alts   map[e7altKey]*e7ctx
	fvSrc  map[*ssa.FreeVar]ssa.Value // what the parent context bound the closure's free variables to
	multi  map[ssa.CallInstruction]map[int]*e7node
	raws   map[*ssa.BasicBlock][]e7raw
	siteG  []e7guard
	rets   map[int]*e7node
	cmps   map[cmpKey]*e7node
	site0  string // position of the call in the root function this expansion hangs from
}

// e7fact is one occurrence of a fact.
type e7fact struct {
	Side   int
	Kind   string // call, go, defer, store, branch, return, panic, mapupdate, send
	Name   string // callee / access path / result index
	Nodes  []*e7node
	Guards []e7guard
	Via    []string
	Pos    string
	Depth  int
	Site   string // for a fact of an expanded callee: where the root function calls it

	bare, gkey string
}

func (f *e7fact) Category() string {
	switch f.Kind {
	case "branch":
		return "branch on " + f.Name
	case "return":
		return "return"
	}
	return f.Kind + " " + f.Name
}

// ---------- universe / nodes ----------

func (u *e7universe) newNode(kind, label, text string, mode int) *e7node {
	n := &e7node{id: len(u.nodes), kind: kind, label: label, text: text, mode: mode}
	u.nodes = append(u.nodes, n)
	return n
}

func (u *e7universe) leaf(label, text string) *e7node {
	if n, ok := u.leaves[label]; ok {
		return n
	}
	n := u.newNode("leaf", label, text, e7Ordered)
	u.leaves[label] = n
	return n
}

func (u *e7universe) note(format string, args ...interface{}) {
	s := fmt.Sprintf(format, args...)
	for _, o := range u.notes {
		if o == s {
			return
		}
	}
	u.notes = append(u.notes, s)
}

func e7type(t types.Type) string { return typeShort(t) }

// constLeaf renders constants of a named module type by their declared name (Unsat rather than 2).
func (u *e7universe) constLeaf(k *ssa.Const) *e7node {
	ts := e7type(k.Type())
	if k.Value == nil {
		if k.IsNil() {
			return u.leaf("const:nil:"+ts, "nil")
		}
		return u.leaf("const:zero:"+ts, "zero("+ts+")")
	}
	val := k.Value.ExactString()
	text := val
	if named, ok := k.Type().(*types.Named); ok && named.Obj().Pkg() != nil {
		key := ts + "=" + val
		if nm, ok := u.constNam[key]; ok {
			text = nm
		} else {
			sc := named.Obj().Pkg().Scope()
			for _, name := range sc.Names() {
				if c, ok := sc.Lookup(name).(*types.Const); ok && types.Identical(c.Type(), named) && constant.Compare(c.Val(), token.EQL, k.Value) {
					text = name
					break
				}
			}
			u.constNam[key] = text
		}
	}
	return u.leaf("const:"+val+":"+ts, text)
}

func e7isInteger(t types.Type) bool {
	b, ok := t.Underlying().(*types.Basic)
	return ok && b.Info()&types.IsInteger != 0
}

func e7isFloatish(t types.Type) bool {
	b, ok := t.Underlying().(*types.Basic)
	return ok && b.Info()&(types.IsFloat|types.IsComplex) != 0
}

func e7isChan(t types.Type) bool {
	_, ok := t.Underlying().(*types.Chan)
	return ok
}

// ---------- contexts ----------

func (u *e7universe) rootCtx(fn *ssa.Function) *e7ctx {
	return &e7ctx{u: u, fn: fn, bind: map[ssa.Value]*e7node{}, nodes: map[ssa.Value]*e7node{},
		kids: map[ssa.CallInstruction]*e7ctx{}, alts: map[e7altKey]*e7ctx{}, fvSrc: map[*ssa.FreeVar]ssa.Value{}, multi: map[ssa.CallInstruction]map[int]*e7node{}, raws: map[*ssa.BasicBlock][]e7raw{}, rets: map[int]*e7node{}}
}

func (c *e7ctx) inChain(fn *ssa.Function) bool {
	for x := c; x != nil; x = x.parent {
		if x.fn == fn {
			return true
		}
	}
	return false
}

// inlineTarget decides whether the call is expanded in place and returns the callee.
func (c *e7ctx) inlineTarget(ci ssa.CallInstruction) *ssa.Function {
	common := ci.Common()
	if common.IsInvoke() {
		return nil
	}
	var callee *ssa.Function
	closure := false
	switch v := common.Value.(type) {
	case *ssa.Function:
		callee = v
	case *ssa.MakeClosure:
		callee, _ = v.Fn.(*ssa.Function)
		closure = true
	}
	if callee == nil || callee.Blocks == nil || !c.u.w.InModule(callee) {
		return nil
	}
	if c.depth >= c.u.opts.MaxDepth || c.inChain(callee) {
		return nil
	}
	if !closure && !c.u.inl[callee] {
		return nil
	}
	if len(callee.Params) != len(common.Args) {
		return nil
	}
	return callee
}

// ---------- a call of a function value chosen among several closures ----------

type e7altKey struct {
	ci   ssa.CallInstruction
	edge int
}

type e7target struct {
	callee *ssa.Function
	args   []ssa.Value
	mc     *ssa.MakeClosure // supplies the free variables of callee; nil for a bound method
	edge   int
}

// e7boundMethod: the method a bound-method wrapper (`x.m` used as a value) calls.
func e7boundMethod(fn *ssa.Function) *ssa.Function {
	if !strings.HasPrefix(fn.Synthetic, "bound method wrapper") {
		return nil
	}
	var m *ssa.Function
	for _, b := range fn.Blocks {
		for _, ins := range b.Instrs {
			if ci, ok := ins.(ssa.CallInstruction); ok {
				if m != nil {
					return nil
				}
				m = ci.Common().StaticCallee()
			}
		}
	}
	return m
}

// multiTargets: `f := x.m; if c { f = func() T { ... } }; ... f()`: the callee is a phi of closures. Every closure is
// expanded; the result is the merge of their results under the conditions of the phi's edges, the facts of each
// expansion hold under those conditions too. Nothing is returned unless every edge is a closure that can be expanded.
func (c *e7ctx) multiTargets(ci ssa.CallInstruction) (*ssa.Phi, []e7target) {
	common := ci.Common()
	if common.IsInvoke() || c.depth >= c.u.opts.MaxDepth {
		return nil, nil
	}
	phi, ok := common.Value.(*ssa.Phi)
	if !ok {
		return nil, nil
	}
	var out []e7target
	for i, e := range phi.Edges {
		mc, ok := e.(*ssa.MakeClosure)
		if !ok {
			return nil, nil
		}
		fn, _ := mc.Fn.(*ssa.Function)
		if fn == nil {
			return nil, nil
		}
		t := e7target{callee: fn, args: common.Args, mc: mc, edge: i}
		if !c.u.w.InModule(fn) {
			m := e7boundMethod(fn)
			if m == nil || len(mc.Bindings) != 1 || !c.u.w.InModule(m) || !c.u.inl[m] {
				return nil, nil
			}
			t = e7target{callee: m, args: append([]ssa.Value{mc.Bindings[0]}, common.Args...), edge: i}
		}
		if t.callee.Blocks == nil || c.inChain(t.callee) || len(t.callee.Params) != len(t.args) {
			return nil, nil
		}
		out = append(out, t)
	}
	if len(out) < 2 {
		return nil, nil
	}
	return phi, out
}

// edgeGate: the conditions under which the phi takes its i-th edge, beyond those of the phi's own block.
func (c *e7ctx) edgeGate(phi *ssa.Phi, i int) []e7raw {
	rb := c.rawGuards(phi.Block())
	var gate []e7raw
	for _, g := range c.edgeRaw(phi.Block(), i) {
		dup := false
		for _, h := range rb {
			if h == g {
				dup = true
			}
		}
		if !dup {
			gate = append(gate, g)
		}
	}
	return gate
}

func (c *e7ctx) altChild(ci ssa.CallInstruction, phi *ssa.Phi, t e7target) *e7ctx {
	key := e7altKey{ci, t.edge}
	if k, ok := c.alts[key]; ok {
		return k
	}
	k := c.u.rootCtx(t.callee)
	k.parent, k.site, k.depth = c, ci, c.depth+1
	name := c.u.w.FuncName(t.callee)
	if t.callee.Parent() != nil {
		name = "closure in " + c.u.w.FuncName(t.callee.Parent())
	}
	k.via = append(append([]string{}, c.via...), name)
	k.site0 = c.site0
	if c.depth == 0 {
		k.site0 = c.u.w.InstrPos(ci)
	}
	c.alts[key] = k
	for i, p := range t.callee.Params {
		k.bind[p] = c.val(t.args[i])
	}
	if t.mc != nil {
		for i, fv := range t.callee.FreeVars {
			if i < len(t.mc.Bindings) {
				k.bind[fv] = c.val(t.mc.Bindings[i])
				k.fvSrc[fv] = t.mc.Bindings[i]
			}
		}
	}
	k.siteG = append(c.guardsOf(ci.Block()), c.convert(c.edgeGate(phi, t.edge))...)
	return k
}

// multiResult: the idx-th result of a call with several targets.
func (c *e7ctx) multiResult(ci ssa.CallInstruction, phi *ssa.Phi, ts []e7target, idx int) *e7node {
	if m := c.multi[ci]; m != nil {
		if n, ok := m[idx]; ok {
			return n
		}
	} else {
		c.multi[ci] = map[int]*e7node{}
	}
	n := c.u.newNode("phi", "phi", "call("+phi.Comment+")", e7Set)
	n.phiLike = true
	c.multi[ci][idx] = n
	for _, t := range ts {
		n.edges = append(n.edges, e7edge{"", c.caseNode(c.altChild(ci, phi, t).result(idx), c.gateOf(c.edgeGate(phi, t.edge)))})
	}
	return n
}

func (c *e7ctx) child(ci ssa.CallInstruction, callee *ssa.Function) *e7ctx {
	if k, ok := c.kids[ci]; ok {
		return k
	}
	k := c.u.rootCtx(callee)
	k.parent, k.site, k.depth = c, ci, c.depth+1
	name := c.u.w.FuncName(callee)
	if callee.Parent() != nil {
		name = "closure in " + c.u.w.FuncName(callee.Parent())
	}
	k.via = append(append([]string{}, c.via...), name)
	k.site0 = c.site0
	if c.depth == 0 {
		k.site0 = c.u.w.InstrPos(ci)
	}
	c.kids[ci] = k
	common := ci.Common()
	for i, p := range callee.Params {
		k.bind[p] = c.val(common.Args[i])
	}
	if mc, ok := common.Value.(*ssa.MakeClosure); ok {
		for i, fv := range callee.FreeVars {
			if i < len(mc.Bindings) {
				k.bind[fv] = c.val(mc.Bindings[i])
				k.fvSrc[fv] = mc.Bindings[i]
			}
		}
	}
	k.siteG = c.guardsOf(ci.Block())
	return k
}

// result returns the node of the idx-th result of the expanded callee (the merge of its returns).
func (c *e7ctx) result(idx int) *e7node {
	if n, ok := c.rets[idx]; ok {
		return n
	}
	var rets []*ssa.Return
	for _, b := range c.fn.Blocks {
		if b == c.fn.Recover || len(b.Instrs) == 0 {
			continue
		}
		if r, ok := b.Instrs[len(b.Instrs)-1].(*ssa.Return); ok && idx < len(r.Results) {
			rets = append(rets, r)
		}
	}
	var n *e7node
	switch len(rets) {
	case 0:
		n = c.u.leaf("void", "void")
	case 1:
		n = c.val(rets[0].Results[idx])
	default:
		n = c.u.newNode("phi", "phi", "ret("+c.fn.Name()+")", e7Set)
		n.phiLike = true
		c.rets[idx] = n
		for _, r := range rets {
			n.edges = append(n.edges, e7edge{"", c.caseNode(c.val(r.Results[idx]), c.gateOf(c.rawGuards(r.Block())))})
		}
	}
	c.rets[idx] = n
	return n
}

func (c *e7ctx) caseNode(v, gate *e7node) *e7node {
	n := c.u.newNode("case", "case", "", e7Ordered)
	n.edges = []e7edge{{"", v}, {"", gate}}
	return n
}

// ---------- guards ----------

func (u *e7universe) loopOf(fn *ssa.Function, h *ssa.BasicBlock) map[*ssa.BasicBlock]bool {
	m := u.loops[fn]
	if m == nil {
		m = map[*ssa.BasicBlock]map[*ssa.BasicBlock]bool{}
		u.loops[fn] = m
	}
	if l, ok := m[h]; ok {
		return l
	}
	isHeader := false
	for _, p := range h.Preds {
		if h.Dominates(p) {
			isHeader = true
		}
	}
	var l map[*ssa.BasicBlock]bool
	if isHeader {
		l = loopBlocks(fn, h)
	}
	m[h] = l
	return l
}

// rawGuards: branch edges (d -> t) such that t dominates b and every other way into t is a back edge from the
// region t dominates, d itself lying outside that region. Then b runs only after that edge was taken and the
// condition was not evaluated again since.
func (c *e7ctx) rawGuards(b *ssa.BasicBlock) []e7raw {
	if g, ok := c.raws[b]; ok {
		return g
	}
	var out []e7raw
	for d := b.Idom(); d != nil; d = d.Idom() {
		if len(d.Instrs) == 0 || len(d.Succs) != 2 || d.Succs[0] == d.Succs[1] {
			continue
		}
		iff, ok := d.Instrs[len(d.Instrs)-1].(*ssa.If)
		if !ok {
			continue
		}
		for k, t := range d.Succs {
			if !t.Dominates(b) || t.Dominates(d) {
				continue
			}
			only := true
			for _, p := range t.Preds {
				if p != d && !t.Dominates(p) {
					only = false
				}
			}
			if only {
				out = append(out, e7raw{iff, k == 0})
			}
		}
	}
	c.raws[b] = out
	return out
}

// edgeRaw: the guards of the control-flow edge p -> b (pred index i).
func (c *e7ctx) edgeRaw(b *ssa.BasicBlock, i int) []e7raw {
	p := b.Preds[i]
	out := append([]e7raw{}, c.rawGuards(p)...)
	if len(p.Succs) == 2 && p.Succs[0] != p.Succs[1] && len(p.Instrs) > 0 {
		if iff, ok := p.Instrs[len(p.Instrs)-1].(*ssa.If); ok {
			out = append(out, e7raw{iff, p.Succs[0] == b})
		}
	}
	return out
}

// presentation classifies a condition: 0 none, 1 nil test of a channel parameter, 2 test of the Verbose field.
// neg reports an odd number of negations in front of the Verbose load.
func (c *e7ctx) presentation(v ssa.Value) (kind int, neg bool) {
	for {
		if u, ok := v.(*ssa.UnOp); ok && u.Op == token.NOT {
			v = u.X
			neg = !neg
			continue
		}
		break
	}
	switch x := v.(type) {
	case *ssa.BinOp:
		if x.Op == token.EQL || x.Op == token.NEQ {
			if isNilConst(x.Y) && c.isChanParam(x.X) || isNilConst(x.X) && c.isChanParam(x.Y) {
				return 1, false
			}
		}
	case *ssa.UnOp:
		if x.Op == token.MUL {
			if _, f, _, ok := fieldOf(x.X); ok && f == "Verbose" {
				return 2, neg
			}
		}
	}
	return 0, false
}

// isChanParam: a channel-typed parameter of the function the value belongs to (possibly spilled to a cell).
func (c *e7ctx) isChanParam(v ssa.Value) bool {
	if !e7isChan(v.Type()) {
		return false
	}
	switch x := v.(type) {
	case *ssa.Parameter:
		return true
	case *ssa.UnOp:
		if x.Op == token.MUL {
			if al, ok := x.X.(*ssa.Alloc); ok {
				if sv := e7singleStore(al); sv != nil {
					_, isP := sv.(*ssa.Parameter)
					return isP
				}
			}
			// inside a closure: the captured cell of the enclosing function's channel parameter
			if fv, ok := x.X.(*ssa.FreeVar); ok {
				g := fv.Parent()
				if g == nil || g.Parent() == nil {
					return false
				}
				idx := -1
				for i, f := range g.FreeVars {
					if f == fv {
						idx = i
					}
				}
				found := false
				for _, b := range g.Parent().Blocks {
					for _, ins := range b.Instrs {
						mc, isMC := ins.(*ssa.MakeClosure)
						if !isMC || mc.Fn != ssa.Value(g) || idx < 0 || idx >= len(mc.Bindings) {
							continue
						}
						if al, isAl := mc.Bindings[idx].(*ssa.Alloc); isAl {
							if sv := e7singleStore(al); sv != nil {
								if _, isP := sv.(*ssa.Parameter); isP {
									found = true
								}
							}
						}
					}
				}
				return found
			}
		}
	}
	return false
}

// blockDropped: the block executes only when Verbose is true (presentation).
func (c *e7ctx) blockDropped(b *ssa.BasicBlock) bool {
	for _, g := range c.rawGuards(b) {
		if k, neg := c.presentation(g.ifi.Cond); k == 2 && g.edge != neg {
			return true
		}
	}
	return false
}

func (c *e7ctx) keepRaw(g e7raw) bool {
	if k, _ := c.presentation(g.ifi.Cond); k != 0 {
		return false
	}
	d := g.ifi.Block()
	if l := c.u.loopOf(c.fn, d); l != nil {
		t := d.Succs[1]
		if g.edge {
			t = d.Succs[0]
		}
		if !l[t] {
			return false // exit edge of a loop header: what follows the loop does not depend on it
		}
	}
	return true
}

func (c *e7ctx) convert(raws []e7raw) []e7guard {
	var out []e7guard
	for _, g := range raws {
		if !c.keepRaw(g) {
			continue
		}
		n, s := c.boolOf(g.ifi.Cond)
		out = append(out, e7guard{n, g.edge == s})
	}
	return out
}

// guardsOf: complete control context of a block: own guards plus those of the call sites it was expanded at.
func (c *e7ctx) guardsOf(b *ssa.BasicBlock) []e7guard {
	out := c.convert(c.rawGuards(b))
	return append(out, c.siteG...)
}

func (c *e7ctx) gateOf(raws []e7raw) *e7node {
	n := c.u.newNode("gate", "gate", "", e7Set)
	for _, g := range c.convert(raws) {
		tag := "-"
		if g.pos {
			tag = "+"
		}
		n.edges = append(n.edges, e7edge{tag, g.cond})
	}
	return n
}

// ---------- values ----------

// e7singleStore: the cell has exactly one whole store, no partial access, and its address goes nowhere except
// into closures that do not write it. Then a load of the cell is the stored value.
func e7singleStore(al *ssa.Alloc) ssa.Value {
	vals, simple := e7cellStores(al)
	if simple && len(vals) == 1 {
		return vals[0]
	}
	return nil
}

// e7cellStores lists the values stored whole into the cell; simple is false when the cell is accessed partially or
// its address escapes.
func e7cellStores(al *ssa.Alloc) (vals []ssa.Value, simple bool) {
	simple = true
	refs := al.Referrers()
	if refs == nil {
		return nil, false
	}
	for _, r := range *refs {
		switch y := r.(type) {
		case *ssa.Store:
			if y.Addr == al {
				vals = append(vals, y.Val)
			} else {
				simple = false
			}
		case *ssa.UnOp:
			if y.Op != token.MUL {
				simple = false
			}
		case *ssa.DebugRef:
		case *ssa.MakeClosure:
			fn, _ := y.Fn.(*ssa.Function)
			if fn == nil {
				simple = false
				break
			}
			for i, bnd := range y.Bindings {
				if bnd != al || i >= len(fn.FreeVars) {
					continue
				}
				if frefs := fn.FreeVars[i].Referrers(); frefs != nil {
					for _, fr := range *frefs {
						if u, ok := fr.(*ssa.UnOp); ok && u.Op == token.MUL {
							continue
						}
						if _, ok := fr.(*ssa.DebugRef); ok {
							continue
						}
						simple = false
					}
				}
			}
		default:
			simple = false
		}
	}
	return vals, simple
}

func (c *e7ctx) paramLeaf(p *ssa.Parameter) *e7node {
	fn := p.Parent()
	if fn != nil && fn.Signature.Recv() != nil && len(fn.Params) > 0 && fn.Params[0] == p {
		return c.u.leaf("recv:"+e7type(p.Type()), p.Name())
	}
	n := c.u.leaf("param:"+e7type(p.Type()), "param("+e7type(p.Type())+")")
	if e7isChan(p.Type()) {
		n.mention = "chanparam"
	}
	return n
}

func (c *e7ctx) val(v ssa.Value) *e7node {
	if v == nil {
		return c.u.leaf("none", "")
	}
	switch x := v.(type) {
	case *ssa.Const:
		return c.u.constLeaf(x)
	case *ssa.Global:
		name := x.Name()
		if x.Pkg != nil {
			name = x.Pkg.Pkg.Name() + "." + name
		}
		return c.u.leaf("global:"+name, name)
	case *ssa.Function:
		return c.u.leaf("func:"+c.u.w.FuncName(x), c.u.w.FuncName(x))
	case *ssa.Builtin:
		return c.u.leaf("builtin:"+x.Name(), x.Name())
	case *ssa.Parameter:
		if n, ok := c.bind[x]; ok {
			return n
		}
		return c.paramLeaf(x)
	case *ssa.FreeVar:
		if n, ok := c.bind[x]; ok {
			return n
		}
		return c.u.leaf("freevar:"+e7type(x.Type()), "freevar("+x.Name()+")")
	}
	if n, ok := c.nodes[v]; ok {
		if n == nil {
			if bo, ok := v.(*ssa.BinOp); ok {
				// a comparison reached again through a phi while its operands are being built
				if cn := c.cmps[cmpKey{bo}]; cn != nil {
					return c.signed(cn, bo.Op == token.EQL || bo.Op == token.LSS || bo.Op == token.GTR || e7isFloatish(bo.X.Type()))
				}
			}
			c.u.note("%s: value %s is defined through itself without a phi", c.u.w.FuncName(c.fn), v.Name())
			return c.u.leaf("cyclic:"+e7type(v.Type()), "cyclic")
		}
		return n
	}
	c.nodes[v] = nil
	n := c.build(v)
	c.nodes[v] = n
	return n
}

// mk creates and registers (before its operands are built, so that cycles close on it) a node for v.
func (c *e7ctx) mk(v ssa.Value, kind, label, text string, mode int) *e7node {
	n := c.u.newNode(kind, label, text, mode)
	if v != nil {
		c.nodes[v] = n
	}
	return n
}

func (c *e7ctx) generic(v ssa.Value, kind, label, text string, ops ...ssa.Value) *e7node {
	n := c.mk(v, kind, label, text, e7Ordered)
	for _, o := range ops {
		n.edges = append(n.edges, e7edge{"", c.val(o)})
	}
	return n
}

func e7fieldName(t types.Type, idx int) (owner, field string) {
	if p, ok := t.Underlying().(*types.Pointer); ok {
		t = p.Elem()
	}
	st, ok := t.Underlying().(*types.Struct)
	if !ok || idx >= st.NumFields() {
		return e7type(t), "#" + strconv.Itoa(idx)
	}
	return e7type(t), canonField(st.Field(idx))
}

func (c *e7ctx) build(v ssa.Value) *e7node {
	u := c.u
	switch x := v.(type) {
	case *ssa.Phi:
		n := c.mk(v, "phi", "phi", x.Comment, e7Set)
		n.phiLike = true
		rb := c.rawGuards(x.Block())
		for i, e := range x.Edges {
			var gate []e7raw
			for _, g := range c.edgeRaw(x.Block(), i) {
				dup := false
				for _, h := range rb {
					if h == g {
						dup = true
					}
				}
				if !dup {
					gate = append(gate, g)
				}
			}
			n.edges = append(n.edges, e7edge{"", c.caseNode(c.val(e), c.gateOf(gate))})
		}
		return n
	case *ssa.UnOp:
		switch x.Op {
		case token.ARROW:
			return u.leaf("IN:"+e7type(x.Type()), "<-chan:"+e7type(x.Type()))
		case token.MUL:
			// inside a closure: a captured cell of the enclosing function that is written once holds that value
			if fv, ok := x.X.(*ssa.FreeVar); ok && c.parent != nil {
				if al, ok := c.fvSrc[fv].(*ssa.Alloc); ok {
					if sv := e7singleStore(al); sv != nil {
						return c.parent.val(sv)
					}
				}
			}
			if al, ok := x.X.(*ssa.Alloc); ok {
				if vals, simple := e7cellStores(al); simple && len(vals) > 0 {
					if len(vals) == 1 {
						return c.val(vals[0])
					}
					n := c.mk(v, "phi", "phi", al.Comment, e7Set)
					n.phiLike = true
					for _, sv := range vals {
						n.edges = append(n.edges, e7edge{"", c.caseNode(c.val(sv), c.gateOf(nil))})
					}
					return n
				}
			}
			return c.generic(v, "load", "load", "", x.X)
		case token.NOT:
			n, s := c.boolOf(x)
			return c.signed(n, s)
		case token.SUB:
			if e7isInteger(x.Type()) {
				return c.linear(v)
			}
		}
		return c.generic(v, "unop", "unop:"+x.Op.String(), x.Op.String(), x.X)
	case *ssa.BinOp:
		switch x.Op {
		case token.EQL, token.NEQ, token.LSS, token.LEQ, token.GTR, token.GEQ:
			n, s := c.boolOf(x)
			return c.signed(n, s)
		case token.ADD, token.SUB:
			if e7isInteger(x.Type()) {
				return c.linear(v)
			}
		case token.MUL:
			if e7isInteger(x.Type()) {
				if _, ok := constInt(x.X); ok {
					return c.linear(v)
				}
				if _, ok := constInt(x.Y); ok {
					return c.linear(v)
				}
			}
		}
		mode := e7Ordered
		switch x.Op {
		case token.MUL, token.AND, token.OR, token.XOR:
			mode = e7Multi
		case token.ADD:
			if e7isFloatish(x.Type()) {
				mode = e7Multi
			}
		}
		n := c.mk(v, "binop", "binop:"+x.Op.String()+":"+e7type(x.Type()), x.Op.String(), mode)
		n.edges = []e7edge{{"", c.val(x.X)}, {"", c.val(x.Y)}}
		return n
	case *ssa.Call:
		return c.callValue(x)
	case *ssa.Extract:
		if call, ok := x.Tuple.(*ssa.Call); ok {
			if callee := c.inlineTarget(call); callee != nil {
				return c.child(call, callee).result(x.Index)
			}
			if phi, ts := c.multiTargets(call); ts != nil {
				return c.multiResult(call, phi, ts, x.Index)
			}
		}
		t := c.val(x.Tuple)
		if strings.HasPrefix(t.label, "IN:") {
			return u.leaf("IN:"+e7type(x.Type()), "input:"+e7type(x.Type()))
		}
		n := c.mk(v, "extract", "extract#"+strconv.Itoa(x.Index), strconv.Itoa(x.Index), e7Ordered)
		n.edges = []e7edge{{"", t}}
		return n
	case *ssa.Alloc:
		ts := e7type(x.Type().Underlying().(*types.Pointer).Elem())
		n := c.mk(v, "alloc", "alloc:"+ts, ts, e7Set)
		n.mention = "type:" + ts
		c.cellContents(n, x, "", 0)
		return n
	case *ssa.FieldAddr:
		o, f := e7fieldName(x.X.Type(), x.Field)
		n := c.generic(v, "fieldaddr", "fieldaddr:"+o+"."+f, f, x.X)
		n.mention = "field:" + o + "." + f
		return n
	case *ssa.Field:
		o, f := e7fieldName(x.X.Type(), x.Field)
		n := c.generic(v, "field", "field:"+o+"."+f, f, x.X)
		n.mention = "field:" + o + "." + f
		return n
	case *ssa.IndexAddr:
		return c.generic(v, "indexaddr", "indexaddr", "", x.X, x.Index)
	case *ssa.Index:
		return c.generic(v, "index", "index", "", x.X, x.Index)
	case *ssa.Lookup:
		return c.generic(v, "index", "lookup:"+strconv.FormatBool(x.CommaOk), "", x.X, x.Index)
	case *ssa.MakeSlice:
		// a fresh slice is told apart from another one of the same type and size by what is put into it directly:
		// copy(dst = it, src) and element stores (flow-insensitive, like a local cell)
		n := c.generic(v, "make", "makeslice:"+e7type(x.Type()), e7type(x.Type()), x.Len, x.Cap)
		cont := c.u.newNode("contents", "contents", "", e7Set)
		n.edges = append(n.edges, e7edge{"", cont})
		if refs := x.Referrers(); refs != nil {
			for _, r := range *refs {
				switch y := r.(type) {
				case *ssa.Call:
					if b, ok := y.Call.Value.(*ssa.Builtin); ok && b.Name() == "copy" && len(y.Call.Args) == 2 && y.Call.Args[0] == v {
						cont.edges = append(cont.edges, e7edge{"copy", c.val(y.Call.Args[1])})
					}
				case *ssa.IndexAddr:
					if y.X != v || y.Referrers() == nil {
						continue
					}
					for _, r2 := range *y.Referrers() {
						if st, ok := r2.(*ssa.Store); ok && st.Addr == y {
							cont.edges = append(cont.edges, e7edge{"elem", c.val(st.Val)})
						}
					}
				}
			}
		}
		return n
	case *ssa.MakeMap:
		return c.generic(v, "make", "makemap:"+e7type(x.Type()), e7type(x.Type()), x.Reserve)
	case *ssa.MakeChan:
		return c.generic(v, "make", "makechan:"+e7type(x.Type()), e7type(x.Type()), x.Size)
	case *ssa.MakeInterface:
		return c.generic(v, "conv", "makeiface:"+e7type(x.Type()), e7type(x.Type()), x.X)
	case *ssa.ChangeType:
		return c.generic(v, "conv", "changetype:"+e7type(x.Type()), e7type(x.Type()), x.X)
	case *ssa.ChangeInterface:
		return c.generic(v, "conv", "changeiface:"+e7type(x.Type()), e7type(x.Type()), x.X)
	case *ssa.Convert:
		return c.generic(v, "conv", "convert:"+e7type(x.Type()), e7type(x.Type()), x.X)
	case *ssa.SliceToArrayPointer:
		return c.generic(v, "conv", "slice2array:"+e7type(x.Type()), e7type(x.Type()), x.X)
	case *ssa.TypeAssert:
		return c.generic(v, "conv", "typeassert:"+e7type(x.AssertedType)+":"+strconv.FormatBool(x.CommaOk), e7type(x.AssertedType), x.X)
	case *ssa.Slice:
		return c.generic(v, "slice", "slice", "", x.X, x.Low, x.High, x.Max)
	case *ssa.MakeClosure:
		n := c.generic(v, "closure", "closure:"+e7type(x.Type()), "func literal", x.Bindings...)
		return n
	case *ssa.Range:
		return c.generic(v, "op", "range", "range", x.X)
	case *ssa.Next:
		return c.generic(v, "op", "next", "next", x.Iter)
	case *ssa.Select:
		return u.leaf("IN:"+e7type(x.Type()), "select")
	}
	u.note("%s: unexpected SSA value %T", u.w.FuncName(c.fn), v)
	return u.leaf(fmt.Sprintf("opaque:%T:%s", v, e7type(v.Type())), fmt.Sprintf("%T", v))
}

// cellContents adds (path, stored value) edges for every store into the local cell (flow-insensitive).
func (c *e7ctx) cellContents(n *e7node, addr ssa.Value, path string, depth int) {
	refs := addr.Referrers()
	if refs == nil || depth > 4 {
		return
	}
	for _, r := range *refs {
		switch y := r.(type) {
		case *ssa.Store:
			if y.Addr == addr {
				n.edges = append(n.edges, e7edge{path, c.val(y.Val)})
			}
		case *ssa.FieldAddr:
			if y.X == addr {
				_, f := e7fieldName(y.X.Type(), y.Field)
				c.cellContents(n, y, path+"."+f, depth+1)
			}
		case *ssa.IndexAddr:
			if y.X == addr {
				idx := "[]"
				if k, ok := constInt(y.Index); ok {
					idx = "[" + strconv.FormatInt(k, 10) + "]"
				}
				c.cellContents(n, y, path+idx, depth+1)
			}
		}
	}
}

// boolOf brings a boolean value to (unsigned condition, sign): eq(a,b) / lt(a,b) with the polarity separated, so
// that `x != nil` on the true edge and `x == nil` on the false edge are the same guard.
func (c *e7ctx) boolOf(v ssa.Value) (*e7node, bool) {
	switch x := v.(type) {
	case *ssa.UnOp:
		if x.Op == token.NOT {
			n, s := c.boolOf(x.X)
			return n, !s
		}
	case *ssa.BinOp:
		key := cmpKey{x}
		switch x.Op {
		case token.EQL, token.NEQ:
			n := c.cmpNode(key, "eq", e7Multi, x.X, x.Y)
			return n, x.Op == token.EQL
		case token.LSS, token.GEQ, token.GTR, token.LEQ:
			if e7isFloatish(x.X.Type()) {
				// NaN: !(a<b) is not a>=b; keep the operator
				n := c.cmpNode(key, "fcmp:"+x.Op.String(), e7Ordered, x.X, x.Y)
				return n, true
			}
			switch x.Op {
			case token.LSS:
				return c.cmpNode(key, "lt", e7Ordered, x.X, x.Y), true
			case token.GEQ:
				return c.cmpNode(key, "lt", e7Ordered, x.X, x.Y), false
			case token.GTR:
				return c.cmpNode(key, "lt", e7Ordered, x.Y, x.X), true
			default:
				return c.cmpNode(key, "lt", e7Ordered, x.Y, x.X), false
			}
		}
	}
	return c.val(v), true
}

type cmpKey struct{ b *ssa.BinOp }

func (c *e7ctx) cmpNode(key cmpKey, op string, mode int, a, b ssa.Value) *e7node {
	if c.cmps == nil {
		c.cmps = map[cmpKey]*e7node{}
	}
	if n, ok := c.cmps[key]; ok {
		return n
	}
	n := c.u.newNode("cmp", "cmp:"+op, op, mode)
	c.cmps[key] = n
	n.edges = []e7edge{{"", c.val(a)}, {"", c.val(b)}}
	return n
}

func (c *e7ctx) signed(n *e7node, pos bool) *e7node {
	if pos {
		return n
	}
	neg := c.u.newNode("not", "not", "!", e7Ordered)
	neg.edges = []e7edge{{"", n}}
	return neg
}

// linear flattens an integer +/- chain (and multiplication by a constant) to const + sum coef*atom.
func (c *e7ctx) linear(v ssa.Value) *e7node {
	ts := e7type(v.Type())
	n := c.mk(v, "lin", "", "", e7Set)
	coefs := map[*e7node]int64{}
	var order []*e7node
	var konst int64
	var walk func(x ssa.Value, k int64, depth int)
	addAtom := func(a *e7node, k int64) {
		if _, ok := coefs[a]; !ok {
			order = append(order, a)
		}
		coefs[a] += k
	}
	walk = func(x ssa.Value, k int64, depth int) {
		if depth < 40 && e7type(x.Type()) == ts {
			switch y := x.(type) {
			case *ssa.Const:
				if i, ok := constInt(y); ok {
					konst += k * i
					return
				}
			case *ssa.BinOp:
				switch y.Op {
				case token.ADD:
					walk(y.X, k, depth+1)
					walk(y.Y, k, depth+1)
					return
				case token.SUB:
					walk(y.X, k, depth+1)
					walk(y.Y, -k, depth+1)
					return
				case token.MUL:
					if i, ok := constInt(y.X); ok {
						walk(y.Y, k*i, depth+1)
						return
					}
					if i, ok := constInt(y.Y); ok {
						walk(y.X, k*i, depth+1)
						return
					}
				}
			case *ssa.UnOp:
				if y.Op == token.SUB {
					walk(y.X, -k, depth+1)
					return
				}
			}
		}
		a := c.val(x)
		if a.kind == "lin" && a != n && a.label != "" && strings.HasPrefix(a.label, "lin:"+ts+":") {
			// an expanded callee returned a linear form: merge it
			if k0, err := strconv.ParseInt(strings.TrimPrefix(a.label, "lin:"+ts+":"), 10, 64); err == nil {
				konst += k * k0
				for _, e := range a.edges {
					ck, _ := strconv.ParseInt(e.tag, 10, 64)
					addAtom(e.to, k*ck)
				}
				return
			}
		}
		addAtom(a, k)
	}
	walk(v, 1, 0)
	var atoms []*e7node
	for _, a := range order {
		if coefs[a] != 0 {
			atoms = append(atoms, a)
		}
	}
	// degenerate forms: the placeholder may already be referenced from a phi cycle, so it stays and becomes an
	// identity (a one-operand merge is the class of its operand)
	identity := func(to *e7node) *e7node {
		n.kind, n.label, n.phiLike = "phi", "phi", true
		n.edges = []e7edge{{"", c.caseNode(to, c.gateOf(nil))}}
		return n
	}
	if len(atoms) == 0 {
		return identity(c.u.leaf("const:"+strconv.FormatInt(konst, 10)+":"+ts, strconv.FormatInt(konst, 10)))
	}
	if len(atoms) == 1 && konst == 0 && coefs[atoms[0]] == 1 {
		return identity(atoms[0])
	}
	n.label = "lin:" + ts + ":" + strconv.FormatInt(konst, 10)
	n.text = strconv.FormatInt(konst, 10)
	for _, a := range atoms {
		n.edges = append(n.edges, e7edge{strconv.FormatInt(coefs[a], 10), a})
	}
	return n
}

func (u *e7universe) calleeName(common *ssa.CallCommon) string {
	if common.IsInvoke() {
		recv := e7type(common.Value.Type())
		return "invoke " + recv + "." + common.Method.Name()
	}
	if n := u.w.calleeName(common); n != "" {
		return n
	}
	return "dynamic"
}

func e7inputPkg(f *ssa.Function) bool {
	if f == nil || f.Pkg == nil {
		return false
	}
	switch f.Pkg.Pkg.Path() {
	case "bufio", "io":
		return true
	}
	return false
}

func (c *e7ctx) callValue(x *ssa.Call) *e7node {
	common := x.Common()
	if b, ok := common.Value.(*ssa.Builtin); ok {
		n := c.generic(x, "builtin", "builtin:"+b.Name(), b.Name(), common.Args...)
		return n
	}
	if callee := c.inlineTarget(x); callee != nil {
		return c.child(x, callee).result(0)
	}
	if phi, ts := c.multiTargets(x); ts != nil {
		return c.multiResult(x, phi, ts, 0)
	}
	if f := common.StaticCallee(); f != nil && e7inputPkg(f) {
		return c.u.leaf("IN:"+e7type(x.Type()), "input:"+e7type(x.Type()))
	}
	name := c.u.calleeName(common)
	n := c.mk(x, "call", "call:"+name, name, e7Ordered)
	n.mention = "call:" + name
	if common.IsInvoke() || common.StaticCallee() == nil {
		n.edges = append(n.edges, e7edge{"", c.val(common.Value)})
	}
	for _, a := range common.Args {
		n.edges = append(n.edges, e7edge{"", c.val(a)})
	}
	return n
}

// ---------- facts ----------

// absorbed: the address is inside a local cell of the function (its stores are part of the cell's class).
func e7absorbed(addr ssa.Value) bool {
	for i := 0; i < 10; i++ {
		switch x := addr.(type) {
		case *ssa.Alloc:
			return true
		case *ssa.FieldAddr:
			addr = x.X
		case *ssa.IndexAddr:
			addr = x.X
		default:
			return false
		}
	}
	return false
}

// accessPath renders an address as Type.field[].field for the fact name.
func (c *e7ctx) accessPath(v ssa.Value, depth int) string {
	if depth > 8 {
		return "…"
	}
	switch x := v.(type) {
	case *ssa.FieldAddr:
		o, f := e7fieldName(x.X.Type(), x.Field)
		base := c.accessPath(x.X, depth+1)
		if base == "" || strings.HasPrefix(base, "(") {
			return o + "." + f
		}
		return base + "." + f
	case *ssa.IndexAddr:
		return c.accessPath(x.X, depth+1) + "[]"
	case *ssa.UnOp:
		if x.Op == token.MUL {
			if al, ok := x.X.(*ssa.Alloc); ok {
				if sv := e7singleStore(al); sv != nil {
					return c.accessPath(sv, depth+1)
				}
			}
			return c.accessPath(x.X, depth+1)
		}
	case *ssa.Parameter:
		return ""
	case *ssa.MakeSlice:
		return "(new " + e7type(x.Type()) + ")"
	case *ssa.Call:
		return "(result of " + c.u.calleeName(x.Common()) + ")"
	case *ssa.Phi:
		return "(" + e7type(x.Type()) + ")"
	}
	return "(" + e7type(v.Type()) + ")"
}

func e7printing(name string) bool {
	if !strings.HasPrefix(name, "fmt.") {
		return false
	}
	n := strings.TrimPrefix(name, "fmt.")
	return strings.HasPrefix(n, "Print") || strings.HasPrefix(n, "Fprint")
}

// branchName: the named entities a condition is about (fields, callees), for the category of a branch fact.
func e7branchName(n *e7node) string {
	seen := map[*e7node]bool{}
	names := map[string]bool{}
	var walk func(x *e7node, d int)
	walk = func(x *e7node, d int) {
		if x == nil || seen[x] || d > 5 {
			return
		}
		seen[x] = true
		if x.phiLike {
			return
		}
		if strings.HasPrefix(x.mention, "field:") || strings.HasPrefix(x.mention, "call:") {
			names[strings.TrimPrefix(strings.TrimPrefix(x.mention, "field:"), "call:")] = true
			if strings.HasPrefix(x.mention, "field:") {
				return
			}
		}
		for _, e := range x.edges {
			walk(e.to, d+1)
		}
	}
	walk(n, 0)
	if len(names) == 0 {
		return "local values"
	}
	return joinSorted(names)
}

func (c *e7ctx) collect(side int, out *[]*e7fact) {
	u := c.u
	add := func(ins ssa.Instruction, kind, name string, nodes ...*e7node) {
		f := &e7fact{Side: side, Kind: kind, Name: name, Nodes: nodes, Guards: c.guardsOf(ins.Block()),
			Via: c.via, Pos: u.w.InstrPos(ins), Depth: c.depth, Site: c.site0}
		*out = append(*out, f)
	}
	for _, b := range c.fn.Blocks {
		if b == c.fn.Recover || c.blockDropped(b) {
			continue
		}
		for _, ins := range b.Instrs {
			switch x := ins.(type) {
			case ssa.CallInstruction:
				common := x.Common()
				kind := "call"
				switch ins.(type) {
				case *ssa.Go:
					kind = "go"
				case *ssa.Defer:
					kind = "defer"
				}
				if bi, ok := common.Value.(*ssa.Builtin); ok {
					switch bi.Name() {
					case "copy", "delete", "close", "recover", "clear":
						if bi.Name() == "close" && len(common.Args) == 1 && c.isChanParam(common.Args[0]) {
							continue
						}
						var ns []*e7node
						for _, a := range common.Args {
							ns = append(ns, c.val(a))
						}
						add(ins, kind, "builtin:"+bi.Name(), ns...)
					}
					continue
				}
				if callee := c.inlineTarget(x); callee != nil {
					c.child(x, callee).collect(side, out)
					continue
				}
				if phi, ts := c.multiTargets(x); ts != nil {
					for _, t := range ts {
						c.altChild(x, phi, t).collect(side, out)
					}
					continue
				}
				name := u.calleeName(common)
				if e7printing(name) {
					continue
				}
				var ns []*e7node
				if common.IsInvoke() || common.StaticCallee() == nil {
					ns = append(ns, c.val(common.Value))
				}
				for _, a := range common.Args {
					ns = append(ns, c.val(a))
				}
				add(ins, kind, name, ns...)
			case *ssa.Store:
				if e7absorbed(x.Addr) {
					continue
				}
				add(ins, "store", c.accessPath(x.Addr, 0), c.val(x.Addr), c.val(x.Val))
			case *ssa.MapUpdate:
				add(ins, "mapupdate", c.accessPath(x.Map, 0), c.val(x.Map), c.val(x.Key), c.val(x.Value))
			case *ssa.Send:
				if c.isChanParam(x.Chan) {
					continue
				}
				add(ins, "send", e7type(x.Chan.Type()), c.val(x.Chan), c.val(x.X))
			case *ssa.If:
				if k, _ := c.presentation(x.Cond); k != 0 {
					continue
				}
				n, _ := c.boolOf(x.Cond)
				add(ins, "branch", e7branchName(n), n)
			case *ssa.Panic:
				add(ins, "panic", "", c.val(x.X))
			case *ssa.Return:
				if c.depth != 0 {
					continue
				}
				for i, r := range x.Results {
					if _, ok := r.Type().Underlying().(*types.Basic); ok {
						add(ins, "return", "#"+strconv.Itoa(i), c.val(r))
					}
				}
			}
		}
	}
}

// ---------- adaptive inlining ----------

func (u *e7universe) staticModuleCallee(ci ssa.CallInstruction) (callee *ssa.Function, closure bool) {
	common := ci.Common()
	if common.IsInvoke() {
		return nil, false
	}
	switch v := common.Value.(type) {
	case *ssa.Function:
		callee = v
	case *ssa.MakeClosure:
		callee, _ = v.Fn.(*ssa.Function)
		closure = true
	}
	if callee == nil || callee.Blocks == nil || !u.w.InModule(callee) {
		return nil, false
	}
	return callee, closure
}

func (u *e7universe) calleeSet(root *ssa.Function) map[*ssa.Function]bool {
	set := map[*ssa.Function]bool{}
	var visit func(fn *ssa.Function, depth int, chain []*ssa.Function)
	visit = func(fn *ssa.Function, depth int, chain []*ssa.Function) {
		for _, ci := range callsIn(fn) {
			callee, closure := u.staticModuleCallee(ci)
			if callee == nil {
				continue
			}
			if !closure {
				set[callee] = true
			}
			onChain := callee == fn
			for _, f := range chain {
				if f == callee {
					onChain = true
				}
			}
			if (closure || u.inl[callee]) && depth < u.opts.MaxDepth && !onChain {
				visit(callee, depth+1, append(chain, fn))
			}
		}
	}
	visit(root, 0, nil)
	return set
}

func (u *e7universe) computeInline(a, b *ssa.Function) {
	for _, name := range u.opts.ForceInline {
		found := false
		for _, f := range u.w.Fns {
			if u.w.FuncName(f) == name {
				u.inl[f] = true
				found = true
			}
		}
		if !found {
			u.note("function %s named for expansion does not exist", name)
		}
	}
	// reaches: static module callees of f to the expansion depth
	reaches := func(f *ssa.Function) map[*ssa.Function]bool {
		out := map[*ssa.Function]bool{}
		var visit func(g *ssa.Function, d int)
		visit = func(g *ssa.Function, d int) {
			for _, ci := range callsIn(g) {
				callee, _ := u.staticModuleCallee(ci)
				if callee == nil || out[callee] {
					continue
				}
				out[callee] = true
				if d < u.opts.MaxDepth {
					visit(callee, d+1)
				}
			}
		}
		visit(f, 1)
		return out
	}
	for iter := 0; iter < 40; iter++ {
		ca, cb := u.calleeSet(a), u.calleeSet(b)
		var onlyA, onlyB []*ssa.Function
		for f := range ca {
			if !cb[f] && !u.inl[f] {
				onlyA = append(onlyA, f)
			}
		}
		for f := range cb {
			if !ca[f] && !u.inl[f] {
				onlyB = append(onlyB, f)
			}
		}
		if len(onlyA)+len(onlyB) == 0 {
			return
		}
		// a one-sided callee that leads to callees missing on its own side is a wrapper (extracted helper, or the
		// sibling itself): expanding it may be all that is needed, so it goes first
		wrappers := 0
		mark := func(mine, theirs []*ssa.Function) {
			for _, f := range mine {
				r := reaches(f)
				for _, g := range theirs {
					if r[g] {
						u.inl[f] = true
						wrappers++
						break
					}
				}
			}
		}
		mark(onlyA, onlyB)
		mark(onlyB, onlyA)
		if wrappers > 0 {
			continue
		}
		// genuinely one-sided calls: expanded so that the report shows what they do
		for _, f := range append(onlyA, onlyB...) {
			u.inl[f] = true
		}
	}
}

// ---------- partition refinement ----------

// refine computes the classes of all nodes of the universe jointly, to the fixpoint.
func (u *e7universe) refine() (rounds int, converged bool) {
	nodes := u.nodes
	// round 0: by label
	assign := func(sigs []string) []int {
		uniq := map[string]int{}
		var keys []string
		for _, s := range sigs {
			if _, ok := uniq[s]; !ok {
				uniq[s] = 0
				keys = append(keys, s)
			}
		}
		sort.Strings(keys)
		for i, k := range keys {
			uniq[k] = i
		}
		out := make([]int, len(sigs))
		for i, s := range sigs {
			out[i] = uniq[s]
		}
		return out
	}
	sigs := make([]string, len(nodes))
	for i, n := range nodes {
		sigs[i] = n.label
	}
	cls := assign(sigs)
	canon := func(v []int) string {
		// partition as a relation: rename classes by first occurrence
		ren := map[int]int{}
		var sb strings.Builder
		for _, c := range v {
			r, ok := ren[c]
			if !ok {
				r = len(ren)
				ren[c] = r
			}
			sb.WriteString(strconv.Itoa(r))
			sb.WriteByte(',')
		}
		return sb.String()
	}
	prev := canon(cls)
	for rounds = 1; rounds <= 400; rounds++ {
		normal := func(n *e7node) string {
			parts := make([]string, len(n.edges))
			for i, e := range n.edges {
				parts[i] = e.tag + "|" + strconv.Itoa(cls[e.to.id])
			}
			switch n.mode {
			case e7Multi:
				sort.Strings(parts)
			case e7Set:
				sort.Strings(parts)
				w := 0
				for i, p := range parts {
					if i == 0 || p != parts[i-1] {
						parts[w] = p
						w++
					}
				}
				parts = parts[:w]
			}
			return n.label + "(" + strings.Join(parts, ",") + ")"
		}
		for i, n := range nodes {
			sigs[i] = normal(n)
		}
		cls = assign(sigs)
		cur := canon(cls)
		if cur == prev {
			converged = true
			break
		}
		prev = cur
	}
	for i, n := range nodes {
		n.cls = cls[i]
	}
	return rounds, converged
}

// collapse rewrites every merge (phi, several returns of an expanded callee, degenerate linear form) whose incoming
// values, itself excluded, all fall in one class into that value: phi(x, x) is x. It is done on the graph, between
// two refinements from the coarsest partition, so that the result is again the coarsest stable partition (deciding
// it during a refinement would split nodes early for a reason that disappears later). Returns the number rewritten.
func (u *e7universe) collapse(facts [][]*e7fact) int {
	fwd := map[*e7node]*e7node{}
	resolve := func(n *e7node) *e7node {
		for i := 0; i < 100; i++ {
			m, ok := fwd[n]
			if !ok {
				return n
			}
			n = m
		}
		return n
	}
	count := 0
	for _, n := range u.nodes {
		if !n.phiLike {
			continue
		}
		var rep *e7node
		same := true
		for _, e := range n.edges {
			if len(e.to.edges) == 0 {
				continue
			}
			v := e.to.edges[0].to
			if v == n {
				continue
			}
			if rep == nil {
				rep = v
			} else if v.cls != rep.cls {
				same = false
			} else if v.id < rep.id {
				rep = v
			}
		}
		if !same || rep == nil {
			continue
		}
		if resolve(rep) == n {
			continue
		}
		fwd[n] = rep
		n.phiLike = false
		count++
	}
	if count == 0 {
		return 0
	}
	for _, n := range u.nodes {
		for i := range n.edges {
			n.edges[i].to = resolve(n.edges[i].to)
		}
	}
	for _, fs := range facts {
		for _, f := range fs {
			for i := range f.Nodes {
				f.Nodes[i] = resolve(f.Nodes[i])
			}
			for i := range f.Guards {
				f.Guards[i].cond = resolve(f.Guards[i].cond)
			}
		}
	}
	return count
}

// classes runs refinement and collapse alternately until nothing collapses any more.
func (u *e7universe) classes(facts [][]*e7fact) (rounds int, converged bool) {
	for pass := 0; pass < 20; pass++ {
		n, ok := u.refine()
		rounds += n
		if !ok {
			return rounds, false
		}
		if u.collapse(facts) == 0 {
			return rounds, true
		}
	}
	return rounds, false
}

// ---------- rendering ----------

func (u *e7universe) pretty(n *e7node, depth int) string {
	if n == nil {
		return "?"
	}
	if depth <= 0 {
		return "…"
	}
	p := func(i int) string {
		if i < len(n.edges) {
			return u.pretty(n.edges[i].to, depth-1)
		}
		return "?"
	}
	args := func(from int) string {
		var s []string
		for i := from; i < len(n.edges); i++ {
			if n.edges[i].to.label == "none" {
				continue
			}
			s = append(s, p(i))
		}
		return strings.Join(s, ", ")
	}
	switch n.kind {
	case "leaf":
		return n.text
	case "load":
		return p(0)
	case "fieldaddr", "field":
		return p(0) + "." + n.text
	case "indexaddr", "index":
		return p(0) + "[" + p(1) + "]"
	case "call":
		return n.text + "(" + args(0) + ")"
	case "builtin":
		return n.text + "(" + args(0) + ")"
	case "make":
		if strings.HasPrefix(n.label, "makeslice:") && len(n.edges) == 3 {
			s := "make(" + n.text + ", " + p(0)
			if n.edges[0].to != n.edges[1].to {
				s += ", " + p(1)
			}
			s += ")"
			if len(n.edges[2].to.edges) > 0 {
				s += p(2)
			}
			return s
		}
		return "make(" + n.text + ", " + args(0) + ")"
	case "contents":
		var s []string
		for _, e := range n.edges {
			s = append(s, e.tag+" "+u.pretty(e.to, depth-1))
		}
		sort.Strings(s)
		return "«" + strings.Join(s, "; ") + "»"
	case "conv":
		return n.text + "(" + p(0) + ")"
	case "not":
		if len(n.edges) == 1 && n.edges[0].to.kind == "cmp" {
			c := n.edges[0].to
			a, b := u.pretty(c.edges[0].to, depth-1), u.pretty(c.edges[1].to, depth-1)
			if c.text == "eq" {
				return a + " != " + b
			}
			if c.text == "lt" {
				return a + " >= " + b
			}
		}
		return "!(" + p(0) + ")"
	case "cmp":
		op := map[string]string{"eq": "==", "lt": "<"}[n.text]
		if op == "" {
			op = strings.TrimPrefix(n.text, "fcmp:")
		}
		return p(0) + " " + op + " " + p(1)
	case "lin":
		var sb strings.Builder
		for i, e := range n.edges {
			k, _ := strconv.ParseInt(e.tag, 10, 64)
			switch {
			case k == 1 && i == 0:
			case k == 1:
				sb.WriteString(" + ")
			case k == -1 && i == 0:
				sb.WriteString("-")
			case k == -1:
				sb.WriteString(" - ")
			case i == 0:
				sb.WriteString(e.tag + "*")
			case k < 0:
				sb.WriteString(" - " + strconv.FormatInt(-k, 10) + "*")
			default:
				sb.WriteString(" + " + e.tag + "*")
			}
			sb.WriteString(u.pretty(e.to, depth-1))
		}
		if k, _ := strconv.ParseInt(n.text, 10, 64); k > 0 {
			sb.WriteString(" + " + n.text)
		} else if k < 0 {
			sb.WriteString(" - " + strconv.FormatInt(-k, 10))
		}
		return sb.String()
	case "phi":
		if n.text != "" {
			return "φ" + n.text
		}
		var s []string
		for i := range n.edges {
			s = append(s, u.pretty(n.edges[i].to.edges[0].to, depth-1))
		}
		return "φ{" + strings.Join(s, " | ") + "}"
	case "case":
		g := p(1)
		if g == "" {
			return p(0)
		}
		return p(0) + " when " + g
	case "gate":
		var s []string
		for _, e := range n.edges {
			s = append(s, e.tag+"("+u.pretty(e.to, depth-1)+")")
		}
		sort.Strings(s)
		return strings.Join(s, " ")
	case "alloc":
		var s []string
		for _, e := range n.edges {
			s = append(s, strings.TrimPrefix(e.tag, ".")+": "+u.pretty(e.to, depth-1))
		}
		sort.Strings(s)
		return n.text + "{" + strings.Join(s, ", ") + "}"
	case "binop":
		return "(" + p(0) + " " + n.text + " " + p(1) + ")"
	case "unop":
		return n.text + p(0)
	case "slice":
		return p(0) + "[" + p(1) + ":" + p(2) + "]"
	case "extract":
		return p(0) + "#" + n.text
	case "closure":
		return "func literal"
	}
	return n.text + "(" + args(0) + ")"
}

func (u *e7universe) prettyGuards(gs []e7guard) string {
	var s []string
	seen := map[string]bool{}
	for _, g := range gs {
		t := u.pretty(g.cond, 5)
		if !g.pos {
			t = "not(" + t + ")"
		}
		if !seen[t] {
			seen[t] = true
			s = append(s, t)
		}
	}
	sort.Strings(s)
	return "{" + strings.Join(s, "; ") + "}"
}

func (u *e7universe) prettyFact(f *e7fact) string {
	var s string
	d := 7
	switch f.Kind {
	case "store":
		s = "store " + f.Name + ": " + u.pretty(f.Nodes[0], d) + " = " + u.pretty(f.Nodes[1], d)
	case "branch":
		s = "branch " + u.pretty(f.Nodes[0], d)
	case "return":
		s = "return " + u.pretty(f.Nodes[0], d)
	default:
		var a []string
		for _, n := range f.Nodes {
			a = append(a, u.pretty(n, d))
		}
		s = f.Kind + " " + f.Name + "(" + strings.Join(a, ", ") + ")"
	}
	if len(f.Via) > 0 {
		s += " [via " + strings.Join(f.Via, " > ") + "]"
	}
	return s + " @" + f.Pos
}

// explain walks two nodes of different classes in parallel to the first operator or operand that differs.
func (u *e7universe) explain(a, b *e7node, depth int, seen map[[2]int]bool) string {
	if s, ok := u.explain1(a, b, depth, seen); ok {
		return s
	}
	if a != nil && b != nil && a.cls != b.cls {
		return u.pretty(a, 5) + "  <>  " + u.pretty(b, 5)
	}
	return ""
}

// explain1 returns a description and whether it is definitive (an operator, arity or operand-set mismatch was
// reached); a pair already being compared (phi cycle) yields nothing so that other operands get their turn.
func (u *e7universe) explain1(a, b *e7node, depth int, seen map[[2]int]bool) (string, bool) {
	if a == nil || b == nil || a.cls == b.cls {
		return "", false
	}
	key := [2]int{a.id, b.id}
	if depth > 24 || seen[key] {
		return "", false
	}
	seen[key] = true
	if a.label != b.label || (len(a.edges) != len(b.edges) && a.mode != e7Set) {
		return u.pretty(a, 5) + "  <>  " + u.pretty(b, 5), true
	}
	if a.mode == e7Ordered {
		for i := range a.edges {
			if a.edges[i].to.cls != b.edges[i].to.cls {
				if s, ok := u.explain1(a.edges[i].to, b.edges[i].to, depth+1, seen); ok {
					return s, true
				}
			}
		}
		return "", false
	}
	key2 := func(e e7edge) string { return e.tag + "|" + strconv.Itoa(e.to.cls) }
	inA, inB := map[string]bool{}, map[string]bool{}
	for _, e := range b.edges {
		inB[key2(e)] = true
	}
	for _, e := range a.edges {
		inA[key2(e)] = true
	}
	var oa, ob []e7edge
	for _, e := range a.edges {
		if !inB[key2(e)] {
			oa = append(oa, e)
		}
	}
	for _, e := range b.edges {
		if !inA[key2(e)] {
			ob = append(ob, e)
		}
	}
	for _, ea := range oa {
		for _, eb := range ob {
			if ea.tag == eb.tag && ea.to.label == eb.to.label {
				if s, ok := u.explain1(ea.to, eb.to, depth+1, seen); ok {
					return s, true
				}
			}
		}
	}
	r := func(es []e7edge) string {
		var s []string
		for _, e := range es {
			t := u.pretty(e.to, 5)
			if e.tag != "" {
				t = e.tag + ":" + t
			}
			s = append(s, t)
		}
		return "{" + strings.Join(s, " | ") + "}"
	}
	if len(oa) != len(ob) || len(oa) == 0 {
		return u.pretty(a, 3) + " has " + r(oa) + "  <>  " + r(ob), true
	}
	tagsA, tagsB := map[string]int{}, map[string]int{}
	for _, e := range oa {
		tagsA[e.tag+"/"+e.to.label]++
	}
	for _, e := range ob {
		tagsB[e.tag+"/"+e.to.label]++
	}
	for k, n := range tagsA {
		if tagsB[k] != n {
			return u.pretty(a, 3) + " has " + r(oa) + "  <>  " + r(ob), true
		}
	}
	return "", false
}

// mentions walks the expression of a fact (not its guards) collecting named entities.
func (f *e7fact) mentions(prefix string) map[string]bool {
	out := map[string]bool{}
	seen := map[*e7node]bool{}
	var walk func(n *e7node, d int)
	walk = func(n *e7node, d int) {
		if n == nil || seen[n] || d > 10 {
			return
		}
		seen[n] = true
		if strings.HasPrefix(n.mention, prefix) {
			out[n.mention] = true
		}
		for _, e := range n.edges {
			walk(e.to, d+1)
		}
	}
	for _, n := range f.Nodes {
		walk(n, 0)
	}
	return out
}

func (f *e7fact) viaHas(name string) bool {
	for _, v := range f.Via {
		if v == name {
			return true
		}
	}
	return false
}

// e7isFieldLoad: node is a load of the field (any base).
func e7isFieldLoad(n *e7node, field string) bool {
	return n != nil && n.kind == "load" && len(n.edges) == 1 && n.edges[0].to.kind == "fieldaddr" && n.edges[0].to.mention == "field:"+field
}

// e7isNilTestOf: unsigned condition eq(load field, nil).
func e7isNilTestOf(n *e7node, field string) bool {
	if n == nil || n.label != "cmp:eq" || len(n.edges) != 2 {
		return false
	}
	a, b := n.edges[0].to, n.edges[1].to
	isNil := func(x *e7node) bool { return strings.HasPrefix(x.label, "const:nil:") }
	return isNil(a) && e7isFieldLoad(b, field) || isNil(b) && e7isFieldLoad(a, field)
}

// ---------- comparison ----------

type e7asym struct {
	Name   string
	Reason string
	Match  func(f *e7fact) bool
}

type e7catDiff struct {
	Category string
	NA, NB   int // occurrences compared
	OnlyA    []*e7fact
	OnlyB    []*e7fact
	GuardA   []*e7fact // same bare fact on both sides, control context only on this side
	GuardB   []*e7fact
	Pos      string
}

type e7result struct {
	U          *e7universe
	Names      [2]string
	Facts      [2][]*e7fact
	Cats       map[string]*e7catDiff
	CatOrder   []string
	AsymCount  map[string][2]int
	Rounds     int
	Converged  bool
	Inlined    []string
	RootCtx    [2]*e7ctx
	FactsTotal [2]int
}

func e7Compare(w *World, a, b *ssa.Function, opts e7opts, asym []e7asym) *e7result {
	if opts.MaxDepth == 0 {
		opts.MaxDepth = 3
	}
	u := &e7universe{w: w, opts: opts, leaves: map[string]*e7node{}, inl: map[*ssa.Function]bool{},
		loops: map[*ssa.Function]map[*ssa.BasicBlock]map[*ssa.BasicBlock]bool{}, constNam: map[string]string{}}
	res := &e7result{U: u, Names: [2]string{a.Name(), b.Name()}, Cats: map[string]*e7catDiff{}, AsymCount: map[string][2]int{}}
	u.computeInline(a, b)
	for f := range u.inl {
		res.Inlined = append(res.Inlined, w.FuncName(f))
	}
	sort.Strings(res.Inlined)
	for side, fn := range []*ssa.Function{a, b} {
		ctx := u.rootCtx(fn)
		res.RootCtx[side] = ctx
		ctx.collect(side, &res.Facts[side])
	}
	res.Rounds, res.Converged = u.classes([][]*e7fact{res.Facts[0], res.Facts[1]})
	// keys
	for side := 0; side < 2; side++ {
		res.FactsTotal[side] = len(res.Facts[side])
		for _, f := range res.Facts[side] {
			var cs []string
			for _, n := range f.Nodes {
				cs = append(cs, strconv.Itoa(n.cls))
			}
			f.bare = f.Kind + " " + f.Name + "(" + strings.Join(cs, ",") + ")"
			gs := map[string]bool{}
			for _, g := range f.Guards {
				s := "-"
				if g.pos {
					s = "+"
				}
				gs[s+strconv.Itoa(g.cond.cls)] = true
			}
			f.gkey = joinSorted(gs)
		}
	}
	if os.Getenv("GSVERIF_E7_DUMP") != "" {
		for side := 0; side < 2; side++ {
			for _, f := range res.Facts[side] {
				fmt.Fprintf(os.Stderr, "E7 %s | %s | %s  %s\n", res.Names[side], f.bare, u.prettyFact(f), u.prettyGuards(f.Guards))
			}
		}
		for _, n := range u.nodes {
			if n.phiLike {
				var cs []string
				for _, e := range n.edges {
					if len(e.to.edges) == 2 {
						cs = append(cs, fmt.Sprintf("#%d:%s when #%d[%s]", e.to.edges[0].to.cls, u.pretty(e.to.edges[0].to, 4), e.to.edges[1].to.cls, u.pretty(e.to.edges[1].to, 4)))
					}
				}
				fmt.Fprintf(os.Stderr, "E7 phi n%d #%d %s = %s\n", n.id, n.cls, u.pretty(n, 2), strings.Join(cs, " | "))
			}
		}
		fmt.Fprintf(os.Stderr, "E7 expanded: %v rounds=%d converged=%v nodes=%d\n", res.Inlined, res.Rounds, res.Converged, len(u.nodes))
	}
	// documented asymmetries
	var kept [2][]*e7fact
	for side := 0; side < 2; side++ {
	next:
		for _, f := range res.Facts[side] {
			for _, as := range asym {
				if as.Match(f) {
					c := res.AsymCount[as.Name]
					c[side]++
					res.AsymCount[as.Name] = c
					continue next
				}
			}
			kept[side] = append(kept[side], f)
		}
	}
	cat := func(name string) *e7catDiff {
		cd := res.Cats[name]
		if cd == nil {
			cd = &e7catDiff{Category: name}
			res.Cats[name] = cd
			res.CatOrder = append(res.CatOrder, name)
		}
		return cd
	}
	bare := [2]map[string]bool{{}, {}}
	full := [2]map[string]bool{{}, {}}
	for side := 0; side < 2; side++ {
		for _, f := range kept[side] {
			bare[side][f.bare] = true
			full[side][f.bare+"@"+f.gkey] = true
		}
	}
	for side := 0; side < 2; side++ {
		other := 1 - side
		seen := map[string]bool{}
		for _, f := range kept[side] {
			k := f.bare + "@" + f.gkey
			onlyHere := !bare[other][f.bare]
			guardOnly := !onlyHere && !full[other][k]
			// a difference inside an expansion is reported once, under the callee the root function calls
			name, pos := f.Category(), f.Pos
			if len(f.Via) > 0 && (onlyHere || guardOnly) {
				name, pos = "call "+f.Via[0], f.Site
			}
			cd := cat(name)
			if cd.Pos == "" {
				cd.Pos = pos
			}
			if side == 0 {
				cd.NA++
			} else {
				cd.NB++
			}
			if seen[k] {
				continue
			}
			seen[k] = true
			switch {
			case onlyHere && side == 0:
				cd.OnlyA = append(cd.OnlyA, f)
			case onlyHere:
				cd.OnlyB = append(cd.OnlyB, f)
			case guardOnly && side == 0:
				cd.GuardA = append(cd.GuardA, f)
			case guardOnly:
				cd.GuardB = append(cd.GuardB, f)
			}
		}
	}
	sort.Strings(res.CatOrder)
	return res
}

func (cd *e7catDiff) Equal() bool {
	return len(cd.OnlyA)+len(cd.OnlyB)+len(cd.GuardA)+len(cd.GuardB) == 0
}

// Describe renders the differences of one category in readable form.
func (res *e7result) Describe(cd *e7catDiff) string {
	u := res.U
	var sb strings.Builder
	limit := func(fs []*e7fact) []*e7fact {
		if len(fs) > 3 {
			return fs[:3]
		}
		return fs
	}
	if strings.HasPrefix(cd.Category, "call ") {
		callee := strings.TrimPrefix(cd.Category, "call ")
		for side, fs := range [][]*e7fact{cd.OnlyA, cd.OnlyB} {
			if len(fs) == 0 || len(fs[0].Via) == 0 || fs[0].Via[0] != callee {
				continue
			}
			calledByOther := false
			for _, g := range res.Facts[1-side] {
				if len(g.Via) > 0 && g.Via[0] == callee || (g.Kind == "call" && g.Name == callee && g.Depth == 0) {
					calledByOther = true
				}
			}
			if !calledByOther {
				sb.WriteString(fmt.Sprintf("%s is called by %s only (at %s): %d fact(s) of its expansion have no counterpart in %s; ", callee, res.Names[side], fs[0].Site, len(fs), res.Names[1-side]))
			} else {
				sb.WriteString(fmt.Sprintf("the expansion of %s in %s (called at %s) has %d fact(s) without counterpart; ", callee, res.Names[side], fs[0].Site, len(fs)))
			}
		}
	}
	for _, f := range limit(cd.OnlyA) {
		sb.WriteString("only in " + res.Names[0] + ": " + u.prettyFact(f) + " under " + u.prettyGuards(f.Guards) + "; ")
	}
	if len(cd.OnlyA) > 3 {
		sb.WriteString(fmt.Sprintf("(+%d more in %s) ", len(cd.OnlyA)-3, res.Names[0]))
	}
	for _, f := range limit(cd.OnlyB) {
		sb.WriteString("only in " + res.Names[1] + ": " + u.prettyFact(f) + " under " + u.prettyGuards(f.Guards) + "; ")
	}
	if len(cd.OnlyB) > 3 {
		sb.WriteString(fmt.Sprintf("(+%d more in %s) ", len(cd.OnlyB)-3, res.Names[1]))
	}
	// first structural difference between paired one-sided facts
	if len(cd.OnlyA) > 0 && len(cd.OnlyB) > 0 {
	pair:
		for _, fa := range cd.OnlyA {
			for _, fb := range cd.OnlyB {
				if fa.Kind == fb.Kind && fa.Name == fb.Name && len(fa.Nodes) == len(fb.Nodes) {
					for i := range fa.Nodes {
						if s := u.explain(fa.Nodes[i], fb.Nodes[i], 0, map[[2]int]bool{}); s != "" {
							sb.WriteString("first difference: " + s + "; ")
							break pair
						}
					}
				}
			}
		}
	}
	gdesc := func(side int, fs []*e7fact) {
		for _, f := range limit(fs) {
			// find the contexts of the same fact on the other side
			var others []string
			for _, g := range res.Facts[1-side] {
				if g.bare == f.bare {
					others = append(others, u.prettyGuards(g.Guards))
				}
			}
			sort.Strings(others)
			sb.WriteString("same fact, different control context: " + u.prettyFact(f) + " in " + res.Names[side] + " under " + u.prettyGuards(f.Guards) +
				", in " + res.Names[1-side] + " only under " + strings.Join(e7dedupe(others), " / ") + "; ")
		}
	}
	gdesc(0, cd.GuardA)
	gdesc(1, cd.GuardB)
	return strings.TrimSpace(sb.String())
}

func e7dedupe(s []string) []string {
	var out []string
	for i, x := range s {
		if i == 0 || x != s[i-1] {
			out = append(out, x)
		}
	}
	return out
}

// e7Report turns a comparison into obligations: one per category of facts, plus one per documented asymmetry
// (how many occurrences it excluded) and the engine's own health.
func e7Report(w *World, r *Report, rule, pair string, res *e7result, asym []e7asym, pos string) {
	if len(res.U.notes) > 0 {
		r.Unk(rule, pair+" engine", pos, "unexpected shapes: "+strings.Join(res.U.notes, "; "))
	}
	if !res.Converged {
		r.Unk(rule, pair+" engine", pos, fmt.Sprintf("partition refinement did not reach a fixpoint in %d rounds", res.Rounds))
	}
	if len(res.U.notes) == 0 && res.Converged {
		r.OK(rule, pair+" engine", pos, fmt.Sprintf("%d/%d fact occurrences, %d value nodes, classes stable after %d rounds; expanded in place: %s",
			res.FactsTotal[0], res.FactsTotal[1], len(res.U.nodes), res.Rounds, strings.Join(res.Inlined, ", ")))
	}
	for _, name := range res.CatOrder {
		cd := res.Cats[name]
		if cd.Equal() {
			r.OK(rule, pair+" fact "+name, cd.Pos, fmt.Sprintf("%d/%d occurrences, identical value classes and control contexts", cd.NA, cd.NB))
		} else {
			r.Bad(rule, pair+" fact "+name, cd.Pos, res.Describe(cd))
		}
	}
	for _, as := range asym {
		c := res.AsymCount[as.Name]
		r.OK(rule, pair+" asymmetry "+as.Name, pos, fmt.Sprintf("documented: %s (%d/%d occurrences set aside)", as.Reason, c[0], c[1]))
	}
}
