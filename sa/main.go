// gsverif decides structural clauses of the gophersat properties C01..C20 by static analysis
// of /repo's current working tree (go/packages + go/types + go/ssa). Nothing of gophersat is executed.
package main

import (
	"encoding/json"
	"flag"
	"fmt"
	"os"
	"path/filepath"
	"reflect"
	"runtime/debug"
	"sort"
	"strconv"
	"strings"
	"time"
)

// ruleFn analyses one loaded configuration and adds obligations.
type ruleFn func(w *World, r *Report)

type property struct {
	ID          string
	Explanation string                     // which structural clause is decided
	NotDecided  string                     // what is left to dynamic techniques
	Rules       []ruleFn                   // run on the repository
	Fixtures    []func(fw *World) []string // run on the fixture module; return failures
}

var properties = map[string]*property{}

func register(p *property) { properties[p.ID] = p }

var trustedBase = []string{
	"Go type checker and go/ssa construction (golang.org/x/tools v0.29.0)",
	"CHA / VTA call graphs are sound over-approximations of dynamic dispatch",
	"the module uses no unsafe, reflect, cgo, assembly or go:linkname (checked on every run by E1/R16.3)",
	"standard-library summaries: sort.Sort calls only Len/Less/Swap of its argument; fmt, strings, strconv, io.WriteString do not write through their arguments; copy/append write their first argument",
	"Go memory model: close happens-before a receive that observes it; deferred calls run at every exit; a send on a nil channel blocks for ever; a second close panics",
}

func main() {
	var (
		prop    = flag.String("property", "", "property id (C01..C20)")
		tier    = flag.String("tier", "quick", "quick|thorough")
		repo    = flag.String("repo", "/repo", "repository root")
		verif   = flag.String("verif", "/verif", "verification root (evidence, known findings)")
		replay  = flag.String("replay", "", "re-decide the obligation named in a replay file")
		list    = flag.Bool("list", false, "list every obligation, not only failures")
		variant = flag.String("variant", "", "battery: analyse one seeded variant (internal)")
		battery = flag.Bool("battery", false, "run only the seeded-variant battery of the property and print the matrix")
	)
	all := flag.Bool("all", false, "development aid: load the tree once, run every rule of every property once, print the reports that are not open known findings (no evidence written)")
	flag.Parse()
	if *all {
		os.Exit(runAllRules(*repo, *verif))
	}
	if *replay != "" {
		os.Exit(doReplay(*replay, *repo, *verif))
	}
	if *variant != "" {
		os.Exit(runVariant(*prop, *variant, *repo))
	}
	if *battery {
		b, _ := json.MarshalIndent(runBattery(*prop, *repo), "", " ")
		fmt.Println(string(b))
		os.Exit(0)
	}
	p := properties[*prop]
	if p == nil {
		fmt.Fprintf(os.Stderr, "gsverif: unknown property %q\n", *prop)
		os.Exit(2)
	}
	os.Exit(runProperty(p, *tier, *repo, *verif, *list))
}

type configResult struct {
	Opts   LoadOpts
	Report *Report
	World  *World
	Err    error
}

func analyse(p *property, o LoadOpts) (res configResult) {
	res.Opts = o
	defer func() {
		if e := recover(); e != nil {
			res.Err = fmt.Errorf("analyser panic: %v\n%s", e, debug.Stack())
		}
	}()
	w, err := loadWorld(o)
	if err != nil {
		res.Err = err
		return
	}
	r := newReport()
	for _, f := range p.Rules {
		f(w, r)
	}
	r.finish()
	res.Report, res.World = r, w
	return
}

func runProperty(p *property, tier, repo, verif string, list bool) int {
	start := time.Now()
	seed, _ := strconv.Atoi(os.Getenv("VERIF_SEED"))
	evPath := filepath.Join(verif, "evidence", p.ID+".json")
	os.Remove(evPath)

	fail := func(msg string) int {
		fmt.Printf("CHECKER-ERROR property=%s %s\n", p.ID, msg)
		ev := Evidence{PropertyID: p.ID, Tier: tier, Seed: seed, Level: "other", WallS: time.Since(start).Seconds(),
			Coverage:    map[string]interface{}{"explanation": "checker error, nothing decided: " + msg, "obligations": 0, "discharged": 0},
			Assumptions: trustedBase, Violations: 0}
		writeJSON(evPath, ev)
		return 2
	}

	// fixtures first: the engines must fire on the positive examples and stay silent on the negative ones
	var fixtureLines []string
	if len(p.Fixtures) > 0 {
		fw, err := loadWorld(LoadOpts{Dir: filepath.Join(verif, "sa", "testdata", "fixmod"), Fixture: true})
		if err != nil {
			return fail("fixture module does not load: " + err.Error())
		}
		for _, f := range p.Fixtures {
			if fails := f(fw); len(fails) > 0 {
				return fail("fixture failure: " + strings.Join(fails, "; "))
			}
		}
		fixtureLines = append(fixtureLines, fmt.Sprintf("%d fixture group(s) behaved (positive examples fire, negative stay silent)", len(p.Fixtures)))
	}

	configs := []LoadOpts{{Dir: repo}}
	switch os.Getenv("GSVERIF_DEBUG_CONFIG") { // development aid: run the quick tier on one of the thorough configurations
	case "tests":
		configs = []LoadOpts{{Dir: repo, Tests: true}}
	case "vta":
		configs = []LoadOpts{{Dir: repo, VTA: true}}
	case "386":
		configs = []LoadOpts{{Dir: repo, GOARCH: "386", Tags: "verif"}}
	}
	if tier == "thorough" {
		configs = append(configs,
			LoadOpts{Dir: repo, VTA: true},
			LoadOpts{Dir: repo, GOARCH: "386", Tags: "verif"},
		)
		// A configuration with Tests: true was tried and dropped: go/packages then holds two variants of every package
		// that has tests, packages importing it see the plain variant, and cross-package type identity (which
		// implements solver.Interface, which callee a call resolves to) no longer holds; _test.go code is not
		// library code anyway.
	}
	var results []configResult
	for _, o := range configs {
		res := analyse(p, o)
		if res.Err != nil {
			return fail(fmt.Sprintf("[%s] %v", o, res.Err))
		}
		results = append(results, res)
	}

	known, err := readKnown(filepath.Join(verif, "known_findings.txt"))
	if err != nil {
		return fail(err.Error())
	}
	openKeys := map[string]knownFinding{}
	for _, k := range known {
		if k.Kind == "open" && k.Property == p.ID {
			openKeys[k.Key] = k
		}
	}

	// merge: an obligation is identified by its key; the worst status over the configurations counts.
	type merged struct {
		ob      *Obligation
		configs []string
	}
	all := map[string]*merged{}
	var keys []string
	for _, res := range results {
		for _, ob := range res.Report.Obs {
			m := all[ob.Key()]
			if m == nil {
				cp := *ob
				m = &merged{ob: &cp}
				all[ob.Key()] = m
				keys = append(keys, ob.Key())
			} else if ob.status > m.ob.status {
				cp := *ob
				m.ob = &cp
			}
			if ob.status != Discharged {
				m.configs = append(m.configs, res.Opts.String())
			}
		}
	}
	nViol, nUndec, nKnown, nOK := 0, 0, 0, 0
	var samples []interface{}
	var knownPrinted []string
	replayDir := filepath.Join(verif, "evidence", "replay")
	for _, k := range keys {
		m := all[k]
		ob := m.ob
		switch ob.status {
		case Discharged:
			nOK++
			if list {
				fmt.Printf("ok        %s  %s  [%s] %s\n", ob.Rule, ob.Construct, ob.Pos, ob.Detail)
			}
		case Violated:
			if kf, ok := openKeys[ob.Key()]; ok {
				nKnown++
				line := fmt.Sprintf("KNOWN-FINDING: property=%s %s at %s: %s (%s)", p.ID, ob.Key(), ob.Pos, ob.Detail, kf.Text)
				fmt.Println(line)
				knownPrinted = append(knownPrinted, line)
			} else {
				nViol++
				rp := filepath.Join(replayDir, fmt.Sprintf("%s-%d.json", p.ID, nViol))
				writeJSON(rp, map[string]interface{}{"property": p.ID, "rule": ob.Rule, "construct": ob.Construct, "pos": ob.Pos,
					"detail": ob.Detail, "configs": m.configs, "statement": ruleStatement(results, ob.Rule)})
				fmt.Printf("violated  %s  %s  [%s] %s\n", ob.Rule, ob.Construct, ob.Pos, ob.Detail)
				fmt.Printf("VIOLATION property=%s replay=%s\n", p.ID, rp)
			}
		case Undecided:
			nUndec++
			fmt.Printf("undecided %s  %s  [%s] %s\n", ob.Rule, ob.Construct, ob.Pos, ob.Detail)
		}
		samples = append(samples, map[string]string{"rule": ob.Rule, "construct": ob.Construct, "pos": ob.Pos, "status": ob.Status, "detail": ob.Detail})
	}

	// battery (thorough): validates the checker, never the tree
	var battery interface{}
	if tier == "thorough" {
		battery = runBattery(p.ID, repo)
	}

	w0 := results[0].World
	var ruleInfos []*RuleInfo
	for _, id := range results[0].Report.order {
		ruleInfos = append(ruleInfos, results[0].Report.Rules[id])
	}
	var cfgs []map[string]interface{}
	for _, res := range results {
		cfgs = append(cfgs, map[string]interface{}{"config": res.Opts.String(), "functions": len(res.World.Fns), "callgraph_edges": res.World.Edges, "obligations": len(res.Report.Obs)})
	}
	var pk []string
	for _, pp := range w0.Pkgs {
		pk = append(pk, pp.PkgPath)
	}
	sort.Strings(pk)
	total := len(keys)
	cov := map[string]interface{}{
		"explanation":        "Static analysis of the type-checked source and SSA form of /repo's working tree; decides the structural clause: " + p.Explanation + " NOT decided (left to dynamic techniques): " + p.NotDecided,
		"obligations":        total,
		"discharged":         nOK,
		"known_findings":     nKnown,
		"undecided":          nUndec,
		"checker_cmd":        fmt.Sprintf("/verif/check.sh %s %s", p.ID, tier),
		"trusted_base":       trustedBase,
		"rules":              ruleInfos,
		"samples":            samples,
		"packages":           pk,
		"functions_analysed": len(w0.Fns),
		"configurations":     cfgs,
		"fixtures":           fixtureLines,
		"known_printed":      knownPrinted,
		"exhaustive":         true,
		"exhaustive_note":    "every path of every analysed function and every call site of every anchor is covered; bounds: inlining depth 3 in sibling comparison, distance cap 3 in the storage analysis (both over-approximate)",
	}
	if battery != nil {
		cov["battery"] = battery
	}
	ev := Evidence{PropertyID: p.ID, Tier: tier, Seed: seed, Level: "other", Coverage: cov, Assumptions: trustedBase,
		WallS: time.Since(start).Seconds(), Violations: nViol}
	if err := writeJSON(evPath, ev); err != nil {
		fmt.Printf("CHECKER-ERROR property=%s cannot write evidence: %v\n", p.ID, err)
		return 2
	}
	fmt.Printf("property=%s tier=%s obligations=%d discharged=%d known=%d violated=%d undecided=%d functions=%d wall=%.1fs\n",
		p.ID, tier, total, nOK, nKnown, nViol, nUndec, len(w0.Fns), time.Since(start).Seconds())
	if nViol > 0 {
		return 1
	}
	if nUndec > 0 {
		// an undecided obligation is a failure of the check, reported as a violation of the rule that could not be
		// evaluated: the anchor it needs has been removed or changed beyond recognition.
		rp := filepath.Join(replayDir, fmt.Sprintf("%s-undecided.json", p.ID))
		writeJSON(rp, map[string]interface{}{"property": p.ID, "undecided": nUndec, "samples": samples})
		fmt.Printf("VIOLATION property=%s replay=%s\n", p.ID, rp)
		return 1
	}
	return 0
}

func ruleStatement(results []configResult, id string) string {
	for _, res := range results {
		if ri := res.Report.Rules[id]; ri != nil {
			return ri.Statement
		}
	}
	return ""
}

func doReplay(path, repo, verif string) int {
	b, err := os.ReadFile(path)
	if err != nil {
		fmt.Fprintln(os.Stderr, err)
		return 2
	}
	s := string(b)
	i := strings.Index(s, `"property": "`)
	if i < 0 {
		fmt.Fprintln(os.Stderr, "replay file has no property")
		return 2
	}
	id := s[i+13 : i+16]
	p := properties[id]
	if p == nil {
		fmt.Fprintln(os.Stderr, "unknown property in replay file: "+id)
		return 2
	}
	return runProperty(p, "quick", repo, verif, true)
}

// runAllRules is the development aid behind -all (used by tools/refactor_all.sh): one load, every rule once.
func runAllRules(repo, verif string) (code int) {
	defer func() {
		if e := recover(); e != nil {
			fmt.Printf("CHECKER-ERROR analyser panic: %v\n%s\n", e, debug.Stack())
			code = 2
		}
	}()
	w, err := loadWorld(LoadOpts{Dir: repo})
	if err != nil {
		fmt.Printf("CHECKER-ERROR %v\n", err)
		return 2
	}
	var ids []string
	for id := range properties {
		ids = append(ids, id)
	}
	sort.Strings(ids)
	r := newReport()
	seen := map[uintptr]bool{}
	propsOfFn := map[uintptr][]string{}
	for _, id := range ids {
		for _, f := range properties[id].Rules {
			ptr := reflect.ValueOf(f).Pointer()
			propsOfFn[ptr] = append(propsOfFn[ptr], id)
		}
	}
	propsOfRule := map[string][]string{}
	for _, id := range ids {
		for _, f := range properties[id].Rules {
			ptr := reflect.ValueOf(f).Pointer()
			if seen[ptr] {
				continue
			}
			seen[ptr] = true
			before := len(r.order)
			f(w, r)
			for _, rid := range r.order[before:] {
				propsOfRule[rid] = propsOfFn[ptr]
			}
		}
	}
	r.finish()
	known, _ := readKnown(filepath.Join(verif, "known_findings.txt"))
	open := map[string]bool{}
	for _, k := range known {
		if k.Kind == "open" {
			open[k.Key] = true
		}
	}
	n := 0
	for _, ob := range r.Obs {
		if ob.status == Discharged || (ob.status == Violated && open[ob.Key()]) {
			continue
		}
		n++
		st := "violated "
		if ob.status == Undecided {
			st = "undecided"
		}
		fmt.Printf("%s %s  %s  [%s] props=%s %s\n", st, ob.Rule, ob.Construct, ob.Pos, strings.Join(propsOfRule[ob.Rule], ","), ob.Detail)
	}
	fmt.Printf("all-rules obligations=%d reports=%d rules=%d\n", len(r.Obs), n, len(seen))
	if n > 0 {
		return 1
	}
	return 0
}
